package main

import (
	"context"
	"fmt"
	"math/big"
	"math/rand"
	"time"

	"github.com/ethereum/go-ethereum/accounts/abi/bind"
	"github.com/ethereum/go-ethereum/accounts/abi/bind/backends"
	"github.com/ethereum/go-ethereum/common"
	"github.com/ethereum/go-ethereum/core"
	"github.com/vipnode/vipnode-contract/go/vipnodepool"
	"github.com/vipnode/vipnode/v2/pool/balance"
	"github.com/vipnode/vipnode/v2/pool/payment"
	"github.com/vipnode/vipnode/v2/pool/store"
	"github.com/vipnode/vipnode/v2/request"
)

// C07 against the production wiring (pool.go): the balance store is payment.ContractPayment over
// the real VipnodePool contract, deployed on go-ethereum's simulated chain, and settlement is its
// OpSettle. The statements are checked directly on the chain and the ledger (model-free): a
// withdrawal that succeeds puts exactly on-chain deposit + credit - fee into the wallet, leaves
// deposit 0 on the contract and credit 0 on the ledger; one that is refused moves nothing.

type c07cDesc struct {
	Driver     string   `json:"driver"`
	Deposit    string   `json:"deposit"`
	Credit     string   `json:"credit"`
	Fee        string   `json:"fee"`
	Min        string   `json:"withdraw_min,omitempty"`
	Timelocked bool     `json:"deposit_timelocked"`
	Repeat     bool     `json:"repeated"`
	Results    []string `json:"results"`
}

func c07Contract(ctx *Ctx, i int, drv int, rng *rand.Rand) {
	bg := context.Background()
	st := newStore(drv)
	defer st.Destroy()
	opAuth := bind.NewKeyedTransactor(keyFor("operator"))
	wAuth := bind.NewKeyedTransactor(keyFor("w1"))
	cAuth := bind.NewKeyedTransactor(keyFor("w2"))
	rich, _ := new(big.Int).SetString("1000000000000000000000", 10)
	alloc := core.GenesisAlloc{opAuth.From: {Balance: rich}, wAuth.From: {Balance: rich}, cAuth.From: {Balance: rich}}
	sim := backends.NewSimulatedBackend(alloc, 8000000)
	defer sim.Close()
	addr, _, contract, err := vipnodepool.DeployVipnodePool(opAuth, sim, opAuth.From)
	if err != nil {
		fatal("deploy: %v", err)
	}
	sim.Commit()
	amounts := []int64{0, 1, 4000, 10000, 1000000}
	deposit := big.NewInt(amounts[rng.Intn(len(amounts))])
	credit := big.NewInt(amounts[1+rng.Intn(len(amounts)-1)])
	d := c07cDesc{Driver: driverNames[drv], Deposit: deposit.String(), Credit: credit.String(), Fee: "0"}
	// a client's deposit is what the contract pays the earned credit from
	tx := func(a *bind.TransactOpts, value *big.Int) *bind.TransactOpts {
		return &bind.TransactOpts{From: a.From, Signer: a.Signer, Value: value, GasPrice: big.NewInt(1), GasLimit: 300000}
	}
	if _, err := contract.AddBalance(tx(cAuth, big.NewInt(5000000))); err != nil {
		fatal("client deposit: %v", err)
	}
	if deposit.Sign() > 0 {
		if _, err := contract.AddBalance(tx(wAuth, deposit)); err != nil {
			fatal("deposit: %v", err)
		}
	}
	sim.Commit()
	d.Timelocked = deposit.Sign() > 0 && rng.Intn(3) == 0
	if d.Timelocked { // the wallet asked on-chain for a forced settlement: its deposit is locked
		if _, err := contract.ForceSettle(tx(wAuth, nil)); err != nil {
			fatal("forceSettle: %v", err)
		}
		sim.Commit()
	}
	// the pool starts now (its deposit cache is empty)
	cp, err := payment.ContractPayment(st.Store, addr, sim, &bind.TransactOpts{From: opAuth.From, Signer: opAuth.Signer, GasPrice: big.NewInt(1), GasLimit: 300000})
	if err != nil {
		fatal("ContractPayment: %v", err)
	}
	pay := &payment.PaymentService{NonceStore: st.Store, AccountStore: st.Store, BalanceStore: cp, Settle: cp.OpSettle}
	fee := new(big.Int)
	switch rng.Intn(3) {
	case 0:
		fee.SetInt64(2500)
		pay.WithdrawFee = func(a *big.Int) *big.Int { return a.Sub(a, fee) }
	case 1:
		fee.SetInt64(10)
		pay.WithdrawFee = func(a *big.Int) *big.Int { return new(big.Int).Sub(a, fee) }
	}
	d.Fee = fee.String()
	if rng.Intn(2) == 0 {
		pay.WithdrawMin = big.NewInt(5000)
		d.Min = "5000"
	}
	wallet := walletOf("w1")
	acct := store.Account(wallet)
	if err := st.AddAccountBalance(acct, credit); err != nil {
		fatal("%v", err)
	}
	wAddr := common.HexToAddress(wallet)
	var mon []string
	// the pool is configured with a minimum balance, and a light client of the wallet registers
	// and checks in before the wallet withdraws: the minimum is looked at (it refuses nobody here),
	// the balances are only read
	if rng.Intn(2) == 0 && !d.Timelocked {
		mgr := balance.PayPerInterval(cp, time.Hour, big.NewInt(1))
		mgr.MinBalance = big.NewInt(-1000000000)
		cid := store.NodeID(nodeIDOf("c1"))
		node := store.Node{ID: cid, Kind: "geth", LastSeen: time.Now()}
		st.SetNode(node)
		if err := st.AddAccountNode(acct, cid); err != nil {
			fatal("%v", err)
		}
		for k := 0; k < 2+rng.Intn(3); k++ {
			if err := mgr.OnClient(node); err != nil {
				fatal("OnClient: %v", err)
			}
			if _, err := mgr.OnUpdate(node, nil); err != nil {
				fatal("OnUpdate: %v", err)
			}
		}
		d.Results = append(d.Results, "a light client of the wallet registered and checked in under a configured minimum balance first")
	}
	d.Repeat = rng.Intn(2) == 0
	rounds := 1
	if d.Repeat {
		rounds = 2
	}
	// the repeat is immediate: the first settlement transaction is still pending (not mined)
	etherBefore, _ := sim.BalanceAt(bg, wAddr, nil)
	onBefore, err := contract.Accounts(nil, wAddr)
	if err != nil {
		fatal("accounts: %v", err)
	}
	ledBefore, _ := st.GetAccountBalance(acct)
	creditBefore := new(big.Int).Set(&ledBefore.Credit)
	owed := new(big.Int).Add(onBefore.Balance, creditBefore)
	var werrs []error
	for r := 0; r < rounds; r++ {
		nonce := time.Now().UnixNano() + int64(r)
		sig, err := request.Sign(keyFor("w1"), "pool_withdraw", wallet, nonce)
		if err != nil {
			fatal("%v", err)
		}
		werrs = append(werrs, pay.Withdraw(bg, sig, wallet, nonce))
	}
	sim.Commit()
	etherAfter, _ := sim.BalanceAt(bg, wAddr, nil)
	onAfter, _ := contract.Accounts(nil, wAddr)
	ledAfter, _ := st.GetAccountBalance(acct)
	received := new(big.Int).Sub(etherAfter, etherBefore)
	locked := onBefore.TimeLocked.Sign() != 0
	d.Results = append(d.Results, fmt.Sprintf("withdrawals: errs=%v received=%s on-chain %s->%s (locked %v) credit %s->%s", werrs, received, onBefore.Balance, onAfter.Balance, locked, creditBefore, &ledAfter.Credit))
	want := new(big.Int).Sub(owed, fee)
	switch {
	case want.Sign() < 0:
		// a fee above the whole balance (only possible without a minimum): there is no amount
		// to pay; what the settlement transaction does with a negative amount is the contract's
		// business, outside the stated property
		ctx.Count("contract:fee-above-balance")
	case werrs[0] == nil:
		if received.Cmp(want) != 0 {
			mon = append(mon, fmt.Sprintf("c07-contract-paid: %d withdrawal(s) (results %v) put %s into the wallet; it had deposit %s (timelocked: %v) + credit %s, fee %s: %s is owed, once", rounds, werrs, received, onBefore.Balance, locked, creditBefore, fee, want))
		}
		if onAfter.Balance.Sign() != 0 || ledAfter.Credit.Sign() != 0 {
			mon = append(mon, fmt.Sprintf("c07-contract-left: after a successful withdrawal the deposit is %s and the credit %s (both must be 0)", onAfter.Balance, &ledAfter.Credit))
		}
		if pay.WithdrawMin != nil && owed.Cmp(pay.WithdrawMin) < 0 {
			mon = append(mon, fmt.Sprintf("c07-contract-below-minimum: paid although deposit + credit = %s is below the minimum %s", owed, pay.WithdrawMin))
		}
	default:
		if received.Sign() != 0 || onAfter.Balance.Cmp(onBefore.Balance) != 0 || ledAfter.Credit.Cmp(creditBefore) != 0 || onAfter.TimeLocked.Cmp(onBefore.TimeLocked) != 0 {
			mon = append(mon, fmt.Sprintf("c07-contract-refused-moved: refused withdrawal (%v) moved something: received %s, deposit %s->%s, credit %s->%s", werrs, received, onBefore.Balance, onAfter.Balance, creditBefore, &ledAfter.Credit))
		}
		meets := pay.WithdrawMin == nil || owed.Cmp(pay.WithdrawMin) >= 0
		if meets && !locked && owed.Sign() > 0 {
			mon = append(mon, fmt.Sprintf("c07-contract-refused: withdrawal refused (%v) although deposit %s + credit %s meets the minimum and settlement is possible", werrs[0], onBefore.Balance, creditBefore))
		}
	}
	ctx.Count(fmt.Sprintf("contract:timelocked=%v", d.Timelocked))
	// the same history for the deposit-cache model (Deposit.v): deposit, forced-settlement
	// request, [the pool starts: empty cache], earnings, the withdrawals back to back, then the
	// settlements are mined
	coq := ""
	if want.Sign() >= 0 {
		var ops []string
		if deposit.Sign() > 0 {
			ops = append(ops, "DDeposit "+cBig(deposit))
		}
		if d.Timelocked {
			ops = append(ops, "DForce")
		}
		ops = append(ops, "DRestart", "DEarn "+cBig(credit)) // the pool process starts after the deposit: its cache is empty
		for r := 0; r < rounds; r++ {
			ops = append(ops, "DWithdraw")
		}
		for r := 0; r < rounds; r++ {
			ops = append(ops, "DMine")
		}
		min := "None"
		if pay.WithdrawMin != nil {
			min = "(Some " + cBig(pay.WithdrawMin) + ")"
		}
		coq = fmt.Sprintf("C7Contract {| cc_cfg := {| dc_fee := %s; dc_min := %s; dc_refresh_on_settle := true; dc_when_full := FPStore |}; cc_ops := %s; cc_received := %s; cc_left_chain := %s; cc_left_credit := %s |}",
			cBig(fee), min, cList(ops), cBig(received), cBig(onAfter.Balance), cBig(&ledAfter.Credit))
	}
	ctx.Emit(Case{I: i, Kind: "contract-" + driverNames[drv], Coq: coq, Desc: d, Monitor: mon})
}
