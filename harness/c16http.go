package main

import (
	"bytes"
	"encoding/json"
	"fmt"
	"io/ioutil"
	"math/rand"
	"net/http"
	"net/http/httptest"
	"strings"
	"sync/atomic"

	"github.com/vipnode/vipnode/v2/jsonrpc2"
)

// c16HTTPBodies: the HTTP endpoint reads request bodies of its own; whatever shapes of body it
// accepts (one object, or several calls in one body), each call in it is a call like any other:
// it is answered exactly as the same call sent on its own is answered, and a method runs only
// for a call that sent on its own would run it. A body the endpoint refuses runs nothing.
func c16HTTPBodies(ctx *Ctx, i int, rng *rand.Rand) {
	recv := &ProbeService{}
	hs := &jsonrpc2.HTTPServer{}
	if err := hs.Server.Register("probe_", recv); err != nil {
		fatal("register: %v", err)
	}
	ts := httptest.NewServer(hs)
	defer ts.Close()
	post := func(body string) (int, string, int64) {
		before := atomic.LoadInt64(&recv.ran)
		resp, err := http.Post(ts.URL, "application/json", bytes.NewReader([]byte(body)))
		if err != nil {
			return 0, err.Error(), atomic.LoadInt64(&recv.ran) - before
		}
		defer resp.Body.Close()
		b, _ := ioutil.ReadAll(resp.Body)
		return resp.StatusCode, string(b), atomic.LoadInt64(&recv.ran) - before
	}
	type answer struct {
		Error *struct {
			Code int `json:"code"`
		} `json:"error"`
		Result json.RawMessage `json:"result"`
	}
	classify := func(a answer) string {
		if a.Error != nil {
			return fmt.Sprintf("error %d", a.Error.Code)
		}
		return "result " + string(a.Result)
	}
	// the elements: complete calls, and calls with pieces left out or mistyped
	elems := []string{
		`{"jsonrpc":"2.0","id":%d,"method":"probe_oneString","params":["a"]}`,
		`{"jsonrpc":"2.0","id":%d,"method":"probe_oneString"}`,
		`{"jsonrpc":"2.0","id":%d,"method":"probe_oneString","params":[]}`,
		`{"jsonrpc":"2.0","id":%d,"method":"probe_oneString","params":[7]}`,
		`{"jsonrpc":"2.0","id":%d,"method":"probe_oneString","params":["a","b"]}`,
		`{"jsonrpc":"2.0","id":%d}`,
		`{"jsonrpc":"2.0","id":%d,"params":["a"]}`,
		`{"jsonrpc":"2.0","id":%d,"method":"probe_plain"}`,
		`{"jsonrpc":"2.0","id":%d,"method":"probe_plain","params":["a"]}`,
		`{"jsonrpc":"2.0","id":%d,"method":"probe_numbers","params":[1,2,true,0.5]}`,
		`{"jsonrpc":"2.0","id":%d,"method":"probe_numbers","params":[1,2]}`,
		`{"jsonrpc":"2.0","id":%d,"method":"probe_numbers"}`,
		`{"jsonrpc":"2.0","id":%d,"method":"probe_nothere","params":["a"]}`,
		`{"jsonrpc":"2.0","id":%d,"method":"probe_anything","params":[{"k":1}]}`,
		`{"jsonrpc":"2.0","id":%d,"method":"probe_anything"}`,
		`{"jsonrpc":"2.0","id":%d,"method":"probe_containers","params":[["x"],{"y":2}]}`,
		`{"jsonrpc":"2.0","id":%d,"method":"probe_containers","params":[["x"]]}`,
	}
	alone := map[int]string{}
	aloneRan := map[int]int64{}
	for k, e := range elems {
		_, body, ran := post(fmt.Sprintf(e, 1))
		var a answer
		if json.Unmarshal([]byte(body), &a) != nil {
			alone[k] = "refused"
		} else {
			alone[k] = classify(a)
		}
		aloneRan[k] = ran
	}
	var mon []string
	shapes := map[string]int{}
	nb := 40
	for b := 0; b < nb && len(mon) < 4; b++ {
		n := 2 + rng.Intn(3)
		var idx []int
		var parts []string
		// a complete call first, more often than not: what follows it must not borrow from it
		if rng.Intn(3) != 0 {
			idx = append(idx, []int{0, 9, 13, 15}[rng.Intn(4)])
		}
		for len(idx) < n {
			idx = append(idx, rng.Intn(len(elems)))
		}
		for k, e := range idx {
			parts = append(parts, fmt.Sprintf(elems[e], k+1))
		}
		sep, open, close := ",", "[", "]"
		shape := "array"
		switch rng.Intn(6) {
		case 0:
			sep, open, close, shape = "\n", "", "", "objects one after the other"
		case 1:
			open, shape = " \n\t[", "array after white space"
		}
		body := open + strings.Join(parts, sep) + close
		status, text, ran := post(body)
		var wantRan int64
		for _, e := range idx {
			wantRan += aloneRan[e]
		}
		var arr []answer
		if err := json.Unmarshal([]byte(strings.TrimSpace(text)), &arr); err != nil || len(arr) == 0 {
			// not answered call by call: the endpoint took the body as one request (or refused it)
			shapes[shape+": one answer"]++
			var a answer
			if shape == "objects one after the other" && json.Unmarshal([]byte(text), &a) == nil {
				// the first object was served, the rest ignored
				if got := classify(a); got != alone[idx[0]] || ran != aloneRan[idx[0]] {
					mon = append(mon, fmt.Sprintf("c16-http-body: the body %s got the single answer %q and ran %d method bodies; its first call sent alone gets %q and runs %d", body, got, ran, alone[idx[0]], aloneRan[idx[0]]))
				}
			} else if ran != 0 {
				mon = append(mon, fmt.Sprintf("c16-http-body: the body %s was refused (HTTP %d: %s) and yet %d method bodies ran", body, status, strings.TrimSpace(text), ran))
			}
			continue
		}
		shapes[shape+": answered call by call"]++
		if len(arr) != len(idx) {
			mon = append(mon, fmt.Sprintf("c16-http-body: the body %s holds %d calls and got %d answers: %s", body, len(idx), len(arr), strings.TrimSpace(text)))
			continue
		}
		for k, e := range idx {
			if got := classify(arr[k]); got != alone[e] {
				mon = append(mon, fmt.Sprintf("c16-http-body: call %d of the body %s was answered with %q; the same call sent on its own is answered with %q", k+1, body, got, alone[e]))
				break
			}
		}
		if ran != wantRan {
			mon = append(mon, fmt.Sprintf("c16-http-body: the body %s ran %d method bodies; its calls sent one by one run %d", body, ran, wantRan))
		}
	}
	ctx.Emit(Case{I: i, Kind: "http-bodies", Desc: map[string]interface{}{"bodies": nb, "shapes": shapes, "alone": alone}, Monitor: mon})
}
