package main

import (
	"context"
	"errors"
	"fmt"
	"math/rand"
	"net"
	"net/url"
	"strings"
	"sync"
	"time"

	"github.com/ethereum/go-ethereum/accounts/abi/bind"
	"github.com/ethereum/go-ethereum/rpc"
	"github.com/vipnode/vipnode/v2/agent"
	"github.com/vipnode/vipnode/v2/ethnode"
	"github.com/vipnode/vipnode/v2/jsonrpc2"
	"github.com/vipnode/vipnode/v2/pool"
	"github.com/vipnode/vipnode/v2/pool/store"
)

func init() { commands["c18"] = runC18 }

// recNode is a recording fake Ethereum node.
type recNode struct {
	mu        sync.Mutex
	kind      ethnode.NodeKind
	full      bool
	peers     []ethnode.PeerInfo
	peersErr  bool
	dropErr   bool // RemoveTrustedPeer / DisconnectPeer fail (recorded, not fatal)
	connFail  int  // ConnectPeer fails at this call index (-1 never)
	connCalls int
	calls     []string
}

func (n *recNode) rec(s string) { n.mu.Lock(); n.calls = append(n.calls, s); n.mu.Unlock() }
func (n *recNode) take() []string {
	n.mu.Lock()
	defer n.mu.Unlock()
	c := n.calls
	n.calls = nil
	return c
}
func (n *recNode) NodeRPC() *rpc.Client                  { return nil }
func (n *recNode) ContractBackend() bind.ContractBackend { return nil }
func (n *recNode) Kind() ethnode.NodeKind                { return n.kind }
func (n *recNode) UserAgent() ethnode.UserAgent {
	return ethnode.UserAgent{Kind: n.kind, IsFullNode: n.full, Version: "fake"}
}
func (n *recNode) Enode(ctx context.Context) (string, error) {
	return "enode://self@127.0.0.1:30303", nil
}
func (n *recNode) AddTrustedPeer(ctx context.Context, id string) error {
	n.rec("trust " + id)
	return nil
}
func (n *recNode) RemoveTrustedPeer(ctx context.Context, id string) error {
	n.rec("untrust " + id)
	if n.dropErr {
		return errors.New("node refuses")
	}
	return nil
}
func (n *recNode) ConnectPeer(ctx context.Context, uri string) error {
	n.rec("connect " + uri)
	n.mu.Lock()
	k := n.connCalls
	n.connCalls++
	n.mu.Unlock()
	if n.connFail >= 0 && k == n.connFail {
		return errors.New("dial failed")
	}
	return nil
}
func (n *recNode) DisconnectPeer(ctx context.Context, id string) error {
	n.rec("disconnect " + id)
	if n.dropErr {
		return errors.New("node refuses")
	}
	return nil
}
func (n *recNode) Peers(ctx context.Context) ([]ethnode.PeerInfo, error) {
	if n.peersErr {
		return nil, errors.New("rpc down")
	}
	return n.peers, nil
}
func (n *recNode) BlockNumber(ctx context.Context) (uint64, error) { return 42, nil }

// scriptPool is a scripted pool.Pool.
type scriptPool struct {
	mu        sync.Mutex
	updateErr bool
	active    []string
	invalid   []string
	peerMode  string // "ok", "nopeers", "fail"
	peerURIs  []string
	calls     []string
}

func (p *scriptPool) rec(s string) { p.mu.Lock(); p.calls = append(p.calls, s); p.mu.Unlock() }
func (p *scriptPool) take() []string {
	p.mu.Lock()
	defer p.mu.Unlock()
	c := p.calls
	p.calls = nil
	return c
}
func (p *scriptPool) Host(ctx context.Context, r pool.HostRequest) (*pool.HostResponse, error) {
	return &pool.HostResponse{}, nil
}
func (p *scriptPool) Client(ctx context.Context, r pool.ClientRequest) (*pool.ClientResponse, error) {
	return &pool.ClientResponse{}, nil
}
func (p *scriptPool) Connect(ctx context.Context, r pool.ConnectRequest) (*pool.ConnectResponse, error) {
	return &pool.ConnectResponse{PoolVersion: "fake"}, nil
}
func (p *scriptPool) Update(ctx context.Context, r pool.UpdateRequest) (*pool.UpdateResponse, error) {
	p.rec("update")
	if p.updateErr {
		return nil, errors.New("pool unavailable")
	}
	return &pool.UpdateResponse{ActivePeers: append([]string{}, p.active...), InvalidPeers: append([]string{}, p.invalid...), Balance: &store.Balance{}}, nil
}
func (p *scriptPool) Peer(ctx context.Context, r pool.PeerRequest) (*pool.PeerResponse, error) {
	p.rec(fmt.Sprintf("peer %d %s", r.Num, r.Kind))
	switch p.peerMode {
	case "nopeers":
		return nil, &jsonrpc2.ErrResponse{Code: jsonrpc2.ErrCodeInternal, Message: "no available host nodes found after trying 0 nodes"}
	case "fail":
		return nil, errors.New("transport broken")
	}
	resp := &pool.PeerResponse{}
	for _, u := range p.peerURIs {
		resp.Peers = append(resp.Peers, store.Node{URI: u})
	}
	return resp, nil
}
func (p *scriptPool) Withdraw(ctx context.Context) error { return nil }

var c18IDs = []string{
	strings.Repeat("a1", 64), strings.Repeat("b2", 64), strings.Repeat("c3", 64), strings.Repeat("d4", 64),
	strings.Repeat("e5", 64), "shortid", strings.Repeat("f6", 64),
}
var c18Addrs = []string{"1.2.3.4:30303", "1.2.3.4:9999", "5.6.7.8:30303", "[::1]:30303", "127.0.0.1:30303", "", "0.0.0.0:1",
	"localhost:30303", "example.com:30303", "[2001:db8::1]:30303", "[2001:db8::1]:1"}

// what a pool may write after the "@" of an active peer: the above, and hosts without a port
var c18PoolAddrs = append(append([]string{}, c18Addrs...), "[2001:db8::1]", "1.2.3.4", "[::1]", "[::]", "example.com", "[2001:db8::1]:30303", "[2001:db8::1]")

func genLocalPeer(rng *rand.Rand) ethnode.PeerInfo {
	id := c18IDs[rng.Intn(len(c18IDs))]
	p := ethnode.PeerInfo{ID: id}
	p.Network.RemoteAddress = c18Addrs[rng.Intn(len(c18Addrs))]
	switch rng.Intn(4) {
	case 0: // parity style: no enode, id is the pubkey
	case 1: // geth style: id is a hash, the enode carries the pubkey
		p.ID = "hash" + id[:6]
		p.Enode = "enode://" + id + "@" + p.Network.RemoteAddress
		if rng.Intn(2) == 0 {
			// what the peer advertises for itself need not be where it is connected from
			p.Enode = "enode://" + id + "@" + []string{"[::]:30303", "9.9.9.9:30303", "0.0.0.0:30303", "5.6.7.8:1"}[rng.Intn(4)]
		}
	case 2: // short enode (falls back to the id)
		p.Enode = "enode://x@y"
	default:
		if rng.Intn(12) == 0 {
			p.Network.RemoteAddress = "bad host:zz" // unparsable
		}
	}
	return p
}

func genPoolRef(rng *rand.Rand) string {
	id := c18IDs[rng.Intn(len(c18IDs))]
	switch rng.Intn(5) {
	case 0:
		return id
	case 1:
		return "enode://" + id
	case 2:
		if rng.Intn(6) == 0 {
			return "enode://" + id + "@bad host:1"
		}
		return "enode://" + id + "@" + c18PoolAddrs[rng.Intn(len(c18PoolAddrs))] + "?discport=0"
	default:
		return "enode://" + id + "@" + c18PoolAddrs[rng.Intn(len(c18PoolAddrs))]
	}
}

// prefOf classifies a peer reference: parsable or not, the node id, and the host when it names a
// remote one. It is the harness's own reading of an enode reference (net/url only), not the
// code under test's: ethnode.ParseNodeURI / RemoteHost are what the agent uses, and a change
// there must show up as a disagreement with the model, not move the oracle along with it.
func prefOf(t *interner, ref string) string {
	ok, id, h := readRef(ref)
	if !ok {
		return fmt.Sprintf("{| pf_ok := false; pf_id := %s; pf_host := 0%%N |}", cN(t.id("raw:"+ref)))
	}
	hn := 0
	if h != "" {
		hn = t.id("host:" + h)
	}
	return fmt.Sprintf("{| pf_ok := true; pf_id := %s; pf_host := %s |}", cN(t.id("raw:"+id)), cN(hn))
}

// localRef: the reference of a local peer as the property means it: the node's public key (from
// its enode record when that carries one, else its id) at the address it is CONNECTED FROM (the
// harness's own reading, not PeerInfo.EnodeURI, which is code under test)
func localRef(p ethnode.PeerInfo) string {
	id := p.ID
	if len(p.Enode) > 8+128 {
		id = p.Enode[8 : 8+128]
	}
	return "enode://" + id + "@" + p.Network.RemoteAddress
}

// readRef: is the reference a parsable enode reference, which node id does it name, and which
// remote host (none for a bare id, localhost, loopback and unspecified addresses)
func readRef(ref string) (ok bool, id, host string) {
	s := ref
	if !strings.HasPrefix(s, "enode://") && !strings.Contains(s, "://") {
		s = "enode://" + s
	}
	u, err := url.Parse(s)
	if err != nil || u.Scheme != "enode" {
		return false, "", ""
	}
	if u.User == nil {
		return true, u.Host, ""
	}
	h := u.Hostname() // brackets and port removed
	if ip := net.ParseIP(h); h == "localhost" || (ip != nil && (ip.IsUnspecified() || ip.IsLoopback())) {
		h = ""
	}
	return true, u.User.Username(), h
}

type c18Round struct {
	Locals   []ethnode.PeerInfo `json:"local_peers"`
	Active   []string           `json:"active_peers,omitempty"`
	Invalid  []string           `json:"invalid_peers,omitempty"`
	UpdErr   bool               `json:"update_fails,omitempty"`
	NodeErr  bool               `json:"node_fails,omitempty"`
	DropErr  bool               `json:"drop_calls_fail,omitempty"`
	PeerMode string             `json:"peer_reply,omitempty"`
	PeerURIs []string           `json:"peer_uris,omitempty"`
	ConnFail int                `json:"connect_fails_at"`
	Calls    []string           `json:"calls"`
	Result   string             `json:"result"`
}

func runC18(ctx *Ctx) {
	agent.VerifSetTimeouts(5*time.Second, 5*time.Second)
	n := ctx.N(250, 6000)
	if ctx.Want(n + 900) {
		defer c18AgentBinary(ctx, n+900)
	}
	for c := 0; c < ctx.N(12, 200); c++ {
		if ctx.Want(n + 700 + c) {
			c18Dialects(ctx, n+700+c, ctx.Sub(n+700+c))
		}
	}
	for c := 0; c < ctx.N(6, 60); c++ {
		if ctx.Want(n + 500 + c) {
			e2eCase(ctx, n+500+c, ctx.Sub(n+500+c), "c18-")
		}
	}
	forEachCase(ctx, n, func(i int, rng *rand.Rand) {
		t := newInterner()
		strict := rng.Intn(2) == 0
		target := rng.Intn(7)
		full := rng.Intn(3) == 0
		kind := []ethnode.NodeKind{ethnode.Geth, ethnode.Parity}[rng.Intn(2)]
		node := &recNode{kind: kind, full: full, connFail: -1}
		sp := &scriptPool{peerMode: "ok"}
		a := &agent.Agent{EthNode: node, NumHosts: target, StrictPeers: strict, UpdateInterval: time.Hour}
		var rounds []c18Round
		var items []string
		var mon []string
		nrounds := 1 + rng.Intn(4)
		for r := 0; r < nrounds; r++ {
			rd := c18Round{ConnFail: -1}
			for k := rng.Intn(7); k > 0; k-- {
				rd.Locals = append(rd.Locals, genLocalPeer(rng))
			}
			for k := rng.Intn(6); k > 0; k-- {
				if len(rd.Locals) > 0 && rng.Intn(2) == 0 { // the pool often lists what the node has
					lp := rd.Locals[rng.Intn(len(rd.Locals))]
					rd.Active = append(rd.Active, localRef(lp))
				} else {
					rd.Active = append(rd.Active, genPoolRef(rng))
				}
			}
			for k := rng.Intn(3); k > 0; k-- {
				rd.Invalid = append(rd.Invalid, genPoolRef(rng))
			}
			if rng.Intn(8) == 0 { // a big clean-out: more peers to drop in one round than fit a log line
				for k := 9 + rng.Intn(8); k > 0; k-- {
					rd.Invalid = append(rd.Invalid, "enode://"+fmt.Sprintf("%0128x", 0xd0000+k+r*100)+"@10.7.0.1:30303")
				}
				for k := 4 + rng.Intn(6); k > 0; k-- {
					rd.Locals = append(rd.Locals, ethnode.PeerInfo{ID: fmt.Sprintf("%0128x", 0xe0000+k+r*100)})
					rd.Locals[len(rd.Locals)-1].Network.RemoteAddress = "10.7.1.1:30303"
				}
			}
			rd.UpdErr = rng.Intn(10) == 0
			rd.NodeErr = rng.Intn(14) == 0
			rd.DropErr = rng.Intn(8) == 0
			rd.PeerMode = []string{"ok", "ok", "ok", "nopeers", "fail"}[rng.Intn(5)]
			for k := rng.Intn(4); k > 0; k-- {
				rd.PeerURIs = append(rd.PeerURIs, fmt.Sprintf("enode://%s@9.9.9.%d:30303", c18IDs[rng.Intn(5)], k))
			}
			if rng.Intn(8) == 0 && len(rd.PeerURIs) > 0 {
				rd.ConnFail = rng.Intn(len(rd.PeerURIs) + 1)
			}
			node.mu.Lock()
			node.peers, node.peersErr, node.dropErr, node.connFail, node.connCalls = rd.Locals, rd.NodeErr, rd.DropErr, rd.ConnFail, 0
			node.mu.Unlock()
			sp.mu.Lock()
			sp.updateErr, sp.active, sp.invalid, sp.peerMode, sp.peerURIs = rd.UpdErr, rd.Active, rd.Invalid, rd.PeerMode, rd.PeerURIs
			sp.mu.Unlock()
			node.take()
			sp.take()
			var err error
			if r == 0 {
				err = a.Start(sp) // the first round runs inside Start (which also fixes the node's kind)
			} else {
				err = a.UpdatePeers(context.Background(), sp)
			}
			nodeCalls, poolCalls := node.take(), sp.take()
			rd.Calls = append(append([]string{}, nodeCalls...), poolCalls...)
			// result class
			res := "AOk"
			if err != nil {
				rd.Result = err.Error()
				switch {
				case strings.Contains(err.Error(), "failed to disconnect from invalid peers"):
					res = "AErrDisconnect"
				case strings.Contains(err.Error(), "pool"), strings.Contains(err.Error(), "Pool"), strings.Contains(err.Error(), "transport broken"):
					res = "AErrPool"
				default:
					res = "AErrNode"
				}
			}
			// observed calls in program order: drops (node), then peer request (pool), then connects (node)
			var calls []string
			for _, c := range nodeCalls {
				f := strings.SplitN(c, " ", 2)
				switch f[0] {
				case "untrust":
					calls = append(calls, "CRemoveTrusted "+cN(t.id("raw:"+f[1])))
				case "disconnect":
					calls = append(calls, "CDisconnect "+cN(t.id("raw:"+f[1])))
				}
			}
			for _, c := range poolCalls {
				var num int
				var k string
				if n, _ := fmt.Sscanf(c, "peer %d %s", &num, &k); n >= 1 {
					kn := 0
					if k != "" {
						kn = t.id("kind:" + k)
					}
					calls = append(calls, fmt.Sprintf("CPeerRequest %s %s", cZ(int64(num)), cN(kn)))
				}
			}
			for _, c := range nodeCalls {
				f := strings.SplitN(c, " ", 2)
				if f[0] == "connect" {
					calls = append(calls, "CConnect "+cN(t.id("uri:"+f[1])))
				}
			}
			// model inputs
			var locals, active, invalid, uris []string
			for _, lp := range rd.Locals {
				locals = append(locals, prefOf(t, localRef(lp)))
			}
			for _, s := range rd.Active {
				active = append(active, prefOf(t, s))
			}
			for _, s := range rd.Invalid {
				invalid = append(invalid, prefOf(t, s))
			}
			for _, u := range rd.PeerURIs {
				uris = append(uris, cN(t.id("uri:"+u)))
			}
			reply := "UpdateFailed"
			if !rd.UpdErr {
				reply = fmt.Sprintf("(UpdateOk %s %s)", cList(active), cList(invalid))
			}
			pr := map[string]string{"ok": "(PeerOk " + cList(uris) + ")", "nopeers": "PeerNoPeers", "fail": "PeerFailed"}[rd.PeerMode]
			cf := "None"
			if rd.ConnFail >= 0 {
				cf = fmt.Sprintf("(Some %s)", cNat(rd.ConnFail))
			}
			items = append(items, fmt.Sprintf("{| r18_in := {| ri_node_ok := %s; ri_locals := %s; ri_reply := %s; ri_drop_errors := %s; ri_peer := %s; ri_cf := %s |}; r18_calls := %s; r18_result := %s |}",
				cBool(!rd.NodeErr), cList(locals), reply, cBool(rd.DropErr), pr, cf, cList(calls), res))
			// model-free monitor: every pool-declared invalid peer must be un-trusted and disconnected
			if !rd.NodeErr && !rd.UpdErr {
				for _, inv := range rd.Invalid {
					id := inv
					if ok, rid, _ := readRef(inv); ok {
						id = rid
					}
					if !containsStr(nodeCalls, "untrust "+id) || !containsStr(nodeCalls, "disconnect "+id) {
						mon = append(mon, fmt.Sprintf("c18-declared-invalid-kept: the pool declared %q invalid but the agent (strict=%v) did not un-trust and disconnect it", id, strict))
					}
				}
			}
			// model-free monitors: with strict peering a local peer that no active entry lists
			// under the same host address must have been dropped; and (strict or not) a local peer
			// that IS listed under its host, or any local peer without strict peering, must not be
			// dropped unless the pool declared it invalid
			if !rd.NodeErr && !rd.UpdErr {
				declared := map[string]bool{}
				for _, inv := range rd.Invalid {
					if ok, rid, _ := readRef(inv); ok {
						declared[rid] = true
					} else {
						declared[inv] = true
					}
				}
				// calls name node ids: an id is rightly dropped when it is declared invalid or (strict)
				// when some local peer with that id is not listed under its host
				mayDrop := map[string]bool{}
				for _, lp := range rd.Locals {
					ok, lid, lhost := readRef(localRef(lp))
					if !ok {
						continue
					}
					listed, otherHost := false, false
					for _, ref := range rd.Active {
						if aok, aid, ahost := readRef(ref); aok && aid == lid {
							if ahost == lhost {
								listed = true
							} else {
								otherHost = true // the pool lists the id under another host as well
							}
						}
					}
					both := containsStr(nodeCalls, "untrust "+lid) && containsStr(nodeCalls, "disconnect "+lid)
					if strict && !listed && !both {
						mon = append(mon, fmt.Sprintf("c18-strict-unlisted-kept: strict peering: local peer %s is not listed as active by the pool under its host address, yet the agent kept it (node calls: %v)", localRef(lp), nodeCalls))
					}
					if strict && (!listed || otherHost) {
						mayDrop[lid] = true
					}
				}
				for _, lp := range rd.Locals {
					ok, lid, _ := readRef(localRef(lp))
					if !ok || declared[lid] || mayDrop[lid] {
						continue
					}
					if containsStr(nodeCalls, "untrust "+lid) || containsStr(nodeCalls, "disconnect "+lid) {
						mon = append(mon, fmt.Sprintf("c18-active-peer-dropped: local peer %s (strict=%v; active list %q) was not declared invalid and is listed as active under its host, yet the agent dropped it (node calls: %v)", localRef(lp), strict, rd.Active, nodeCalls))
					}
				}
			}
			// model-free monitor: the agent asks for exactly the shortfall against its target
			if !rd.NodeErr && !rd.UpdErr && (err == nil || askedPeersOf(poolCalls)) {
				need := target - len(rd.Active)
				asked := -1
				for _, c := range poolCalls {
					var num int
					var k string
					if n, _ := fmt.Sscanf(c, "peer %d %s", &num, &k); n >= 1 {
						asked = num
					}
				}
				if need > 0 && asked != need && !(rd.DropErr && asked == -1) {
					mon = append(mon, fmt.Sprintf("c18-shortfall-request: target %d, the pool lists %d active peers: the agent should request %d more, it requested %d (-1: none)", target, len(rd.Active), need, asked))
				}
				if need <= 0 && asked != -1 {
					mon = append(mon, fmt.Sprintf("c18-shortfall-request: target %d is met (the pool lists %d active peers), yet the agent requested %d more", target, len(rd.Active), asked))
				}
			}
			// model-free monitor: the agent connects to every host the pool returned
			askedPeers := false
			for _, c := range poolCalls {
				askedPeers = askedPeers || strings.HasPrefix(c, "peer ")
			}
			if askedPeers && rd.PeerMode == "ok" && rd.ConnFail < 0 && err == nil {
				for _, u := range rd.PeerURIs {
					if !containsStr(nodeCalls, "connect "+u) {
						mon = append(mon, fmt.Sprintf("c18-returned-host-not-connected: the pool answered the agent's peer request (%v) with %d hosts but the agent did not connect to %s", poolCalls, len(rd.PeerURIs), u))
						break
					}
				}
			}
			if (rd.NodeErr || rd.UpdErr) && len(nodeCalls) > 0 {
				mon = append(mon, fmt.Sprintf("c18-failed-round-had-effect: the keep-alive failed but the node received %v", nodeCalls))
			}
			rounds = append(rounds, rd)
			if r == 0 && err != nil {
				break // Start failed: no loop is running, later rounds would start it again
			}
		}
		// stop the background loop started by Start (it ticks once an hour)
		go a.Stop()
		kn := t.id("kind:" + kind.String())
		cfg := fmt.Sprintf("{| ac_strict := %s; ac_target := %s; ac_full_node := %s; ac_kind := %s |}", cBool(strict), cZ(int64(target)), cBool(full), cN(kn))
		coq := fmt.Sprintf("{| c18_cfg := %s; c18_rounds := %s |}", cfg, cList(items))
		ctx.Count(fmt.Sprintf("strict:%v", strict))
		ctx.Emit(Case{I: i, Kind: "rounds", Coq: coq, Desc: map[string]interface{}{"strict": strict, "target": target, "full_node": full, "kind": kind.String(), "rounds": rounds}, Monitor: mon})
	})
}

func askedPeersOf(poolCalls []string) bool {
	for _, c := range poolCalls {
		if strings.HasPrefix(c, "peer ") {
			return true
		}
	}
	return false
}

func containsStr(l []string, s string) bool {
	for _, x := range l {
		if x == s {
			return true
		}
	}
	return false
}
