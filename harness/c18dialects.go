package main

import (
	"context"
	"fmt"
	"math/rand"
	"strings"
	"sync"

	"github.com/ethereum/go-ethereum/rpc"
	"github.com/vipnode/vipnode/v2/agent"
	"github.com/vipnode/vipnode/v2/ethnode"
)

// A node that speaks the RPC dialects the agent's drivers use (ethnode/geth.go, parity.go),
// served over go-ethereum's in-process RPC: the agent under test talks to it through
// ethnode.RemoteNode, i.e. through the real driver, and every call the node receives is recorded.
type fakeRPCNode struct {
	mu     sync.Mutex
	parity bool
	enode  string
	peers  []ethnode.PeerInfo
	calls  []string // "method arg"
}

func (f *fakeRPCNode) rec(method, arg string) {
	f.mu.Lock()
	f.calls = append(f.calls, method+" "+arg)
	f.mu.Unlock()
}

type fakeWeb3 struct{ f *fakeRPCNode }

func (s fakeWeb3) ClientVersion() string {
	if s.f.parity {
		return "Parity-Ethereum//v2.5.13-stable-253ff3f-20191231/x86_64-linux-gnu/rustc1.40.0"
	}
	return "Geth/v1.9.9-stable-01744997/linux-amd64/go1.13.4"
}

type fakeEth struct{ f *fakeRPCNode }

func (s fakeEth) ProtocolVersion() string { return "0x3f" }
func (s fakeEth) BlockNumber() string     { return "0x2a" }

type fakeNet struct{ f *fakeRPCNode }

func (s fakeNet) Version() string { return "1" }

type fakeAdmin struct{ f *fakeRPCNode }

func (s fakeAdmin) AddPeer(u string) (bool, error) { s.f.rec("admin_addPeer", u); return true, nil }
func (s fakeAdmin) RemovePeer(u string) (bool, error) {
	s.f.rec("admin_removePeer", u)
	return true, nil
}
func (s fakeAdmin) AddTrustedPeer(u string) (bool, error) {
	s.f.rec("admin_addTrustedPeer", u)
	return true, nil
}
func (s fakeAdmin) RemoveTrustedPeer(u string) (bool, error) {
	s.f.rec("admin_removeTrustedPeer", u)
	return true, nil
}
func (s fakeAdmin) Peers() []ethnode.PeerInfo   { return s.f.peers }
func (s fakeAdmin) NodeInfo() map[string]string { return map[string]string{"enode": s.f.enode} }

type fakeParity struct{ f *fakeRPCNode }

func (s fakeParity) Enode() string { return s.f.enode }
func (s fakeParity) AddReservedPeer(u string) (bool, error) {
	if u != "" { // the driver's compatibility probe
		s.f.rec("parity_addReservedPeer", u)
	}
	return true, nil
}
func (s fakeParity) RemoveReservedPeer(u string) (bool, error) {
	s.f.rec("parity_removeReservedPeer", u)
	return true, nil
}
func (s fakeParity) NetPeers() map[string]interface{} {
	var ps []map[string]interface{}
	for _, p := range s.f.peers {
		ps = append(ps, map[string]interface{}{"id": p.ID, "name": "Parity-Ethereum/v2.5.13", "caps": []string{"pip/1"},
			"network":   map[string]string{"localAddress": "10.0.0.2:1", "remoteAddress": "10.0.0.3:30303"},
			"protocols": map[string]interface{}{"pip": map[string]interface{}{"version": 1, "difficulty": "1", "head": "00"}}})
	}
	return map[string]interface{}{"active": len(ps), "connected": len(ps), "max": 50, "peers": ps}
}

func newFakeRPCNode(parity bool, peers []ethnode.PeerInfo) (*fakeRPCNode, ethnode.EthNode, func(), error) {
	f := &fakeRPCNode{parity: parity, enode: "enode://" + strings.Repeat("9a", 64) + "@10.0.0.2:30303", peers: peers}
	srv := rpc.NewServer()
	for ns, svc := range map[string]interface{}{"web3": fakeWeb3{f}, "eth": fakeEth{f}, "net": fakeNet{f}, "admin": fakeAdmin{f}, "parity": fakeParity{f}} {
		if err := srv.RegisterName(ns, svc); err != nil {
			return nil, nil, nil, err
		}
	}
	client := rpc.DialInProc(srv)
	node, err := ethnode.RemoteNode(client)
	if err != nil {
		client.Close()
		srv.Stop()
		return nil, nil, nil, err
	}
	return f, node, func() { client.Close(); srv.Stop() }, nil
}

// c18Dialects: the agent's round through the real geth and parity drivers. What reaches the node
// is what the round decided: every host the pool returned is connected to AT THE ADDRESS THE POOL
// RETURNED (routable, loopback, localhost, IPv6, a name), every peer the pool declared invalid is
// un-trusted and dropped under its own id, and nothing else is touched.
func c18Dialects(ctx *Ctx, i int, rng *rand.Rand) {
	parity := i%2 == 0
	full := rng.Intn(3) == 0
	nLocal := rng.Intn(3)
	var locals []ethnode.PeerInfo
	var localIDs []string
	for k := 0; k < nLocal; k++ {
		id := c18IDs[k]
		locals = append(locals, ethnode.PeerInfo{ID: id, Name: "x", Protocols: nil})
		localIDs = append(localIDs, id)
	}
	f, node, closeNode, err := newFakeRPCNode(parity, locals)
	dialect := map[bool]string{true: "parity", false: "geth"}[parity]
	if err != nil {
		ctx.Emit(Case{I: i, Kind: "dialect-" + dialect, Desc: map[string]interface{}{}, Monitor: []string{fmt.Sprintf("c18-dialect-unusable: the %s driver refuses a node that answers the calls it makes: %v", dialect, err)}})
		return
	}
	defer closeNode()
	// the pool: declares one local peer invalid (when there is one) and returns hosts at all sorts of addresses
	p := &scriptPool{peerMode: "ok"}
	if nLocal > 0 && rng.Intn(2) == 0 {
		p.invalid = []string{localIDs[0]}
	}
	for _, id := range localIDs[len(p.invalid):] {
		p.active = append(p.active, "enode://"+id+"@1.2.3.4:30303")
	}
	target := len(p.active) + 1 + rng.Intn(3)
	var want []string
	hostIDs := []string{c18IDs[3], c18IDs[4], c18IDs[6]}
	all := []string{"127.0.0.1:30311", "5.6.7.8:30303", "localhost:30303", "example.com:30303", "[::1]:30303", "[2001:db8::1]:30304", "0.0.0.0:30303", "10.1.2.3:1"}
	var addrs []string
	for k := range all { // every population starts at another place of the list: loopback, routable, name, ...
		addrs = append(addrs, all[(k+i/2)%len(all)])
	}
	for k := 0; k < target-len(p.active) && k < len(hostIDs); k++ {
		want = append(want, "enode://"+hostIDs[k]+"@"+addrs[k])
	}
	p.peerURIs = want
	a := &agent.Agent{EthNode: node, NumHosts: target, StrictPeers: false}
	if !full {
		// (light nodes ask for their own kind; either way the hosts returned are connected to)
	}
	var mon []string
	uerr := a.UpdatePeers(context.Background(), p)
	f.mu.Lock()
	calls := append([]string{}, f.calls...)
	f.mu.Unlock()
	connectMethod := map[bool]string{true: "parity_addReservedPeer", false: "admin_addPeer"}[parity]
	if uerr != nil {
		mon = append(mon, fmt.Sprintf("c18-dialect-round-failed: the round through the %s driver failed: %v (calls the node received: %v)", dialect, uerr, calls))
	} else {
		for _, u := range want {
			found := false
			for _, c := range calls {
				if c == connectMethod+" "+u {
					found = true
				}
			}
			if !found {
				mon = append(mon, fmt.Sprintf("c18-dialect-connect: the pool returned host %s; through the %s driver the node was not told to connect to it at that address (calls the node received: %v)", u, dialect, calls))
				break
			}
		}
		// nobody else is connected to
		for _, c := range calls {
			if strings.HasPrefix(c, connectMethod+" ") && !containsStr(want, strings.TrimPrefix(c, connectMethod+" ")) {
				mon = append(mon, fmt.Sprintf("c18-dialect-connect: through the %s driver the node was told %q; the pool returned %v", dialect, c, want))
				break
			}
		}
		for _, inv := range p.invalid {
			dropped := false
			for _, c := range calls {
				if ok, id, _ := readRef(strings.SplitN(c, " ", 2)[1]); ok && id == inv && (strings.HasPrefix(c, "admin_removePeer ") || strings.HasPrefix(c, "parity_removeReservedPeer ")) {
					dropped = true
				}
			}
			if !dropped {
				mon = append(mon, fmt.Sprintf("c18-dialect-drop: the pool declared %s invalid; through the %s driver the node was not told to drop it (calls: %v)", shortID(inv), dialect, calls))
			}
		}
	}
	ctx.Emit(Case{I: i, Kind: "dialect-" + dialect, Desc: map[string]interface{}{"local_peers": nLocal, "pool_invalid": len(p.invalid), "pool_returns": want, "node_received": calls}, Monitor: mon})
}
