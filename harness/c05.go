package main

import (
	"context"
	"math"
	"math/rand"
	"strings"

	"fmt"
	"github.com/vipnode/vipnode/v2/pool"
	"sync"
	"time"

	"github.com/vipnode/vipnode/v2/pool/store"
)

func init() { commands["c05"] = runC05 }

type c05Req struct {
	Now   int64  `json:"now"`
	ID    int    `json:"id"`
	Nonce int64  `json:"nonce"`
	Acc   bool   `json:"accepted"`
	What  string `json:"what,omitempty"`
}

type c05Desc struct {
	Driver string   `json:"driver"`
	E      int64    `json:"expire_ns"`
	Reqs   []c05Req `json:"reqs"`
	Reopen []int    `json:"reopen_before,omitempty"`
	DupK   int      `json:"dup_k,omitempty"`
	DupAcc int      `json:"dup_accepted,omitempty"`
	Dup    *c05Req  `json:"dup,omitempty"`
}

func c05Coq(drv int, E int64, reqs []c05Req, dup *c05Req, k, acc int) string {
	rs := make([]string, len(reqs))
	obs := make([]bool, len(reqs))
	for i, r := range reqs {
		rs[i] = fmt.Sprintf("{| nr_now := %s; nr_id := %s; nr_n := %s |}", cZ(r.Now), cN(r.ID), cZ(r.Nonce))
		obs[i] = r.Acc
	}
	d := "None"
	if dup != nil {
		d = fmt.Sprintf("(Some ({| nr_now := %s; nr_id := %s; nr_n := %s |}, %s, %s))", cZ(dup.Now), cN(dup.ID), cZ(dup.Nonce), cNat(k), cNat(acc))
	}
	return fmt.Sprintf("{| c5_driver := %s; c5_E := %s; c5_reqs := %s; c5_obs := %s; c5_dup := %s |}",
		cN(drv), cZ(E), cList(rs), cBools(obs), d)
}

// monitor: per identity the accepted nonces must be strictly increasing
func c05Monitor(reqs []c05Req) []string {
	last := map[int]int64{}
	seen := map[int]bool{}
	var v []string
	for _, r := range reqs {
		if !r.Acc {
			continue
		}
		if r.Nonce < r.Now-int64(store.ExpireNonce)-int64(5*time.Second) {
			v = append(v, fmt.Sprintf("c05-stale-accepted: id %d: nonce %d was accepted at %d although it is older than the freshness window (%s)", r.ID, r.Nonce, r.Now, store.ExpireNonce))
		}
		if seen[r.ID] && r.Nonce <= last[r.ID] {
			v = append(v, fmt.Sprintf("c05-not-increasing: id %d accepted nonce %d after %d", r.ID, r.Nonce, last[r.ID]))
		}
		seen[r.ID] = true
		last[r.ID] = r.Nonce
	}
	return v
}

// alignFrac sleeps until the wall clock's sub-second part is within [lo,hi) (fractions of a second).
func alignFrac(lo, hi float64) {
	for {
		f := float64(time.Now().Nanosecond()) / 1e9
		if f >= lo && f < hi {
			return
		}
		time.Sleep(5 * time.Millisecond)
	}
}

func runC05(ctx *Ctx) {
	// a signature is bound to its nonce: presented with a neighbouring nonce it is refused
	for k := 0; k < 2; k++ {
		if ctx.Want(700000 + k) {
			c06Unfamiliar(ctx, 700000+k, k)
		}
		if ctx.Want(700010 + k) {
			c05AcrossEndpoints(ctx, 700010+k, k)
		}
	}
	E := int64(store.ExpireNonce)
	idx := 0
	var wg sync.WaitGroup

	// --- TTL cases on the real persistent driver with a short window (hook), run in background
	type ttlSetter interface{ VerifSetNonceExpire(time.Duration) }
	ttlCases := []string{"ttl-replay-same-second", "ttl-replay-future-dated"}
	for _, kind := range ttlCases {
		i := idx
		idx++
		if !ctx.Want(i) {
			continue
		}
		wg.Add(1)
		go func(i int, kind string) {
			defer wg.Done()
			st := newStore(drvBdg)
			defer st.Destroy()
			win := 2 * time.Second
			st.Store.(ttlSetter).VerifSetNonceExpire(win)
			var reqs []c05Req
			sub := func(id int, n int64, what string) {
				now := time.Now().UnixNano()
				err := st.CheckAndSaveNonce(fmt.Sprintf("ttl-%d", id), n)
				reqs = append(reqs, c05Req{Now: now, ID: id, Nonce: n, Acc: err == nil, What: what})
			}
			if kind == "ttl-replay-same-second" {
				// accept late in a second; replay just after the entry's second-granular expiry,
				// while the nonce itself is still inside the freshness window
				alignFrac(0.85, 0.92)
				t0 := time.Now()
				n := t0.UnixNano() - int64(time.Millisecond)
				sub(1, n, "first use")
				target := t0.Truncate(time.Second).Add(win + 250*time.Millisecond)
				time.Sleep(time.Until(target))
				sub(1, n, "replay after entry expiry, nonce still fresh")
			} else {
				alignFrac(0.3, 0.5)
				t0 := time.Now()
				n := t0.UnixNano() + int64(3*time.Second)
				sub(1, n, "first use of a future-dated nonce")
				time.Sleep(win + 400*time.Millisecond)
				sub(1, n, "replay after entry expiry, nonce still fresh")
			}
			ctx.Emit(Case{I: i, Kind: kind, Coq: c05Coq(drvBdg, int64(win), reqs, nil, 0, 0),
				Desc: c05Desc{Driver: "badger", E: int64(win), Reqs: reqs}, Monitor: c05Monitor(reqs)})
		}(i, kind)
	}

	// --- sequential histories, both drivers; shared stores, disjoint identities per case
	shared := []*openStore{newStore(drvMem), newStore(drvBdg)}
	defer shared[0].Destroy()
	defer shared[1].Destroy()
	nseq := ctx.N(150, 3000)
	for c := 0; c < nseq; c++ {
		i := idx
		idx++
		if !ctx.Want(i) {
			continue
		}
		rng := ctx.Sub(i)
		drv := c % 2
		private := drv == drvBdg && rng.Intn(10) == 0 // own directory, with reopen events
		st := shared[drv]
		if private {
			st = newStore(drvBdg)
		}
		nid := 1 + rng.Intn(3)
		nreq := 4 + rng.Intn(10)
		var reqs []c05Req
		var reopens []int
		lastAcc := map[int]int64{}
		for k := 0; k < nreq; k++ {
			if private && rng.Intn(4) == 0 {
				st.Reopen()
				reopens = append(reopens, k)
			}
			id := 1 + rng.Intn(nid)
			now := time.Now().UnixNano()
			var n int64
			var what string
			switch rng.Intn(10) {
			case 0, 1, 2:
				n, what = now-int64(rng.Intn(1000))*1e6, "fresh"
			case 3:
				n, what = lastAcc[id], "equal to last accepted"
			case 4:
				n, what = lastAcc[id]-int64(1+rng.Intn(5))*1e9, "below last accepted, fresh"
			case 5:
				n, what = now-E-int64(2+rng.Intn(100))*1e9, "stale"
			case 6:
				n, what = now-E+int64(2+rng.Intn(100))*1e9, "just inside the window"
			case 7:
				n, what = now+int64(rng.Intn(300))*1e9, "future-dated"
			case 8:
				n, what = int64(rng.Intn(3))-1, "tiny"
				if rng.Intn(2) == 0 {
					// as far from the clock as a nonce can be: still just a number to compare
					n, what = []int64{math.MinInt64, math.MinInt64 + 1, -7500000000000000000, math.MaxInt64, math.MaxInt64 - 1}[rng.Intn(5)], "extreme"
				}
			default:
				n, what = lastAcc[id]+int64(1+rng.Intn(3)), "last accepted plus a little"
			}
			err := st.CheckAndSaveNonce(fmt.Sprintf("case%d-id%d", i, id), n)
			if err == nil {
				lastAcc[id] = n
			} else if err != store.ErrInvalidNonce {
				ctx.Count("err:" + err.Error())
			}
			reqs = append(reqs, c05Req{Now: now, ID: id, Nonce: n, Acc: err == nil, What: what})
			ctx.Count("nonce:" + what)
		}
		if private {
			st.Destroy()
		}
		kind := "seq-" + driverNames[drv]
		if private {
			kind += "-reopen"
		}
		ctx.Emit(Case{I: i, Kind: kind, Coq: c05Coq(drv, E, reqs, nil, 0, 0),
			Desc: c05Desc{Driver: driverNames[drv], E: E, Reqs: reqs, Reopen: reopens}, Monitor: c05Monitor(reqs)})
	}

	// --- the same nonce histories through the signed endpoints of the real services: whatever
	// layout or service a request uses, it is accepted iff its nonce is (verification refuses
	// otherwise), with the driver's own model deciding as above
	npool := ctx.N(40, 800)
	for c := 0; c < npool; c++ {
		i := idx
		idx++
		if !ctx.Want(i) {
			continue
		}
		c05PoolSeq(ctx, i, ctx.Sub(i), c%2, E)
	}

	// --- a busy nonce table: an identity's few-minutes-old nonce, hundreds of other identities,
	// then replays around the old nonce (the table may be cleaned up, the decisions may not change)
	for drv := 0; drv < 2; drv++ {
		i := idx
		idx++
		if !ctx.Want(i) {
			continue
		}
		st := newStore(drv)
		var reqs []c05Req
		sub := func(id int, n int64, what string) {
			now := time.Now().UnixNano()
			err := st.CheckAndSaveNonce(fmt.Sprintf("crowd%d-id%d", i, id), n)
			reqs = append(reqs, c05Req{Now: now, ID: id, Nonce: n, Acc: err == nil, What: what})
		}
		n0 := time.Now().UnixNano() - int64(5*time.Minute)
		sub(1, n0, "first use, 5 minutes old")
		for k := 0; k < 600; k++ {
			sub(2+k, time.Now().UnixNano(), "")
		}
		sub(1, n0, "verbatim replay after 600 other identities")
		sub(1, n0-1, "just below")
		sub(1, n0+1, "just above")
		st.Destroy()
		ctx.Emit(Case{I: i, Kind: "crowd-" + driverNames[drv], Coq: c05Coq(drv, E, reqs, nil, 0, 0),
			Desc: c05Desc{Driver: driverNames[drv], E: E, Reqs: append(append([]c05Req{}, reqs[:2]...), reqs[len(reqs)-3:]...)}, Monitor: c05Monitor(reqs)})
	}

	// --- racing duplicates
	ndup := ctx.N(20, 300)
	for c := 0; c < ndup; c++ {
		i := idx
		idx++
		if !ctx.Want(i) {
			continue
		}
		rng := ctx.Sub(i)
		drv := c % 2
		st := shared[drv]
		id := fmt.Sprintf("dup%d", i)
		var reqs []c05Req
		now := time.Now().UnixNano()
		first := now - int64(10+rng.Intn(100))*1e6
		if rng.Intn(2) == 0 {
			err := st.CheckAndSaveNonce(id, first)
			reqs = append(reqs, c05Req{Now: now, ID: 1, Nonce: first, Acc: err == nil})
		}
		k := 2 + rng.Intn(15)
		now = time.Now().UnixNano()
		n := now - int64(rng.Intn(5))*1e6
		if rng.Intn(4) == 0 {
			n = first // a duplicate of something possibly already used
		}
		acc := 0
		var mu sync.Mutex
		var g sync.WaitGroup
		start := make(chan struct{})
		for j := 0; j < k; j++ {
			g.Add(1)
			go func() {
				defer g.Done()
				<-start
				if st.CheckAndSaveNonce(id, n) == nil {
					mu.Lock()
					acc++
					mu.Unlock()
				}
			}()
		}
		close(start)
		g.Wait()
		dup := &c05Req{Now: now, ID: 1, Nonce: n}
		var mon []string
		if acc > 1 {
			mon = append(mon, fmt.Sprintf("c05-dup-race: %d of %d racing copies accepted", acc, k))
		}
		ctx.Emit(Case{I: i, Kind: "dup-" + driverNames[drv], Coq: c05Coq(drv, E, reqs, dup, k, acc),
			Desc: c05Desc{Driver: driverNames[drv], E: E, Reqs: reqs, Dup: dup, DupK: k, DupAcc: acc}, Monitor: mon})
	}
	wg.Wait()
}

// c05PoolSeq: correctly signed requests with chosen nonces. Identity 1 = node c1 (keep-alives in
// the current parameter layout), 2 = node c2 (keep-alives signed in the deprecated layout),
// 3 = wallet w1 (pool_addNode, the payment service's own verification), 4 = node c3 (vipnode_peer).
func c05PoolSeq(ctx *Ctx, i int, rng *rand.Rand, drv int, E int64) {
	w := newWorld(worldCfg{Drv: drv, Price: "1", IntervalNs: 60e9, Settle: true})
	defer w.Close()
	w.aliasAll()
	for _, n := range []string{"c1", "c2", "c3"} {
		if _, err := w.connect(n, false, "geth", "", ""); err != nil {
			fatal("%v", err)
		}
	}
	// the connects above used nonces near the current time: start the histories above them
	lastAcc := map[int]int64{}
	for id := 1; id <= 4; id++ {
		lastAcc[id] = w.nonce
	}
	var reqs []c05Req
	var mon []string
	nreq := 5 + rng.Intn(10)
	send := func(id int, n int64) error {
		switch id {
		case 1:
			req := pool.UpdateRequest{PeerInfo: peerInfos(nil), BlockNumber: uint64(len(reqs))}
			sig := w.sign(keyFor("c1"), "vipnode_update", nodeIDOf("c1"), n, req)
			_, err := w.pool.Update(context.Background(), sig, nodeIDOf("c1"), n, req)
			return err
		case 2:
			req := pool.UpdateRequest{Peers: []string{}, BlockNumber: uint64(len(reqs))}
			sig := w.sign(keyFor("c2"), "vipnode_update", nodeIDOf("c2"), n, oldUpdate{req.Peers, req.BlockNumber})
			_, err := w.pool.Update(context.Background(), sig, nodeIDOf("c2"), n, req)
			return err
		case 3:
			addr := walletOf("w1")
			sig := w.sign(keyFor("w1"), "pool_addNode", addr, n, nodeIDOf("c1"))
			err := w.pay.AddNode(context.Background(), sig, addr, n, nodeIDOf("c1"))
			if err == nil {
				// the same signed request once more, the wallet spelled differently (the nonce table is
				// keyed by the string sent): the signature is over the spelling that was signed
				for _, other := range []string{strings.ToLower(addr), "0x" + strings.ToUpper(addr[2:]), addr[2:]} {
					if other == addr {
						continue
					}
					if rerr := w.pay.AddNode(context.Background(), sig, other, n, nodeIDOf("c1")); classify(rerr).Class != "verify" {
						mon = append(mon, fmt.Sprintf("c05-replay-under-other-spelling: a signed pool_addNode (nonce %d) was accepted, then accepted AGAIN with the same signature and nonce under the wallet spelling %q: %v", n, other, rerr))
					}
				}
			}
			return err
		default:
			req := pool.PeerRequest{Num: 1}
			sig := w.sign(keyFor("c3"), "vipnode_peer", nodeIDOf("c3"), n, req)
			_, err := w.pool.Peer(context.Background(), sig, nodeIDOf("c3"), n, req)
			return err
		}
	}
	// the histories of the four identities start from the nonce their setup used
	for id := 1; id <= 4; id++ {
		n := time.Now().UnixNano()
		now := time.Now().UnixNano()
		err := send(id, n)
		acc := classify(err).Class != "verify"
		if acc {
			lastAcc[id] = n
		}
		reqs = append(reqs, c05Req{Now: now, ID: id, Nonce: n, Acc: acc, What: "first"})
	}
	base := len(reqs)
	_ = base
	for k := 0; k < nreq; k++ {
		id := 1 + rng.Intn(4)
		now := time.Now().UnixNano()
		var n int64
		var what string
		switch rng.Intn(8) {
		case 0, 1:
			n, what = now, "fresh"
		case 2, 3:
			n, what = lastAcc[id], "equal to last accepted (replay)"
		case 4:
			n, what = lastAcc[id]-int64(1+rng.Intn(5))*1e6, "below last accepted, fresh"
		case 5:
			n, what = now-E-int64(2+rng.Intn(100))*1e9, "stale"
		case 6:
			n, what = now+int64(rng.Intn(300))*1e9, "future-dated"
		default:
			n, what = lastAcc[id]+int64(1+rng.Intn(3)), "last accepted plus a little"
		}
		err := send(id, n)
		e := classify(err)
		acc := e.Class != "verify"
		if acc {
			lastAcc[id] = n
		}
		reqs = append(reqs, c05Req{Now: now, ID: id, Nonce: n, Acc: acc, What: what + []string{"", " (keep-alive)", " (keep-alive, deprecated layout)", " (pool_addNode)", " (vipnode_peer)"}[id]})
		ctx.Count("pool-nonce:" + what)
	}
	// the connects are part of the history of identities 1, 2 and 4 (same nonce table): render
	// them as an accepted first request with the nonce they used -- they were all below the
	// first nonces sent above, which the model then accepts as well
	mon = append(mon, c05Monitor(reqs)...)
	ctx.Emit(Case{I: i, Kind: "seq-pool-" + driverNames[drv], Coq: c05Coq(drv, E, reqs, nil, 0, 0),
		Desc: c05Desc{Driver: driverNames[drv], E: E, Reqs: reqs}, Monitor: mon})
}
