package main

import (
	"context"
	"fmt"
	"math/big"
	"math/rand"
	"strings"
	"time"

	"github.com/ethereum/go-ethereum/accounts/abi/bind"
	"github.com/ethereum/go-ethereum/accounts/abi/bind/backends"
	"github.com/ethereum/go-ethereum/core"
	"github.com/vipnode/vipnode-contract/go/vipnodepool"
	"github.com/vipnode/vipnode/v2/pool"
	"github.com/vipnode/vipnode/v2/pool/balance"
	"github.com/vipnode/vipnode/v2/pool/payment"
	"github.com/vipnode/vipnode/v2/pool/store"
	"github.com/vipnode/vipnode/v2/request"
)

// C03 with the production balance store: the minimum applies to on-chain deposit + credit, where
// the deposit is what payment.ContractPayment reads from the real contract (simulated chain).
// A client whose wallet holds minimum-2 .. minimum+2 on-chain connects, then is billed across the
// threshold; refusal and cut-off are decided by arithmetic done here, not by the code's helpers.
func c03Contract(ctx *Ctx, i int, drv int, rng *rand.Rand) {
	bg := context.Background()
	st := newStore(drv)
	defer st.Destroy()
	opAuth := bind.NewKeyedTransactor(keyFor("operator"))
	wAuth := bind.NewKeyedTransactor(keyFor("w1"))
	rich, _ := new(big.Int).SetString("1000000000000000000000", 10)
	sim := backends.NewSimulatedBackend(core.GenesisAlloc{opAuth.From: {Balance: rich}, wAuth.From: {Balance: rich}}, 8000000)
	defer sim.Close()
	addr, _, contract, err := vipnodepool.DeployVipnodePool(opAuth, sim, opAuth.From)
	if err != nil {
		fatal("deploy: %v", err)
	}
	sim.Commit()
	min := big.NewInt([]int64{1, 1000, 1000000}[rng.Intn(3)])
	delta := int64(rng.Intn(5) - 2)
	charge := int64(1 + rng.Intn(50))
	// on-chain deposit such that after one charge the spendable balance is min + delta
	deposit := new(big.Int).Add(min, big.NewInt(delta+charge))
	if deposit.Sign() > 0 {
		if _, err := contract.AddBalance(&bind.TransactOpts{From: wAuth.From, Signer: wAuth.Signer, Value: deposit, GasPrice: big.NewInt(1), GasLimit: 300000}); err != nil {
			fatal("deposit: %v", err)
		}
		sim.Commit()
	} else {
		deposit = new(big.Int)
	}
	cp, err := payment.ContractPayment(st.Store, addr, sim, nil) // read-only, as a pool without operator key
	if err != nil {
		fatal("ContractPayment: %v", err)
	}
	mgr := balance.PayPerInterval(cp, time.Nanosecond, big.NewInt(1)) // 1 unit per nanosecond
	mgr.MinBalance = min
	var clock time.Time
	mgr.VerifSetClock(func() time.Time { return clock })
	p := pool.New(st.Store, mgr)
	pay := &payment.PaymentService{NonceStore: st.Store, AccountStore: st.Store, BalanceStore: cp}
	nonce := time.Now().UnixNano()
	next := func() int64 { nonce++; return nonce }
	cid, hid, wallet := nodeIDOf("c1"), nodeIDOf("h1"), walletOf("w1")
	connect := func() error {
		req := pool.ConnectRequest{VipnodeVersion: "verif", NodeInfo: userAgentFor("geth", false)}
		n := next()
		sig, _ := request.Sign(keyFor("c1"), "vipnode_connect", cid, n, req)
		_, err := p.Connect(bg, sig, cid, n, req)
		return err
	}
	update := func(peers []string) error {
		req := pool.UpdateRequest{PeerInfo: peerInfos(peers), BlockNumber: 1}
		n := next()
		sig, _ := request.Sign(keyFor("c1"), "vipnode_update", cid, n, req)
		_, err := p.Update(bg, sig, cid, n, req)
		return err
	}
	var mon []string
	var log []string
	isLow := func(err error) bool { _, ok := err.(balance.LowBalanceError); return ok }
	// 1. first contact: no wallet yet, balance 0
	err1 := connect()
	log = append(log, fmt.Sprintf("connect (no wallet): %v", err1))
	if (min.Sign() > 0) != isLow(err1) {
		mon = append(mon, fmt.Sprintf("c03-contract-connect: client without a wallet (balance 0), minimum %s: refused=%v (%v)", min, isLow(err1), err1))
	}
	// 2. link the wallet, reconnect: deposit + 0 against the minimum
	n := next()
	sig, _ := request.Sign(keyFor("w1"), "pool_addNode", wallet, n, cid)
	if err := pay.AddNode(bg, sig, wallet, n, cid); err != nil {
		fatal("addNode: %v", err)
	}
	err2 := connect()
	log = append(log, fmt.Sprintf("connect (wallet holds %s on-chain): %v", deposit, err2))
	below := deposit.Cmp(min) < 0
	if below != isLow(err2) {
		mon = append(mon, fmt.Sprintf("c03-contract-connect: client whose wallet holds %s on-chain (credit 0), minimum %s: refused=%v (%v)", deposit, min, isLow(err2), err2))
	}
	if le, ok := err2.(balance.LowBalanceError); ok && le.CurrentBalance.Cmp(deposit) != 0 {
		mon = append(mon, fmt.Sprintf("c03-contract-reported: the refusal reports balance %s, the wallet holds %s", le.CurrentBalance, deposit))
	}
	// 3. a host to peer with; a first keep-alive (tracks, no time billed), then one billing `charge`
	if err := st.SetNode(store.Node{ID: store.NodeID(hid), URI: "enode://" + hid + "@10.0.0.9:30303", IsHost: true, Kind: "geth", LastSeen: time.Now()}); err != nil {
		fatal("%v", err)
	}
	nd, _ := st.GetNode(store.NodeID(cid))
	clock = nd.LastSeen
	if err := update([]string{hid}); err != nil && !isLow(err) {
		fatal("first keep-alive: %v", err)
	}
	nd, _ = st.GetNode(store.NodeID(cid))
	clock = nd.LastSeen.Add(time.Duration(charge))
	err3 := update([]string{hid})
	after := new(big.Int).Sub(deposit, big.NewInt(charge)) // credit is -charge, deposit unchanged
	log = append(log, fmt.Sprintf("keep-alive charging %d: %v (deposit %s + credit -%d = %s, minimum %s)", charge, err3, deposit, charge, after, min))
	cut := after.Cmp(min) < 0
	if cut != isLow(err3) {
		mon = append(mon, fmt.Sprintf("c03-contract-cutoff: after a charge of %d the client has deposit %s + credit -%d = %s, minimum %s: cut off=%v (%v)", charge, deposit, charge, after, min, isLow(err3), err3))
	}
	if le, ok := err3.(balance.LowBalanceError); ok && le.CurrentBalance.Cmp(after) != 0 {
		mon = append(mon, fmt.Sprintf("c03-contract-reported: the cut-off reports balance %s, deposit + credit is %s", le.CurrentBalance, after))
	}
	ctx.Count(fmt.Sprintf("contract-delta:%d", delta))
	ctx.Emit(Case{I: i, Kind: "contract-threshold-" + driverNames[drv], Desc: map[string]interface{}{"minimum": min.String(), "deposit": deposit.String(), "charge": charge, "steps": log}, Monitor: mon})
}

// c03Legacy: the deprecated vipnode_client endpoint is a registration like vipnode_connect: a
// light client below the minimum is refused every time it is used, also right after an earlier
// refusal, and also when the balance fell below the minimum after an accepted registration.
func c03Legacy(ctx *Ctx, i int, drv int, rng *rand.Rand) {
	min := []string{"1", "1000", "1000000"}[rng.Intn(3)]
	w := newWorld(worldCfg{Drv: drv, Price: "1", IntervalNs: 1, Settle: true, Min: strp(min)})
	defer w.Close()
	w.aliasAll()
	var mon []string
	var log []string
	w.applyPOp(&POp{Op: "connect", Node: "h1", Host: true, Kind: "geth"})
	legacy := func() error {
		req := pool.ClientRequest{Kind: "geth", NumHosts: 1}
		nonce := w.nextNonce()
		sig := w.sign(keyFor("c1"), "vipnode_client", nodeIDOf("c1"), nonce, req)
		cctx, cancel := context.WithTimeout(context.Background(), 8*time.Second)
		defer cancel()
		_, err := w.pool.Client(cctx, sig, nodeIDOf("c1"), nonce, req)
		return err
	}
	m, _ := new(big.Int).SetString(min, 10)
	spendable := func() *big.Int {
		b, err := w.bstore.GetNodeBalance(store.NodeID(nodeIDOf("c1")))
		if err != nil {
			return new(big.Int)
		}
		return new(big.Int).Add(&b.Credit, &b.Deposit)
	}
	check := func(what string) {
		w.takeCalls()
		sp := spendable()
		err := legacy()
		_, low := err.(balance.LowBalanceError)
		log = append(log, fmt.Sprintf("%s: spendable %s, minimum %s: %v", what, sp, m, err))
		if (sp.Cmp(m) < 0) != low {
			mon = append(mon, fmt.Sprintf("c03-legacy-client-threshold: %s: vipnode_client by a light client with spendable balance %s, minimum %s: refused=%v (%v)", what, sp, m, low, err))
		}
		if low {
			for _, c := range w.takeCalls() {
				if c.Method == "whitelist" {
					mon = append(mon, fmt.Sprintf("c03-legacy-client-threshold: %s: the refused client was nevertheless whitelisted on host %s", what, c.Host))
				}
			}
		}
	}
	check("first use, no balance")
	check("again right away")
	check("a third time")
	// fund the wallet to exactly the minimum plus a little, register, then get billed below it
	w.applyPOp(&POp{Op: "addnode", Wallet: "w1", Node: "c1"})
	extra := int64(1 + rng.Intn(40))
	w.applyPOp(&POp{Op: "deposit", Wallet: "w1", Amount: new(big.Int).Add(m, big.NewInt(extra)).String()})
	check("funded above the minimum")
	w.applyPOp(&POp{Op: "update", Node: "c1", Peers: []string{"h1"}, Elapsed: 0})
	w.applyPOp(&POp{Op: "update", Node: "c1", Peers: []string{"h1"}, Elapsed: extra + 1 + int64(rng.Intn(5))})
	check("after a keep-alive billed it below the minimum")
	check("and once more")
	ctx.Emit(Case{I: i, Kind: "legacy-client-" + driverNames[drv], Desc: map[string]interface{}{"minimum": min, "steps": log}, Monitor: mon})
}

// c03SharedConnection: one machine runs a full node and a light client and speaks to the pool over
// a single connection for both identities (the host registers on it, the client's requests arrive
// on it). When the client is billed below the minimum, every host it is peered with is told to
// drop it -- the host on the client's own connection included, and the hosts on other connections.
func c03SharedConnection(ctx *Ctx, i int, drv int, rng *rand.Rand) {
	w := newWorld(worldCfg{Drv: drv, Price: "1", IntervalNs: 1, Settle: true, Min: strp("1000")})
	defer w.Close()
	w.aliasAll()
	var mon, log []string
	// h1 and c1 share connection X; h2 has a connection of its own
	x := w.newConn("h1", "10.0.0.8:1")
	if err := w.connectOn(x, "h1"); err != nil {
		fatal("connect h1: %v", err)
	}
	w.applyPOp(&POp{Op: "connect", Node: "h2", Host: true, Kind: "geth"})
	// the client's wallet: just above the minimum
	w.applyPOp(&POp{Op: "connect", Node: "c1", Kind: "geth"})
	w.applyPOp(&POp{Op: "addnode", Wallet: "w1", Node: "c1"})
	extra := int64(5 + rng.Intn(40))
	w.applyPOp(&POp{Op: "deposit", Wallet: "w1", Amount: fmt.Sprint(1000 + extra)})
	over := func(method string, arg interface{}, res interface{}) error {
		nonce := w.nextNonce()
		sig := w.sign(keyFor("c1"), method, nodeIDOf("c1"), nonce, arg)
		cctx, cancel := context.WithTimeout(context.Background(), 8*time.Second)
		defer cancel()
		return x.cliSide.Call(cctx, res, method, sig, nodeIDOf("c1"), nonce, arg)
	}
	var cresp pool.ConnectResponse
	if err := over("vipnode_connect", pool.ConnectRequest{VipnodeVersion: "verif", NodeInfo: userAgentFor("geth", false)}, &cresp); err != nil {
		fatal("client connect over the shared connection: %v", err)
	}
	peers := peerInfos([]string{nodeIDOf("h1"), nodeIDOf("h2")})
	update := func(elapsed int64) (err error) {
		nd, gerr := w.st.GetNode(store.NodeID(nodeIDOf("c1")))
		if gerr != nil {
			fatal("%v", gerr)
		}
		w.useRealClk = false
		w.clockNow = time.Unix(0, nd.LastSeen.UnixNano()+elapsed)
		var resp pool.UpdateResponse
		return over("vipnode_update", pool.UpdateRequest{PeerInfo: peers, BlockNumber: 5}, &resp)
	}
	log = append(log, fmt.Sprintf("first keep-alive (tracks both hosts): %v", update(0)))
	w.takeCalls()
	err := update(extra + 3 + int64(rng.Intn(10))) // two peers are billed: well below the minimum now
	log = append(log, fmt.Sprintf("keep-alive billed below the minimum: %v", err))
	// the instructions to the hosts are sent without waiting for the reply to the client
	asked := map[string]int{}
	for t0 := time.Now(); time.Since(t0) < 2*time.Second && len(asked) < 2; {
		time.Sleep(20 * time.Millisecond)
		w.mu.Lock()
		for _, c := range w.calls {
			if c.Method == "disconnect" && c.Arg == nodeIDOf("c1") {
				asked[strings.SplitN(c.Host, "#", 2)[0]]++
			}
		}
		w.mu.Unlock()
		if len(asked) < 2 {
			asked = map[string]int{}
		}
	}
	w.mu.Lock()
	asked = map[string]int{}
	for _, c := range w.calls {
		if c.Method == "disconnect" && c.Arg == nodeIDOf("c1") {
			asked[strings.SplitN(c.Host, "#", 2)[0]]++
		}
	}
	w.mu.Unlock()
	if cl := classify(err); cl.Class != "low" {
		mon = append(mon, fmt.Sprintf("c03-shared-connection: the keep-alive that took the client below the minimum was answered with %v, not with the low-balance refusal", err))
	} else {
		for _, h := range []string{"h1", "h2"} {
			if asked[h] == 0 {
				where := "a connection of its own"
				if h == "h1" {
					where = "the connection the client's keep-alive arrived on"
				}
				mon = append(mon, fmt.Sprintf("c03-shared-connection: the client was cut off for its balance; host %s (registered on %s, peered with the client) was not told to disconnect it (instructions sent: %v)", h, where, asked))
			}
		}
	}
	ctx.Emit(Case{I: i, Kind: "shared-connection-" + driverNames[drv], Desc: map[string]interface{}{"steps": log, "disconnect_instructions": asked}, Monitor: mon})
}
