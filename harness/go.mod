module vharness

go 1.21

require (
	github.com/dgraph-io/badger/v2 v2.0.3
	github.com/ethereum/go-ethereum v1.9.15
	github.com/gobwas/ws v1.0.2
	github.com/gorilla/websocket v1.4.2
	github.com/vipnode/vipnode-contract v0.2.1
	github.com/vipnode/vipnode/v2 v2.0.0
)

require (
	github.com/DataDog/zstd v1.4.1 // indirect
	github.com/VictoriaMetrics/fastcache v1.5.7 // indirect
	github.com/aristanetworks/goarista v0.0.0-20200602234848-db8a79a18e4a // indirect
	github.com/cespare/xxhash v1.1.0 // indirect
	github.com/cespare/xxhash/v2 v2.1.1 // indirect
	github.com/davecgh/go-spew v1.1.1 // indirect
	github.com/deckarep/golang-set v1.7.1 // indirect
	github.com/dgraph-io/ristretto v0.0.2 // indirect
	github.com/dgryski/go-farm v0.0.0-20200201041132-a6ae2369ad13 // indirect
	github.com/dustin/go-humanize v1.0.0 // indirect
	github.com/edsrzf/mmap-go v1.0.0 // indirect
	github.com/gballet/go-libpcsclite v0.0.0-20191108122812-4678299bea08 // indirect
	github.com/go-stack/stack v1.8.0 // indirect
	github.com/gobwas/httphead v0.0.0-20180130184737-2c6c146eadee // indirect
	github.com/gobwas/pool v0.2.0 // indirect
	github.com/golang/protobuf v1.4.2 // indirect
	github.com/golang/snappy v0.0.1 // indirect
	github.com/google/uuid v1.1.1 // indirect
	github.com/hashicorp/golang-lru v0.5.4 // indirect
	github.com/huin/goupnp v1.0.0 // indirect
	github.com/jackpal/go-nat-pmp v1.0.2 // indirect
	github.com/karalabe/usb v0.0.0-20191104083709-911d15fe12a9 // indirect
	github.com/mattn/go-runewidth v0.0.9 // indirect
	github.com/olekukonko/tablewriter v0.0.4 // indirect
	github.com/pborman/uuid v1.2.0 // indirect
	github.com/peterh/liner v1.2.0 // indirect
	github.com/pkg/errors v0.9.1 // indirect
	github.com/prometheus/tsdb v0.10.0 // indirect
	github.com/rjeczalik/notify v0.9.2 // indirect
	github.com/shirou/gopsutil v2.20.5+incompatible // indirect
	github.com/status-im/keycard-go v0.0.0-20200402102358-957c09536969 // indirect
	github.com/steakknife/bloomfilter v0.0.0-20180922174646-6819c0d2a570 // indirect
	github.com/steakknife/hamming v0.0.0-20180906055917-c99c65617cd3 // indirect
	github.com/syndtr/goleveldb v1.0.1-0.20190923125748-758128399b1d // indirect
	github.com/tyler-smith/go-bip39 v1.0.2 // indirect
	github.com/vipnode/ether v0.0.0-20181219204546-d717f248a245 // indirect
	github.com/wsddn/go-ecdh v0.0.0-20161211032359-48726bab9208 // indirect
	golang.org/x/crypto v0.0.0-20200604202706-70a84ac30bf9 // indirect
	golang.org/x/net v0.0.0-20200602114024-627f9648deb9 // indirect
	golang.org/x/sys v0.0.0-20200610111108-226ff32320da // indirect
	golang.org/x/text v0.3.2 // indirect
	google.golang.org/protobuf v1.24.0 // indirect
)

replace github.com/vipnode/vipnode/v2 => /repo
