module vharness

go 1.21

require (
	github.com/dgraph-io/badger/v2 v2.0.3
	github.com/vipnode/vipnode/v2 v2.0.0
)

require (
	github.com/DataDog/zstd v1.4.1 // indirect
	github.com/cespare/xxhash v1.1.0 // indirect
	github.com/dgraph-io/ristretto v0.0.2 // indirect
	github.com/dgryski/go-farm v0.0.0-20200201041132-a6ae2369ad13 // indirect
	github.com/dustin/go-humanize v1.0.0 // indirect
	github.com/golang/protobuf v1.4.2 // indirect
	github.com/golang/snappy v0.0.1 // indirect
	github.com/pkg/errors v0.9.1 // indirect
	github.com/vipnode/ether v0.0.0-20181219204546-d717f248a245 // indirect
	golang.org/x/net v0.0.0-20200602114024-627f9648deb9 // indirect
	golang.org/x/sys v0.0.0-20200610111108-226ff32320da // indirect
	google.golang.org/protobuf v1.24.0 // indirect
)

replace github.com/vipnode/vipnode/v2 => /repo
