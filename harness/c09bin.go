package main

import (
	"encoding/json"
	"fmt"
	"strings"
	"sync"
	"time"

	"github.com/gorilla/websocket"
	"github.com/vipnode/vipnode/v2/ethnode"
	"github.com/vipnode/vipnode/v2/pool"
	"github.com/vipnode/vipnode/v2/request"
)

// c09Binary: the shipped pool binary (its own HTTP/WebSocket server and disconnect hook).  A host
// registers over a real WebSocket connection, serves the pool's whitelist calls, and then goes
// away in one of the ways a WebSocket peer can go away.  Peer requests that start afterwards must
// not be sent to it.
func c09Binary(ctx *Ctx, i int) {
	bin, cleanup := buildBinary(ctx.Repo)
	defer cleanup()
	port, stop := startPoolBinary(bin)
	defer stop()
	var mon []string
	var obs []map[string]interface{}
	nonce := time.Now().UnixNano()
	signed := func(who, method string, arg interface{}) string {
		nonce++
		id := nodeIDOf(who)
		sig, err := request.Sign(keyFor(who), method, id, nonce, arg)
		if err != nil {
			fatal("sign: %v", err)
		}
		b, _ := json.Marshal([]interface{}{sig, id, nonce, arg})
		return string(b)
	}
	errOf := func(body string) string {
		var r struct {
			Error *struct {
				Message string `json:"message"`
			} `json:"error"`
		}
		json.Unmarshal([]byte(body), &r)
		if r.Error != nil {
			return r.Error.Message
		}
		return ""
	}
	// the client registers once
	if _, body, err := httpRPC(port, fmt.Sprintf(`{"jsonrpc":"2.0","id":1,"method":"vipnode_connect","params":%s}`,
		signed("c1", "vipnode_connect", pool.ConnectRequest{VipnodeVersion: "x", NodeInfo: ethnode.UserAgent{Kind: ethnode.Geth}}))); err != nil || errOf(body) != "" {
		fatal("client connect over HTTP: %v %s", err, body)
	}
	peerReq := func() (string, int) {
		_, body, err := httpRPC(port, fmt.Sprintf(`{"jsonrpc":"2.0","id":2,"method":"vipnode_peer","params":%s}`, signed("c1", "vipnode_peer", pool.PeerRequest{Num: 3})))
		if err != nil {
			return "transport: " + err.Error(), 0
		}
		var r struct {
			Result *pool.PeerResponse `json:"result"`
		}
		json.Unmarshal([]byte(body), &r)
		n := 0
		if r.Result != nil {
			n = len(r.Result.Peers)
		}
		return errOf(body), n
	}
	modes := []string{"close-1000-normal", "close-1001-going-away", "close-no-status", "close-1008-policy", "tcp-drop"}
	for k, mode := range modes {
		host := fmt.Sprintf("wsh%d", k)
		conn, _, err := websocket.DefaultDialer.Dial(fmt.Sprintf("ws://127.0.0.1:%d/", port), nil)
		if err != nil {
			fatal("ws dial: %v", err)
		}
		var wmu sync.Mutex
		write := func(v string) {
			wmu.Lock()
			conn.WriteMessage(websocket.TextMessage, []byte(v))
			wmu.Unlock()
		}
		replies := make(chan string, 16)
		whitelisted := 0
		var rmu sync.Mutex
		go func() { // the host's side: answer the pool's calls
			for {
				_, data, err := conn.ReadMessage()
				if err != nil {
					return
				}
				var m struct {
					ID     json.RawMessage `json:"id"`
					Method string          `json:"method"`
				}
				json.Unmarshal(data, &m)
				if m.Method != "" {
					rmu.Lock()
					whitelisted++
					rmu.Unlock()
					write(fmt.Sprintf(`{"jsonrpc":"2.0","id":%s,"result":null}`, string(m.ID)))
				} else {
					replies <- string(data)
				}
			}
		}()
		write(fmt.Sprintf(`{"jsonrpc":"2.0","id":1,"method":"vipnode_connect","params":%s}`, signed(host, "vipnode_connect",
			pool.ConnectRequest{VipnodeVersion: "x", NodeInfo: ethnode.UserAgent{Kind: ethnode.Geth, IsFullNode: true}, NodeURI: "enode://" + nodeIDOf(host) + fmt.Sprintf("@10.9.0.%d:30303", k+1)})))
		select {
		case r := <-replies:
			if e := errOf(r); e != "" {
				fatal("host connect over websocket refused: %s", e)
			}
		case <-time.After(5 * time.Second):
			fatal("host connect over websocket: no reply")
		}
		// control: while the connection is open the host is called and returned
		e0, n0 := peerReq()
		rmu.Lock()
		w0 := whitelisted
		rmu.Unlock()
		// the host goes away
		wmu.Lock()
		switch mode {
		case "close-1000-normal", "close-1000-no-wait":
			conn.WriteControl(websocket.CloseMessage, websocket.FormatCloseMessage(websocket.CloseNormalClosure, "bye"), time.Now().Add(time.Second))
		case "close-1001-going-away":
			conn.WriteControl(websocket.CloseMessage, websocket.FormatCloseMessage(websocket.CloseGoingAway, ""), time.Now().Add(time.Second))
		case "close-no-status":
			conn.WriteControl(websocket.CloseMessage, []byte{}, time.Now().Add(time.Second))
		case "close-1008-policy":
			conn.WriteControl(websocket.CloseMessage, websocket.FormatCloseMessage(websocket.ClosePolicyViolation, "x"), time.Now().Add(time.Second))
		}
		wmu.Unlock()
		if mode != "close-1000-no-wait" {
			time.Sleep(30 * time.Millisecond)
		}
		conn.UnderlyingConn().Close()
		// requests that start after the close: give the server a moment to notice, then it must hold
		var e1 string
		var n1 int
		for t := 0; t < 40; t++ {
			e1, n1 = peerReq()
			if !strings.Contains(e1, "failed to call") && n1 == 0 {
				break
			}
			time.Sleep(50 * time.Millisecond)
		}
		obs = append(obs, map[string]interface{}{"mode": mode, "while_open": fmt.Sprintf("hosts=%d err=%q whitelist_calls=%d", n0, e0, w0), "after_close": fmt.Sprintf("hosts=%d err=%q", n1, e1)})
		_ = e0 // (the control reading is recorded in the case description; the pool tries a bounded number of candidates, earlier closed hosts among them)
		if strings.Contains(e1, "failed to call") || n1 != 0 {
			mon = append(mon, fmt.Sprintf("c09-closed-connection-called: two seconds after host %s went away (%s) the pool binary still sends whitelist calls to its connection: peer request answered hosts=%d error %q", host, mode, n1, e1))
		}
	}
	ctx.Emit(Case{I: i, Kind: "binary-websocket", Desc: map[string]interface{}{"closes": obs}, Monitor: mon})
}
