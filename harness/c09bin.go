package main

import (
	"context"
	"encoding/json"
	"errors"
	"fmt"
	"io"
	"net"
	"strings"
	"sync"
	"time"

	"github.com/gorilla/websocket"
	"github.com/vipnode/vipnode/v2/ethnode"
	"github.com/vipnode/vipnode/v2/jsonrpc2"
	"github.com/vipnode/vipnode/v2/pool"
	"github.com/vipnode/vipnode/v2/pool/store"
	"github.com/vipnode/vipnode/v2/request"
)

// c09Binary: the shipped pool binary (its own HTTP/WebSocket server and disconnect hook).  A host
// registers over a real WebSocket connection, serves the pool's whitelist calls, and then goes
// away in one of the ways a WebSocket peer can go away.  Peer requests that start afterwards must
// not be sent to it.
func c09Binary(ctx *Ctx, i int) {
	bin, cleanup := buildBinary(ctx.Repo)
	defer cleanup()
	port, stop := startPoolBinary(bin)
	defer stop()
	var mon []string
	var obs []map[string]interface{}
	nonce := time.Now().UnixNano()
	signed := func(who, method string, arg interface{}) string {
		nonce++
		id := nodeIDOf(who)
		sig, err := request.Sign(keyFor(who), method, id, nonce, arg)
		if err != nil {
			fatal("sign: %v", err)
		}
		b, _ := json.Marshal([]interface{}{sig, id, nonce, arg})
		return string(b)
	}
	errOf := func(body string) string {
		var r struct {
			Error *struct {
				Message string `json:"message"`
			} `json:"error"`
		}
		json.Unmarshal([]byte(body), &r)
		if r.Error != nil {
			return r.Error.Message
		}
		return ""
	}
	// the client registers once
	if _, body, err := httpRPC(port, fmt.Sprintf(`{"jsonrpc":"2.0","id":1,"method":"vipnode_connect","params":%s}`,
		signed("c1", "vipnode_connect", pool.ConnectRequest{VipnodeVersion: "x", NodeInfo: ethnode.UserAgent{Kind: ethnode.Geth}}))); err != nil || errOf(body) != "" {
		fatal("client connect over HTTP: %v %s", err, body)
	}
	peerReq := func() (string, int) {
		_, body, err := httpRPC(port, fmt.Sprintf(`{"jsonrpc":"2.0","id":2,"method":"vipnode_peer","params":%s}`, signed("c1", "vipnode_peer", pool.PeerRequest{Num: 3})))
		if err != nil {
			return "transport: " + err.Error(), 0
		}
		var r struct {
			Result *pool.PeerResponse `json:"result"`
		}
		json.Unmarshal([]byte(body), &r)
		n := 0
		if r.Result != nil {
			n = len(r.Result.Peers)
		}
		return errOf(body), n
	}
	modes := []string{"close-1000-normal", "close-1001-going-away", "close-no-status", "close-1008-policy", "tcp-drop"}
	for k, mode := range modes {
		host := fmt.Sprintf("wsh%d", k)
		conn, _, err := websocket.DefaultDialer.Dial(fmt.Sprintf("ws://127.0.0.1:%d/", port), nil)
		if err != nil {
			fatal("ws dial: %v", err)
		}
		var wmu sync.Mutex
		write := func(v string) {
			wmu.Lock()
			conn.WriteMessage(websocket.TextMessage, []byte(v))
			wmu.Unlock()
		}
		replies := make(chan string, 16)
		whitelisted := 0
		var rmu sync.Mutex
		go func() { // the host's side: answer the pool's calls
			for {
				_, data, err := conn.ReadMessage()
				if err != nil {
					return
				}
				var m struct {
					ID     json.RawMessage `json:"id"`
					Method string          `json:"method"`
				}
				json.Unmarshal(data, &m)
				if m.Method != "" {
					rmu.Lock()
					whitelisted++
					rmu.Unlock()
					write(fmt.Sprintf(`{"jsonrpc":"2.0","id":%s,"result":null}`, string(m.ID)))
				} else {
					replies <- string(data)
				}
			}
		}()
		write(fmt.Sprintf(`{"jsonrpc":"2.0","id":1,"method":"vipnode_connect","params":%s}`, signed(host, "vipnode_connect",
			pool.ConnectRequest{VipnodeVersion: "x", NodeInfo: ethnode.UserAgent{Kind: ethnode.Geth, IsFullNode: true}, NodeURI: "enode://" + nodeIDOf(host) + fmt.Sprintf("@10.9.0.%d:30303", k+1)})))
		select {
		case r := <-replies:
			if e := errOf(r); e != "" {
				fatal("host connect over websocket refused: %s", e)
			}
		case <-time.After(5 * time.Second):
			fatal("host connect over websocket: no reply")
		}
		// control: while the connection is open the host is called and returned
		e0, n0 := peerReq()
		rmu.Lock()
		w0 := whitelisted
		rmu.Unlock()
		// the host goes away
		wmu.Lock()
		switch mode {
		case "close-1000-normal", "close-1000-no-wait":
			conn.WriteControl(websocket.CloseMessage, websocket.FormatCloseMessage(websocket.CloseNormalClosure, "bye"), time.Now().Add(time.Second))
		case "close-1001-going-away":
			conn.WriteControl(websocket.CloseMessage, websocket.FormatCloseMessage(websocket.CloseGoingAway, ""), time.Now().Add(time.Second))
		case "close-no-status":
			conn.WriteControl(websocket.CloseMessage, []byte{}, time.Now().Add(time.Second))
		case "close-1008-policy":
			conn.WriteControl(websocket.CloseMessage, websocket.FormatCloseMessage(websocket.ClosePolicyViolation, "x"), time.Now().Add(time.Second))
		}
		wmu.Unlock()
		if mode != "close-1000-no-wait" {
			time.Sleep(30 * time.Millisecond)
		}
		conn.UnderlyingConn().Close()
		// requests that start after the close: give the server a moment to notice, then it must hold
		var e1 string
		var n1 int
		for t := 0; t < 40; t++ {
			e1, n1 = peerReq()
			if !strings.Contains(e1, "failed to call") && n1 == 0 {
				break
			}
			time.Sleep(50 * time.Millisecond)
		}
		obs = append(obs, map[string]interface{}{"mode": mode, "while_open": fmt.Sprintf("hosts=%d err=%q whitelist_calls=%d", n0, e0, w0), "after_close": fmt.Sprintf("hosts=%d err=%q", n1, e1)})
		_ = e0 // (the control reading is recorded in the case description; the pool tries a bounded number of candidates, earlier closed hosts among them)
		if strings.Contains(e1, "failed to call") || n1 != 0 {
			mon = append(mon, fmt.Sprintf("c09-closed-connection-called: two seconds after host %s went away (%s) the pool binary still sends whitelist calls to its connection: peer request answered hosts=%d error %q", host, mode, n1, e1))
		}
	}
	ctx.Emit(Case{I: i, Kind: "binary-websocket", Desc: map[string]interface{}{"closes": obs}, Monitor: mon})
}

// c09InflightReconnect: a whitelist call to host H is in flight on connection A (the host is slow
// to answer); H registers again on a new connection B; A is closed, so the pending call fails.
// H's live registration on B must survive that: it is still counted, and the next peer request
// calls it on B.
// stuckWriteCodec: the pool's calls to the host get stuck in the write (a connection that is
// dying: the peer no longer reads) and fail with a connection error once the connection closes.
type stuckWriteCodec struct {
	jsonrpc2.Codec
	addr    string
	mu      sync.Mutex
	stuck   bool
	arrived chan struct{}
	closed  chan struct{}
}

func (c *stuckWriteCodec) RemoteAddr() string { return c.addr }
func (c *stuckWriteCodec) WriteMessage(m *jsonrpc2.Message) error {
	c.mu.Lock()
	stuck := c.stuck && m.Request != nil
	c.mu.Unlock()
	if stuck {
		select {
		case c.arrived <- struct{}{}:
		default:
		}
		<-c.closed
		return io.ErrClosedPipe
	}
	return c.Codec.WriteMessage(m)
}

func c09InflightReconnect(ctx *Ctx, i int, drv int) {
	w := newWorld(worldCfg{Drv: drv, Price: "1000", IntervalNs: 60e9, Settle: true})
	defer w.Close()
	w.aliasAll()
	var mon []string
	if _, err := w.connect("c1", false, "geth", "", ""); err != nil {
		fatal("%v", err)
	}
	// connection A, built by hand so that the pool's side of it can get stuck
	c1, c2 := net.Pipe()
	agA := &FakeAgent{w: w, name: "h1", mode: "ack", conn: 0}
	srvA := &jsonrpc2.Server{}
	srvA.Register("vipnode_", agA)
	sc := &stuckWriteCodec{Codec: jsonrpc2.IOCodec(c1), addr: "10.0.0.5:1", arrived: make(chan struct{}, 1), closed: make(chan struct{})}
	poolSideA := &jsonrpc2.Remote{Codec: sc, Client: &jsonrpc2.Client{}, Server: w.server}
	cliSideA := &jsonrpc2.Remote{Codec: jsonrpc2.IOCodec(c2), Client: &jsonrpc2.Client{}, Server: srvA}
	go poolSideA.Serve()
	go cliSideA.Serve()
	a := &hostConn{agent: agA, poolSide: poolSideA, cliSide: cliSideA, c1: c1, c2: c2}
	w.mu.Lock()
	w.conns["h1"] = append(w.conns["h1"], a)
	w.mu.Unlock()
	if err := w.connectOn(a, "h1"); err != nil {
		fatal("connect h1: %v", err)
	}
	sc.mu.Lock()
	sc.stuck = true
	sc.mu.Unlock()
	done := make(chan error, 1)
	go func() {
		cctx, cancel := context.WithTimeout(context.Background(), 6*time.Second)
		defer cancel()
		_, err := w.peerCtx(cctx, "c1", 1, "")
		done <- err
	}()
	got := false
	select { // the pool's whitelist call is stuck in the write on A
	case <-sc.arrived:
		got = true
	case <-time.After(2 * time.Second):
	}
	b := w.newConn("h1", "10.0.0.5:2")
	errB := w.connectOn(b, "h1")
	// A goes away with the call still pending: the write fails, then the disconnect hook runs
	close(sc.closed)
	c1.Close()
	c2.Close()
	var errReq error
	select {
	case errReq = <-done:
	case <-time.After(8 * time.Second):
		mon = append(mon, "c09-request-hangs: the peer request whose whitelist call was pending on a closed connection did not return")
	}
	w.pool.CloseRemote(poolSideA)
	n := w.pool.NumRemotes()
	if errB == nil && n != 1 {
		mon = append(mon, fmt.Sprintf("c09-live-registration-lost: host h1 re-registered on a new connection while a call on its old one was pending; after the old one closed (the pending call failed: %v) the pool counts %d connected hosts, not 1", errReq, n))
	}
	w.takeCalls()
	r, err := w.peer("c1", 1, "")
	calls := w.takeCalls()
	onB := false
	for _, c := range calls {
		if c.Host == "h1#1" {
			onB = true
		}
	}
	if errB == nil && (err != nil || r == nil || len(r.Peers) != 1 || !onB) {
		mon = append(mon, fmt.Sprintf("c09-live-host-not-called: after the old connection closed, a peer request did not reach host h1 on its live connection (error %v, calls %v)", err, calls))
	}
	ctx.Emit(Case{I: i, Kind: "inflight-reconnect-" + driverNames[drv], Desc: map[string]interface{}{"call_stuck_on_old_connection": got,
		"in_flight_request_error": fmt.Sprint(errReq), "remotes_after": n}, Monitor: mon})
}

// hookSetNodeStore lets the harness act inside (and fail) the pool's SetNode calls.
type hookSetNodeStore struct {
	store.Store
	mu   sync.Mutex
	hook func(n store.Node) error
}

func (h *hookSetNodeStore) SetNode(n store.Node) error {
	h.mu.Lock()
	hook := h.hook
	h.mu.Unlock()
	if hook != nil {
		if err := hook(n); err != nil {
			return err
		}
	}
	return h.Store.SetNode(n)
}

// c09FailedReconnect: host H is registered on connection A and registers again on a new
// connection B; the store fails that registration (a full disk), and while it is failing A goes
// away. Whatever the pool makes of the failed attempt, A is closed: no request that starts later
// may call it, and H is counted as connected only if it can be reached on an open connection.
func c09FailedReconnect(ctx *Ctx, i int, drv int, closeDuring bool) {
	hs := &hookSetNodeStore{}
	w := newWorld(worldCfg{Drv: drv, Price: "1000", IntervalNs: 60e9, Settle: true, wrap: func(s store.Store) store.Store { hs.Store = s; return hs }})
	defer w.Close()
	w.aliasAll()
	var mon []string
	if _, err := w.connect("c1", false, "geth", "", ""); err != nil {
		fatal("%v", err)
	}
	a := w.newConn("h1", "10.0.0.5:1")
	if err := w.connectOn(a, "h1"); err != nil {
		fatal("connect h1: %v", err)
	}
	other := w.newConn("h2", "10.0.0.6:1")
	if err := w.connectOn(other, "h2"); err != nil {
		fatal("connect h2: %v", err)
	}
	closeA := func() {
		a.c1.Close()
		a.c2.Close()
		w.pool.CloseRemote(a.poolSide)
	}
	// the registry's history as the model's events (connections: A = 1, h2's = 2, B = 3); the
	// pool registers a host on its connection BEFORE it stores the record, so the failed attempt
	// is a registration as far as the registry goes
	items := []string{fmt.Sprintf("EvReg %s 1 1", cN(w.t.id("h1"))), fmt.Sprintf("EvReg %s 2 %s", cN(w.t.id("h2")), cNat(w.pool.NumRemotes()))}
	fired := false
	hs.mu.Lock()
	hs.hook = func(n store.Node) error {
		if string(n.ID) != nodeIDOf("h1") || fired {
			return nil
		}
		fired = true
		items = append(items, fmt.Sprintf("EvReg %s 3 %s", cN(w.t.id("h1")), cNat(w.pool.NumRemotes())))
		if closeDuring {
			closeA()
			items = append(items, fmt.Sprintf("EvClose 1 %s", cNat(w.pool.NumRemotes())))
		}
		return errors.New("write failed: no space left on device")
	}
	hs.mu.Unlock()
	b := w.newConn("h1", "10.0.0.5:2")
	errB := w.connectOn(b, "h1")
	if !closeDuring {
		closeA()
		items = append(items, fmt.Sprintf("EvClose 1 %s", cNat(w.pool.NumRemotes())))
	}
	n := w.pool.NumRemotes()
	w.takeCalls()
	cctx, cancel := context.WithTimeout(context.Background(), 8*time.Second)
	r, err := w.peerCtx(cctx, "c1", 3, "")
	cancel()
	calls := w.takeCalls()
	var where []string
	onA, onB := false, false
	for _, c := range calls {
		if c.Method != "whitelist" {
			continue
		}
		where = append(where, c.Host)
		if c.Host == "h1#0" {
			onA = true
		}
		if c.Host == "h1#1" {
			onB = true
		}
	}
	got := 0
	if r != nil {
		got = len(r.Peers)
	}
	when := "after the failed registration"
	if closeDuring {
		when = "while the store was failing the registration"
	}
	if onA {
		mon = append(mon, fmt.Sprintf("c09-dead-connection-called: host h1 registered again on a new connection, the store refused the registration (%v), its old connection closed %s; a peer request that started afterwards called the closed connection (calls %v, result %d hosts, error %v)", errB, when, where, got, err))
	}
	// h2 is connected; h1 counts only if it is reachable on its open connection
	if n == 2 && !onB {
		mon = append(mon, fmt.Sprintf("c09-count: the pool counts 2 connected hosts after h1's old connection closed %s and its new registration failed (%v); a request for hosts reached h1 on no open connection (calls %v)", when, errB, where))
	}
	if n < 1 || n > 2 {
		mon = append(mon, fmt.Sprintf("c09-count: the pool counts %d connected hosts; h2 is connected, h1 at most once", n))
	}
	var calledConns []int
	for _, h := range where {
		switch h {
		case "h1#0":
			calledConns = append(calledConns, 1)
		case "h2#0":
			calledConns = append(calledConns, 2)
		case "h1#1":
			calledConns = append(calledConns, 3)
		default:
			calledConns = append(calledConns, 99)
		}
	}
	items = append(items, "EvProbe "+cNs(calledConns))
	coq := ""
	if fired {
		coq = fmt.Sprintf("{| c9_evs := %s |}", cList(items))
	}
	ctx.Emit(Case{I: i, Kind: "failed-reconnect-" + driverNames[drv], Coq: coq, Desc: map[string]interface{}{"old_connection_closed": when, "reconnect_error": fmt.Sprint(errB), "store_failed": fired,
		"remotes_after": n, "calls": where}, Monitor: mon})
}

// c09OldConnectionKeepalive: host H registers on connection A, then again on B (A stays open);
// B closes: H's most recent registration is gone, so H cannot be instructed; H then sends a
// keep-alive over A, which is still open. A keep-alive is not a registration: H stays
// uninstructable until it registers again, and is not counted.
func c09OldConnectionKeepalive(ctx *Ctx, i int, drv int) {
	w := newWorld(worldCfg{Drv: drv, Price: "1000", IntervalNs: 60e9, Settle: true})
	defer w.Close()
	w.aliasAll()
	var mon []string
	if _, err := w.connect("c1", false, "geth", "", ""); err != nil {
		fatal("%v", err)
	}
	a := w.newConn("h1", "10.0.0.5:1")
	if err := w.connectOn(a, "h1"); err != nil {
		fatal("connect h1 on A: %v", err)
	}
	items := []string{fmt.Sprintf("EvReg %s 1 %s", cN(w.t.id("h1")), cNat(w.pool.NumRemotes()))}
	b := w.newConn("h1", "10.0.0.5:2")
	if err := w.connectOn(b, "h1"); err != nil {
		fatal("connect h1 on B: %v", err)
	}
	items = append(items, fmt.Sprintf("EvReg %s 2 %s", cN(w.t.id("h1")), cNat(w.pool.NumRemotes())))
	b.c1.Close()
	b.c2.Close()
	w.pool.CloseRemote(b.poolSide)
	items = append(items, fmt.Sprintf("EvClose 2 %s", cNat(w.pool.NumRemotes())))
	var results []string
	for k := 0; k < 2; k++ {
		id := nodeIDOf("h1")
		req := pool.UpdateRequest{BlockNumber: uint64(10 + k)}
		nonce := w.nextNonce()
		sig := w.sign(keyFor("h1"), "vipnode_update", id, nonce, req)
		var resp pool.UpdateResponse
		cctx, cancel := context.WithTimeout(context.Background(), 8*time.Second)
		err := a.cliSide.Call(cctx, &resp, "vipnode_update", sig, id, nonce, req)
		cancel()
		results = append(results, fmt.Sprint(err))
	}
	n := w.pool.NumRemotes()
	w.takeCalls()
	cctx, cancel := context.WithTimeout(context.Background(), 8*time.Second)
	r, err := w.peerCtx(cctx, "c1", 2, "")
	cancel()
	var where []string
	var called []int
	for _, c := range w.takeCalls() {
		if c.Method == "whitelist" {
			where = append(where, c.Host)
			called = append(called, map[string]int{"h1#0": 1, "h1#1": 2}[c.Host])
		}
	}
	items = append(items, "EvProbe "+cNs(called))
	got := 0
	if r != nil {
		got = len(r.Peers)
	}
	if n != 0 || len(where) > 0 || got > 0 {
		mon = append(mon, fmt.Sprintf("c09-old-connection-revived: host h1 registered on connection A, then on B; B closed; h1 then sent keep-alives over A (results %v). The pool counts %d connected hosts, a peer request called %v and returned %d hosts (error %v): the connection h1 most recently registered on is closed, so h1 cannot be instructed", results, n, where, got, err))
	}
	ctx.Emit(Case{I: i, Kind: "old-connection-keepalive-" + driverNames[drv], Coq: fmt.Sprintf("{| c9_evs := %s |}", cList(items)),
		Desc: map[string]interface{}{"keepalives_over_A": results, "remotes_after": n, "calls": where}, Monitor: mon})
}

// c09CloseWhileOwnRequestRuns: host B's connection ends while a request B itself sent over it is
// still being handled by the pool (its peer request waits for a slow host A). The end of a
// connection is reported to the registry when the serving loop returns (server.go): that must
// not wait for B's own handler -- B is uninstructable from the moment its connection is gone.
func c09CloseWhileOwnRequestRuns(ctx *Ctx, i int, drv int) {
	w := newWorld(worldCfg{Drv: drv, Price: "1000", IntervalNs: 60e9, Settle: true})
	defer w.Close()
	w.aliasAll()
	w.stallFor = 4 * time.Second
	var mon []string
	// host A: answers the whitelist instruction only after a long while
	a := w.newConn("h1", "10.0.0.5:1")
	if err := w.connectOn(a, "h1"); err != nil {
		fatal("connect h1: %v", err)
	}
	a.agent.mu.Lock()
	a.agent.mode = "stall"
	a.agent.mu.Unlock()
	// host B: served the way server.go serves a connection: Serve, then tell the registry
	c1, c2 := net.Pipe()
	agB := &FakeAgent{w: w, name: "h2", mode: "ack", conn: 0}
	srvB := &jsonrpc2.Server{}
	srvB.Register("vipnode_", agB)
	poolSideB := &jsonrpc2.Remote{Codec: addrCodec{jsonrpc2.IOCodec(c1), "10.0.0.6:1"}, Client: &jsonrpc2.Client{}, Server: w.server}
	cliSideB := &jsonrpc2.Remote{Codec: jsonrpc2.IOCodec(c2), Client: &jsonrpc2.Client{}, Server: srvB}
	served := make(chan struct{})
	go func() {
		poolSideB.Serve()
		w.pool.CloseRemote(poolSideB)
		close(served)
	}()
	go cliSideB.Serve()
	b := &hostConn{agent: agB, poolSide: poolSideB, cliSide: cliSideB, c1: c1, c2: c2}
	w.mu.Lock()
	w.conns["h2"] = append(w.conns["h2"], b)
	w.mu.Unlock()
	if err := w.connectOn(b, "h2"); err != nil {
		fatal("connect h2: %v", err)
	}
	before := w.pool.NumRemotes()
	w.takeCalls()
	// B asks for a peer: the pool instructs A and waits for its answer
	go func() {
		req := pool.PeerRequest{Num: 1, Kind: "geth"}
		nonce := w.nextNonce()
		sig := w.sign(keyFor("h2"), "vipnode_peer", nodeIDOf("h2"), nonce, req)
		var resp pool.PeerResponse
		cctx, cancel := context.WithTimeout(context.Background(), 8*time.Second)
		defer cancel()
		cliSideB.Call(cctx, &resp, "vipnode_peer", sig, nodeIDOf("h2"), nonce, req)
	}()
	instructed := false
	for k := 0; k < 200 && !instructed; k++ {
		time.Sleep(10 * time.Millisecond)
		w.mu.Lock()
		for _, c := range w.calls {
			if c.Method == "whitelist" {
				instructed = true
			}
		}
		w.mu.Unlock()
	}
	took := time.Duration(0)
	after := before
	if instructed {
		t0 := time.Now()
		c1.Close()
		c2.Close()
		for time.Since(t0) < 2*time.Second {
			if after = w.pool.NumRemotes(); after < before {
				break
			}
			time.Sleep(5 * time.Millisecond)
		}
		took = time.Since(t0)
		if after >= before {
			mon = append(mon, fmt.Sprintf("c09-close-not-reported-while-request-in-flight: host h2's connection was closed while its own peer request was still being handled (waiting for host h1): %s later the registry still holds %d entries (%d before the close): h2 stays instructable over a dead connection until its handler ends (%s driver)", took.Round(time.Millisecond), after, before, driverNames[drv]))
		}
	}
	select {
	case <-served:
	case <-time.After(7 * time.Second):
	}
	ctx.Emit(Case{I: i, Kind: "close-while-own-request-runs-" + driverNames[drv], Desc: map[string]interface{}{"instructed_slow_host": instructed, "registry_before": before, "registry_after": after, "reported_after_ms": took.Milliseconds()}, Monitor: mon})
}
