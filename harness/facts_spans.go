package main

import (
	"fmt"
	"go/ast"
	"go/token"
	"strings"
)

// poolMutexSpans: every stretch of pool/service.go during which the pool mutex p.mu is held
// (Lock ... Unlock in one statement list, or Lock; defer Unlock to the end of the function), and
// the operations inside those stretches that wait for somebody else: channel receives and sends,
// select, Service.Call, WaitGroup.Wait, time.Sleep (code started with `go` runs without the lock).
func poolMutexSpans(ctx *Ctx, b *strings.Builder) {
	_, svc := parseFile(ctx.Repo, "pool/service.go")
	spans, waits := 0, 0
	var where []string
	for _, d := range svc.Decls {
		fd, ok := d.(*ast.FuncDecl)
		if !ok || fd.Body == nil {
			continue
		}
		typ, recv := recvName(fd)
		if typ != "VipnodePool" {
			continue
		}
		blocking := func(n ast.Node) int {
			c := 0
			ast.Inspect(n, func(x ast.Node) bool {
				switch v := x.(type) {
				case *ast.GoStmt:
					return false
				case *ast.UnaryExpr:
					if v.Op == token.ARROW {
						c++
					}
				case *ast.SendStmt:
					c++
				case *ast.SelectStmt:
					c++
				case *ast.CallExpr:
					if s, ok := v.Fun.(*ast.SelectorExpr); ok && (s.Sel.Name == "Call" || s.Sel.Name == "Wait" || s.Sel.Name == "Sleep") {
						c++
					}
				}
				return true
			})
			return c
		}
		tillEnd := false
		var walk func(stmts []ast.Stmt, held bool) bool
		walk = func(stmts []ast.Stmt, held bool) bool {
			for _, st := range stmts {
				if es, ok := st.(*ast.ExprStmt); ok {
					if c, ok := es.X.(*ast.CallExpr); ok {
						if isSel(c.Fun, recv, "mu", "Lock") {
							spans++
							held = true
							continue
						}
						if isSel(c.Fun, recv, "mu", "Unlock") {
							held = false
							continue
						}
					}
				}
				if ds, ok := st.(*ast.DeferStmt); ok && isSel(ds.Call.Fun, recv, "mu", "Unlock") {
					tillEnd = true
					continue
				}
				if held || tillEnd {
					if k := blocking(st); k > 0 {
						waits += k
						where = append(where, fd.Name.Name)
					}
					continue
				}
				switch v := st.(type) {
				case *ast.BlockStmt:
					held = walk(v.List, held)
				case *ast.IfStmt:
					walk(v.Body.List, held)
					if eb, ok := v.Else.(*ast.BlockStmt); ok {
						walk(eb.List, held)
					}
				case *ast.ForStmt:
					walk(v.Body.List, held)
				case *ast.RangeStmt:
					walk(v.Body.List, held)
				case *ast.SwitchStmt:
					for _, cc := range v.Body.List {
						walk(cc.(*ast.CaseClause).Body, held)
					}
				}
			}
			return held
		}
		walk(fd.Body.List, false)
	}
	b.WriteString("(* pool/service.go: stretches holding the pool mutex, and waits for other parties inside them *)\n")
	fmt.Fprintf(b, "Definition pool_mutex_spans : Z := %d.\n", spans)
	fmt.Fprintf(b, "Definition pool_mutex_waits_inside : Z := %d. (* %s *)\n\n", waits, strings.Join(where, " "))
}
