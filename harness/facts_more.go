package main

import (
	"context"
	"fmt"
	"go/ast"
	"go/printer"
	"go/token"
	"reflect"
	"sort"
	"strconv"
	"strings"
	"unicode"
	"unicode/utf8"

	"github.com/vipnode/vipnode/v2/agent"
	"github.com/vipnode/vipnode/v2/pool"
	"github.com/vipnode/vipnode/v2/pool/payment"
	"github.com/vipnode/vipnode/v2/pool/status"
)

// GMethod is one exported method of a receiver as Go's reflection reports it.
type GMethod struct {
	Name   string   `json:"name"`
	Args   []string `json:"args"` // kinds of the positional parameters (context excluded)
	ArgsOK bool     `json:"args_exported_or_builtin"`
	RetOK  bool     `json:"return_layout_supported"`
}

var (
	typeOfError   = reflect.TypeOf((*error)(nil)).Elem()
	typeOfContext = reflect.TypeOf((*context.Context)(nil)).Elem()
)

func exportedOrBuiltin(t reflect.Type) bool {
	for t.Kind() == reflect.Ptr {
		t = t.Elem()
	}
	r, _ := utf8.DecodeRuneInString(t.Name())
	return unicode.IsUpper(r) || t.PkgPath() == ""
}

func kindName(t reflect.Type) string {
	switch t.Kind() {
	case reflect.String:
		return "KString"
	case reflect.Int:
		return "KInt"
	case reflect.Int64:
		return "KInt64"
	case reflect.Uint64:
		return "KUint64"
	case reflect.Bool:
		return "KBool"
	case reflect.Float64, reflect.Float32:
		return "KFloat"
	case reflect.Struct:
		return "KStruct"
	case reflect.Slice:
		return "KSlice"
	case reflect.Map:
		return "KMap"
	case reflect.Ptr:
		return "KPtr"
	}
	return "KIface"
}

// methodTable lists the exported methods of a receiver by Go reflection (not through jsonrpc2).
func methodTable(receiver interface{}) []GMethod {
	t := reflect.TypeOf(receiver)
	var out []GMethod
	for i := 0; i < t.NumMethod(); i++ {
		m := t.Method(i)
		if m.PkgPath != "" {
			continue
		}
		g := GMethod{Name: m.Name, ArgsOK: true, Args: []string{}}
		for a := 1; a < m.Type.NumIn(); a++ {
			at := m.Type.In(a)
			if !exportedOrBuiltin(at) {
				g.ArgsOK = false
			}
			if at == typeOfContext {
				continue
			}
			g.Args = append(g.Args, kindName(at))
		}
		switch m.Type.NumOut() {
		case 1: // (no production receiver has a method without results; the registry refuses those,
			// although the comment on methodErrPos lists () as supported - outside the properties)
			g.RetOK = true
		case 2:
			g.RetOK = m.Type.Out(1) == typeOfError
		}
		out = append(out, g)
	}
	sort.Slice(out, func(i, j int) bool { return out[i].Name < out[j].Name })
	return out
}

func cString(s string) string { return "\"" + strings.ReplaceAll(s, "\"", "\"\"") + "\"" }

func gmethodsCoq(ms []GMethod) string {
	var items []string
	for _, m := range ms {
		items = append(items, fmt.Sprintf("{| gm_name := %s; gm_args := [%s]; gm_args_ok := %s; gm_ret_ok := %s |}",
			cString(m.Name), strings.Join(m.Args, "; "), cBool(m.ArgsOK), cBool(m.RetOK)))
	}
	return "[" + strings.Join(items, ";\n    ") + "]"
}

func stringsCoq(l []string) string {
	q := make([]string, len(l))
	for i, s := range l {
		q[i] = cString(s)
	}
	return "[" + strings.Join(q, "; ") + "]"
}

// registerCalls reads the literal arguments of X.Register(prefix, receiver, allow...) calls.
func registerCalls(repo, file string) [][]string {
	_, f := parseFile(repo, file)
	var out [][]string
	ast.Inspect(f, func(n ast.Node) bool {
		c, ok := n.(*ast.CallExpr)
		if !ok {
			return true
		}
		s, ok := c.Fun.(*ast.SelectorExpr)
		if !ok || (s.Sel.Name != "Register" && s.Sel.Name != "RegisterMethod") || len(c.Args) < 2 {
			return true
		}
		row := []string{s.Sel.Name}
		for i, a := range c.Args {
			switch v := a.(type) {
			case *ast.BasicLit:
				u, _ := strconv.Unquote(v.Value)
				row = append(row, u)
			case *ast.Ident:
				row = append(row, "$"+v.Name)
			default:
				row = append(row, fmt.Sprintf("$arg%d", i))
			}
		}
		out = append(out, row)
		return true
	})
	return out
}

// productionRegistrations: (prefix, receiver variable, allow-list) of pool.go's Register calls.
type prodReg struct {
	Prefix, Recv string
	Allow        []string
}

func productionRegistrations(repo string) []prodReg {
	var out []prodReg
	for _, row := range registerCalls(repo, "pool.go") {
		if row[0] != "Register" || len(row) < 3 {
			continue
		}
		out = append(out, prodReg{Prefix: row[1], Recv: strings.TrimPrefix(row[2], "$"), Allow: row[3:]})
	}
	return out
}

func factsMore(ctx *Ctx, b *strings.Builder) {
	// production receivers by reflection
	recv := map[string][]GMethod{
		"p":         methodTable(&pool.VipnodePool{}),
		"payment":   methodTable(&payment.PaymentService{}),
		"dashboard": methodTable(&status.PoolStatus{}),
	}
	b.WriteString("(* exported methods of the production receivers, by Go reflection *)\n")
	for _, k := range []string{"p", "payment", "dashboard"} {
		fmt.Fprintf(b, "Definition methods_%s : list gmethod :=\n   %s.\n", k, gmethodsCoq(recv[k]))
	}
	fmt.Fprintf(b, "Definition methods_agent : list gmethod :=\n   %s.\n", gmethodsCoq(methodTable(&agent.Agent{})))
	b.WriteString("(* the Register calls of pool.go: prefix, receiver, allow-list literals *)\n")
	var rows []string
	for _, r := range productionRegistrations(ctx.Repo) {
		if _, ok := recv[r.Recv]; !ok {
			rows = append(rows, fmt.Sprintf("(%s, [], %s) (* unknown receiver %s *)", cString(r.Prefix), stringsCoq(r.Allow), r.Recv))
			continue
		}
		rows = append(rows, fmt.Sprintf("(%s, methods_%s, %s)", cString(r.Prefix), r.Recv, stringsCoq(r.Allow)))
	}
	fmt.Fprintf(b, "Definition pool_registrations : list (string * list gmethod * list string) :=\n  [%s].\n", strings.Join(rows, ";\n   "))
	// agent.go: RegisterMethod(rpcName, receiver, methodName)
	var arows []string
	for _, row := range registerCalls(ctx.Repo, "agent.go") {
		if row[0] == "RegisterMethod" && len(row) >= 4 {
			arows = append(arows, fmt.Sprintf("(%s, %s)", cString(row[1]), cString(row[3])))
		}
	}
	fmt.Fprintf(b, "Definition agent_registrations : list (string * string) :=\n  [%s].\n\n", strings.Join(arows, "; "))
	sitesFacts(ctx, b)
}

// ---------- panic-capable expressions in the network-facing code ----------

var networkFacingFiles = []string{
	"jsonrpc2/remote.go", "jsonrpc2/server.go", "jsonrpc2/method.go", "jsonrpc2/borrowed_eth.go", "jsonrpc2/types.go",
	"jsonrpc2/http.go", "jsonrpc2/codecs.go", "jsonrpc2/pending.go", "jsonrpc2/local.go",
	"request/node.go", "request/address.go", "request/request.go",
	"pool/service.go", "pool/nodeuri.go", "pool/payment/service.go", "pool/status/status.go", "pool/balance/perinterval.go",
	"ethnode/nodeuri.go", "ethnode/rpc.go", "internal/pretty/abbrev.go", "agent/agent.go",
}

type site struct{ File, Func, Kind, Expr string }

func exprText(fset *token.FileSet, n ast.Node) string {
	var b strings.Builder
	printer.Fprint(&b, fset, n)
	return strings.Join(strings.Fields(b.String()), " ")
}

// panicSites lists slice expressions, index expressions on non-map-literal operands, unchecked
// type assertions, explicit panics and makes with a computed size, per function.
func panicSites(repo string) []site {
	var out []site
	for _, file := range networkFacingFiles {
		fset, f := parseFile(repo, file)
		// names of variables / fields that hold maps in this file (syntactic): indexing them cannot panic
		maps := map[string]bool{}
		isMapExpr := func(e ast.Expr) bool {
			switch v := e.(type) {
			case *ast.MapType:
				return true
			case *ast.CompositeLit:
				_, ok := v.Type.(*ast.MapType)
				return ok
			case *ast.CallExpr:
				if id, ok := v.Fun.(*ast.Ident); ok && id.Name == "make" && len(v.Args) > 0 {
					_, ok := v.Args[0].(*ast.MapType)
					return ok
				}
			}
			return false
		}
		ast.Inspect(f, func(n ast.Node) bool {
			switch v := n.(type) {
			case *ast.Field:
				if isMapExpr(v.Type) {
					for _, nm := range v.Names {
						maps[nm.Name] = true
					}
				}
			case *ast.ValueSpec:
				if v.Type != nil && isMapExpr(v.Type) {
					for _, nm := range v.Names {
						maps[nm.Name] = true
					}
				}
				for k, val := range v.Values {
					if isMapExpr(val) && k < len(v.Names) {
						maps[v.Names[k].Name] = true
					}
				}
			case *ast.AssignStmt:
				for k, val := range v.Rhs {
					if isMapExpr(val) && k < len(v.Lhs) {
						if id, ok := v.Lhs[k].(*ast.Ident); ok {
							maps[id.Name] = true
						}
					}
				}
			}
			return true
		})
		baseName := func(e ast.Expr) string {
			switch v := e.(type) {
			case *ast.Ident:
				return v.Name
			case *ast.SelectorExpr:
				return v.Sel.Name
			}
			return ""
		}
		lenBased := func(e ast.Expr) bool {
			ok := true
			ast.Inspect(e, func(n ast.Node) bool {
				switch v := n.(type) {
				case *ast.CallExpr:
					if id, isId := v.Fun.(*ast.Ident); isId && id.Name == "len" {
						return false // don't look inside len(...)
					}
					ok = false
				case *ast.Ident:
					ok = false
				case *ast.BinaryExpr:
					if v.Op != token.ADD {
						ok = false
					}
				}
				return ok
			})
			return ok
		}
		for _, d := range f.Decls {
			fd, ok := d.(*ast.FuncDecl)
			if !ok || fd.Body == nil {
				continue
			}
			checked := map[ast.Node]bool{}
			ast.Inspect(fd.Body, func(n ast.Node) bool {
				// v, ok := x.(T) and switch x.(type) are checked assertions
				switch v := n.(type) {
				case *ast.AssignStmt:
					if len(v.Lhs) == 2 && len(v.Rhs) == 1 {
						if ta, ok := v.Rhs[0].(*ast.TypeAssertExpr); ok {
							checked[ta] = true
						}
					}
				case *ast.ValueSpec:
					if len(v.Names) == 2 && len(v.Values) == 1 {
						if ta, ok := v.Values[0].(*ast.TypeAssertExpr); ok {
							checked[ta] = true
						}
					}
				case *ast.TypeSwitchStmt:
					ast.Inspect(v.Assign, func(x ast.Node) bool {
						if ta, ok := x.(*ast.TypeAssertExpr); ok {
							checked[ta] = true
						}
						return true
					})
				}
				return true
			})
			fn := fd.Name.Name
			if typ, _ := recvName(fd); typ != "" {
				fn = typ + "." + fn
			}
			ast.Inspect(fd.Body, func(n ast.Node) bool {
				switch v := n.(type) {
				case *ast.SliceExpr:
					out = append(out, site{file, fn, "slice", exprText(fset, v)})
				case *ast.IndexExpr:
					if !maps[baseName(v.X)] {
						out = append(out, site{file, fn, "index", exprText(fset, v)})
					}
				case *ast.TypeAssertExpr:
					if !checked[v] && v.Type != nil {
						out = append(out, site{file, fn, "assert", exprText(fset, v)})
					}
				case *ast.CallExpr:
					if id, ok := v.Fun.(*ast.Ident); ok {
						if id.Name == "panic" {
							out = append(out, site{file, fn, "panic", exprText(fset, v)})
						}
						if id.Name == "make" && len(v.Args) >= 2 {
							if _, lit := v.Args[len(v.Args)-1].(*ast.BasicLit); !lit && !lenBased(v.Args[len(v.Args)-1]) {
								out = append(out, site{file, fn, "make", exprText(fset, v)})
							}
						}
					}
				}
				return true
			})
		}
	}
	sort.Slice(out, func(i, j int) bool {
		a, b := out[i], out[j]
		if a.File != b.File {
			return a.File < b.File
		}
		if a.Func != b.Func {
			return a.Func < b.Func
		}
		if a.Kind != b.Kind {
			return a.Kind < b.Kind
		}
		return a.Expr < b.Expr
	})
	return out
}

func sitesFacts(ctx *Ctx, b *strings.Builder) {
	b.WriteString("(* panic-capable expressions in the network-facing functions: (file, function, kind, expression) *)\n")
	var rows []string
	for _, s := range panicSites(ctx.Repo) {
		rows = append(rows, fmt.Sprintf("(%s, %s, %s, %s)", cString(s.File), cString(s.Func), cString(s.Kind), cString(s.Expr)))
	}
	fmt.Fprintf(b, "Definition panic_sites : list (string * string * string * string) :=\n  [%s].\n\n", strings.Join(rows, ";\n   "))
}
