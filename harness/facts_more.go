package main

import "strings"

func factsMore(ctx *Ctx, b *strings.Builder) {}
