package main

import (
	"fmt"
	"go/ast"
	"go/token"
	"path/filepath"
	"sort"
	"strings"
)

// decodeFacts: the persistent driver decodes stored records with gob, which leaves fields that are
// absent from the stored bytes (zero values are never stored) as they are in the target. A target
// that outlives one read -- declared outside the transaction closure that update() may run
// again, or outside the loop whose iterations each decode into it -- carries the previous read's
// fields into the next (D31, and the seeded changes C02-r8, C10-r8, C19-r8, C13-r10). The fact:
// every value handed to getItem in pool/store/badger is declared inside the innermost function
// literal AND the innermost loop body around the call, or is reset (x = T{}) in the same block
// before the call. (loopItem resets its target itself.) Offenders are listed by function and name.
func decodeFacts(ctx *Ctx, b *strings.Builder) {
	var offenders []string
	files, _ := filepath.Glob(filepath.Join(ctx.Repo, "pool/store/badger", "*.go"))
	sort.Strings(files)
	for _, path := range files {
		if strings.HasSuffix(path, "_test.go") {
			continue
		}
		rel, _ := filepath.Rel(ctx.Repo, path)
		_, f := parseFile(ctx.Repo, rel)
		for _, d := range f.Decls {
			fd, ok := d.(*ast.FuncDecl)
			if !ok || fd.Body == nil {
				continue
			}
			// walk with a stack of enclosing nodes
			var stack []ast.Node
			ast.Inspect(fd.Body, func(n ast.Node) bool {
				if n == nil {
					stack = stack[:len(stack)-1]
					return true
				}
				stack = append(stack, n)
				call, ok := n.(*ast.CallExpr)
				if !ok {
					return true
				}
				id, ok := call.Fun.(*ast.Ident)
				if !ok || id.Name != "getItem" || len(call.Args) != 3 {
					return true
				}
				ue, ok := call.Args[2].(*ast.UnaryExpr)
				if !ok || ue.Op != token.AND {
					return true
				}
				target, ok := ue.X.(*ast.Ident)
				if !ok || target.Obj == nil {
					return true
				}
				declPos := target.Obj.Pos()
				// the innermost function literal and loop body around the call
				var scope ast.Node = fd.Body
				for k, s := range stack {
					switch v := s.(type) {
					case *ast.FuncLit:
						// only closures that may run more than once: the argument of the driver's
						// retrying update() (a read-only View closure runs once per call)
						if k > 0 {
							if pc, ok := stack[k-1].(*ast.CallExpr); ok {
								if se, ok := pc.Fun.(*ast.SelectorExpr); ok && se.Sel.Name == "update" {
									scope = v.Body
								}
							}
						}
					case *ast.ForStmt:
						scope = v.Body
					case *ast.RangeStmt:
						scope = v.Body
					}
				}
				inside := declPos >= scope.Pos() && declPos <= scope.End()
				if inside {
					return true
				}
				// hoisted: accepted only if the same block resets it before the call
				reset := false
				if blk, ok := scope.(*ast.BlockStmt); ok {
					for _, st := range blk.List {
						if st.Pos() > call.Pos() {
							break
						}
						if as, ok := st.(*ast.AssignStmt); ok && len(as.Lhs) == 1 && as.Tok == token.ASSIGN {
							if l, ok := as.Lhs[0].(*ast.Ident); ok && l.Name == target.Name {
								if cl, ok := as.Rhs[0].(*ast.CompositeLit); ok && len(cl.Elts) == 0 {
									reset = true
								}
							}
						}
					}
				}
				// a function without closures or loops around the call reads once: nothing to carry over
				once := scope == ast.Node(fd.Body)
				if !reset && !once {
					offenders = append(offenders, fd.Name.Name+":"+target.Name)
				}
				return true
			})
		}
	}
	b.WriteString("(* pool/store/badger: values decoded into by getItem that outlive one read (declared outside the retried closure / the loop around the call, and not reset) *)\n")
	var items []string
	for _, o := range offenders {
		items = append(items, fmt.Sprintf("%q", o))
	}
	fmt.Fprintf(b, "Definition badger_stale_decode_targets : list string := [%s].\n\n", strings.Join(items, "; "))
}
