package main

import (
	"bufio"
	"bytes"
	"encoding/gob"
	"encoding/json"
	"fmt"
	"io/ioutil"
	"math/big"
	"math/rand"
	"os"
	"os/exec"
	"strings"
	"sync"
	"sync/atomic"
	"time"

	"github.com/dgraph-io/badger/v2"
	"github.com/vipnode/vipnode/v2/pool/store"
	badgerstore "github.com/vipnode/vipnode/v2/pool/store/badger"
)

func init() {
	commands["c13golden"] = runC13Golden
	commands["c13"] = runC13
	commands["c13child"] = runC13Child
}

// production options (synchronous writes), small tables so that opening is quick
func badgerOptsSync(dir string) badger.Options {
	return badgerOpts(dir).WithSyncWrites(true)
}

type c13Ack struct {
	K   int    `json:"k"`
	Now int64  `json:"now"`
	Op  string `json:"op"`
	Obs string `json:"obs"`
	Prj string `json:"proj"`
}

// runC13Child applies a script to the database in -dir, announcing and acknowledging every
// operation on stdout; the parent kills it at a moment of its choosing.
func runC13Child(ctx *Ctx) {
	raw, err := ioutil.ReadFile(ctx.Script)
	if err != nil {
		fatal("%v", err)
	}
	var ops []*SOp
	if err := json.Unmarshal(raw, &ops); err != nil {
		fatal("%v", err)
	}
	s, err := retryOpen(badgerstore.Open, badgerOptsSync(ctx.Dir))
	if err != nil {
		fatal("child open: %v", err)
	}
	st := &openStore{Store: s, drv: drvBdg, dir: ctx.Dir}
	t := newInterner()
	w := bufio.NewWriter(os.Stdout)
	fmt.Fprintln(w, "READY")
	w.Flush()
	for k, o := range ops {
		o.Now = time.Now().UnixNano()
		fmt.Fprintf(w, "START %d %d\n", k, o.Now)
		w.Flush()
		opCoq, obsCoq, proj := applySOp(st, t, o)
		b, _ := json.Marshal(c13Ack{K: k, Now: o.Now, Op: opCoq, Obs: obsCoq, Prj: proj})
		fmt.Fprintf(w, "ACK %s\n", b)
		w.Flush()
	}
	fmt.Fprintln(w, "DONE")
	w.Flush()
	// stay alive until killed so that "kill after the last ack" is a kill, not a clean exit
	time.Sleep(time.Hour)
}

// probes reads the whole observable state of a store.
func c13Probes(st *openStore, t *interner, extra []*SOp) (items []string, done []*SOp) {
	var ps []*SOp
	for _, n := range nodeAlphabet {
		ps = append(ps, &SOp{Op: "GetNode", ID: n}, &SOp{Op: "NodePeers", ID: n}, &SOp{Op: "GetNodeBal", ID: n})
	}
	for _, a := range append([]string{""}, acctAlphabet...) {
		ps = append(ps, &SOp{Op: "GetAcctBal", Acct: a}, &SOp{Op: "GetAcctNodes", Acct: a})
	}
	ps = append(ps, &SOp{Op: "Stats"}, &SOp{Op: "ActiveHosts", Limit: 0})
	ps = append(ps, extra...)
	for _, p := range ps {
		opCoq, obsCoq, _ := applySOp(st, t, p)
		items = append(items, fmt.Sprintf("(%s, %s, %s)", cZ(p.Now), opCoq, obsCoq))
		done = append(done, p)
	}
	return
}

type c13Desc struct {
	Mode      string `json:"mode"`
	Script    []*SOp `json:"script"`
	Acked     int    `json:"acked"`
	Inflight  *SOp   `json:"inflight,omitempty"`
	KillAt    string `json:"kill_at,omitempty"`
	Downgrade *int   `json:"downgrade_to,omitempty"`
	OpenErr   string `json:"open_error,omitempty"`
	Probes    []*SOp `json:"probes,omitempty"`
}

func c13Case(acked []string, inflight string, downgrade string, openOK bool, probes []string) string {
	return fmt.Sprintf("{| c13_X := %s; c13_E := %s; c13_latest := 2; c13_acked := %s; c13_inflight := %s; c13_downgrade := %s; c13_open_ok := %s; c13_probes := %s |}",
		cZ(int64(store.ExpireInterval)), cZ(int64(store.ExpireNonce)), cList(acked), inflight, downgrade, cBool(openOK), cList(probes))
}

func genScript(rng *rand.Rand, n int, reopen bool) []*SOp {
	var ops []*SOp
	for k := 0; k < n; k++ {
		o := genSOp(rng, k, reopen)
		if !reopen && o.Op == "Reopen" {
			o = &SOp{Op: "Stats"}
		}
		ops = append(ops, o)
	}
	return ops
}

func opCoqOnly(t *interner, o *SOp) string {
	// render the model operation without executing it (for the in-flight operation)
	switch o.Op {
	case "CheckNonce":
		return fmt.Sprintf("CheckNonce %s %s", cN(t.id(o.ID)), cZ(o.Nonce))
	case "GetNode":
		return "GetNode " + cN(t.id(o.ID))
	case "SetNode":
		n := store.Node{ID: store.NodeID(o.ID), URI: o.URI, LastSeen: time.Unix(0, o.Now-o.AgeNs), Kind: o.Kind,
			IsHost: o.Host, Payout: store.Account(o.Payout), BlockNumber: o.Block}
		return "SetNode " + t.nodeCoq(n)
	case "ActiveHosts":
		return fmt.Sprintf("ActiveHosts %s %s", cN(t.id(o.Kind)), cZ(int64(o.Limit)))
	case "NodePeers":
		return "NodePeers " + cN(t.id(o.ID))
	case "UpdatePeers":
		return fmt.Sprintf("UpdatePeers %s %s %s", cN(t.id(o.ID)), t.idsCoq(o.Peers), cN(int(o.Block)))
	case "GetNodeBal":
		return "GetNodeBal " + cN(t.id(o.ID))
	case "AddNodeBal":
		amt, _ := new(big.Int).SetString(o.Amount, 10)
		return fmt.Sprintf("AddNodeBal %s %s", cN(t.id(o.ID)), cBig(amt))
	case "GetAcctBal":
		return "GetAcctBal " + cN(t.id(o.Acct))
	case "AddAcctBal":
		amt, _ := new(big.Int).SetString(o.Amount, 10)
		return fmt.Sprintf("AddAcctBal %s %s", cN(t.id(o.Acct)), cBig(amt))
	case "AddAcctNode":
		return fmt.Sprintf("AddAcctNode %s %s", cN(t.id(o.Acct)), cN(t.id(o.ID)))
	case "IsAcctNode":
		return fmt.Sprintf("IsAcctNode %s %s", cN(t.id(o.Acct)), cN(t.id(o.ID)))
	case "GetAcctNodes":
		return "GetAcctNodes " + cN(t.id(o.Acct))
	case "Stats":
		return "Stats"
	case "Advance":
		return "Advance " + cZ(o.D)
	}
	return "Reopen"
}

func runC13(ctx *Ctx) {
	idx := 0
	var wg sync.WaitGroup
	sem := make(chan struct{}, 12)
	spawn := func(f func()) {
		wg.Add(1)
		sem <- struct{}{}
		go func() { defer wg.Done(); defer func() { <-sem }(); f() }()
	}

	// (a) close/reopen inserted anywhere in a history
	for c := 0; c < ctx.N(60, 1500); c++ {
		i := idx
		idx++
		if !ctx.Want(i) {
			continue
		}
		spawn(func() {
			rng := ctx.Sub(i)
			ops := genScript(rng, 10+rng.Intn(25), false)
			if lc := c12Lifecycles(); i%5 == 4 {
				// a node and an account with unusual names, their whole life, with restarts in between
				ops = lc[(i/5)%len(lc)]
			} else if co := c12Corpus(); i%5 == 3 && i/5 < len(co) {
				ops = co[i/5]
			}
			// reopen after random operations
			var script []*SOp
			for _, o := range ops {
				script = append(script, o)
				if rng.Intn(4) == 0 {
					script = append(script, &SOp{Op: "Reopen"})
				}
			}
			st := newStore(drvBdg)
			defer st.Destroy()
			t := newInterner()
			var acked []string
			var done []*SOp
			for _, o := range script {
				c := *o
				opCoq, obsCoq, _ := applySOp(st, t, &c)
				acked = append(acked, fmt.Sprintf("(%s, %s, %s)", cZ(c.Now), opCoq, obsCoq))
				done = append(done, &c)
			}
			st.Reopen()
			probes, pd := c13Probes(st, t, nil)
			var mon []string
			for _, d := range append(append([]*SOp{}, done...), pd...) {
				if d.Bad != "" {
					mon = append(mon, strings.Replace(d.Bad, "c12-peer-record", "c13-peer-record", 1))
					break
				}
			}
			ctx.Emit(Case{I: i, Kind: "reopen", Coq: c13Case(acked, "None", "None", true, probes),
				Desc: c13Desc{Mode: "reopen", Script: done, Acked: len(done), Probes: pd}, Monitor: mon})
		})
	}

	// (b) SIGKILL of a child process during or between operations
	for c := 0; c < ctx.N(24, 500); c++ {
		i := idx
		idx++
		if !ctx.Want(i) {
			continue
		}
		spawn(func() { c13Kill(ctx, i) })
	}

	// (c) older on-disk formats
	for c := 0; c < ctx.N(16, 200); c++ {
		i := idx
		idx++
		if !ctx.Want(i) {
			continue
		}
		spawn(func() { c13Migrate(ctx, i) })
	}
	// (c') older formats with many identities in the nonce table
	for c := 0; c < ctx.N(2, 12); c++ {
		i := idx
		idx++
		if !ctx.Want(i) {
			continue
		}
		n := []int{150, 40, 260, 101, 99, 1000}[c%6]
		spawn(func() { c13MigrateLarge(ctx, i, n) })
	}
	// (e) a crash right after every commit the database ever made
	for c := 0; c < ctx.N(20, 400); c++ {
		i := idx
		idx++
		if !ctx.Want(i) {
			continue
		}
		spawn(func() { c13CommitPoints(ctx, i) })
	}
	wg.Wait()

	// (d) concurrent readers during multi-key commits (monitor only)
	for c := 0; c < ctx.N(2, 20); c++ {
		i := idx
		idx++
		if !ctx.Want(i) {
			continue
		}
		c13Readers(ctx, i)
	}
	// (f) a database written by the pinned driver, opened by the current one
	if ctx.Want(100000) {
		c13Golden(ctx, 100000)
	}
	// (g) acknowledged writes under heavy contention on one record
	if ctx.Want(100001) {
		contendedWrites(ctx, 100001, "c13")
	}
}

func c13Kill(ctx *Ctx, i int) {
	rng := ctx.Sub(i)
	script := genScript(rng, 8+rng.Intn(22), false)
	dir, _ := ioutil.TempDir("", "vharness-kill")
	defer os.RemoveAll(dir)
	sf := dir + ".json"
	b, _ := json.Marshal(script)
	ioutil.WriteFile(sf, b, 0600)
	defer os.Remove(sf)
	cmd := exec.Command(os.Args[0], "c13child", "-dir", dir, "-script", sf)
	stdout, _ := cmd.StdoutPipe()
	cmd.Stderr = os.Stderr
	if err := cmd.Start(); err != nil {
		fatal("child start: %v", err)
	}
	killK := rng.Intn(len(script))
	onStart := rng.Intn(2) == 0 // kill as the operation starts (racing it) or after its ack
	delay := time.Duration(rng.Intn(1500)) * time.Microsecond
	var acks []c13Ack
	started := -1
	var startNow int64
	sc := bufio.NewScanner(stdout)
	sc.Buffer(make([]byte, 1<<20), 1<<24)
	killed := false
	kill := func() {
		if !killed {
			killed = true
			time.Sleep(delay)
			cmd.Process.Kill()
		}
	}
	for sc.Scan() {
		line := sc.Text()
		switch {
		case strings.HasPrefix(line, "START "):
			fmt.Sscanf(line, "START %d %d", &started, &startNow)
			if onStart && started == killK {
				go kill()
			}
		case strings.HasPrefix(line, "ACK "):
			var a c13Ack
			json.Unmarshal([]byte(line[4:]), &a)
			acks = append(acks, a)
			if !onStart && a.K == killK {
				go kill()
			}
		case line == "DONE":
			go kill()
		}
	}
	cmd.Wait()
	// recover
	t := newInterner()
	var acked []string
	for _, a := range acks {
		acked = append(acked, fmt.Sprintf("(%s, %s, %s)", cZ(a.Now), a.Op, a.Obs))
	}
	s, err := retryOpen(badgerstore.Open, badgerOptsSync(dir))
	desc := c13Desc{Mode: "kill", Script: script, Acked: len(acks),
		KillAt: fmt.Sprintf("op %d, %s, +%s", killK, map[bool]string{true: "as it starts", false: "after its ack"}[onStart], delay)}
	if err != nil {
		desc.OpenErr = err.Error()
		ctx.Emit(Case{I: i, Kind: "kill", Coq: c13Case(acked, "None", "None", false, nil), Desc: desc,
			Monitor: []string{"c13-reopen-after-kill-failed: " + err.Error()}})
		return
	}
	st := &openStore{Store: s, drv: drvBdg, dir: dir}
	defer s.Close()
	inflight := "None"
	if started >= 0 && started == len(acks) && started < len(script) {
		o := *script[started]
		o.Now = startNow
		if o.Op == "UpdatePeers" {
			// if the keep-alive was committed, the clock value it used is the node's LastSeen
			if n, e := st.GetNode(store.NodeID(o.ID)); e == nil {
				o.Now = n.LastSeen.UnixNano()
			}
		}
		inflight = fmt.Sprintf("(Some (%s, %s))", cZ(o.Now), opCoqOnly(t, &o))
		desc.Inflight = &o
	}
	probes, pd := c13Probes(st, t, nil)
	desc.Probes = pd
	ctx.Emit(Case{I: i, Kind: "kill", Coq: c13Case(acked, inflight, "None", true, probes), Desc: desc})
}

func c13Migrate(ctx *Ctx, i int) {
	rng := ctx.Sub(i)
	script := genScript(rng, 8+rng.Intn(20), false)
	// make sure there is an accepted nonce to look for afterwards
	nonce := time.Now().UnixNano() - 5e6
	script = append(script, &SOp{Op: "CheckNonce", ID: "n1", Nonce: nonce})
	st := newStore(drvBdg)
	defer func() { os.RemoveAll(st.dir) }()
	t := newInterner()
	var acked []string
	var done []*SOp
	for _, o := range script {
		c := *o
		opCoq, obsCoq, _ := applySOp(st, t, &c)
		acked = append(acked, fmt.Sprintf("(%s, %s, %s)", cZ(c.Now), opCoq, obsCoq))
		done = append(done, &c)
	}
	// rewrite the format version underneath the driver
	ver := []int{-1, 0, 1, 2, 3}[rng.Intn(5)] // -1: remove the key (formats before versioning)
	db := st.Store.(interface{ VerifDB() *badger.DB }).VerifDB()
	err := db.Update(func(txn *badger.Txn) error {
		key := []byte("vip:version")
		if ver < 0 {
			return txn.Delete(key)
		}
		var buf bytes.Buffer
		gob.NewEncoder(&buf).Encode(&ver)
		return txn.Set(key, buf.Bytes())
	})
	if err != nil {
		fatal("downgrade: %v", err)
	}
	st.Store.Close()
	mv := ver
	if mv < 0 {
		mv = 0
	}
	desc := c13Desc{Mode: "migrate", Script: done, Acked: len(done), Downgrade: &ver}
	s, err := retryOpen(badgerstore.Open, badgerOpts(st.dir))
	if err != nil {
		desc.OpenErr = err.Error()
		ctx.Emit(Case{I: i, Kind: fmt.Sprintf("migrate-from-%d", ver), Coq: c13Case(acked, "None", "(Some "+cZ(int64(mv))+")", false, nil), Desc: desc})
		return
	}
	st.Store = s
	defer s.Close()
	// is the nonce table still there? a lower but fresh nonce is accepted only if it was dropped
	extra := []*SOp{{Op: "CheckNonce", ID: "n1", Nonce: nonce - 1e6}}
	probes, pd := c13Probes(st, t, extra)
	desc.Probes = pd
	var mon []string
	// stored version must now be current
	var got int
	db2 := s.VerifDB()
	db2.View(func(txn *badger.Txn) error {
		item, err := txn.Get([]byte("vip:version"))
		if err != nil {
			got = -1
			return nil
		}
		return item.Value(func(val []byte) error { return gob.NewDecoder(bytes.NewReader(val)).Decode(&got) })
	})
	if got != 2 {
		mon = append(mon, fmt.Sprintf("c13-version-after-open: stored format version is %d after Open", got))
	}
	ctx.Emit(Case{I: i, Kind: fmt.Sprintf("migrate-from-%d", ver), Coq: c13Case(acked, "None", "(Some "+cZ(int64(mv))+")", true, probes), Desc: desc, Monitor: mon})
}

// c13Readers: readers run Stats / balance reads while trial balances are being migrated into
// wallets; every observation must see the ledger total unchanged (a multi-key commit is seen
// entirely or not at all).
func c13Readers(ctx *Ctx, i int) {
	st := newStore(drvBdg)
	defer st.Destroy()
	const n = 300
	want := int64(0)
	for k := 0; k < n; k++ {
		id := store.NodeID(fmt.Sprintf("r%03d", k))
		st.SetNode(store.Node{ID: id, LastSeen: time.Now()})
		st.AddNodeBalance(id, big.NewInt(int64(k+1)))
		want += int64(k + 1)
	}
	var stop int32
	var bad atomic.Value
	var obs int64
	var wg sync.WaitGroup
	for r := 0; r < 4; r++ {
		wg.Add(1)
		go func() {
			defer wg.Done()
			for atomic.LoadInt32(&stop) == 0 {
				s, err := st.Stats()
				if err != nil {
					continue
				}
				atomic.AddInt64(&obs, 1)
				if s.TotalCredit.Int64() != want {
					bad.Store(fmt.Sprintf("c13-reader-partial-commit: a reader saw total credit %s during migrations, ledger holds %d", s.TotalCredit.String(), want))
				}
			}
		}()
	}
	// a node's spendable balance never drops while it is being linked: it is its trial credit
	// before, and at least that (the wallet's balance including it) after
	for r := 0; r < 2; r++ {
		wg.Add(1)
		go func(r int) {
			defer wg.Done()
			for atomic.LoadInt32(&stop) == 0 {
				for k := r; k < n && atomic.LoadInt32(&stop) == 0; k += 2 {
					b, err := st.GetNodeBalance(store.NodeID(fmt.Sprintf("r%03d", k)))
					if err != nil {
						continue
					}
					atomic.AddInt64(&obs, 1)
					if b.Credit.Int64() < int64(k+1) {
						bad.Store(fmt.Sprintf("c13-reader-partial-commit: a reader saw node r%03d with balance %s while it was being linked to a wallet; it holds %d before and at least that after", k, b.Credit.String(), k+1))
					}
				}
			}
		}(r)
	}
	for k := 0; k < n; k++ {
		id := store.NodeID(fmt.Sprintf("r%03d", k))
		for try := 0; try < 50; try++ {
			if err := st.AddAccountNode(store.Account(fmt.Sprintf("w%d", k%3)), id); err == nil {
				break
			}
		}
	}
	atomic.StoreInt32(&stop, 1)
	wg.Wait()
	var mon []string
	if v := bad.Load(); v != nil {
		mon = append(mon, v.(string))
	}
	ctx.Emit(Case{I: i, Kind: "readers", Desc: map[string]interface{}{"mode": "readers", "migrations": n, "observations": obs}, Monitor: mon})
}

// ---------- (e) crash points at commit granularity ----------

type verEntry struct {
	version   uint64
	value     []byte
	deleted   bool
	meta      byte
	expiresAt uint64
}

// allVersions reads the whole multi-version history of the database.
func allVersions(db *badger.DB) (map[string][]verEntry, uint64) {
	hist := map[string][]verEntry{}
	var max uint64
	db.View(func(txn *badger.Txn) error {
		opt := badger.DefaultIteratorOptions
		opt.AllVersions = true
		it := txn.NewIterator(opt)
		defer it.Close()
		for it.Rewind(); it.Valid(); it.Next() {
			item := it.Item()
			e := verEntry{version: item.Version(), deleted: item.IsDeletedOrExpired(), meta: item.UserMeta(), expiresAt: item.ExpiresAt()}
			if !e.deleted {
				e.value, _ = item.ValueCopy(nil)
			}
			hist[string(item.KeyCopy(nil))] = append(hist[string(item.Key())], e)
			if e.version > max {
				max = e.version
			}
		}
		return nil
	})
	return hist, max
}

// c13CommitPoints runs a history on the persistent driver, recording the database version after
// every operation.  Badger makes commits durable atomically and in order, so the states a kill can
// leave behind are exactly the states "as of" each commit.  Every commit that is not the single
// commit of an operation is an intermediate durable state of that operation: the database is
// rebuilt as of that commit, opened with the driver, and its whole observable state goes to the
// model, which accepts it only if it equals the state before or after the operation.
func c13CommitPoints(ctx *Ctx, i int) {
	rng := ctx.Sub(i)
	script := genScript(rng, 10+rng.Intn(20), false)
	// make sure the multi-key operations occur: trial credit then linking
	script = append(script, &SOp{Op: "SetNode", ID: nodeAlphabet[0]}, &SOp{Op: "AddNodeBal", ID: nodeAlphabet[0], Amount: "100"},
		&SOp{Op: "AddAcctBal", Acct: acctAlphabet[0], Amount: "7"}, &SOp{Op: "AddAcctNode", Acct: acctAlphabet[0], ID: nodeAlphabet[0]})
	dir, _ := ioutil.TempDir("", "vharness-commits")
	defer os.RemoveAll(dir)
	s, err := retryOpen(badgerstore.Open, badgerOpts(dir).WithNumVersionsToKeep(1<<20))
	if err != nil {
		fatal("badger open: %v", err)
	}
	st := &openStore{Store: s, drv: drvBdg, dir: dir}
	db := s.VerifDB()
	t := newInterner()
	var acked []string
	var done []*SOp
	var after []uint64 // database version after operation k
	_, v0 := allVersions(db)
	for _, o := range script {
		c := *o
		opCoq, obsCoq, _ := applySOp(st, t, &c)
		acked = append(acked, fmt.Sprintf("(%s, %s, %s)", cZ(c.Now), opCoq, obsCoq))
		done = append(done, &c)
		_, v := allVersions(db)
		after = append(after, v)
	}
	hist, _ := allVersions(db)
	s.Close()
	versions := map[uint64]bool{}
	for _, es := range hist {
		for _, e := range es {
			versions[e.version] = true
		}
	}
	explored, multi := 0, 0
	for k := range done {
		prev := v0
		if k > 0 {
			prev = after[k-1]
		}
		var mids []uint64
		for v := prev + 1; v < after[k]; v++ {
			if versions[v] {
				mids = append(mids, v)
			}
		}
		if len(mids) > 0 {
			multi++
		}
		for _, v := range mids {
			explored++
			dir2, _ := ioutil.TempDir("", "vharness-asof")
			db2, err := badger.Open(badgerOpts(dir2))
			if err != nil {
				fatal("badger open: %v", err)
			}
			err = db2.Update(func(txn *badger.Txn) error {
				for key, es := range hist {
					var best *verEntry
					for j := range es {
						if es[j].version <= v && (best == nil || es[j].version > best.version) {
							best = &es[j]
						}
					}
					if best == nil || best.deleted {
						continue
					}
					e := badger.NewEntry([]byte(key), best.value).WithMeta(best.meta)
					e.ExpiresAt = best.expiresAt
					if err := txn.SetEntry(e); err != nil {
						return err
					}
				}
				return nil
			})
			if err != nil {
				fatal("rebuild: %v", err)
			}
			db2.Close()
			s2, err := retryOpen(badgerstore.Open, badgerOpts(dir2))
			desc := c13Desc{Mode: "commit-point", Script: done[:k+1], Acked: k, Inflight: done[k],
				KillAt: fmt.Sprintf("right after commit %d, the first of the commits %v..%d made by operation %d (%s)", v, mids, after[k], k, done[k].Op)}
			if err != nil {
				desc.OpenErr = err.Error()
				ctx.Emit(Case{I: i, Kind: "commit-point", Coq: c13Case(acked[:k], "None", "None", false, nil), Desc: desc,
					Monitor: []string{"c13-reopen-after-kill-failed: " + err.Error()}})
				os.RemoveAll(dir2)
				continue
			}
			st2 := &openStore{Store: s2, drv: drvBdg, dir: dir2}
			inflight := fmt.Sprintf("(Some (%s, %s))", cZ(done[k].Now), opCoqOnly(t, done[k]))
			probes, pd := c13Probes(st2, t, nil)
			desc.Probes = pd
			ctx.Emit(Case{I: i, Kind: "commit-point", Coq: c13Case(acked[:k], inflight, "None", true, probes), Desc: desc})
			s2.Close()
			os.RemoveAll(dir2)
		}
	}
	ctx.Count(fmt.Sprintf("commit-points-explored:%d", explored))
	if explored == 0 {
		// every operation made at most one commit: nothing in between to crash into
		ctx.Emit(Case{I: i, Kind: "commit-point", Desc: map[string]interface{}{"mode": "commit-point", "operations": len(done), "operations_with_several_commits": multi}})
	}
}

// c13MigrateLarge: a format-1 database of a pool with n identities (a nonce, a node record, a
// peer set and a trial balance each) is opened by the current driver: every nonce of the old
// table must be gone, and nothing else may change.
func c13MigrateLarge(ctx *Ctx, i int, n int) {
	// production-sized tables: the harness's small-table options would make badger refuse the
	// migration's single transaction (ErrTxnTooBig) for a reason that has nothing to do with vipnode
	dir, _ := ioutil.TempDir("", "vharness-big")
	defer os.RemoveAll(dir)
	bigOpts := badger.DefaultOptions(dir).WithLogger(nil).WithSyncWrites(false)
	s0, err := retryOpen(badgerstore.Open, bigOpts)
	if err != nil {
		fatal("badger open: %v", err)
	}
	st := &openStore{Store: s0, drv: drvBdg, dir: dir}
	now := time.Now()
	nonce := now.UnixNano() - 5e6
	id := func(k int) store.NodeID { return store.NodeID(fmt.Sprintf("%0128x", 0xabc000+k)) }
	for k := 0; k < n; k++ {
		st.SetNode(store.Node{ID: id(k), IsHost: k%2 == 0, LastSeen: now})
		st.AddNodeBalance(id(k), big.NewInt(int64(1000+k)))
		st.CheckAndSaveNonce(string(id(k)), nonce)
	}
	for k := 0; k < n; k++ {
		st.UpdateNodePeers(id(k), []string{string(id((k + 1) % n))}, 7)
	}
	dump := func(db *badger.DB) (map[string]string, int) {
		m := map[string]string{}
		nonces := 0
		db.View(func(txn *badger.Txn) error {
			it := txn.NewIterator(badger.DefaultIteratorOptions)
			defer it.Close()
			for it.Rewind(); it.Valid(); it.Next() {
				k := string(it.Item().KeyCopy(nil))
				if strings.HasPrefix(k, "vip:nonce:") {
					nonces++
					continue
				}
				if k == "vip:version" {
					continue
				}
				v, _ := it.Item().ValueCopy(nil)
				m[k] = string(v)
			}
			return nil
		})
		return m, nonces
	}
	db := s0.VerifDB()
	// format 1 kept nonces without expiry: rewrite them so (in batches), and stamp the version
	for lo := 0; lo < n; lo += 100 {
		if err := db.Update(func(txn *badger.Txn) error {
			for k := lo; k < lo+100 && k < n; k++ {
				var b bytes.Buffer
				gob.NewEncoder(&b).Encode(&nonce)
				if err := txn.Set([]byte("vip:nonce:"+string(id(k))), b.Bytes()); err != nil {
					return err
				}
			}
			return nil
		}); err != nil {
			fatal("rewriting nonces: %v", err)
		}
	}
	if err := db.Update(func(txn *badger.Txn) error {
		var buf bytes.Buffer
		one := 1
		gob.NewEncoder(&buf).Encode(&one)
		return txn.Set([]byte("vip:version"), buf.Bytes())
	}); err != nil {
		fatal("stamping version: %v", err)
	}
	before, nb := dump(db)
	st.Store.Close()
	var mon []string
	s, err := retryOpen(badgerstore.Open, bigOpts)
	if err != nil {
		mon = append(mon, "c13-reopen-after-kill-failed: opening the format-1 database failed: "+err.Error())
		ctx.Emit(Case{I: i, Kind: "migrate-large", Desc: map[string]interface{}{"mode": "migrate-large", "identities": n}, Monitor: mon})
		return
	}
	defer s.Close()
	after, na := dump(s.VerifDB())
	lost, changed := 0, 0
	example := ""
	for k, v := range before {
		w, ok := after[k]
		if !ok {
			lost++
			if example == "" {
				example = k[:40]
			}
		} else if w != v {
			changed++
		}
	}
	if lost > 0 || changed > 0 || len(after) != len(before) {
		mon = append(mon, fmt.Sprintf("c13-migration-touched-data: opening a format-1 database with %d identities removed %d and changed %d of its %d node, peer and balance records (for example %s...)", n, lost, changed, len(before), example))
	}
	if na != 0 {
		mon = append(mon, fmt.Sprintf("c13-migration-kept-nonces: %d of the %d non-expiring nonces of the format-1 table are still there after the migration to format 2", na, nb))
	}
	ctx.Emit(Case{I: i, Kind: "migrate-large", Desc: map[string]interface{}{"mode": "migrate-large", "identities": n, "records": len(before), "nonces_before": nb, "nonces_after": na}, Monitor: mon})
}
