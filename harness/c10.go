package main

import (
	"bytes"
	"context"
	"fmt"
	"math/big"
	"math/rand"
	"os"
	"os/exec"
	"strings"
	"sync"
	"time"

	"github.com/vipnode/vipnode/v2/pool"
	"github.com/vipnode/vipnode/v2/pool/store"
)

func init() {
	commands["c10"] = runC10
	commands["c10race"] = runC10Race
}

// ---------- (i) snapshots: values handed out must never change afterwards ----------

type snap struct {
	owner  int
	bal    store.Balance // the struct as handed out (shares whatever the driver shares)
	at     string        // its credit when handed out
	atStep int
}

func c10Snapshots(ctx *Ctx, i int, rng *rand.Rand) {
	drv := i % 2
	st := newStore(drv)
	defer st.Destroy()
	owners := []string{"n1", "n2", "w1"}
	for _, n := range []string{"n1", "n2"} {
		st.SetNode(store.Node{ID: store.NodeID(n), LastSeen: time.Now()})
	}
	if rng.Intn(2) == 0 {
		st.AddAccountNode("w1", "n2") // n2's balance is the wallet's from now on
	}
	amounts := []string{"1", "7", "14", "1000000000000000000", "18446744073709551616", "36893488147419103232", "-5", "340282366920938463463374607431768211456"}
	var snaps []snap
	var ops []string
	var desc []string
	var mon []string
	steps := 8 + rng.Intn(25)
	for k := 0; k < steps; k++ {
		o := rng.Intn(len(owners))
		if rng.Intn(5) < 3 {
			amt, _ := new(big.Int).SetString(amounts[rng.Intn(len(amounts))], 10)
			var err error
			if owners[o] == "w1" {
				err = st.AddAccountBalance("w1", amt)
			} else {
				err = st.AddNodeBalance(store.NodeID(owners[o]), amt)
			}
			if err != nil {
				fatal("add: %v", err)
			}
			// model owner: n2 and w1 are one owner once linked; render the owner the driver credits
			ops = append(ops, fmt.Sprintf("MAdd %s %s", cN(o+1), cBig(amt)))
			desc = append(desc, fmt.Sprintf("add %s %s", owners[o], amt))
		} else {
			var b store.Balance
			var err error
			if owners[o] == "w1" {
				b, err = st.GetAccountBalance("w1")
			} else {
				b, err = st.GetNodeBalance(store.NodeID(owners[o]))
			}
			if err != nil {
				fatal("get: %v", err)
			}
			snaps = append(snaps, snap{o, b, b.Credit.String(), k})
			ops = append(ops, "MGet "+cN(o+1))
			desc = append(desc, fmt.Sprintf("get %s -> %s", owners[o], b.Credit.String()))
		}
		// every value handed out so far must still read what it read when handed out
		for _, s := range snaps {
			if got := s.bal.Credit.String(); got != s.at && len(mon) == 0 {
				mon = append(mon, fmt.Sprintf("c10-snapshot-changed: the balance of %s handed out at step %d read %s then and reads %s after step %d (%s driver)", owners[s.owner], s.atStep, s.at, got, k, driverNames[drv]))
			}
		}
	}
	// the final reading of every snapshot, for the model (which predicts: unchanged)
	var finals []string
	for _, s := range snaps {
		v, ok := new(big.Int).SetString(s.bal.Credit.String(), 10)
		if !ok {
			v = big.NewInt(-999)
		}
		finals = append(finals, cBig(v))
	}
	linked := "false"
	if _, err := st.GetAccountNodes("w1"); err == nil {
		ns, _ := st.GetAccountNodes("w1")
		if len(ns) > 0 {
			linked = "true"
		}
	}
	coq := fmt.Sprintf("CSnap {| c10_linked := %s; c10_ops := %s; c10_final_reads := %s |}", linked, cList(ops), cList(finals))
	ctx.Emit(Case{I: i, Kind: "snapshots-" + driverNames[drv], Coq: coq, Desc: map[string]interface{}{"ops": desc}, Monitor: mon})
}

// ---------- (i-b) snapshots handed out by the pool (replies, node records) ----------

type heldBalance struct {
	what string
	bal  *store.Balance
	at   string
	step int
}
type heldNode struct {
	what string
	node *store.Node
	at   string
	step int
}

func nodeFingerprint(n *store.Node) string {
	return fmt.Sprintf("%s|%s|%v|%s|%d|%d|%v", n.ID, n.URI, n.IsHost, n.Kind, n.LastSeen.UnixNano(), n.BlockNumber, n.Payout)
}

// c10PoolSnapshots: balances in keep-alive replies, balances and node records read from the
// stores: every value handed out is kept and re-read after every later pool operation (billing
// keep-alives of nodes sharing a wallet, reconnects, account linking, withdrawals).
func c10PoolSnapshots(ctx *Ctx, i int, rng *rand.Rand) {
	drv := i % 2
	cfg := worldCfg{Drv: drv, Price: "1000", IntervalNs: 60e9, Settle: true, Min: strp("-100000000")}
	if rng.Intn(2) == 0 { // withdrawals with a fee (a fee function that works in place, as the shipped binary's does)
		cfg.Fee, cfg.WMin = "10", strp("100")
	}
	w := newWorld(cfg)
	defer w.Close()
	w.aliasAll()
	for _, o := range []*POp{{Op: "connect", Node: "h1", Host: true, Kind: "geth"}, {Op: "connect", Node: "h2", Host: true, Kind: "geth", Payout: "w2"},
		{Op: "connect", Node: "c1", Kind: "geth"}, {Op: "connect", Node: "c2", Kind: "geth"},
		{Op: "addnode", Wallet: "w1", Node: "c1"}, {Op: "addnode", Wallet: "w1", Node: "c2"}, {Op: "addnode", Wallet: "w2", Node: "h2"}} {
		w.applyPOp(o)
	}
	w.st.AddAccountBalance(store.Account(walletOf("w1")), big.NewInt(50000))
	w.useRealClk = true
	for _, c := range []string{"c1", "c2"} {
		w.update(c, []string{"h1", "h2"}, 1)
	}
	w.useRealClk = false
	var hb []heldBalance
	var hn []heldNode
	var mon []string
	var desc []string
	hold := func(what string, b *store.Balance, step int) {
		if b != nil {
			hb = append(hb, heldBalance{what, b, b.Credit.String() + "/" + b.Deposit.String(), step})
		}
	}
	nodes := []string{"h1", "h2", "c1", "c2"}
	steps := 10 + rng.Intn(15)
	for k := 0; k < steps; k++ {
		switch rng.Intn(8) {
		case 0, 1, 2: // a billing keep-alive (the clock runs minutes ahead of the node's last check-in)
			n := nodes[2+rng.Intn(2)]
			w.mu.Lock()
			w.clockNow = time.Now().Add(time.Duration(1+rng.Intn(9)) * time.Minute)
			w.mu.Unlock()
			resp, err := w.update(n, []string{"h1", "h2"}, uint64(k))
			desc = append(desc, fmt.Sprintf("update %s -> %v", n, err))
			if resp != nil {
				hold("the balance in "+n+"'s keep-alive reply", resp.Balance, k)
			}
		case 3: // a host's keep-alive
			n := nodes[rng.Intn(2)]
			resp, err := w.update(n, nil, uint64(k))
			desc = append(desc, fmt.Sprintf("update %s -> %v", n, err))
			if resp != nil {
				hold("the balance in "+n+"'s keep-alive reply", resp.Balance, k)
			}
		case 4: // reads
			n := nodes[rng.Intn(4)]
			if b, err := w.st.GetNodeBalance(store.NodeID(nodeIDOf(n))); err == nil {
				c := b
				hold("the store's balance of "+n, &c, k)
			}
			for _, wl := range []string{"w1", "w2"} {
				if b, err := w.bstore.GetAccountBalance(store.Account(walletOf(wl))); err == nil {
					c := b
					hold("the balance of wallet "+wl, &c, k)
				}
				if b, err := w.st.GetAccountBalance(store.Account(walletOf(wl))); err == nil {
					c := b
					hold("the store's balance of wallet "+wl, &c, k)
				}
			}
			if nd, err := w.st.GetNode(store.NodeID(nodeIDOf(n))); err == nil {
				hn = append(hn, heldNode{"the node record of " + n, nd, nodeFingerprint(nd), k})
			}
			if ps, err := w.st.NodePeers(store.NodeID(nodeIDOf(n))); err == nil {
				for j := range ps {
					hn = append(hn, heldNode{"a peer record of " + n, &ps[j], nodeFingerprint(&ps[j]), k})
				}
			}
			desc = append(desc, "reads of "+n)
		case 5: // reconnect (runs the connect-time balance check)
			n := nodes[2+rng.Intn(2)]
			_, err := w.connect(n, false, "geth", "", "")
			desc = append(desc, fmt.Sprintf("connect %s -> %v", n, err))
		case 6:
			err := w.withdraw([]string{"w1", "w2"}[rng.Intn(2)])
			desc = append(desc, fmt.Sprintf("withdraw -> %v", err))
		default:
			w.st.AddAccountBalance(store.Account(walletOf("w1")), big.NewInt(int64(1+rng.Intn(5000))))
			desc = append(desc, "credit w1")
		}
		for _, h := range hb {
			if got := h.bal.Credit.String() + "/" + h.bal.Deposit.String(); got != h.at && len(mon) == 0 {
				mon = append(mon, fmt.Sprintf("c10-reply-snapshot-changed: %s, handed out at step %d, read %s (credit/deposit) then and reads %s after step %d: %s (%s driver)", h.what, h.step, h.at, got, k, desc[len(desc)-1], driverNames[drv]))
			}
		}
		for _, h := range hn {
			if got := nodeFingerprint(h.node); got != h.at && len(mon) == 0 {
				mon = append(mon, fmt.Sprintf("c10-node-snapshot-changed: %s, handed out at step %d, changed after step %d: %s (%s driver)", h.what, h.step, k, desc[len(desc)-1], driverNames[drv]))
			}
		}
	}
	ctx.Emit(Case{I: i, Kind: "pool-snapshots-" + driverNames[drv], Desc: map[string]interface{}{"ops": desc, "balances_held": len(hb), "nodes_held": len(hn)}, Monitor: mon})
}

// ---------- (ii) a forced interleaving: two keep-alives of one node both read it first ----------

type barrierStore struct {
	store.Store
	watch   store.NodeID
	mu      sync.Mutex
	arrived int
	release chan struct{}
	armed   bool
}

func (b *barrierStore) GetNode(id store.NodeID) (*store.Node, error) {
	n, err := b.Store.GetNode(id)
	b.mu.Lock()
	if b.armed && id == b.watch {
		b.arrived++
		if b.arrived == 2 {
			close(b.release)
			b.armed = false
		}
		ch := b.release
		b.mu.Unlock()
		select {
		case <-ch:
		case <-time.After(2 * time.Second):
		}
		return n, err
	}
	b.mu.Unlock()
	return n, err
}

func c10DoubleBilling(ctx *Ctx, i int, drv int) {
	bs := &barrierStore{release: make(chan struct{})}
	cfg := worldCfg{Drv: drv, Price: "60000000000", IntervalNs: 60e9, Settle: true} // 1 credit per nanosecond
	cfg.wrap = func(s store.Store) store.Store { bs.Store = s; return bs }
	w := newWorld(cfg)
	defer w.Close()
	w.aliasAll()
	w.applyPOp(&POp{Op: "connect", Node: "h1", Host: true, Kind: "geth"})
	w.applyPOp(&POp{Op: "connect", Node: "c1", Kind: "geth"})
	w.useRealClk = true
	if _, err := w.update("c1", []string{"h1"}, 1); err != nil {
		fatal("%v", err)
	}
	// five minutes pass; the host keeps checking in
	shiftTime(w.st.Store, 5*time.Minute)
	if _, err := w.update("h1", nil, 2); err != nil {
		fatal("%v", err)
	}
	before, _ := w.st.GetNodeBalance(store.NodeID(nodeIDOf("c1")))
	b0 := new(big.Int).Set(&before.Credit)
	// two keep-alives of c1, signed up front, run concurrently; both GetNode calls return together
	type req struct {
		sig   string
		nonce int64
		r     pool.UpdateRequest
	}
	var reqs []req
	for k := 0; k < 2; k++ {
		ur := pool.UpdateRequest{PeerInfo: peerInfos([]string{nodeIDOf("h1")}), BlockNumber: uint64(3 + k)}
		nonce := w.nextNonce()
		reqs = append(reqs, req{w.sign(keyFor("c1"), "vipnode_update", nodeIDOf("c1"), nonce, ur), nonce, ur})
	}
	bs.mu.Lock()
	bs.watch, bs.armed = store.NodeID(nodeIDOf("c1")), true
	bs.mu.Unlock()
	var wg sync.WaitGroup
	errs := make([]error, 2)
	for k := range reqs {
		wg.Add(1)
		go func(k int) {
			defer wg.Done()
			_, errs[k] = w.pool.Update(context.Background(), reqs[k].sig, nodeIDOf("c1"), reqs[k].nonce, reqs[k].r)
		}(k)
		// the second request carries the larger nonce: let the first pass verification and
		// reach its read of the node before the second starts
		for t := 0; t < 400; t++ {
			bs.mu.Lock()
			a := bs.arrived
			bs.mu.Unlock()
			if a > k {
				break
			}
			time.Sleep(time.Millisecond)
		}
	}
	wg.Wait()
	after, _ := w.st.GetNodeBalance(store.NodeID(nodeIDOf("c1")))
	charged := new(big.Int).Sub(b0, &after.Credit)
	span := big.NewInt(int64(5*time.Minute) + int64(2*time.Second)) // one credit per ns, with slack
	var mon []string
	if charged.Cmp(new(big.Int).Mul(span, big.NewInt(3)).Div(new(big.Int).Mul(span, big.NewInt(3)), big.NewInt(2))) > 0 {
		mon = append(mon, fmt.Sprintf("c10-same-node-double-billing: two overlapping keep-alives of one client (both read the node before either recorded its check-in) charged %s for a span worth %s: no one-at-a-time ordering of the two requests charges that (%s driver; errors: %v)", charged, big.NewInt(int64(5*time.Minute)), driverNames[drv], errs))
	}
	ctx.Emit(Case{I: i, Kind: "scheduled-same-node-" + driverNames[drv], Desc: map[string]interface{}{"charged": charged.String(), "span_ns": int64(5 * time.Minute)}, Monitor: mon})
}

// ---------- (ii-b) a chain of overlapping keep-alives of one node ----------

// gateStore holds every GetNode of the watched node (after the read) until the harness lets it go.
type gateStore struct {
	store.Store
	watch   store.NodeID
	mu      sync.Mutex
	armed   bool
	arrived chan struct{}
	release chan struct{}
	open    chan struct{} // closed: nothing is held any more
}

func (g *gateStore) GetNode(id store.NodeID) (*store.Node, error) {
	n, err := g.Store.GetNode(id)
	g.mu.Lock()
	hold := g.armed && id == g.watch
	g.mu.Unlock()
	if hold {
		g.arrived <- struct{}{}
		select {
		case <-g.release:
		case <-g.open:
		case <-time.After(5 * time.Second):
		}
	}
	return n, err
}

// c10UpdateChain: keep-alive A of a client is in progress, B queues behind it, A ends, B starts,
// C arrives while B is in progress.  Updates of one node must run one at a time: C must not read
// the node before B has recorded its check-in, and the time billed over the whole chain cannot
// exceed the time that passed.
func c10UpdateChain(ctx *Ctx, i int, drv int) {
	gs := &gateStore{arrived: make(chan struct{}, 16), release: make(chan struct{}, 16), open: make(chan struct{})}
	cfg := worldCfg{Drv: drv, Price: "60000000000", IntervalNs: 60e9, Settle: true} // 1 credit per nanosecond
	cfg.wrap = func(s store.Store) store.Store { gs.Store = s; return gs }
	w := newWorld(cfg)
	defer w.Close()
	w.aliasAll()
	w.applyPOp(&POp{Op: "connect", Node: "h1", Host: true, Kind: "geth"})
	w.applyPOp(&POp{Op: "connect", Node: "c1", Kind: "geth"})
	w.useRealClk = true
	if _, err := w.update("c1", []string{"h1"}, 1); err != nil {
		fatal("%v", err)
	}
	if _, err := w.update("h1", nil, 2); err != nil {
		fatal("%v", err)
	}
	c1 := store.NodeID(nodeIDOf("c1"))
	n0, _ := w.st.GetNode(c1)
	since := n0.LastSeen
	before, _ := w.st.GetNodeBalance(c1)
	b0 := new(big.Int).Set(&before.Credit)
	var wg sync.WaitGroup
	var emu sync.Mutex
	var errs []string
	launch := func(block uint64) {
		ur := pool.UpdateRequest{PeerInfo: peerInfos([]string{nodeIDOf("h1")}), BlockNumber: block}
		nonce := w.nextNonce()
		sig := w.sign(keyFor("c1"), "vipnode_update", nodeIDOf("c1"), nonce, ur)
		wg.Add(1)
		go func() {
			defer wg.Done()
			if _, err := w.pool.Update(context.Background(), sig, nodeIDOf("c1"), nonce, ur); err != nil {
				emu.Lock()
				errs = append(errs, err.Error())
				emu.Unlock()
			}
		}()
	}
	arrives := func(d time.Duration) bool {
		select {
		case <-gs.arrived:
			return true
		case <-time.After(d):
			return false
		}
	}
	gs.mu.Lock()
	gs.watch, gs.armed = c1, true
	gs.mu.Unlock()
	var mon []string
	overlap := 0
	launch(10) // A
	if arrives(2 * time.Second) {
		launch(11) // B queues behind A
		time.Sleep(20 * time.Millisecond)
		if arrives(30 * time.Millisecond) {
			overlap++ // B read the node while A is in progress
		}
		gs.release <- struct{}{} // A goes on and ends
		if overlap > 0 || arrives(time.Second) {
			launch(12) // C arrives while B is in progress
			if arrives(150 * time.Millisecond) {
				overlap++
			}
			time.Sleep(300 * time.Millisecond)
		}
	}
	close(gs.open)
	wg.Wait()
	end := time.Now()
	after, _ := w.st.GetNodeBalance(c1)
	charged := new(big.Int).Sub(b0, &after.Credit)
	elapsed := end.Sub(since)
	if overlap > 0 {
		mon = append(mon, fmt.Sprintf("c10-overlapping-updates: a keep-alive of a client read the node while an earlier keep-alive of the same client had not yet recorded its check-in (%d times in a chain of three; %s driver)", overlap, driverNames[drv]))
	}
	if charged.Cmp(big.NewInt(int64(elapsed+100*time.Millisecond))) > 0 {
		mon = append(mon, fmt.Sprintf("c10-chain-billed-more-than-elapsed: three keep-alives of one client were charged %s ns of service although only %d ns passed since its previous check-in: no one-at-a-time ordering charges that (%s driver; errors: %v)", charged, int64(elapsed), driverNames[drv], errs))
	}
	ctx.Emit(Case{I: i, Kind: "scheduled-chain-" + driverNames[drv], Desc: map[string]interface{}{"charged_ns": charged.String(), "elapsed_ns": int64(elapsed), "overlaps": overlap, "errors": errs}, Monitor: mon})
}

// ---------- (iii) no update is lost under free-running concurrency ----------

func c10LostUpdates(ctx *Ctx, i int, drv int) {
	st := newStore(drv)
	defer st.Destroy()
	for _, n := range []string{"a", "b", "c"} {
		st.SetNode(store.Node{ID: store.NodeID(n), LastSeen: time.Now()})
	}
	st.AddAccountNode("wal", "b")
	st.AddAccountNode("wal", "c")
	const G, M = 12, 40
	var wg sync.WaitGroup
	var failed int64
	var mu sync.Mutex
	for g := 0; g < G; g++ {
		wg.Add(1)
		go func(g int) {
			defer wg.Done()
			for m := 0; m < M; m++ {
				var err error
				switch (g + m) % 4 {
				case 0:
					err = st.AddNodeBalance("a", big.NewInt(1))
				case 1:
					err = st.AddNodeBalance("b", big.NewInt(1))
				case 2:
					err = st.AddNodeBalance("c", big.NewInt(1))
				default:
					err = st.AddAccountBalance("wal", big.NewInt(1))
				}
				if err != nil {
					mu.Lock()
					failed++
					mu.Unlock()
				}
			}
		}(g)
	}
	wg.Wait()
	a, _ := st.GetNodeBalance("a")
	wb, _ := st.GetAccountBalance("wal")
	total := new(big.Int).Add(&a.Credit, &wb.Credit)
	var mon []string
	want := int64(G*M) - failed
	if total.Int64() != want {
		mon = append(mon, fmt.Sprintf("c10-lost-update: %d acknowledged unit credits from %d goroutines left a total of %s (%s driver)", want, G, total, driverNames[drv]))
	}
	if failed > 0 {
		mon = append(mon, fmt.Sprintf("c10-spurious-failure: %d of %d concurrent balance updates failed (%s driver)", failed, G*M, driverNames[drv]))
	}
	ctx.Emit(Case{I: i, Kind: "lost-updates-" + driverNames[drv], Desc: map[string]interface{}{"goroutines": G, "each": M, "failed": failed, "total": total.String()}, Monitor: mon})
}

// ---------- (iv) race detector ----------

func c10RaceDetector(ctx *Ctx, i int) {
	dir := os.Getenv("VERIF_HARNESS_DIR")
	if dir == "" {
		dir = "/verif/harness"
	}
	bin := os.Getenv("VERIF_BUILD_DIR")
	if bin == "" {
		bin = "/verif/.build"
	}
	bin += "/vharness-race"
	build := exec.Command("go", "build", "-race", "-tags", "verif", "-o", bin, ".")
	build.Dir = dir
	build.Env = append(os.Environ(), "GOFLAGS=-mod=mod", "GOPROXY=off", "GOSUMDB=off", "GOTOOLCHAIN=local", "CGO_ENABLED=1")
	if out, err := build.CombinedOutput(); err != nil {
		fatal("building the race-detector harness failed: %v\n%s", err, out)
	}
	run := exec.Command(bin, "c10race", "-seed", fmt.Sprint(ctx.Seed), "-tier", ctx.Tier, "-repo", ctx.Repo)
	run.Env = append(os.Environ(), "GORACE=halt_on_error=0 history_size=2")
	var stderr bytes.Buffer
	run.Stderr = &stderr
	run.Stdout = nil
	err := run.Run()
	var mon []string
	out := stderr.String()
	if k := strings.Index(out, "WARNING: DATA RACE"); k >= 0 {
		end := k + 1800
		if end > len(out) {
			end = len(out)
		}
		mon = append(mon, "c10-data-race: the race detector reported: "+strings.Join(strings.Fields(out[k:end]), " "))
	} else if err != nil {
		mon = append(mon, fmt.Sprintf("c10-race-run-failed: %v: %.500s", err, out))
	}
	ctx.Emit(Case{I: i, Kind: "race-detector", Desc: map[string]interface{}{"races": strings.Count(out, "WARNING: DATA RACE")}, Monitor: mon})
}

// runC10Race: the concurrent workloads, to be run in the -race build.
func runC10Race(ctx *Ctx) {
	for drv := 0; drv < 2; drv++ {
		c01Concurrent(ctx, 9000+drv, drv)
		c10LostUpdates(ctx, 9010+drv, drv)
	}
	rng := ctx.Sub(77)
	c07Race(ctx, 9020, 0, rng)
	c07Race(ctx, 9021, 1, rng)
	c14Free(ctx, 9030, rng, 0, 0)
	c14Free(ctx, 9031, rng, 8, 3)
	c14FirstCalls(ctx, 9032, 200) // Remotes that were given no request-id source, first calls concurrent
	// registry: connects, closes and peer requests racing
	w := newWorld(worldCfg{Drv: drvMem, Price: "1000", IntervalNs: 60e9, Settle: true})
	defer w.Close()
	w.aliasAll()
	w.connect("c1", false, "geth", "", "")
	var wg sync.WaitGroup
	for k := 0; k < 6; k++ {
		wg.Add(1)
		go func(k int) {
			defer wg.Done()
			h := poolHosts[k%3]
			for r := 0; r < 5; r++ {
				hc := w.newConn(h, "10.0.0.1:1")
				w.connectOn(hc, h)
				if k%2 == 0 {
					hc.c1.Close()
					hc.c2.Close()
					w.pool.CloseRemote(hc.poolSide)
				}
				w.pool.NumRemotes()
			}
		}(k)
	}
	wg.Add(1)
	go func() {
		defer wg.Done()
		for r := 0; r < 10; r++ {
			cctx, cancel := context.WithTimeout(context.Background(), time.Second)
			w.peerCtx(cctx, "c1", 3, "")
			cancel()
		}
	}()
	wg.Wait()
}

func runC10(ctx *Ctx) {
	for c := 0; c < ctx.N(4, 40); c++ {
		if ctx.Want(900000 + c) {
			contractCase(ctx, 900000+c, ctx.Sub(900000+c), "settle-in-flight", "c10-")
		}
		if ctx.Want(900100 + c) {
			contractCase(ctx, 900100+c, ctx.Sub(900100+c), "two-spellings", "c10-")
		}
		if c < 2 && ctx.Want(900200+c) {
			firstCreditRace(ctx, 900200+c, c%2, "c10")
		}
		if c < 2 && ctx.Want(900300+c) {
			reRegisterRace(ctx, 900300+c, c%2, "c10")
		}
	}
	n := ctx.N(120, 3000)
	forEachCase(ctx, n, func(i int, rng *rand.Rand) { c10Snapshots(ctx, i, rng) })
	k := n
	for c := 0; c < ctx.N(24, 600); c++ {
		if ctx.Want(k) {
			c10PoolSnapshots(ctx, k, ctx.Sub(k))
		}
		k++
	}
	for c := 0; c < ctx.N(60, 1500); c++ {
		if ctx.Want(k) {
			c10Traces(ctx, k, ctx.Sub(k))
		}
		k++
	}
	for drv := 0; drv < 2; drv++ {
		if ctx.Want(k) {
			c10DoubleBilling(ctx, k, drv)
		}
		k++
		if ctx.Want(k) {
			c10LostUpdates(ctx, k, drv)
		}
		k++
		if ctx.Want(k) {
			c10UpdateChain(ctx, k, drv)
		}
		k++
		if ctx.Want(k) {
			c10Mixed(ctx, k, drv)
		}
		k++
		if ctx.Want(k) {
			c10WdCredit(ctx, k, drv)
		}
		k++
	}
	if ctx.Want(k) {
		c10RaceDetector(ctx, k)
	}
}
