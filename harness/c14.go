package main

import (
	"context"
	"encoding/json"
	"fmt"
	"io"
	"math/rand"
	"net"
	"sort"
	"strings"
	"sync"
	"sync/atomic"
	"time"

	"github.com/vipnode/vipnode/v2/jsonrpc2"
)

func init() { commands["c14"] = runC14 }

// ---------- a codec under full control of the harness ----------

type manualCodec struct {
	in     chan *jsonrpc2.Message
	mu     sync.Mutex
	out    []*jsonrpc2.Message
	closed chan struct{}
	// onWrite (optional, one-shot) runs inside the next WriteMessage, before it returns: what it
	// injects reaches the reading loop while the writer is still between "request sent" and
	// "waiting for the reply"
	onWrite func()
}

func newManualCodec() *manualCodec {
	return &manualCodec{in: make(chan *jsonrpc2.Message, 1024), closed: make(chan struct{})}
}
func (c *manualCodec) ReadMessage() (*jsonrpc2.Message, error) {
	select {
	case m := <-c.in:
		return m, nil
	case <-c.closed:
		return nil, io.EOF
	}
}
func (c *manualCodec) WriteMessage(m *jsonrpc2.Message) error {
	c.mu.Lock()
	c.out = append(c.out, m)
	hook := c.onWrite
	c.onWrite = nil
	c.mu.Unlock()
	if hook != nil {
		hook()
	}
	return nil
}

// drained waits until the reading loop has taken and processed everything injected so far.
func (c *manualCodec) drained() {
	for t := 0; t < 4000 && len(c.in) > 0; t++ {
		time.Sleep(50 * time.Microsecond)
	}
	time.Sleep(1500 * time.Microsecond)
}
func (c *manualCodec) Close() error       { close(c.closed); return nil }
func (c *manualCodec) RemoteAddr() string { return "manual" }
func (c *manualCodec) written() int       { c.mu.Lock(); defer c.mu.Unlock(); return len(c.out) }

type c14Label struct {
	L string `json:"l"` // start deliver wake cancel
	C int    `json:"c"`
	P int    `json:"p,omitempty"`
}

// a harness-side mirror of the routing model (repaired rule), only to generate enabled traces
type mirrorEntry struct {
	gen, age int
	waiting  bool
}
type mirror struct {
	limit, discard int
	pending        map[int]*mirrorEntry
	bufs           map[[2]int]int
	gen, age       int
	phase          map[int]string // "", "waiting:<gen>", "done"
	wgen           map[int]int
}

func (m *mirror) clean() {
	if m.limit > 0 && len(m.pending) >= m.limit && m.discard > 0 {
		for k := 0; k < m.discard; k++ {
			best, bestAge := -1, 0
			for id, e := range m.pending {
				if e.waiting {
					continue
				}
				if best < 0 || e.age < bestAge {
					best, bestAge = id, e.age
				}
			}
			if best < 0 {
				return
			}
			delete(m.pending, best)
		}
	}
}

// deliver mirrors LDeliver: returns false when the transition is not enabled (channel full).
func (m *mirror) deliver(id, p int) (int, bool) {
	m.clean()
	g := m.gen
	if e, ok := m.pending[id]; ok {
		g = e.gen
	}
	if _, full := m.bufs[[2]int{id, g}]; full {
		return g, false
	}
	if _, ok := m.pending[id]; !ok {
		m.pending[id] = &mirrorEntry{gen: m.gen, age: m.age}
		m.gen++
		m.age++
	}
	m.bufs[[2]int{id, g}] = p
	return g, true
}

// register mirrors LRegister, receive mirrors LReceive (repaired rule).
func (m *mirror) register(id int) {
	m.clean()
	if e, ok := m.pending[id]; ok {
		e.waiting = true
		m.wgen[id] = e.gen
	} else {
		m.pending[id] = &mirrorEntry{gen: m.gen, age: m.age, waiting: true}
		m.wgen[id] = m.gen
		m.gen++
		m.age++
	}
	m.phase[id] = "waiting"
}
func (m *mirror) receive(id int) {
	m.clean()
	if e, ok := m.pending[id]; ok {
		e.waiting = true
		m.wgen[id] = e.gen
	} else {
		m.pending[id] = &mirrorEntry{gen: m.gen, age: m.age, waiting: true}
		m.wgen[id] = m.gen
		m.gen++
		m.age++
	}
}

func c14Scripted(ctx *Ctx, i int, rng *rand.Rand) {
	limit, discard := 0, 0
	if rng.Intn(3) != 0 {
		limit, discard = 2+rng.Intn(4), 1+rng.Intn(3)
	}
	codec := newManualCodec()
	r := &jsonrpc2.Remote{Codec: codec, Client: &jsonrpc2.Client{}, Server: &jsonrpc2.Server{}, PendingLimit: limit, PendingDiscard: discard}
	if rng.Intn(2) == 0 {
		r.Client = nil // as the agent's websocket path builds it: the Remote supplies its own request-id source
	}
	go r.Serve()
	defer codec.Close()
	m := &mirror{limit: limit, discard: discard, pending: map[int]*mirrorEntry{}, bufs: map[[2]int]int{}, phase: map[int]string{}, wgen: map[int]int{}}
	type call struct {
		cancel context.CancelFunc
		done   chan struct{}
		res    string // "payload:<p>" | "ctx" | "err:..."
	}
	calls := map[int]*call{}
	nextID := 1
	var trace []c14Label
	pause := func() { time.Sleep(1500 * time.Microsecond) }
	steps := 6 + rng.Intn(14)
	for k := 0; k < steps; k++ {
		switch rng.Intn(10) {
		case 0, 1, 2, 3: // a new call starts and reaches receive()
			id := nextID
			nextID++
			cctx, cancel := context.WithCancel(context.Background())
			c := &call{cancel: cancel, done: make(chan struct{})}
			calls[id] = c
			before := codec.written()
			early := rng.Intn(3) == 0
			var injDone chan struct{}
			if early {
				// the reply overtakes the caller: it is routed (followed by orphans and late replies
				// that run the discard rule) while the call is between sending and receive()
				m.register(id)
				trace = append(trace, c14Label{"register", id, 0})
				type inj struct{ id, p int }
				var injs []inj
				if rng.Intn(5) != 0 {
					p := 1000*id + rng.Intn(1000)
					if _, ok := m.deliver(id, p); ok {
						injs = append(injs, inj{id, p})
						trace = append(trace, c14Label{"deliver", id, p})
					}
				}
				for j, nj := 0, rng.Intn(5); j < nj; j++ {
					oid := 500 + rng.Intn(40) // ids no call ever uses: orphans
					if rng.Intn(3) == 0 && nextID > 2 {
						oid = 1 + rng.Intn(nextID-1) // or a reply for an earlier call (finished, cancelled or waiting)
					}
					if oid == id {
						continue
					}
					p := 1000*oid + rng.Intn(1000)
					if g, ok := m.deliver(oid, p); ok {
						injs = append(injs, inj{oid, p})
						trace = append(trace, c14Label{"deliver", oid, p})
						if m.phase[oid] == "waiting" && m.wgen[oid] == g {
							delete(m.bufs, [2]int{oid, m.wgen[oid]})
							delete(m.pending, oid)
							m.phase[oid] = "done"
							trace = append(trace, c14Label{"wake", oid, 0})
						}
					}
				}
				injDone = make(chan struct{})
				codec.mu.Lock()
				codec.onWrite = func() {
					defer close(injDone)
					for _, x := range injs {
						raw, _ := json.Marshal(x.p)
						idRaw, _ := json.Marshal(x.id)
						codec.in <- &jsonrpc2.Message{Response: &jsonrpc2.Response{Result: raw}, ID: idRaw, Version: "2.0"}
						codec.drained() // one at a time: a woken call removes its entry before the next arrives
					}
				}
				codec.mu.Unlock()
			}
			go func() {
				var out int
				err := r.Call(cctx, &out, "probe", id)
				switch {
				case err == nil:
					c.res = fmt.Sprintf("payload:%d", out)
				case err == context.Canceled:
					c.res = "ctx"
				default:
					c.res = "err:" + err.Error()
				}
				close(c.done)
			}()
			for t := 0; t < 2000 && codec.written() == before; t++ {
				time.Sleep(50 * time.Microsecond)
			}
			pause()
			if early {
				select { // the write (with its injections) has returned
				case <-injDone:
				case <-time.After(2 * time.Second):
				}
				time.Sleep(3 * time.Millisecond)
				m.receive(id)
				trace = append(trace, c14Label{"receive", id, 0})
			} else {
				// mirror
				m.register(id)
				m.receive(id) // the second lookup (in receive) runs the discard rule again
				trace = append(trace, c14Label{"start", id, 0})
			}
			// the reply may have arrived first: the call takes it at once
			if _, full := m.bufs[[2]int{id, m.wgen[id]}]; full {
				delete(m.bufs, [2]int{id, m.wgen[id]})
				delete(m.pending, id)
				m.phase[id] = "done"
				trace = append(trace, c14Label{"wake", id, 0})
			}
		case 4, 5, 6, 7: // a reply is routed: for a waiting call, a finished one, or one not yet made
			id := 1 + rng.Intn(nextID+1)
			if rng.Intn(3) != 0 { // prefer waiting calls
				var w []int
				for c, ph := range m.phase {
					if ph == "waiting" {
						w = append(w, c)
					}
				}
				sort.Ints(w)
				if len(w) > 0 {
					id = w[rng.Intn(len(w))]
				}
			}
			if id >= nextID+1 {
				continue
			}
			p := 1000*id + rng.Intn(1000)
			g, ok := m.deliver(id, p)
			if !ok {
				continue
			}
			raw, _ := json.Marshal(p)
			idRaw, _ := json.Marshal(id)
			codec.in <- &jsonrpc2.Message{Response: &jsonrpc2.Response{Result: raw}, ID: idRaw, Version: "2.0"}
			pause()
			trace = append(trace, c14Label{"deliver", id, p})
			// the waiter (if any) takes it
			if m.phase[id] == "waiting" && m.wgen[id] == g {
				delete(m.bufs, [2]int{id, g})
				delete(m.pending, id)
				m.phase[id] = "done"
				trace = append(trace, c14Label{"wake", id, 0})
			}
		default: // a waiting call's context ends
			var w []int
			for c, ph := range m.phase {
				if ph == "waiting" {
					w = append(w, c)
				}
			}
			sort.Ints(w)
			if len(w) == 0 {
				continue
			}
			id := w[rng.Intn(len(w))]
			calls[id].cancel()
			pause()
			delete(m.pending, id)
			m.phase[id] = "done"
			trace = append(trace, c14Label{"cancel", id, 0})
		}
	}
	time.Sleep(5 * time.Millisecond)
	// observe
	var ids []int
	for id := range calls {
		ids = append(ids, id)
	}
	sort.Ints(ids)
	var obs []string
	desc := map[string]string{}
	var mon []string
	for _, id := range ids {
		c := calls[id]
		select {
		case <-c.done:
			switch {
			case strings.HasPrefix(c.res, "payload:"):
				var p int
				fmt.Sscanf(c.res, "payload:%d", &p)
				obs = append(obs, fmt.Sprintf("(%s, OPayload %s)", cN(id), cN(p)))
				if p/1000 != id {
					mon = append(mon, fmt.Sprintf("c14-foreign-reply: call %d returned payload %d, which was sent for call %d", id, p, p/1000))
				}
			case c.res == "ctx":
				obs = append(obs, fmt.Sprintf("(%s, OCtxErr)", cN(id)))
			default:
				obs = append(obs, fmt.Sprintf("(%s, OCtxErr)", cN(id)))
				mon = append(mon, fmt.Sprintf("c14-unexpected-error: call %d returned %s", id, c.res))
			}
			desc[fmt.Sprint(id)] = c.res
		default:
			obs = append(obs, fmt.Sprintf("(%s, OWaiting)", cN(id)))
			desc[fmt.Sprint(id)] = "waiting"
		}
	}
	// a waiting call whose reply was routed after it started waiting must have returned
	delivered := map[int]bool{}
	startedAt := map[int]int{}
	for k, l := range trace {
		if l.L == "start" || l.L == "register" {
			startedAt[l.C] = k
		}
	}
	cancelledAt := map[int]int{}
	for k, l := range trace {
		if l.L == "cancel" {
			cancelledAt[l.C] = k
		}
	}
	for k, l := range trace {
		if l.L != "deliver" {
			continue
		}
		s, started := startedAt[l.C]
		ca, cancelled := cancelledAt[l.C]
		// only replies routed while the call was waiting count (an orphan that arrives before the
		// call exists may legitimately be discarded)
		if started && k > s && (!cancelled || k < ca) {
			delivered[l.C] = true
		}
	}
	for id := range delivered {
		if c, ok := calls[id]; ok {
			select {
			case <-c.done:
			default:
				mon = append(mon, fmt.Sprintf("c14-reply-lost: a reply for call %d was routed (pending limit %d, discard %d) but the call is still waiting", id, limit, discard))
			}
		}
	}
	plen := r.VerifPendingLen()
	for _, c := range calls {
		c.cancel()
	}
	var ls []string
	for _, l := range trace {
		switch l.L {
		case "start":
			ls = append(ls, "LStartWait "+cN(l.C))
		case "register":
			ls = append(ls, "LRegister "+cN(l.C))
		case "receive":
			ls = append(ls, "LReceive "+cN(l.C))
		case "deliver":
			ls = append(ls, fmt.Sprintf("LDeliver %s %s", cN(l.C), cN(l.P)))
		case "wake":
			ls = append(ls, "LWake "+cN(l.C))
		case "cancel":
			ls = append(ls, "LCancel "+cN(l.C))
		}
	}
	coq := fmt.Sprintf("C14Script {| c14_limit := %s; c14_discard := %s; c14_trace := %s; c14_calls := %s; c14_pending := %s |}",
		cNat(limit), cNat(discard), cList(ls), cList(obs), cNat(plen))
	ctx.Emit(Case{I: i, Kind: "scripted", Coq: coq, Desc: map[string]interface{}{"limit": limit, "discard": discard, "trace": trace, "calls": desc, "pending": plen}, Monitor: mon})
}

// ---------- free-running: two Remotes, reordering transport, concurrent callers, call-backs ----------

type reorderPipe struct {
	mu     sync.Mutex
	queue  []*jsonrpc2.Message
	out    chan *jsonrpc2.Message
	closed chan struct{}
	rng    *rand.Rand
}

func newReorderPipe(seed int64) *reorderPipe {
	p := &reorderPipe{out: make(chan *jsonrpc2.Message, 4096), closed: make(chan struct{}), rng: rand.New(rand.NewSource(seed))}
	go func() {
		for {
			select {
			case <-p.closed:
				return
			default:
			}
			p.mu.Lock()
			if len(p.queue) > 0 {
				k := p.rng.Intn(len(p.queue)) // any queued message may overtake the others
				m := p.queue[k]
				p.queue = append(p.queue[:k], p.queue[k+1:]...)
				p.mu.Unlock()
				p.out <- m
			} else {
				p.mu.Unlock()
			}
			time.Sleep(time.Duration(p.rng.Intn(300)) * time.Microsecond)
		}
	}()
	return p
}

type pipeCodec struct {
	rd, wr *reorderPipe
}

func (c pipeCodec) ReadMessage() (*jsonrpc2.Message, error) {
	select {
	case m := <-c.rd.out:
		return m, nil
	case <-c.rd.closed:
		return nil, io.EOF
	}
}
func (c pipeCodec) WriteMessage(m *jsonrpc2.Message) error {
	// copy: the message is handed to another goroutine
	b, _ := json.Marshal(m)
	var cp jsonrpc2.Message
	json.Unmarshal(b, &cp)
	c.wr.mu.Lock()
	c.wr.queue = append(c.wr.queue, &cp)
	c.wr.mu.Unlock()
	return nil
}
func (c pipeCodec) Close() error       { return nil }
func (c pipeCodec) RemoteAddr() string { return "pipe" }

// BounceService answers Echo, possibly after calling back over the connection it was called on.
type BounceService struct {
	self    **jsonrpc2.Remote
	handled *int64
	wrong   *int64
	tokens  *sync.Map
}

func (b *BounceService) Echo(ctx context.Context, token string, depth int) (string, error) {
	atomic.AddInt64(b.handled, 1)
	if n, _ := b.tokens.LoadOrStore(fmt.Sprintf("%s/%d", token, depth), new(int64)); true {
		atomic.AddInt64(n.(*int64), 1)
	}
	svc, err := jsonrpc2.CtxService(ctx)
	if err != nil || svc != jsonrpc2.Service(*b.self) {
		atomic.AddInt64(b.wrong, 1)
	}
	if depth <= 0 {
		return token, nil
	}
	var out string
	if err := svc.Call(ctx, &out, "echo", token, depth-1); err != nil {
		return "", err
	}
	return out, nil
}

func (b *BounceService) Slow(ctx context.Context, token string, ms int) (string, error) {
	time.Sleep(time.Duration(ms) * time.Millisecond)
	return token, nil
}

func c14Free(ctx *Ctx, i int, rng *rand.Rand, limit, discard int) {
	ab, ba := newReorderPipe(int64(i)*2+1), newReorderPipe(int64(i)*2+2)
	defer close(ab.closed)
	defer close(ba.closed)
	var ra, rb *jsonrpc2.Remote
	var handled, wrong int64
	var tokens sync.Map
	sa, sb := &jsonrpc2.Server{}, &jsonrpc2.Server{}
	sa.Register("", &BounceService{&ra, &handled, &wrong, &tokens})
	sb.Register("", &BounceService{&rb, &handled, &wrong, &tokens})
	ra = &jsonrpc2.Remote{Codec: pipeCodec{rd: ba, wr: ab}, Client: &jsonrpc2.Client{}, Server: sa, PendingLimit: limit, PendingDiscard: discard}
	rb = &jsonrpc2.Remote{Codec: pipeCodec{rd: ab, wr: ba}, Client: &jsonrpc2.Client{}, Server: sb, PendingLimit: limit, PendingDiscard: discard}
	if i%2 == 1 {
		ra.Client, rb.Client = nil, nil
	}
	go ra.Serve()
	go rb.Serve()
	K := 4 + rng.Intn(13)
	if limit > 0 {
		K = limit + 5 + rng.Intn(10)
	}
	var mon []string
	var mu sync.Mutex
	var wg sync.WaitGroup
	expectHandled := int64(0)
	cancelled := 0
	// services may be registered on a server while it is handling requests (a pool registers its
	// payment and status services after it starts listening): that must not hold up handlers,
	// however deeply they call back
	lateRegs := int64(0)
	stopReg := make(chan struct{})
	regDone := make(chan struct{})
	if i%3 != 2 {
		go func() {
			defer close(regDone)
			for n := 0; ; n++ {
				select {
				case <-stopReg:
					return
				case <-time.After(300 * time.Microsecond):
				}
				srv := sa
				if n%2 == 1 {
					srv = sb
				}
				done := make(chan struct{})
				go func() {
					srv.Register(fmt.Sprintf("late%d_", n), &BounceService{&ra, &handled, &wrong, &tokens})
					close(done)
				}()
				select {
				case <-done:
					atomic.AddInt64(&lateRegs, 1)
				case <-stopReg:
					return
				}
			}
		}()
	} else {
		close(regDone)
	}
	for k := 0; k < 2*K; k++ {
		from := ra
		if k%2 == 1 {
			from = rb
		}
		token := fmt.Sprintf("tok-%d-%d", i, k)
		depth := rng.Intn(5)
		cancelIt := limit == 0 && rng.Intn(6) == 0
		slowMs := 0
		if limit > 0 {
			slowMs = 30 // keep many calls in flight at once
		}
		if !cancelIt {
			if slowMs > 0 {
				atomic.AddInt64(&expectHandled, 0)
			} else {
				atomic.AddInt64(&expectHandled, int64(depth+1))
			}
		} else {
			cancelled++
		}
		wg.Add(1)
		go func(from *jsonrpc2.Remote, token string, depth int, cancelIt bool) {
			defer wg.Done()
			cctx, cancel := context.WithTimeout(context.Background(), 3*time.Second)
			defer cancel()
			var out string
			var err error
			t0 := time.Now()
			switch {
			case cancelIt:
				c2, cancel2 := context.WithTimeout(context.Background(), 10*time.Millisecond)
				err = from.Call(c2, &out, "slow", token, 600)
				cancel2()
				if err == nil {
					if out != token {
						mu.Lock()
						mon = append(mon, fmt.Sprintf("c14-foreign-reply: call with token %s returned %q", token, out))
						mu.Unlock()
					}
				} else if took := time.Since(t0); took > 350*time.Millisecond {
					// (the handler answers after 600 ms: a call that only returns with the reply takes that
					// long; the margin is for a loaded machine)
					mu.Lock()
					mon = append(mon, fmt.Sprintf("c14-cancel-not-prompt: a call whose context ended after 10 ms returned after %s", took))
					mu.Unlock()
				}
				return
			case slowMs > 0:
				err = from.Call(cctx, &out, "slow", token, slowMs)
			default:
				err = from.Call(cctx, &out, "echo", token, depth)
			}
			mu.Lock()
			defer mu.Unlock()
			if err != nil {
				mon = append(mon, fmt.Sprintf("c14-reply-lost: call with token %s (pending limit %d, %d calls in flight) failed: %v", token, limit, 2*K, err))
			} else if out != token {
				mon = append(mon, fmt.Sprintf("c14-foreign-reply: call with token %s returned %q", token, out))
			}
		}(from, token, depth, cancelIt)
	}
	wg.Wait()
	close(stopReg)
	<-regDone
	time.Sleep(120 * time.Millisecond)
	if w := atomic.LoadInt64(&wrong); w != 0 {
		mon = append(mon, fmt.Sprintf("c14-wrong-context-service: %d handler invocations saw a context service other than the connection the request arrived on", w))
	}
	dup := 0
	tokens.Range(func(k, v interface{}) bool {
		if atomic.LoadInt64(v.(*int64)) != 1 {
			dup++
		}
		return true
	})
	if dup > 0 {
		mon = append(mon, fmt.Sprintf("c14-handled-not-once: %d requests were handled a number of times other than once", dup))
	}
	pa, pb := ra.VerifPendingLen(), rb.VerifPendingLen()
	if pa+pb > cancelled {
		mon = append(mon, fmt.Sprintf("c14-pending-leak: %d + %d entries left in the pending tables at quiescence (%d cancelled calls could leave late replies)", pa, pb, cancelled))
	}
	kind := "free"
	if limit > 0 {
		kind = "free-limit"
	}
	// keep at most a few identical failures
	if len(mon) > 4 {
		mon = mon[:4]
	}
	ctx.Emit(Case{I: i, Kind: kind, Desc: map[string]interface{}{"callers_per_side": K, "limit": limit, "discard": discard, "handled": atomic.LoadInt64(&handled), "pending_left": pa + pb, "cancelled": cancelled, "registrations_while_serving": atomic.LoadInt64(&lateRegs)}, Monitor: mon})
}

// c14FirstCalls: the first two calls on a Remote that was given no request-id source start at the
// same moment (the agent's websocket path builds its Remote that way, and an agent's keep-alive
// and a forced update may well be its first two calls): they must carry different request ids,
// or each may be handed the other's reply.
func c14FirstCalls(ctx *Ctx, i int, rounds int) {
	var mon []string
	collisions := 0
	for r := 0; r < rounds && collisions == 0; r++ {
		codec := newManualCodec()
		rem := &jsonrpc2.Remote{Codec: codec, Server: &jsonrpc2.Server{}}
		go rem.Serve()
		start := make(chan struct{})
		var wg sync.WaitGroup
		cctx, cancel := context.WithCancel(context.Background())
		for g := 0; g < 2; g++ {
			wg.Add(1)
			go func() {
				defer wg.Done()
				<-start
				var out int
				rem.Call(cctx, &out, "probe")
			}()
		}
		close(start)
		for t := 0; t < 4000 && codec.written() < 2; t++ {
			time.Sleep(25 * time.Microsecond)
		}
		codec.mu.Lock()
		if len(codec.out) >= 2 && string(codec.out[0].ID) == string(codec.out[1].ID) {
			collisions++
			mon = append(mon, fmt.Sprintf("c14-request-id-reused: round %d: the first two concurrent calls on a Remote without a Client both went out with request id %s: the replies cannot be told apart", r, string(codec.out[0].ID)))
		}
		codec.mu.Unlock()
		cancel()
		wg.Wait()
		codec.Close()
	}
	ctx.Emit(Case{I: i, Kind: "first-calls", Desc: map[string]interface{}{"rounds": rounds}, Monitor: mon})
}

// c14CancelRace: a caller gives up at the very moment its reply arrives, then the next call is made
// on the same connection. Whichever way the race goes for the first call (its reply, or its
// context's error), the next call gets the reply that carries ITS request id and nothing else.
func c14CancelRace(ctx *Ctx, i int, rounds int) {
	var mon []string
	codec := newManualCodec()
	rem := &jsonrpc2.Remote{Codec: codec, Server: &jsonrpc2.Server{}}
	go rem.Serve()
	defer codec.Close()
	lastID := func(n int) json.RawMessage {
		for t := 0; t < 8000 && codec.written() < n; t++ {
			time.Sleep(25 * time.Microsecond)
		}
		codec.mu.Lock()
		defer codec.mu.Unlock()
		if len(codec.out) < n {
			return nil
		}
		return codec.out[n-1].ID
	}
	reply := func(id json.RawMessage, p int) {
		raw, _ := json.Marshal(p)
		codec.in <- &jsonrpc2.Message{Response: &jsonrpc2.Response{Result: raw}, ID: id, Version: "2.0"}
	}
	sent := 0
	outcomes := map[string]int{}
	// the first rounds as a history of the channel-level model (Recycle.v): call ids 2r+1 and 2r+2
	var evs, results []string
	const modelRounds = 200
	logEv := func(r int, e string) {
		if r < modelRounds {
			evs = append(evs, e)
		}
	}
	logRes := func(r int, id int, out int, err error) {
		if r >= modelRounds {
			return
		}
		switch {
		case err == nil:
			results = append(results, fmt.Sprintf("(%s, RPayload %s)", cN(id), cN(out)))
		case err == context.Canceled:
			results = append(results, fmt.Sprintf("(%s, RCtx)", cN(id)))
		default:
			results = append(results, fmt.Sprintf("(%s, RPayload 0)", cN(id))) // neither: the model will disagree
		}
	}
	for r := 0; r < rounds && len(mon) == 0; r++ {
		cctx, cancel := context.WithCancel(context.Background())
		type res struct {
			out int
			err error
		}
		ra := make(chan res, 1)
		go func() {
			var out int
			err := rem.Call(cctx, &out, "probe", r)
			ra <- res{out, err}
		}()
		sent++
		idA := lastID(sent)
		if idA == nil {
			mon = append(mon, fmt.Sprintf("c14-cancel-race: round %d: the request never went out", r))
			cancel()
			break
		}
		pa, pb := 2*r+1000001, 2*r+1000002
		ca, cb := 2*r+1, 2*r+2
		logEv(r, fmt.Sprintf("VCall %s", cN(ca)))
		logEv(r, fmt.Sprintf("VLookup %s %s", cN(ca), cN(pa)))
		logEv(r, "VSend")
		// the reply and the cancellation, as close together as two goroutines get
		var wg sync.WaitGroup
		wg.Add(2)
		go func() { defer wg.Done(); reply(idA, pa) }()
		go func() {
			defer wg.Done()
			if r%3 == 1 {
				time.Sleep(time.Duration(r%40) * time.Microsecond)
			}
			cancel()
		}()
		wg.Wait()
		a := <-ra
		logRes(r, ca, a.out, a.err)
		switch {
		case a.err == nil && a.out == pa:
			outcomes["first call got its reply"]++
			logEv(r, fmt.Sprintf("VWake %s", cN(ca)))
		case a.err == context.Canceled:
			outcomes["first call got its context's error"]++
			logEv(r, fmt.Sprintf("VCancel %s", cN(ca)))
		default:
			mon = append(mon, fmt.Sprintf("c14-cancel-race: round %d: the cancelled call returned (%d, %v); its reply was %d", r, a.out, a.err, pa))
		}
		if r%2 == 1 {
			codec.drained()
		}
		rb := make(chan res, 1)
		go func() {
			var out int
			err := rem.Call(context.Background(), &out, "probe", r)
			rb <- res{out, err}
		}()
		sent++
		idB := lastID(sent)
		if idB == nil || string(idB) == string(idA) {
			mon = append(mon, fmt.Sprintf("c14-cancel-race: round %d: the next request went out with id %s (the cancelled call had %s)", r, idB, idA))
			break
		}
		logEv(r, fmt.Sprintf("VCall %s", cN(cb)))
		select {
		case b := <-rb:
			// answered before its reply was even sent
			logEv(r, fmt.Sprintf("VWake %s", cN(cb)))
			logRes(r, cb, b.out, b.err)
			mon = append(mon, fmt.Sprintf("c14-cancel-race: round %d: call %s returned (%d, %v) before any reply with its id was sent; the call before it (id %s, reply %d) had been cancelled as its reply arrived", r, idB, b.out, b.err, idA, pa))
			continue
		case <-time.After(300 * time.Microsecond):
		}
		reply(idB, pb)
		logEv(r, fmt.Sprintf("VLookup %s %s", cN(cb), cN(pb)))
		logEv(r, "VSend")
		select {
		case b := <-rb:
			logEv(r, fmt.Sprintf("VWake %s", cN(cb)))
			logRes(r, cb, b.out, b.err)
			if b.err != nil || b.out != pb {
				mon = append(mon, fmt.Sprintf("c14-cancel-race: round %d: call %s returned (%d, %v); the reply carrying its id was %d", r, idB, b.out, b.err, pb))
			}
		case <-time.After(3 * time.Second):
			mon = append(mon, fmt.Sprintf("c14-cancel-race: round %d: call %s never returned although its reply %d was delivered", r, idB, pb))
		}
	}
	coq := fmt.Sprintf("C14Chan %s %s", cList(evs), cList(results))
	ctx.Emit(Case{I: i, Kind: "cancel-race", Coq: coq, Desc: map[string]interface{}{"rounds": rounds, "outcomes": outcomes}, Monitor: mon})
}

// ---------- request ids when building a request fails ----------

// slowBadParam blocks inside its JSON encoding until released, then fails.
type slowBadParam struct {
	entered chan struct{}
	gate    chan struct{}
}

func (p slowBadParam) MarshalJSON() ([]byte, error) {
	p.entered <- struct{}{}
	<-p.gate
	return nil, fmt.Errorf("this parameter cannot be encoded")
}

// c14FailedEncode: call X is still encoding its parameters (it has taken its request id), call Y
// is sent and stays in flight, X's encoding fails, call Z is sent: Y and Z are both in flight and
// must carry different ids; their replies, delivered in either order, reach the right call.
func c14FailedEncode(ctx *Ctx, i int, rng *rand.Rand) {
	var mon []string
	codec := newManualCodec()
	rem := &jsonrpc2.Remote{Codec: codec, Server: &jsonrpc2.Server{}, Client: &jsonrpc2.Client{}}
	if rng.Intn(2) == 0 {
		rem.Client = nil
	}
	go rem.Serve()
	defer codec.Close()
	cctx, cancel := context.WithTimeout(context.Background(), 3*time.Second)
	defer cancel()
	warm := rng.Intn(3) // some ordinary traffic first
	for k := 0; k < warm; k++ {
		done := make(chan struct{})
		go func() { var out int; rem.Call(cctx, &out, "probe", k); close(done) }()
		for t := 0; t < 2000 && codec.written() <= k; t++ {
			time.Sleep(50 * time.Microsecond)
		}
		codec.mu.Lock()
		id := codec.out[len(codec.out)-1].ID
		codec.mu.Unlock()
		codec.in <- &jsonrpc2.Message{Response: &jsonrpc2.Response{Result: json.RawMessage("0")}, ID: id, Version: "2.0"}
		<-done
	}
	bad := slowBadParam{entered: make(chan struct{}, 1), gate: make(chan struct{})}
	xDone := make(chan error, 1)
	go func() { var out int; xDone <- rem.Call(cctx, &out, "probe", bad) }()
	select {
	case <-bad.entered:
	case <-time.After(2 * time.Second):
		fatal("the failing call never started encoding")
	}
	type res struct {
		out int
		err error
	}
	call := func(arg int) chan res {
		ch := make(chan res, 1)
		before := codec.written()
		go func() { var out int; err := rem.Call(cctx, &out, "probe", arg); ch <- res{out, err} }()
		for t := 0; t < 4000 && codec.written() == before; t++ {
			time.Sleep(50 * time.Microsecond)
		}
		return ch
	}
	yCh := call(1)
	close(bad.gate) // X fails now
	xErr := <-xDone
	zCh := call(2)
	codec.mu.Lock()
	n := len(codec.out)
	var yID, zID string
	if n >= 2 {
		yID, zID = string(codec.out[n-2].ID), string(codec.out[n-1].ID)
	}
	codec.mu.Unlock()
	if xErr == nil {
		mon = append(mon, "c14-unexpected-error: a call whose parameter cannot be encoded returned no error")
	}
	if n < warm+2 {
		mon = append(mon, fmt.Sprintf("c14-reply-lost: only %d requests were written, two calls are in flight", n))
	} else if yID == zID {
		mon = append(mon, fmt.Sprintf("c14-request-id-reused: two calls in flight at the same time both carry request id %s (a third call had failed to encode its parameters in between): their replies cannot be told apart", yID))
	}
	// answer Z first, then Y, each with its own payload
	if n >= warm+2 {
		codec.in <- &jsonrpc2.Message{Response: &jsonrpc2.Response{Result: json.RawMessage("222")}, ID: json.RawMessage(zID), Version: "2.0"}
		time.Sleep(2 * time.Millisecond)
		codec.in <- &jsonrpc2.Message{Response: &jsonrpc2.Response{Result: json.RawMessage("111")}, ID: json.RawMessage(yID), Version: "2.0"}
		for name, want := range map[string]int{"Y": 111, "Z": 222} {
			ch := yCh
			if name == "Z" {
				ch = zCh
			}
			select {
			case r := <-ch:
				if r.err != nil {
					mon = append(mon, fmt.Sprintf("c14-reply-lost: call %s failed although its reply was delivered: %v", name, r.err))
				} else if r.out != want {
					mon = append(mon, fmt.Sprintf("c14-foreign-reply: call %s returned %d, the reply sent for its request was %d", name, r.out, want))
				}
			case <-time.After(1500 * time.Millisecond):
				mon = append(mon, fmt.Sprintf("c14-reply-lost: call %s is still waiting although its reply was delivered", name))
			}
		}
	}
	ctx.Emit(Case{I: i, Kind: "failed-encode", Desc: map[string]interface{}{"warm_up_calls": warm, "ids_in_flight": []string{yID, zID}}, Monitor: mon})
}

// ---------- the service a handler finds in its context ----------

// WhoService reports which service its handlers find in their context and calls back over it.
type WhoService struct {
	calls int64 // handler invocations with depth 2 (the id-less probe)
	done  int64 // ... that returned
	name  string
	inner *jsonrpc2.Local // when set, Relay hands the request on to this in-process service
	seen  *sync.Map       // handler name -> description of the service found
}

func (w *WhoService) Who(ctx context.Context, depth int) (string, error) {
	svc, err := jsonrpc2.CtxService(ctx)
	if err != nil {
		return "", err
	}
	w.seen.Store(w.name, fmt.Sprintf("%T %p", svc, svc))
	if depth == 2 {
		atomic.AddInt64(&w.calls, 1)
		defer atomic.AddInt64(&w.done, 1)
	}
	if depth > 0 { // call back over the service the request arrived on
		var out string
		if err := svc.Call(ctx, &out, "who", depth-1); err != nil {
			return "", fmt.Errorf("%s: call-back failed: %v", w.name, err)
		}
	}
	return w.name, nil
}

// Relay serves a request by calling an in-process Local service with the request's own context.
func (w *WhoService) Relay(ctx context.Context, depth int) (string, error) {
	var out string
	if err := w.inner.Call(ctx, &out, "who", depth); err != nil {
		return "", err
	}
	return out, nil
}

// c14CtxService: a request arrives on a Remote; its handler delegates to an in-process Local
// (passing its context on), whose handler calls back over "the service the request arrived on":
// at every level that is the connection (or Local) the request came in through.
func c14CtxService(ctx *Ctx, i int) {
	var mon []string
	seen := &sync.Map{}
	c1, c2 := net.Pipe()
	defer c1.Close()
	defer c2.Close()
	inner := &jsonrpc2.Local{}
	innerSvc := &WhoService{name: "inner", seen: seen}
	if err := inner.Server.Register("", innerSvc); err != nil {
		fatal("register: %v", err)
	}
	sa, sb := &jsonrpc2.Server{}, &jsonrpc2.Server{}
	outerA := &WhoService{name: "a", seen: seen}
	outerB := &WhoService{name: "b", seen: seen, inner: inner}
	sa.Register("", outerA)
	sb.Register("", outerB)
	ra := &jsonrpc2.Remote{Codec: jsonrpc2.IOCodec(c1), Server: sa, Client: &jsonrpc2.Client{}}
	rb := &jsonrpc2.Remote{Codec: jsonrpc2.IOCodec(c2), Server: sb, Client: &jsonrpc2.Client{}}
	go ra.Serve()
	go rb.Serve()
	cctx, cancel := context.WithTimeout(context.Background(), 5*time.Second)
	defer cancel()
	var out string
	// (1) plain nesting between the two ends of the connection
	if err := ra.Call(cctx, &out, "who", 3); err != nil {
		mon = append(mon, fmt.Sprintf("c14-nested-callback-failed: a nested call-back chain of depth 3 over one connection failed: %v", err))
	}
	if v, ok := seen.Load("b"); ok && v.(string) != fmt.Sprintf("%T %p", rb, rb) {
		mon = append(mon, fmt.Sprintf("c14-wrong-context-service: the handler on side B found %s in its context, the request arrived on %T %p", v, rb, rb))
	}
	if v, ok := seen.Load("a"); ok && v.(string) != fmt.Sprintf("%T %p", ra, ra) {
		mon = append(mon, fmt.Sprintf("c14-wrong-context-service: the handler on side A found %s in its context, the request arrived on %T %p", v, ra, ra))
	}
	// (2) a handler on B hands the request to an in-process Local, whose handler calls back
	if err := ra.Call(cctx, &out, "relay", 2); err != nil {
		mon = append(mon, fmt.Sprintf("c14-nested-callback-failed: a request relayed by a handler to an in-process service, whose handler calls back twice, failed: %v", err))
	}
	if v, ok := seen.Load("inner"); ok && v.(string) != fmt.Sprintf("%T %p", inner, inner) {
		mon = append(mon, fmt.Sprintf("c14-wrong-context-service: the handler of the in-process service found %s in its context, the request arrived through %T %p", v, inner, inner))
	}
	// (3) a request without an id (a foreign peer's, or a notification): whatever is or is not
	// answered, its handler runs like any other, may call back over the connection it arrived
	// on, and does not hold up the requests and replies that follow it
	before := atomic.LoadInt64(&outerB.calls)
	raw := json.RawMessage(`[2]`)
	if err := ra.WriteMessage(&jsonrpc2.Message{Request: &jsonrpc2.Request{Method: "who", Params: raw}, Version: "2.0"}); err != nil {
		mon = append(mon, fmt.Sprintf("c14-idless-request: writing a request without an id failed: %v", err))
	}
	t0 := time.Now()
	for time.Since(t0) < 3*time.Second && atomic.LoadInt64(&outerB.done) == 0 {
		time.Sleep(5 * time.Millisecond)
	}
	started, finished := atomic.LoadInt64(&outerB.calls)-before, atomic.LoadInt64(&outerB.done)
	// (in a goroutine: on a connection that is stuck even the write of the request blocks)
	afterCh := make(chan error, 1)
	go func() {
		var out2 string
		c3, cancel3 := context.WithTimeout(context.Background(), 3*time.Second)
		defer cancel3()
		afterCh <- ra.Call(c3, &out2, "who", 1)
	}()
	var errAfter error
	select {
	case errAfter = <-afterCh:
	case <-time.After(4 * time.Second):
		errAfter = fmt.Errorf("nothing within 4 s (the connection is stuck)")
	}
	if started > 0 && (finished == 0 || errAfter != nil) {
		mon = append(mon, fmt.Sprintf("c14-idless-request: a request without an id whose handler calls back over the connection it arrived on: the handler started %d time(s) and finished %d time(s) within 3 s; an ordinary call made afterwards on the same connection returned %v: calls nested in it, and everything behind it on the connection, must still get their replies", started, finished, errAfter))
	}
	ctx.Emit(Case{I: i, Kind: "context-service", Desc: map[string]interface{}{"levels": 3, "idless_handler_started": started, "idless_handler_finished": finished}, Monitor: mon})
}

func runC14(ctx *Ctx) {
	if ctx.Want(800000) {
		defer c14Binary(ctx, 800000)
	}
	n := ctx.N(150, 3000)
	forEachCase(ctx, n, func(i int, rng *rand.Rand) { c14Scripted(ctx, i, rng) })
	if ctx.Want(n + 1000) {
		c14FirstCalls(ctx, n+1000, ctx.N(3000, 60000))
	}
	if ctx.Want(n + 1001) {
		c14CtxService(ctx, n+1001)
	}
	if ctx.Want(n + 1002) {
		c14CancelRace(ctx, n+1002, ctx.N(1500, 20000))
	}
	if ctx.Want(n + 1003) {
		c14ServeEnds(ctx, n+1003)
	}
	for c := 0; c < ctx.N(4, 40); c++ {
		if ctx.Want(n + 1010 + c) {
			c14FailedEncode(ctx, n+1010+c, ctx.Sub(n+1010+c))
		}
	}
	m := ctx.N(10, 120)
	for c := 0; c < m; c++ {
		i := n + c
		if !ctx.Want(i) {
			continue
		}
		rng := ctx.Sub(i)
		if c%3 == 2 {
			c14Free(ctx, i, rng, 8, 3) // more calls in flight than the pending limit (production: 50/10)
		} else {
			c14Free(ctx, i, rng, 0, 0)
		}
	}
}
