package main

import (
	"go/ast"
	"go/parser"
	"go/token"
	"path/filepath"
	"strconv"
	"strings"

	"github.com/vipnode/vipnode/v2/pool/store"
)

// astConsts reads integer/duration constants that are not exported by the packages.
func astConsts(repo string) map[string]int64 {
	out := map[string]int64{}
	want := map[string][]string{
		"pool/service.go":               {"defaultRequestNumHosts", "poolWhitelistTimeout"},
		"pool/store/badger/versions.go": {"dbVersion"},
		"agent.go":                      {"minUpdateInterval", "maxUpdateInterval"},
		"agent/agent.go":                {"defaultNumHosts"},
	}
	for file, names := range want {
		fset := token.NewFileSet()
		f, err := parser.ParseFile(fset, filepath.Join(repo, file), nil, 0)
		if err != nil {
			continue
		}
		ast.Inspect(f, func(n ast.Node) bool {
			vs, ok := n.(*ast.ValueSpec)
			if !ok {
				return true
			}
			for i, id := range vs.Names {
				for _, w := range names {
					if id.Name == w && i < len(vs.Values) {
						if v, ok := evalConst(vs.Values[i]); ok {
							out[w] = v
						}
					}
				}
			}
			return true
		})
	}
	return out
}

// evalConst evaluates integer literals, products, and time.X selectors.
func evalConst(e ast.Expr) (int64, bool) {
	switch v := e.(type) {
	case *ast.BasicLit:
		if v.Kind == token.INT {
			n, err := strconv.ParseInt(strings.ReplaceAll(v.Value, "_", ""), 0, 64)
			return n, err == nil
		}
	case *ast.ParenExpr:
		return evalConst(v.X)
	case *ast.BinaryExpr:
		a, ok1 := evalConst(v.X)
		b, ok2 := evalConst(v.Y)
		if ok1 && ok2 {
			switch v.Op {
			case token.MUL:
				return a * b, true
			case token.ADD:
				return a + b, true
			case token.SUB:
				return a - b, true
			}
		}
	case *ast.SelectorExpr:
		if x, ok := v.X.(*ast.Ident); ok {
			switch x.Name + "." + v.Sel.Name {
			case "time.Nanosecond":
				return 1, true
			case "time.Microsecond":
				return 1e3, true
			case "time.Millisecond":
				return 1e6, true
			case "time.Second":
				return 1e9, true
			case "time.Minute":
				return 60e9, true
			case "time.Hour":
				return 3600e9, true
			case "store.ExpireInterval":
				return int64(store.ExpireInterval), true
			case "store.KeepaliveInterval":
				return int64(store.KeepaliveInterval), true
			case "store.ExpireNonce":
				return int64(store.ExpireNonce), true
			}
		}
	}
	return 0, false
}
