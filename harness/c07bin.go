package main

import (
	"context"
	"fmt"
	"io/ioutil"
	"math/big"
	"net/http/httptest"
	"os"
	"os/exec"
	"strings"
	"time"

	ethereum "github.com/ethereum/go-ethereum"
	"github.com/ethereum/go-ethereum/accounts/keystore"
	"github.com/ethereum/go-ethereum/common"
	"github.com/ethereum/go-ethereum/common/hexutil"
	"github.com/ethereum/go-ethereum/core/types"
	"github.com/ethereum/go-ethereum/eth/filters"
	"github.com/ethereum/go-ethereum/rlp"
	"github.com/ethereum/go-ethereum/rpc"
	"github.com/vipnode/vipnode/v2/pool/store"
	badgerstore "github.com/vipnode/vipnode/v2/pool/store/badger"
	"github.com/vipnode/vipnode/v2/request"
)

// The simulated chain (with the real contract on it) behind an Ethereum JSON-RPC endpoint, so that
// the shipped pool binary can be pointed at it with --contract.rpc: just the calls ethclient and
// the contract binding make.
type chainEthAPI struct{ c *chainWorld }

type chainCallArgs struct {
	From *common.Address `json:"from"`
	To   *common.Address `json:"to"`
	Gas  *hexutil.Uint64 `json:"gas"`
	Data hexutil.Bytes   `json:"data"`
}

func (a chainCallArgs) msg() ethereum.CallMsg {
	m := ethereum.CallMsg{To: a.To, Data: a.Data}
	if a.From != nil {
		m.From = *a.From
	}
	return m
}

func (e *chainEthAPI) Call(ctx context.Context, args chainCallArgs, block string) (hexutil.Bytes, error) {
	if block == "pending" {
		return e.c.sim.PendingCallContract(ctx, args.msg())
	}
	return e.c.sim.CallContract(ctx, args.msg(), nil)
}
func (e *chainEthAPI) GetTransactionCount(ctx context.Context, addr common.Address, block string) (hexutil.Uint64, error) {
	n, err := e.c.sim.PendingNonceAt(ctx, addr)
	return hexutil.Uint64(n), err
}
func (e *chainEthAPI) GasPrice() *hexutil.Big { return (*hexutil.Big)(big.NewInt(1)) }
func (e *chainEthAPI) GetCode(ctx context.Context, addr common.Address, block string) (hexutil.Bytes, error) {
	return e.c.sim.PendingCodeAt(ctx, addr)
}
func (e *chainEthAPI) EstimateGas(ctx context.Context, args chainCallArgs) (hexutil.Uint64, error) {
	g, err := e.c.sim.EstimateGas(ctx, args.msg())
	return hexutil.Uint64(g), err
}
func (e *chainEthAPI) GetBalance(ctx context.Context, addr common.Address, block string) (*hexutil.Big, error) {
	b, err := e.c.sim.BalanceAt(ctx, addr, nil)
	return (*hexutil.Big)(b), err
}
func (e *chainEthAPI) SendRawTransaction(ctx context.Context, data hexutil.Bytes) (common.Hash, error) {
	tx := new(types.Transaction)
	if err := rlp.DecodeBytes(data, tx); err != nil {
		return common.Hash{}, err
	}
	if err := e.c.hb.SendTransaction(ctx, tx); err != nil {
		return common.Hash{}, err
	}
	return tx.Hash(), nil
}
func (e *chainEthAPI) Logs(ctx context.Context, crit filters.FilterCriteria) (*rpc.Subscription, error) {
	notifier, ok := rpc.NotifierFromContext(ctx)
	if !ok {
		return nil, rpc.ErrNotificationsUnsupported
	}
	sub := notifier.CreateSubscription()
	ch := make(chan types.Log, 16)
	s, err := e.c.sim.SubscribeFilterLogs(context.Background(), ethereum.FilterQuery(crit), ch)
	if err != nil {
		return nil, err
	}
	go func() {
		defer s.Unsubscribe()
		for {
			select {
			case l := <-ch:
				notifier.Notify(sub.ID, &l)
			case <-sub.Err():
				return
			case <-notifier.Closed():
				return
			}
		}
	}()
	return sub, nil
}

type chainNetAPI struct{}

func (chainNetAPI) Version() string { return "4" } // "rinkeby" to the pool's network check

// c07Binary: the shipped pool binary with a payment contract configured (--contract.address,
// --contract.rpc, --contract.keystore), its database seeded with a wallet's credit, the wallet's
// deposit on the contract. A signed pool_withdraw over HTTP pays the wallet its deposit plus its
// credit minus the binary's fee, once; pool_account shows the deposit before and 0 after.
func c07Binary(ctx *Ctx, i int) {
	c := newChainWorld(drvMem)
	defer c.Close()
	var mon, log []string
	srv := rpc.NewServer()
	if err := srv.RegisterName("eth", &chainEthAPI{c}); err != nil {
		fatal("register eth: %v", err)
	}
	srv.RegisterName("net", chainNetAPI{})
	ts := httptest.NewServer(srv.WebsocketHandler([]string{"*"}))
	defer ts.Close()
	defer srv.Stop()
	wsURL := "ws" + strings.TrimPrefix(ts.URL, "http")
	dir, _ := ioutil.TempDir("", "vharness-c07bin")
	defer os.RemoveAll(dir)
	// the operator's keystore file
	keyJSON, err := keystore.EncryptKey(&keystore.Key{Address: c.opAuth.From, PrivateKey: keyFor("operator")}, "pw", keystore.LightScryptN, keystore.LightScryptP)
	if err != nil {
		fatal("keystore: %v", err)
	}
	ioutil.WriteFile(dir+"/operator.json", keyJSON, 0600)
	// deposit and credit (above the binary's minimum of 0.005 ETH and its fee of 0.0025 ETH)
	dep := big.NewInt(10000000000000000) // 0.01 ETH
	cred := big.NewInt(6000000000000000) // 0.006 ETH
	fee := big.NewInt(2500000000000000)  // the binary's fee
	if _, err := c.contract.AddBalance(c.tx(c.wAuth, dep)); err != nil {
		fatal("deposit: %v", err)
	}
	// other clients' deposits back the credit the pool pays out
	if _, err := c.contract.AddBalance(c.tx(c.opAuth, big.NewInt(1000000000000000000))); err != nil {
		fatal("funding: %v", err)
	}
	c.sim.Commit()
	wallet := walletOf("w1")
	os.MkdirAll(dir+"/db", 0755)
	st, err := retryOpen(badgerstore.Open, badgerOpts(dir+"/db"))
	if err != nil {
		fatal("seed store: %v", err)
	}
	st.AddAccountBalance(store.Account(wallet), cred)
	st.Close()
	bin, cleanup := buildBinary(ctx.Repo)
	defer cleanup()
	port := freePort()
	cmd := exec.Command(bin, "pool", "--store=persist", "--datadir="+dir+"/db", fmt.Sprintf("--bind=127.0.0.1:%d", port),
		"--contract.address=rinkeby://"+c.addr.Hex(), "--contract.rpc="+wsURL, "--contract.keystore="+dir+"/operator.json")
	cmd.Env = append(os.Environ(), "KEYSTORE_PASSPHRASE=pw")
	var stderr strings.Builder
	cmd.Stdout, cmd.Stderr = &stderr, &stderr
	if err := cmd.Start(); err != nil {
		fatal("start pool: %v", err)
	}
	defer func() { cmd.Process.Kill(); cmd.Wait() }()
	up := false
	for t := 0; t < 100 && !up; t++ {
		time.Sleep(100 * time.Millisecond)
		if _, body, err := httpRPC(port, `{"jsonrpc":"2.0","id":1,"method":"vipnode_ping"}`); err == nil && strings.Contains(body, "result") {
			up = true
		}
	}
	if !up {
		ctx.Emit(Case{I: i, Kind: "binary-contract-withdraw", Desc: map[string]interface{}{"output": tailStr(stderr.String(), 600)},
			Monitor: []string{"c07-binary-contract: the pool binary did not come up with --contract.address/--contract.rpc/--contract.keystore against a chain that serves the contract: " + tailStr(stderr.String(), 300)}})
		return
	}
	account := func() string {
		_, body, _ := httpRPC(port, fmt.Sprintf(`{"jsonrpc":"2.0","id":1,"method":"pool_account","params":[%q]}`, wallet))
		return strings.TrimSpace(body)
	}
	wAddr := common.HexToAddress(wallet)
	ether := func() *big.Int { b, _ := c.sim.BalanceAt(context.Background(), wAddr, nil); return b }
	e0 := ether()
	before := account()
	log = append(log, "pool_account before: "+before)
	if !strings.Contains(before, dep.String()) {
		mon = append(mon, fmt.Sprintf("c07-binary-account: the wallet has a deposit of %s on the contract; the binary's pool_account answers %s", dep, before))
	}
	withdraw := func() string {
		n := time.Now().UnixNano()
		sig, _ := request.Sign(keyFor("w1"), "pool_withdraw", wallet, n)
		_, body, _ := httpRPC(port, fmt.Sprintf(`{"jsonrpc":"2.0","id":1,"method":"pool_withdraw","params":[%q,%q,%d]}`, sig, wallet, n))
		return strings.TrimSpace(body)
	}
	// first the settlement fails (the chain's node refuses the transaction): the withdrawal is
	// answered with an error and nothing is taken off the ledger
	c.hb.mu.Lock()
	c.hb.fail = true
	c.hb.mu.Unlock()
	failed := withdraw()
	c.hb.mu.Lock()
	c.hb.fail = false
	c.hb.mu.Unlock()
	afterFailed := account()
	log = append(log, "pool_withdraw while the chain refuses transactions: "+failed, "pool_account after it: "+afterFailed)
	if !strings.Contains(failed, `"error"`) || !strings.Contains(afterFailed, `"credit":`+cred.String()) {
		mon = append(mon, fmt.Sprintf("c01-binary-failed-settlement: the chain refused the settlement transaction; the binary answered pool_withdraw with %s and pool_account then shows %s: a withdrawal that did not settle is an error and leaves the wallet's credit (%s) on the ledger", failed, afterFailed, cred))
	}
	first := withdraw()
	second := withdraw()
	c.sim.Commit()
	time.Sleep(300 * time.Millisecond)
	after := account()
	received := new(big.Int).Sub(ether(), e0)
	want := new(big.Int).Sub(new(big.Int).Add(dep, cred), fee)
	log = append(log, "first pool_withdraw: "+first, "second pool_withdraw: "+second, "pool_account after: "+after, "received on-chain: "+received.String())
	on, _ := c.contract.Accounts(nil, wAddr)
	if strings.Contains(first, `"error"`) {
		mon = append(mon, fmt.Sprintf("c07-binary-withdraw: a wallet with deposit %s and credit %s (minimum 0.005 ETH) was refused by the binary: %s", dep, cred, first))
	} else if received.Cmp(want) != 0 || on.Balance.Sign() != 0 {
		mon = append(mon, fmt.Sprintf("c07-binary-withdraw: deposit %s + credit %s - fee %s = %s was owed, once; two withdrawals through the binary (answers %s / %s) put %s into the wallet and left a deposit of %s on the contract", dep, cred, fee, want, first, second, received, on.Balance))
	}
	ctx.Emit(Case{I: i, Kind: "binary-contract-withdraw", Desc: map[string]interface{}{"steps": log}, Monitor: mon})
}

func tailStr(s string, n int) string {
	if len(s) > n {
		return s[len(s)-n:]
	}
	return s
}
