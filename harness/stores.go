package main

import (
	"io/ioutil"
	"os"
	"strings"
	"time"

	"github.com/dgraph-io/badger/v2"
	"github.com/vipnode/vipnode/v2/pool/store"
	badgerstore "github.com/vipnode/vipnode/v2/pool/store/badger"
	"github.com/vipnode/vipnode/v2/pool/store/memory"
)

// vstore is what the harness needs from a driver on top of store.Store.
type vstore interface {
	store.Store
}

type shifter interface{ VerifShiftTime(d time.Duration) }
type shifterErr interface{ VerifShiftTime(d time.Duration) error }

func shiftTime(s store.Store, d time.Duration) {
	switch v := s.(type) {
	case shifter:
		v.VerifShiftTime(d)
	case shifterErr:
		if err := v.VerifShiftTime(d); err != nil {
			fatal("shift: %v", err)
		}
	default:
		fatal("store has no VerifShiftTime")
	}
}

const (
	drvMem = 0
	drvBdg = 1
)

var driverNames = []string{"memory", "badger"}

type openStore struct {
	store.Store
	drv int
	dir string
}

func badgerOpts(dir string) badger.Options {
	return badger.DefaultOptions(dir).WithLogger(nil).WithSyncWrites(false).
		WithValueLogFileSize(1 << 20).WithMaxTableSize(1 << 20).WithNumMemtables(1).
		WithNumLevelZeroTables(1).WithNumLevelZeroTablesStall(2)
}

// retryOpen opens the persistent driver.  The directory lock is a flock: when this process has
// just closed the database while another goroutine was between fork and exec of a child process
// (the kill scenarios start children), the forked copy of the descriptor keeps the lock for a
// moment, and an immediate re-open is refused.  That is an artefact of this harness, so the open
// is retried for a short while on exactly that error.
func retryOpen[T any](open func(badger.Options) (T, error), opts badger.Options) (T, error) {
	deadline := time.Now().Add(5 * time.Second)
	for {
		s, err := open(opts)
		if err == nil || !strings.Contains(err.Error(), "Cannot acquire directory lock") || time.Now().After(deadline) {
			return s, err
		}
		time.Sleep(20 * time.Millisecond)
	}
}

func newStore(drv int) *openStore {
	if drv == drvMem {
		return &openStore{Store: memory.New(), drv: drv}
	}
	dir, err := ioutil.TempDir("", "vharness-bdg")
	if err != nil {
		fatal("%v", err)
	}
	s, err := retryOpen(badgerstore.Open, badgerOpts(dir))
	if err != nil {
		fatal("badger open: %v", err)
	}
	return &openStore{Store: s, drv: drv, dir: dir}
}

// Reopen closes and reopens the persistent driver on the same directory (no-op for memory).
func (o *openStore) Reopen() {
	if o.drv != drvBdg {
		return
	}
	if err := o.Store.Close(); err != nil {
		fatal("badger close: %v", err)
	}
	s, err := retryOpen(badgerstore.Open, badgerOpts(o.dir))
	if err != nil {
		fatal("badger reopen: %v", err)
	}
	o.Store = s
}

func (o *openStore) Destroy() {
	o.Store.Close()
	if o.dir != "" {
		os.RemoveAll(o.dir)
	}
}
