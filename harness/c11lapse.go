package main

import (
	"fmt"
	"io/ioutil"
	"math/big"
	"os"
	"time"

	"github.com/dgraph-io/badger/v2"
	"github.com/vipnode/vipnode/v2/pool/store"
	badgerstore "github.com/vipnode/vipnode/v2/pool/store/badger"
)

// c11NoLapse: what the persistent driver wrote for nodes, tracked peers, balances and links stays
// until an operation changes it: a node that checks in less often than some interval must find
// its tracked peers as it left them (to be judged by the rule, not silently gone). The history
// below checks no nonce, so nothing in the database may carry an expiry of its own afterwards.
// In the thorough tier the same is also observed in real time: a node's next keep-alive, 125 s
// after the last one, still declares the peer it no longer reports.
func c11NoLapse(ctx *Ctx, i int) {
	dir, _ := ioutil.TempDir("", "vharness-lapse")
	defer os.RemoveAll(dir)
	s, err := retryOpen(badgerstore.Open, badgerOpts(dir))
	if err != nil {
		fatal("open: %v", err)
	}
	now := time.Now()
	for k, id := range []string{"n1", "n2", "n3"} {
		if err := s.SetNode(store.Node{ID: store.NodeID(id), IsHost: k > 0, Kind: "geth", LastSeen: now, URI: "enode://" + id + "@10.0.0.1:30303"}); err != nil {
			fatal("%v", err)
		}
	}
	s.UpdateNodePeers("n1", []string{"n2", "n3"}, 1)
	s.UpdateNodePeers("n2", []string{"n1"}, 1)
	s.AddNodeBalance("n2", big.NewInt(5))
	s.AddAccountNode("w1", "n3")
	s.AddAccountBalance("w1", big.NewInt(7))
	s.AddNodeBalance("n3", big.NewInt(1))
	s.UpdateNodePeers("n1", []string{"n2"}, 2)
	var mon []string
	var realtime string
	if ctx.Thorough() {
		// n2 goes on checking in; n1 stays away for 125 s and then reports nobody
		for t := 0; t < 5; t++ {
			time.Sleep(25 * time.Second)
			s.UpdateNodePeers("n2", []string{"n1"}, uint64(10+t))
		}
		gone, err := s.UpdateNodePeers("n1", []string{}, 3)
		var ids []string
		for _, g := range gone {
			ids = append(ids, string(g))
		}
		realtime = fmt.Sprintf("after 125 s away: declared %v, error %v", ids, err)
		if err != nil || len(gone) != 2 {
			mon = append(mon, fmt.Sprintf("c11-tracked-peers-lapsed: node n1 tracked n2 and n3, stayed away for 125 s and then sent a keep-alive reporting nobody: declared invalid %v (error %v); both tracked entries are older than the window and must be declared (and leave the billable set) now, not vanish in between", ids, err))
		}
	}
	s.Close()
	db, err := badger.Open(badgerOpts(dir))
	if err != nil {
		fatal("raw open: %v", err)
	}
	items := 0
	db.View(func(txn *badger.Txn) error {
		it := txn.NewIterator(badger.DefaultIteratorOptions)
		defer it.Close()
		for it.Rewind(); it.Valid(); it.Next() {
			item := it.Item()
			items++
			if exp := item.ExpiresAt(); exp != 0 {
				mon = append(mon, fmt.Sprintf("c11-record-lapses: after a history of registrations, keep-alives, credits and links (no nonce was checked) the database holds a record, %q, that expires by itself in %d s: what it holds (tracked peers are judged at the node's NEXT keep-alive, whenever that is) would be gone for a node that checks in later than that", string(item.Key()), int64(exp)-time.Now().Unix()))
			}
		}
		return nil
	})
	db.Close()
	ctx.Emit(Case{I: i, Kind: "no-lapse", Desc: map[string]interface{}{"records": items, "real_time": realtime}, Monitor: mon})
}
