package main

import (
	"context"
	"encoding/json"
	"fmt"
	"reflect"
	"strings"

	"github.com/vipnode/vipnode/v2/jsonrpc2"
)

// C16, "wrongly typed parameters are refused", below the top level: the documented parameter of
// most calls is a structure. For every production method, every leaf of every parameter (by the
// declared Go types: field Name is a string, BlockNumber a number, PeerInfo a list, ...) is
// replaced, one at a time, by a JSON value of another kind; the call must be answered with
// invalid-params (-32602), i.e. refused before the method runs. A scalar type that brings its own
// decoder is left alone (its accepted spellings are its own business); a structure that brings
// its own decoder is still held to the declared types of its fields.

var (
	unmarshalerT = reflect.TypeOf((*json.Unmarshaler)(nil)).Elem()
	ctxT         = reflect.TypeOf((*context.Context)(nil)).Elem()
)

// populate builds a value of type t with one element in every list and map.
func populate(t reflect.Type, depth int) reflect.Value {
	v := reflect.New(t).Elem()
	if depth > 6 {
		return v
	}
	switch t.Kind() {
	case reflect.String:
		v.SetString("x")
	case reflect.Int, reflect.Int8, reflect.Int16, reflect.Int32, reflect.Int64:
		v.SetInt(1)
	case reflect.Uint, reflect.Uint8, reflect.Uint16, reflect.Uint32, reflect.Uint64:
		v.SetUint(1)
	case reflect.Float32, reflect.Float64:
		v.SetFloat(1)
	case reflect.Bool:
		v.SetBool(true)
	case reflect.Ptr:
		p := reflect.New(t.Elem())
		p.Elem().Set(populate(t.Elem(), depth+1))
		v.Set(p)
	case reflect.Slice:
		if t == reflect.TypeOf(json.RawMessage{}) {
			v.SetBytes([]byte(`{}`))
		} else if t.Elem().Kind() == reflect.Uint8 {
			v.SetBytes([]byte("x"))
		} else {
			v.Set(reflect.Append(v, populate(t.Elem(), depth+1)))
		}
	case reflect.Map:
		if t.Key().Kind() == reflect.String {
			m := reflect.MakeMap(t)
			m.SetMapIndex(reflect.ValueOf("k").Convert(t.Key()), populate(t.Elem(), depth+1))
			v.Set(m)
		}
	case reflect.Struct:
		for i := 0; i < t.NumField(); i++ {
			if t.Field(i).PkgPath == "" && v.Field(i).CanSet() {
				v.Field(i).Set(populate(t.Field(i).Type, depth+1))
			}
		}
	}
	return v
}

type deepMut struct {
	path string
	tree interface{}
}

// wrong returns JSON values of kinds the declared Go kind cannot be decoded from.
func wrongFor(k reflect.Kind) []interface{} {
	obj, arr := map[string]interface{}{"a": 1.0}, []interface{}{1.0}
	switch k {
	case reflect.String:
		return []interface{}{obj, 5.0, arr, true}
	case reflect.Bool:
		return []interface{}{"x", obj, 5.0}
	case reflect.Slice, reflect.Array:
		return []interface{}{"x", obj, 5.0}
	case reflect.Struct, reflect.Map:
		return []interface{}{"x", arr, 5.0}
	default: // numbers
		return []interface{}{"x", obj, arr, true}
	}
}

func isLeafWithOwnDecoder(t reflect.Type) bool {
	if t.Kind() == reflect.Struct || t.Kind() == reflect.Slice || t.Kind() == reflect.Map || t.Kind() == reflect.Ptr {
		return false
	}
	return t.Implements(unmarshalerT) || reflect.PtrTo(t).Implements(unmarshalerT)
}

// mutate walks the declared type alongside the generic JSON tree and yields every tree with one node replaced.
func mutate(t reflect.Type, tree interface{}, path string, rebuild func(interface{}) interface{}, out *[]deepMut) {
	for t.Kind() == reflect.Ptr {
		t = t.Elem()
	}
	if t.Kind() == reflect.Interface || isLeafWithOwnDecoder(t) {
		return
	}
	if t.Kind() == reflect.Struct && t.PkgPath() == "time" {
		return
	}
	if t.Kind() == reflect.Struct && t.PkgPath() == "math/big" {
		return
	}
	if t.Kind() == reflect.Slice && t.Elem().Kind() == reflect.Uint8 {
		return // []byte is base64 text
	}
	for _, w := range wrongFor(t.Kind()) {
		*out = append(*out, deepMut{path + " <- " + fmt.Sprintf("%T", w), rebuild(w)})
	}
	switch t.Kind() {
	case reflect.Struct:
		obj, ok := tree.(map[string]interface{})
		if !ok {
			return
		}
		for i := 0; i < t.NumField(); i++ {
			f := t.Field(i)
			if f.PkgPath != "" || f.Anonymous {
				continue
			}
			name := f.Name
			if tag := f.Tag.Get("json"); tag != "" {
				parts := strings.Split(tag, ",")
				if parts[0] == "-" {
					continue
				}
				if parts[0] != "" {
					name = parts[0]
				}
				if len(parts) > 1 && parts[1] == "string" {
					continue
				}
			}
			sub, present := obj[name]
			if !present {
				continue
			}
			fname := name
			mutate(f.Type, sub, path+"."+fname, func(nv interface{}) interface{} {
				c := map[string]interface{}{}
				for k, v := range obj {
					c[k] = v
				}
				c[fname] = nv
				return rebuild(c)
			}, out)
		}
	case reflect.Slice:
		arr, ok := tree.([]interface{})
		if !ok || len(arr) == 0 {
			return
		}
		mutate(t.Elem(), arr[0], path+"[0]", func(nv interface{}) interface{} {
			c := append([]interface{}{}, arr...)
			c[0] = nv
			return rebuild(c)
		}, out)
	case reflect.Map:
		obj, ok := tree.(map[string]interface{})
		if !ok {
			return
		}
		for k, sub := range obj {
			k := k
			mutate(t.Elem(), sub, path+"["+k+"]", func(nv interface{}) interface{} {
				c := map[string]interface{}{}
				for kk, v := range obj {
					c[kk] = v
				}
				c[k] = nv
				return rebuild(c)
			}, out)
		}
	}
}

func c16Deep(ctx *Ctx, i int, recv map[string]interface{}) {
	var mon []string
	probes, methods := 0, 0
	for _, r := range productionRegistrations(ctx.Repo) {
		rv, ok := recv[r.Recv]
		if !ok {
			continue
		}
		srv := &jsonrpc2.Server{}
		if err := srv.Register(r.Prefix, rv, r.Allow...); err != nil {
			continue
		}
		rt := reflect.TypeOf(rv)
		for k := 0; k < rt.NumMethod(); k++ {
			m := rt.Method(k)
			name := r.Prefix + strings.ToLower(m.Name[:1]) + m.Name[1:]
			if !allowed(r.Allow, name, r.Prefix) {
				continue
			}
			var argT []reflect.Type
			for a := 1; a < m.Type.NumIn(); a++ {
				if m.Type.In(a) != ctxT {
					argT = append(argT, m.Type.In(a))
				}
			}
			if len(argT) == 0 {
				continue
			}
			methods++
			// a well-typed parameter list, as a generic JSON tree
			valid := make([]interface{}, len(argT))
			for a, t := range argT {
				raw, err := json.Marshal(populate(t, 0).Interface())
				if err != nil {
					fatal("marshal %s arg %d: %v", name, a, err)
				}
				json.Unmarshal(raw, &valid[a])
			}
			var muts []deepMut
			for a, t := range argT {
				a := a
				mutate(t, valid[a], fmt.Sprintf("param %d", a), func(nv interface{}) interface{} {
					c := append([]interface{}{}, valid...)
					c[a] = nv
					return c
				}, &muts)
			}
			for _, mu := range muts {
				raw, _ := json.Marshal(mu.tree)
				resp := srv.Handle(context.Background(), requestMsg(name, string(raw)))
				probes++
				code := 0
				if resp.Response != nil && resp.Response.Error != nil {
					code = resp.Response.Error.Code
				}
				if code != jsonrpc2.ErrCodeInvalidParams && len(mon) < 6 {
					mon = append(mon, fmt.Sprintf("c16-deep-type-accepted: %s with %s (params %s) was not refused as invalid parameters (error code %d): a wrongly typed parameter reached the method", name, mu.path, raw, code))
				}
			}
		}
	}
	// names that differ from a served name only by characters one does not see (control
	// characters, zero-width and non-breaking spaces, a byte-order mark, bidi marks): other names,
	// hence method-not-found -- over the registry directly and over HTTP
	invisible := 0
	for _, r := range productionRegistrations(ctx.Repo) {
		rv, ok := recv[r.Recv]
		if !ok {
			continue
		}
		srv := &jsonrpc2.Server{}
		if err := srv.Register(r.Prefix, rv, r.Allow...); err != nil {
			continue
		}
		rt := reflect.TypeOf(rv)
		for k := 0; k < rt.NumMethod(); k++ {
			name := r.Prefix + strings.ToLower(rt.Method(k).Name[:1]) + rt.Method(k).Name[1:]
			if !allowed(r.Allow, name, r.Prefix) {
				continue
			}
			cut := len(r.Prefix)
			for _, v := range []string{name + "\n", "\t" + name, name + "\x00", name[:cut] + "\u200b" + name[cut:], "\ufeff" + name, name + "\u00a0",
				name[:cut] + "\u00ad" + name[cut:], "\u202e" + name, name + "\r\n", name + "\u0085", " " + name, name + " "} {
				raw, _ := json.Marshal(v)
				msg := requestMsg("placeholder", "[]")
				json.Unmarshal([]byte(fmt.Sprintf(`{"jsonrpc":"2.0","id":1,"method":%s,"params":[]}`, raw)), msg)
				resp := srv.Handle(context.Background(), msg)
				invisible++
				code := 0
				if resp.Response != nil && resp.Response.Error != nil {
					code = resp.Response.Error.Code
				}
				if code != jsonrpc2.ErrCodeMethodNotFound && len(mon) < 6 {
					mon = append(mon, fmt.Sprintf("c16-lookalike-name-served: the name %q is not registered (the registered name is %q) yet the call was not answered method-not-found (error code %d): it reached a method", v, name, code))
				}
			}
		}
	}
	ctx.Emit(Case{I: i, Kind: "deep-types", Desc: map[string]interface{}{"methods": methods, "probes": probes, "lookalike_names": invisible}, Monitor: mon})
}
