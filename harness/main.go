// vharness drives the real vipnode packages (built with -tags verif against /repo) on
// generated operation sequences and prints, per case, the observations as Gallina terms for
// the in-kernel correspondence check plus the verdicts of implementation-side monitors.
package main

import (
	"bufio"
	"flag"
	"fmt"
	"math/rand"
	"os"
)

var commands = map[string]func(*Ctx){}

func main() {
	if len(os.Args) < 2 {
		fatal("usage: vharness <property|facts> [flags]")
	}
	cmd := os.Args[1]
	fs := flag.NewFlagSet(cmd, flag.ExitOnError)
	seed := fs.Int64("seed", 1, "PRNG seed")
	tier := fs.String("tier", "quick", "quick|thorough")
	out := fs.String("out", "-", "output file (JSON lines)")
	only := fs.Int("only", -1, "run only this case index (replay)")
	repo := fs.String("repo", "/repo", "source tree (facts)")
	dir := fs.String("dir", "", "database directory (child modes)")
	script := fs.String("script", "", "operation script (child modes)")
	fs.Parse(os.Args[2:])
	f, ok := commands[cmd]
	if !ok {
		fatal("unknown command %q", cmd)
	}
	w := os.Stdout
	if *out != "-" {
		var err error
		w, err = os.Create(*out)
		if err != nil {
			fatal("%v", err)
		}
		defer w.Close()
	}
	ctx := &Ctx{Seed: *seed, Tier: *tier, Only: *only, Repo: *repo, Dir: *dir, Script: *script,
		Rng: rand.New(rand.NewSource(*seed)), out: bufio.NewWriterSize(w, 1<<20), Stats: map[string]int{}}
	f(ctx)
	ctx.Close()
	fmt.Fprintf(os.Stderr, "vharness %s: %d cases\n", cmd, ctx.n)
}
