package main

import (
	"fmt"
	"go/ast"
	"strings"
)

// claimFacts: the shape of Agent.Start that the Claim model assumes: the test of a.started and
// the assignment a.started = true happen in one stretch holding a.mu (test-and-set), and a failed
// start gives the claim back (a.started = false somewhere in Start).
func claimFacts(ctx *Ctx, b *strings.Builder) {
	_, f := parseFile(ctx.Repo, "agent/agent.go")
	atomic, rollback := false, false
	methods := map[string]*ast.FuncDecl{}
	for _, d := range f.Decls {
		if fd, ok := d.(*ast.FuncDecl); ok && fd.Body != nil {
			if typ, _ := recvName(fd); typ == "Agent" {
				methods[fd.Name.Name] = fd
			}
		}
	}
	// stretch: does the statement list test a.started and set it to true within one stretch that
	// holds a.mu (Lock ... Unlock, or Lock; defer Unlock to the end of the function)
	stretch := func(fd *ast.FuncDecl) bool {
		_, recv := recvName(fd)
		isStarted := func(e ast.Expr) bool { return isSel(e, recv, "started") }
		found := false
		held, tested, set := false, false, false
		for _, st := range fd.Body.List {
			if es, ok := st.(*ast.ExprStmt); ok {
				if c, ok := es.X.(*ast.CallExpr); ok {
					if isSel(c.Fun, recv, "mu", "Lock") && !held && !tested && !set {
						held = true
						continue
					}
					if isSel(c.Fun, recv, "mu", "Unlock") && held {
						held = false
						if tested && set {
							found = true
						}
						tested, set = false, false
						continue
					}
				}
			}
			if ds, ok := st.(*ast.DeferStmt); ok && isSel(ds.Call.Fun, recv, "mu", "Unlock") {
				continue // held to the end of the function
			}
			if !held {
				continue
			}
			if is, ok := st.(*ast.IfStmt); ok && isStarted(is.Cond) {
				tested = true
			}
			if as, ok := st.(*ast.AssignStmt); ok && len(as.Lhs) == 1 && isStarted(as.Lhs[0]) {
				if id, ok := as.Rhs[0].(*ast.Ident); ok && id.Name == "true" && tested {
					set = true
				}
			}
		}
		if held && tested && set { // Lock; defer Unlock; test; set
			found = true
		}
		return found
	}
	// clears: does the function set a.started = false (anywhere, closures included)
	var clears func(n ast.Node, recv string, depth int) bool
	clears = func(n ast.Node, recv string, depth int) bool {
		found := false
		ast.Inspect(n, func(x ast.Node) bool {
			switch v := x.(type) {
			case *ast.AssignStmt:
				if len(v.Lhs) == 1 && isSel(v.Lhs[0], recv, "started") {
					if id, ok := v.Rhs[0].(*ast.Ident); ok && id.Name == "false" {
						found = true
					}
				}
			case *ast.CallExpr: // a helper method of the agent that does it
				if se, ok := v.Fun.(*ast.SelectorExpr); ok && depth == 0 {
					if id, ok := se.X.(*ast.Ident); ok && id.Name == recv {
						if m := methods[se.Sel.Name]; m != nil && m.Name.Name != "Start" {
							_, mr := recvName(m)
							if clears(m.Body, mr, 1) {
								found = true
							}
						}
					}
				}
			}
			return true
		})
		return found
	}
	if fd := methods["Start"]; fd != nil {
		_, recv := recvName(fd)
		atomic = stretch(fd)
		if !atomic {
			// or the claim is a helper method doing the test-and-set, whose refusal makes Start
			// return before anything else is done: if !a.claim() { return ... }
			for _, st := range fd.Body.List {
				is, ok := st.(*ast.IfStmt)
				if !ok || is.Init != nil {
					continue
				}
				ue, ok := is.Cond.(*ast.UnaryExpr)
				if !ok || ue.Op.String() != "!" {
					continue
				}
				call, ok := ue.X.(*ast.CallExpr)
				if !ok {
					continue
				}
				se, ok := call.Fun.(*ast.SelectorExpr)
				if !ok {
					continue
				}
				if id, ok := se.X.(*ast.Ident); !ok || id.Name != recv {
					continue
				}
				m := methods[se.Sel.Name]
				returns := len(is.Body.List) > 0
				if returns {
					_, returns = is.Body.List[len(is.Body.List)-1].(*ast.ReturnStmt)
				}
				if m != nil && stretch(m) && returns {
					atomic = true
				}
				break // only the first such test can be the claim
			}
		}
		rollback = clears(fd.Body, recv, 0)
	}
	// the end of a stopped loop: does the loop clear the flag when it takes the stop request, and
	// does the goroutine that Start spawns around the loop clear it again unconditionally (outside
	// any if) after the loop has returned? Both together is the double clear of D30.
	stopBranchClears, wrapperClearsAlways := false, false
	if fd := methods["serveUpdates"]; fd != nil {
		_, recv := recvName(fd)
		ast.Inspect(fd.Body, func(x ast.Node) bool {
			if cc, ok := x.(*ast.CommClause); ok && cc.Comm != nil {
				recvFromStop := false
				ast.Inspect(cc.Comm, func(y ast.Node) bool {
					if ue, ok := y.(*ast.UnaryExpr); ok && ue.Op.String() == "<-" && isSel(ue.X, recv, "stopCh") {
						recvFromStop = true
					}
					return true
				})
				if recvFromStop {
					for _, st := range cc.Body {
						if clears(st, recv, 0) {
							stopBranchClears = true
						}
					}
				}
			}
			return true
		})
	}
	if fd := methods["Start"]; fd != nil {
		_, recv := recvName(fd)
		ast.Inspect(fd.Body, func(x ast.Node) bool {
			gs, ok := x.(*ast.GoStmt)
			if !ok {
				return true
			}
			fl, ok := gs.Call.Fun.(*ast.FuncLit)
			if !ok {
				return true
			}
			runsLoop := false
			ast.Inspect(fl.Body, func(y ast.Node) bool {
				if c, ok := y.(*ast.CallExpr); ok && isSel(c.Fun, recv, "serveUpdates") {
					runsLoop = true
				}
				return true
			})
			if runsLoop {
				for _, st := range fl.Body.List {
					callsLoop := false
					ast.Inspect(st, func(y ast.Node) bool {
						if c, ok := y.(*ast.CallExpr); ok && isSel(c.Fun, recv, "serveUpdates") {
							callsLoop = true
						}
						return true
					})
					if callsLoop {
						continue // the loop itself (its own clear is the first one)
					}
					if _, isIf := st.(*ast.IfStmt); !isIf && clears(st, recv, 0) {
						wrapperClearsAlways = true
					}
				}
			}
			return true
		})
	}
	b.WriteString("(* agent/agent.go: a loop that takes a stop request clears a.started; the goroutine around the loop does NOT clear it again unconditionally (D30) *)\n")
	fmt.Fprintf(b, "Definition agent_stopped_loop_clears_flag_twice : bool := %v.\n", stopBranchClears && wrapperClearsAlways)
	b.WriteString("(* agent/agent.go Start: test-and-set of a.started in one stretch holding a.mu (in Start or in the helper whose refusal ends it); a failed start clears it *)\n")
	fmt.Fprintf(b, "Definition agent_start_test_and_set_atomic : bool := %v.\n", atomic)
	fmt.Fprintf(b, "Definition agent_start_gives_claim_back : bool := %v.\n\n", rollback)
}
