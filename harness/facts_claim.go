package main

import (
	"fmt"
	"go/ast"
	"strings"
)

// claimFacts: the shape of Agent.Start that the Claim model assumes: the test of a.started and
// the assignment a.started = true happen in one stretch holding a.mu (test-and-set), and a failed
// start gives the claim back (a.started = false somewhere in Start).
func claimFacts(ctx *Ctx, b *strings.Builder) {
	_, f := parseFile(ctx.Repo, "agent/agent.go")
	atomic, rollback := false, false
	for _, d := range f.Decls {
		fd, ok := d.(*ast.FuncDecl)
		if !ok || fd.Body == nil || fd.Name.Name != "Start" {
			continue
		}
		typ, recv := recvName(fd)
		if typ != "Agent" {
			continue
		}
		isStarted := func(e ast.Expr) bool { return isSel(e, recv, "started") }
		held, tested, set := false, false, false
		for _, st := range fd.Body.List {
			if es, ok := st.(*ast.ExprStmt); ok {
				if c, ok := es.X.(*ast.CallExpr); ok {
					if isSel(c.Fun, recv, "mu", "Lock") && !held && !tested && !set {
						held = true
						continue
					}
					if isSel(c.Fun, recv, "mu", "Unlock") && held {
						held = false
						if tested && set {
							atomic = true
						}
						tested, set = false, false
						continue
					}
				}
			}
			if ds, ok := st.(*ast.DeferStmt); ok && isSel(ds.Call.Fun, recv, "mu", "Unlock") {
				continue // held to the end of the function
			}
			if !held {
				// a test or a set outside the first stretch breaks the shape
				if is, ok := st.(*ast.IfStmt); ok && isStarted(is.Cond) {
					tested = false
				}
				continue
			}
			if is, ok := st.(*ast.IfStmt); ok && isStarted(is.Cond) {
				tested = true
			}
			if as, ok := st.(*ast.AssignStmt); ok && len(as.Lhs) == 1 && isStarted(as.Lhs[0]) {
				if id, ok := as.Rhs[0].(*ast.Ident); ok && id.Name == "true" && tested {
					set = true
				}
			}
		}
		if held && tested && set { // Lock; defer Unlock; test; set
			atomic = true
		}
		ast.Inspect(fd.Body, func(n ast.Node) bool {
			if as, ok := n.(*ast.AssignStmt); ok && len(as.Lhs) == 1 && isStarted(as.Lhs[0]) {
				if id, ok := as.Rhs[0].(*ast.Ident); ok && id.Name == "false" {
					rollback = true
				}
			}
			return true
		})
	}
	b.WriteString("(* agent/agent.go Start: test-and-set of a.started in one stretch holding a.mu; a failed start clears it *)\n")
	fmt.Fprintf(b, "Definition agent_start_test_and_set_atomic : bool := %v.\n", atomic)
	fmt.Fprintf(b, "Definition agent_start_gives_claim_back : bool := %v.\n\n", rollback)
}
