package main

import (
	"context"
	"errors"
	"fmt"
	"math/big"
	"math/rand"
	"strings"
	"sync"
	"sync/atomic"
	"time"

	"github.com/ethereum/go-ethereum/accounts/abi/bind"
	"github.com/ethereum/go-ethereum/accounts/abi/bind/backends"
	"github.com/ethereum/go-ethereum/common"
	"github.com/ethereum/go-ethereum/core"
	"github.com/ethereum/go-ethereum/core/types"
	"github.com/vipnode/vipnode-contract/go/vipnodepool"
	"github.com/vipnode/vipnode/v2/pool"
	"github.com/vipnode/vipnode/v2/pool/balance"
	"github.com/vipnode/vipnode/v2/pool/payment"
	"github.com/vipnode/vipnode/v2/pool/store"
	"github.com/vipnode/vipnode/v2/request"
)

// The pool as deployed: balance manager, payment service and settlement all on
// payment.ContractPayment over the real VipnodePool contract (go-ethereum's simulated chain).
// Scenarios for C01/C02 (keep-alives of a client whose deposit cannot be read stay zero-sum),
// C03 (a deposit made after the pool cached "no deposit" is seen), C10 (what other requests read
// while a settlement is being submitted, and after it failed).

// hookBackend lets a scenario act at the moment a transaction is handed to the chain, and make
// that submission fail.
type hookBackend struct {
	*backends.SimulatedBackend
	mu      sync.Mutex
	onSend  func()
	onNonce func() // called when a transaction is being prepared (its sender's next nonce is looked up)
	fail    bool
}

func (h *hookBackend) PendingNonceAt(ctx context.Context, account common.Address) (uint64, error) {
	h.mu.Lock()
	f := h.onNonce
	h.mu.Unlock()
	if f != nil {
		f()
	}
	return h.SimulatedBackend.PendingNonceAt(ctx, account)
}

func (h *hookBackend) SendTransaction(ctx context.Context, tx *types.Transaction) (err error) {
	defer func() { // the simulated chain panics where a node would answer with an error
		if r := recover(); r != nil {
			err = fmt.Errorf("transaction rejected: %v", r)
		}
	}()
	h.mu.Lock()
	f, fail := h.onSend, h.fail
	h.mu.Unlock()
	if f != nil {
		f()
	}
	if fail {
		return errors.New("transaction submission failed (connection to the node lost)")
	}
	return h.SimulatedBackend.SendTransaction(ctx, tx)
}

type chainWorld struct {
	st       *openStore
	sim      *backends.SimulatedBackend
	hb       *hookBackend
	contract *vipnodepool.VipnodePool
	addr     common.Address
	opAuth   *bind.TransactOpts
	wAuth    *bind.TransactOpts
	nonce    int64
}

func newChainWorld(drv int) *chainWorld {
	c := &chainWorld{st: newStore(drv), nonce: time.Now().UnixNano()}
	c.opAuth = bind.NewKeyedTransactor(keyFor("operator"))
	c.wAuth = bind.NewKeyedTransactor(keyFor("w1"))
	rich, _ := new(big.Int).SetString("1000000000000000000000", 10)
	c.sim = backends.NewSimulatedBackend(core.GenesisAlloc{c.opAuth.From: {Balance: rich}, c.wAuth.From: {Balance: rich}}, 8000000)
	c.hb = &hookBackend{SimulatedBackend: c.sim}
	var err error
	c.addr, _, c.contract, err = vipnodepool.DeployVipnodePool(c.opAuth, c.sim, c.opAuth.From)
	if err != nil {
		fatal("deploy: %v", err)
	}
	c.sim.Commit()
	return c
}
func (c *chainWorld) Close()      { c.sim.Close(); c.st.Destroy() }
func (c *chainWorld) next() int64 { c.nonce++; return c.nonce }
func (c *chainWorld) tx(a *bind.TransactOpts, value *big.Int) *bind.TransactOpts {
	return &bind.TransactOpts{From: a.From, Signer: a.Signer, Value: value, GasPrice: big.NewInt(1), GasLimit: 300000}
}
func (c *chainWorld) deposit(v int64) {
	if _, err := c.contract.AddBalance(c.tx(c.wAuth, big.NewInt(v))); err != nil {
		fatal("deposit: %v", err)
	}
	c.sim.Commit()
}
func (c *chainWorld) payment(operator bool) (store.BalanceStore, func(store.Account, *big.Int, *big.Int) (string, error)) {
	var opts *bind.TransactOpts
	if operator {
		opts = &bind.TransactOpts{From: c.opAuth.From, Signer: c.opAuth.Signer, GasPrice: big.NewInt(1), GasLimit: 300000}
	}
	cp, err := payment.ContractPayment(c.st.Store, c.addr, c.hb, opts)
	if err != nil {
		fatal("ContractPayment: %v", err)
	}
	return cp, cp.OpSettle
}

// contractKeepalive: a client linked to a wallet whose deposit is timelocked (the pool restarted
// since: nothing cached) sends billing keep-alives. The pool cannot read its balance; whatever it
// answers, the hosts' credits and the client's debit must still add up to zero.
var keepaliveScenarios int64

func contractKeepalive(drv int, rng *rand.Rand) (map[string]interface{}, []string) {
	bg := context.Background()
	c := newChainWorld(drv)
	defer c.Close()
	var mon []string
	c.deposit(int64(1000 + rng.Intn(100000)))
	cid, wallet := nodeIDOf("c1"), walletOf("w1")
	hosts := []string{nodeIDOf("h1"), nodeIDOf("h2")}[:1+rng.Intn(2)]
	now := time.Now()
	c.st.SetNode(store.Node{ID: store.NodeID(cid), Kind: "geth", LastSeen: now})
	for _, h := range hosts {
		c.st.SetNode(store.Node{ID: store.NodeID(h), URI: "enode://" + h + "@10.0.0.9:30303", IsHost: true, Kind: "geth", LastSeen: now})
	}
	if err := c.st.AddAccountNode(store.Account(wallet), store.NodeID(cid)); err != nil {
		fatal("%v", err)
	}
	locked := atomic.AddInt64(&keepaliveScenarios, 1)%2 == 0 // alternately: a timelocked deposit, a spendable one
	if locked {
		if _, err := c.contract.ForceSettle(c.tx(c.wAuth, nil)); err != nil {
			fatal("forceSettle: %v", err)
		}
		c.sim.Commit()
	}
	cp, _ := c.payment(false)
	mgr := balance.PayPerInterval(cp, time.Nanosecond, big.NewInt(1))
	if !locked {
		// a minimum balance is configured (far below anything reached here): it is looked at, it refuses nobody
		mgr.MinBalance = big.NewInt(-1000000000)
	}
	var clock time.Time
	mgr.VerifSetClock(func() time.Time { return clock })
	p := pool.New(c.st.Store, mgr)
	var lastReply *pool.UpdateResponse
	update := func() error {
		req := pool.UpdateRequest{PeerInfo: peerInfos(hosts), BlockNumber: 1}
		n := c.next()
		sig, _ := request.Sign(keyFor("c1"), "vipnode_update", cid, n, req)
		resp, err := p.Update(bg, sig, cid, n, req)
		lastReply = resp
		return err
	}
	total := func() *big.Int {
		s, err := c.st.Stats()
		if err != nil {
			fatal("%v", err)
		}
		return new(big.Int).Set(&s.TotalCredit)
	}
	credit := func(id string) *big.Int {
		b, _ := c.st.GetNodeBalance(store.NodeID(id))
		return new(big.Int).Set(&b.Credit)
	}
	nd, _ := c.st.GetNode(store.NodeID(cid))
	clock = nd.LastSeen
	first := update() // tracks the hosts; no time to bill
	var log []string
	log = append(log, fmt.Sprintf("first keep-alive: %v", first))
	for r := 0; r < 2+rng.Intn(3); r++ {
		nd, _ = c.st.GetNode(store.NodeID(cid))
		charge := int64(1 + rng.Intn(5000))
		clock = nd.LastSeen.Add(time.Duration(charge))
		t0, c0 := total(), credit(cid)
		h0 := map[string]*big.Int{}
		for _, h := range hosts {
			h0[h] = credit(h)
		}
		err := update()
		t1, c1 := total(), credit(cid)
		earned := new(big.Int)
		for _, h := range hosts {
			earned.Add(earned, new(big.Int).Sub(credit(h), h0[h]))
		}
		paid := new(big.Int).Sub(c0, c1)
		log = append(log, fmt.Sprintf("keep-alive billing %d per host (deposit timelocked: %v): %v; hosts +%s, client -%s", charge, locked, err, earned, paid))
		if t0.Cmp(t1) != 0 {
			mon = append(mon, fmt.Sprintf("c01-contract-total: a keep-alive of a client whose wallet deposit is timelocked=%v (balance store: the contract) moved the ledger total from %s to %s (hosts +%s, client -%s; the keep-alive answered: %v)", locked, t0, t1, earned, paid, err))
		}
		if err == nil && lastReply != nil && lastReply.Balance != nil {
			// the balance in the reply is the ledger's credit and the contract's deposit
			on, _ := c.contract.Accounts(nil, common.HexToAddress(wallet))
			if lastReply.Balance.Credit.Cmp(c1) != 0 || (on.Balance != nil && lastReply.Balance.Deposit.Cmp(on.Balance) != 0) {
				mon = append(mon, fmt.Sprintf("c02-contract-reply: the keep-alive's reply reports credit %s and deposit %s; the ledger holds credit %s and the contract a deposit of %s", &lastReply.Balance.Credit, &lastReply.Balance.Deposit, c1, on.Balance))
			}
		}
		if earned.Cmp(paid) != 0 {
			mon = append(mon, fmt.Sprintf("c02-contract-amount: the hosts were credited %s, the client debited %s (deposit timelocked=%v; the keep-alive answered: %v)", earned, paid, locked, err))
		}
	}
	return map[string]interface{}{"driver": driverNames[drv], "hosts": len(hosts), "deposit_timelocked": locked, "steps": log}, mon
}

// contractLateDeposit: the client connects while its wallet holds nothing on-chain (the pool
// caches that), then the wallet deposits; once the contract's Balance event has arrived the client
// must be let in.
func contractLateDeposit(drv int, rng *rand.Rand) (map[string]interface{}, []string) {
	bg := context.Background()
	c := newChainWorld(drv)
	defer c.Close()
	var mon []string
	min := big.NewInt(int64(1000 + rng.Intn(5000)))
	cp, _ := c.payment(false)
	mgr := balance.PayPerInterval(cp, time.Minute, big.NewInt(1000))
	mgr.MinBalance = min
	p := pool.New(c.st.Store, mgr)
	pay := &payment.PaymentService{NonceStore: c.st.Store, AccountStore: c.st.Store, BalanceStore: cp}
	cid, wallet := nodeIDOf("c1"), walletOf("w1")
	connect := func() error {
		req := pool.ConnectRequest{VipnodeVersion: "verif", NodeInfo: userAgentFor("geth", false)}
		n := c.next()
		sig, _ := request.Sign(keyFor("c1"), "vipnode_connect", cid, n, req)
		_, err := p.Connect(bg, sig, cid, n, req)
		return err
	}
	connect() // registers the node (refused for its balance)
	n := c.next()
	sig, _ := request.Sign(keyFor("w1"), "pool_addNode", wallet, n, cid)
	if err := pay.AddNode(bg, sig, wallet, n, cid); err != nil {
		fatal("addNode: %v", err)
	}
	before := connect()
	_, lowBefore := before.(balance.LowBalanceError)
	if !lowBefore {
		mon = append(mon, fmt.Sprintf("c03-contract-connect: a client whose wallet holds nothing (minimum %s) was not refused: %v", min, before))
	}
	c.deposit(min.Int64() + int64(rng.Intn(3)))
	var after error
	waited := time.Duration(0)
	t0 := time.Now()
	for {
		after = connect()
		waited = time.Since(t0)
		if _, low := after.(balance.LowBalanceError); !low || waited > 3*time.Second {
			break
		}
		time.Sleep(20 * time.Millisecond)
	}
	if _, low := after.(balance.LowBalanceError); low {
		mon = append(mon, fmt.Sprintf("c03-contract-deposit-not-seen: the wallet %s deposited the minimum on-chain (Balance event emitted and mined) %s ago, the client is still refused: %v", wallet, waited.Round(time.Millisecond), after))
	}
	return map[string]interface{}{"driver": driverNames[drv], "minimum": min.String(), "refused_before_deposit": fmt.Sprint(before), "after_deposit": fmt.Sprint(after), "seen_after_ms": waited.Milliseconds()}, mon
}

// contractSettleInFlight: while a withdrawal's settlement transaction is being submitted, another
// request reads the wallet's balance, and the wallet tops up on-chain; then the submission fails.
// Nothing was settled: every reader, during and after, must see what is on the contract.
func contractSettleInFlight(drv int, rng *rand.Rand) (map[string]interface{}, []string) {
	bg := context.Background()
	c := newChainWorld(drv)
	defer c.Close()
	var mon []string
	dep := int64(10000 + rng.Intn(10000))
	top := int64(1 + rng.Intn(5000))
	c.deposit(dep)
	cp, settle := c.payment(true)
	wallet := walletOf("w1")
	acct := store.Account(wallet)
	c.st.AddAccountBalance(acct, big.NewInt(500))
	pay := &payment.PaymentService{NonceStore: c.st.Store, AccountStore: c.st.Store, BalanceStore: cp, Settle: settle}
	readDeposit := func() string {
		b, err := cp.GetAccountBalance(acct)
		if err != nil {
			return "error: " + err.Error()
		}
		return b.Deposit.String()
	}
	onChain := func() string {
		a, err := c.contract.Accounts(nil, common.HexToAddress(wallet))
		if err != nil {
			return "error: " + err.Error()
		}
		return a.Balance.String()
	}
	first := readDeposit()
	during, duringAfterTopUp := "", ""
	c.hb.mu.Lock()
	c.hb.fail = true
	c.hb.onSend = func() {
		during = readDeposit()
		// the wallet tops up while the settlement is in flight; wait for the Balance event
		c.deposit(top)
		want := big.NewInt(dep + top).String()
		for t0 := time.Now(); time.Since(t0) < 2*time.Second; time.Sleep(10 * time.Millisecond) {
			if duringAfterTopUp = readDeposit(); duringAfterTopUp == want {
				break
			}
		}
	}
	c.hb.mu.Unlock()
	n := c.next()
	sig, _ := request.Sign(keyFor("w1"), "pool_withdraw", wallet, n)
	werr := pay.Withdraw(bg, sig, wallet, n)
	c.hb.mu.Lock()
	c.hb.fail, c.hb.onSend = false, nil
	c.hb.mu.Unlock()
	c.sim.Commit()
	afterwards := ""
	for t0 := time.Now(); time.Since(t0) < 1500*time.Millisecond; time.Sleep(20 * time.Millisecond) {
		if afterwards = readDeposit(); afterwards == onChain() {
			break
		}
	}
	chain := onChain()
	if werr == nil {
		mon = append(mon, "c10-contract-settle: the settlement transaction could not be submitted, yet the withdrawal reported success")
	}
	if during != first {
		mon = append(mon, fmt.Sprintf("c10-contract-dirty-read: while the settlement of a withdrawal was being submitted (it then failed: nothing was ever settled) another request read the wallet's deposit as %s; it was, and stayed, %s on the contract", during, first))
	}
	if afterwards != chain {
		mon = append(mon, fmt.Sprintf("c10-contract-lost-update: the wallet topped up by %d while a settlement was being submitted; the submission failed; the pool now reads the deposit as %s, the contract holds %s (seen as %s while in flight)", top, afterwards, chain, duringAfterTopUp))
	}
	if !strings.Contains(fmt.Sprint(werr), "submission failed") && werr != nil {
		// some other refusal: still fine for the monitors above, but record it
	}
	return map[string]interface{}{"driver": driverNames[drv], "deposit": dep, "top_up": top, "read_before": first, "read_during_submission": during, "read_after_top_up": duringAfterTopUp, "read_afterwards": afterwards, "on_chain": chain, "withdraw_error": fmt.Sprint(werr)}, mon
}

// contractFailedSettlement: the settlement transaction of a withdrawal cannot be submitted (the
// node is unreachable, gas estimation refuses, ...): the withdrawal fails and nothing moved; the
// wallet asks again and is paid deposit + credit - fee, once.
func contractFailedSettlement(drv int, rng *rand.Rand) (map[string]interface{}, []string) {
	bg := context.Background()
	c := newChainWorld(drv)
	defer c.Close()
	var mon []string
	dep := int64(1000 + rng.Intn(100000))
	cred := int64(1 + rng.Intn(100000))
	fee := int64(rng.Intn(3) * 10)
	// somebody else's deposit is what the earned credit is paid from
	other := bind.NewKeyedTransactor(keyFor("operator"))
	if _, err := c.contract.AddBalance(c.tx(other, big.NewInt(10000000))); err != nil {
		fatal("funding: %v", err)
	}
	c.deposit(dep)
	cp, settle := c.payment(true)
	wallet := walletOf("w1")
	acct := store.Account(wallet)
	c.st.AddAccountBalance(acct, big.NewInt(cred))
	pay := &payment.PaymentService{NonceStore: c.st.Store, AccountStore: c.st.Store, BalanceStore: cp, Settle: settle}
	if fee > 0 {
		pay.WithdrawFee = func(a *big.Int) *big.Int { return new(big.Int).Sub(a, big.NewInt(fee)) }
	}
	wAddr := common.HexToAddress(wallet)
	ether := func() *big.Int { b, _ := c.sim.BalanceAt(bg, wAddr, nil); return b }
	withdraw := func() error {
		n := c.next()
		sig, _ := request.Sign(keyFor("w1"), "pool_withdraw", wallet, n)
		return pay.Withdraw(bg, sig, wallet, n)
	}
	e0 := ether()
	fails := 1 + rng.Intn(2)
	c.hb.mu.Lock()
	c.hb.fail = true
	c.hb.mu.Unlock()
	var errs []string
	for k := 0; k < fails; k++ {
		err := withdraw()
		errs = append(errs, fmt.Sprint(err))
		if err == nil {
			mon = append(mon, "c07-contract-failed-settlement: the settlement transaction could not be submitted, yet the withdrawal reported success")
		}
		b, berr := cp.GetAccountBalance(acct)
		if berr != nil || b.Deposit.Cmp(big.NewInt(dep)) != 0 || b.Credit.Cmp(big.NewInt(cred)) != 0 {
			mon = append(mon, fmt.Sprintf("c07-contract-failed-settlement: after a withdrawal whose settlement could not be submitted the pool reads deposit %s / credit %s (error %v); nothing was settled: deposit %d / credit %d", &b.Deposit, &b.Credit, berr, dep, cred))
		}
	}
	c.hb.mu.Lock()
	c.hb.fail = false
	c.hb.mu.Unlock()
	okErr := withdraw()
	c.sim.Commit()
	received := new(big.Int).Sub(ether(), e0)
	want := big.NewInt(dep + cred - fee)
	on, _ := c.contract.Accounts(nil, wAddr)
	led, _ := c.st.GetAccountBalance(acct)
	if okErr != nil {
		mon = append(mon, fmt.Sprintf("c07-contract-refused: after %d failed settlement submissions the withdrawal is refused although the node is reachable again: %v", fails, okErr))
	} else if received.Cmp(want) != 0 || on.Balance.Sign() != 0 || led.Credit.Sign() != 0 {
		mon = append(mon, fmt.Sprintf("c07-contract-paid: after %d failed settlement submissions the next withdrawal put %s into the wallet (deposit %d + credit %d - fee %d = %s owed); left: deposit %s, credit %s", fails, received, dep, cred, fee, want, on.Balance, &led.Credit))
	}
	return map[string]interface{}{"driver": driverNames[drv], "deposit": dep, "credit": cred, "fee": fee, "failed_submissions": errs, "then": fmt.Sprint(okErr), "received": received.String()}, mon
}

// contractRestartBeforeMining: a withdrawal is settled (transaction submitted, not yet mined); the
// pool restarts (nothing cached); the wallet asks again. The contract's PENDING state already has
// the deposit at 0: the second request must not be paid the deposit again.
func contractRestartBeforeMining(drv int, rng *rand.Rand) (map[string]interface{}, []string) {
	bg := context.Background()
	c := newChainWorld(drv)
	defer c.Close()
	var mon []string
	dep := int64(1000 + rng.Intn(100000))
	cred := int64(1 + rng.Intn(100000))
	other := bind.NewKeyedTransactor(keyFor("operator"))
	if _, err := c.contract.AddBalance(c.tx(other, big.NewInt(10000000))); err != nil {
		fatal("funding: %v", err)
	}
	c.deposit(dep)
	wallet := walletOf("w1")
	acct := store.Account(wallet)
	c.st.AddAccountBalance(acct, big.NewInt(cred))
	wAddr := common.HexToAddress(wallet)
	ether := func() *big.Int { b, _ := c.sim.BalanceAt(bg, wAddr, nil); return b }
	start := func() *payment.PaymentService {
		cp, settle := c.payment(true)
		return &payment.PaymentService{NonceStore: c.st.Store, AccountStore: c.st.Store, BalanceStore: cp, Settle: settle}
	}
	withdraw := func(pay *payment.PaymentService) error {
		n := c.next()
		sig, _ := request.Sign(keyFor("w1"), "pool_withdraw", wallet, n)
		return pay.Withdraw(bg, sig, wallet, n)
	}
	e0 := ether()
	first := withdraw(start())
	restarts := 1 + rng.Intn(2)
	var again []string
	for k := 0; k < restarts; k++ {
		again = append(again, fmt.Sprint(withdraw(start()))) // a fresh process: empty cache, same chain, same store
	}
	c.sim.Commit()
	received := new(big.Int).Sub(ether(), e0)
	want := big.NewInt(dep + cred)
	on, _ := c.contract.Accounts(nil, wAddr)
	if first != nil {
		mon = append(mon, fmt.Sprintf("c07-contract-refused: withdrawal of deposit %d + credit %d refused: %v", dep, cred, first))
	} else if received.Cmp(want) != 0 || on.Balance.Sign() != 0 {
		mon = append(mon, fmt.Sprintf("c07-contract-paid-twice-across-restart: a withdrawal was settled (not yet mined), the pool restarted, the wallet asked again (%v): in all %s reached the wallet; deposit %d + credit %d = %s was owed, once", again, received, dep, cred, want))
	}
	return map[string]interface{}{"driver": driverNames[drv], "deposit": dep, "credit": cred, "first": fmt.Sprint(first), "after_restart": again, "received": received.String()}, mon
}

// contractTwoSpellings: one wallet, spelled in checksummed and in lower case (the signature
// check accepts both, the contract knows one address), withdraws under both spellings at the same
// time: the second request arrives while the first is submitting its settlement. Withdrawals are
// serialised: the deposit is paid once.
func contractTwoSpellings(drv int, rng *rand.Rand) (map[string]interface{}, []string) {
	bg := context.Background()
	c := newChainWorld(drv)
	defer c.Close()
	var mon []string
	dep := int64(1000 + rng.Intn(100000))
	other := bind.NewKeyedTransactor(keyFor("operator"))
	if _, err := c.contract.AddBalance(c.tx(other, big.NewInt(10000000))); err != nil {
		fatal("funding: %v", err)
	}
	c.deposit(dep)
	cp, settle := c.payment(true)
	pay := &payment.PaymentService{NonceStore: c.st.Store, AccountStore: c.st.Store, BalanceStore: cp, Settle: settle}
	spell := []string{walletOf("w1"), strings.ToLower(walletOf("w1"))}
	wAddr := common.HexToAddress(spell[0])
	ether := func() *big.Int { b, _ := c.sim.BalanceAt(bg, wAddr, nil); return b }
	e0 := ether()
	inSend := make(chan struct{}, 4)
	release := make(chan struct{})
	first := true
	c.hb.mu.Lock()
	c.hb.onNonce = func() {
		c.hb.mu.Lock()
		mine := first
		first = false
		c.hb.mu.Unlock()
		if mine { // the first settlement waits here: balance read, transaction not yet prepared
			inSend <- struct{}{}
			select {
			case <-release:
			case <-time.After(3 * time.Second):
			}
		}
	}
	c.hb.mu.Unlock()
	errs := make([]error, 2)
	var wg sync.WaitGroup
	run := func(k int) {
		defer wg.Done()
		n := c.next()
		sig, _ := request.Sign(keyFor("w1"), "pool_withdraw", spell[k], n)
		errs[k] = pay.Withdraw(bg, sig, spell[k], n)
	}
	wg.Add(1)
	go run(0)
	overlapped := false
	select {
	case <-inSend:
		overlapped = true
		wg.Add(1)
		go run(1)
		time.Sleep(600 * time.Millisecond) // the second either waits its turn or goes all the way through meanwhile
	case <-time.After(3 * time.Second):
	}
	close(release)
	wg.Wait()
	c.hb.mu.Lock()
	c.hb.onNonce = nil
	c.hb.mu.Unlock()
	c.sim.Commit()
	received := new(big.Int).Sub(ether(), e0)
	if overlapped && received.Cmp(big.NewInt(dep)) > 0 {
		mon = append(mon, fmt.Sprintf("c10-contract-two-spellings: wallet %s withdrew under two spellings at once (results %v): %s reached it for a deposit of %d: the two withdrawals were not serialised", spell[0], errs, received, dep))
	}
	return map[string]interface{}{"driver": driverNames[drv], "deposit": dep, "overlapped": overlapped, "results": fmt.Sprint(errs), "received": received.String()}, mon
}

// contractManyAccounts: a long-lived pool: the balances of thousands of other accounts are looked
// up (pool_account is open to anybody) between a wallet's deposit being cached and its
// withdrawal. Nothing about the wallet may change for that: the lookups all return, the
// withdrawal pays deposit + credit once, the balance reads 0 afterwards, and a second withdrawal
// pays nothing.
func contractManyAccounts(drv int, rng *rand.Rand) (map[string]interface{}, []string) {
	bg := context.Background()
	c := newChainWorld(drv)
	defer c.Close()
	var mon []string
	dep := int64(1000 + rng.Intn(100000))
	cred := int64(1 + rng.Intn(1000))
	other := bind.NewKeyedTransactor(keyFor("operator"))
	if _, err := c.contract.AddBalance(c.tx(other, big.NewInt(10000000))); err != nil {
		fatal("funding: %v", err)
	}
	c.deposit(dep)
	cp, settle := c.payment(true)
	wallet := walletOf("w1")
	acct := store.Account(wallet)
	c.st.AddAccountBalance(acct, big.NewInt(cred))
	pay := &payment.PaymentService{NonceStore: c.st.Store, AccountStore: c.st.Store, BalanceStore: cp, Settle: settle}
	if b, err := cp.GetAccountBalance(acct); err != nil || b.Deposit.Cmp(big.NewInt(dep)) != 0 {
		fatal("deposit not visible: %v %v", b, err)
	}
	others := 11000 + rng.Intn(2000)
	done := make(chan int, 1)
	go func() {
		n := 0
		for k := 0; k < others; k++ {
			a := store.Account(fmt.Sprintf("0x%040x", 0xabc00000+k))
			if _, err := cp.GetAccountBalance(a); err == nil {
				n++
			}
		}
		done <- n
	}()
	looked := -1
	t0 := time.Now()
	select {
	case looked = <-done:
	case <-time.After(60 * time.Second):
	}
	took := time.Since(t0)
	if looked < 0 {
		mon = append(mon, fmt.Sprintf("c15-contract-lookups-wedged: the balances of %d other accounts were looked up one after the other; the lookups stopped returning (still waiting after %s): every request that reads a balance is stuck behind them", others, took.Round(time.Second)))
		return map[string]interface{}{"driver": driverNames[drv], "other_accounts": others, "lookups_returned": false}, mon
	}
	wAddr := common.HexToAddress(wallet)
	ether := func() *big.Int { b, _ := c.sim.BalanceAt(bg, wAddr, nil); return b }
	withdraw := func() error {
		n := c.next()
		sig, _ := request.Sign(keyFor("w1"), "pool_withdraw", wallet, n)
		return pay.Withdraw(bg, sig, wallet, n)
	}
	e0 := ether()
	first := withdraw()
	afterRead := "?"
	if b, err := cp.GetAccountBalance(acct); err == nil {
		afterRead = b.Deposit.String()
	}
	second := withdraw()
	c.sim.Commit()
	received := new(big.Int).Sub(ether(), e0)
	want := big.NewInt(dep + cred)
	if first != nil {
		mon = append(mon, fmt.Sprintf("c07-contract-refused: after %d other lookups the withdrawal of deposit %d + credit %d was refused: %v", others, dep, cred, first))
	} else {
		if afterRead != "0" {
			mon = append(mon, fmt.Sprintf("c07-contract-left: after the withdrawal the pool still reads the wallet's deposit as %s (%d other accounts had been looked up before)", afterRead, others))
		}
		if received.Cmp(want) != 0 {
			mon = append(mon, fmt.Sprintf("c07-contract-paid: after %d lookups of other accounts two withdrawals in a row (results %v, %v) put %s into the wallet; deposit %d + credit %d = %s was owed, once", others, first, second, received, dep, cred, want))
		}
	}
	desc := map[string]interface{}{"driver": driverNames[drv], "other_accounts": others, "lookups_took_ms": took.Milliseconds(), "first": fmt.Sprint(first), "second": fmt.Sprint(second), "received": received.String()}
	// the same history on the deposit-cache model (the pinned cache has no bound: other accounts
	// crowding it change nothing)
	if first == nil && second == nil {
		on, _ := c.contract.Accounts(nil, wAddr)
		led, _ := c.st.GetAccountBalance(acct)
		ops := []string{"DDeposit " + cZ(dep), "DEarn " + cZ(cred), "DRead", "DCrowd true", "DWithdraw", "DRead", "DWithdraw", "DMine", "DMine"}
		desc["_coq"] = fmt.Sprintf("C7Contract {| cc_cfg := {| dc_fee := 0; dc_min := None; dc_refresh_on_settle := true; dc_when_full := FPStore |}; cc_ops := %s; cc_received := %s; cc_left_chain := %s; cc_left_credit := %s |}",
			cList(ops), cBig(received), cBig(on.Balance), cBig(&led.Credit))
	}
	return desc, mon
}

// contractCase runs one of the scenarios and keeps the monitors of the property being checked.
func contractCase(ctx *Ctx, i int, rng *rand.Rand, scenario string, prefixes ...string) {
	drv := i % 2
	var desc map[string]interface{}
	var mon []string
	switch scenario {
	case "keepalive":
		desc, mon = contractKeepalive(drv, rng)
	case "late-deposit":
		desc, mon = contractLateDeposit(drv, rng)
	case "failed-settlement":
		desc, mon = contractFailedSettlement(drv, rng)
	case "restart-before-mining":
		desc, mon = contractRestartBeforeMining(drv, rng)
	case "two-spellings":
		desc, mon = contractTwoSpellings(drv, rng)
	case "many-accounts":
		desc, mon = contractManyAccounts(drv, rng)
	default:
		desc, mon = contractSettleInFlight(drv, rng)
	}
	var mine []string
	for _, m := range mon {
		for _, p := range prefixes {
			if strings.HasPrefix(m, p) {
				mine = append(mine, m)
			}
		}
	}
	coq := ""
	if c, ok := desc["_coq"].(string); ok {
		delete(desc, "_coq")
		for _, p := range prefixes {
			if p == "c07-" {
				coq = c
			}
		}
	}
	ctx.Emit(Case{I: i, Kind: "contract-" + scenario + "-" + driverNames[drv], Coq: coq, Desc: desc, Monitor: mine})
}
