package main

import (
	"context"
	"fmt"
	"math/rand"
	"net"
	"net/url"
	"strings"
	"time"

	"github.com/vipnode/vipnode/v2/ethnode"
	"github.com/vipnode/vipnode/v2/pool"
	"github.com/vipnode/vipnode/v2/pool/store"
)

func init() { commands["c19"] = runC19 }

type c19Desc struct {
	Override string `json:"override"`
	NodeID   string `json:"node_id"`
	Source   string `json:"source_addr"`
	Via      string `json:"via"`
	Stored   string `json:"stored_uri,omitempty"`
	Err      string `json:"error,omitempty"`
	Parsed   string `json:"parsed,omitempty"`
}

func genOverride(rng *rand.Rand, nodeID string) string {
	if rng.Intn(8) == 0 {
		return ""
	}
	if rng.Intn(25) == 0 {
		return []string{"enode://a b@%zz", "enode://" + nodeID + "@::1:30303", "://x", "enode://[::1"}[rng.Intn(4)]
	}
	if rng.Intn(12) == 0 {
		// opaque forms: a scheme and a colon but no "//": the URL parser finds neither user nor host
		other := nodeIDOf("h2")
		return []string{"enode:" + other + "@6.6.6.6:30666", "enode:" + nodeID + "@1.2.3.4:30303", "enode:x", "mailto:" + other + "@example.com",
			"enode:/" + other + "@6.6.6.6:1", "enode:?" + other}[rng.Intn(6)]
	}
	scheme := []string{"enode", "enode", "enode", "http", "ws"}[rng.Intn(5)]
	user := ""
	switch rng.Intn(8) {
	case 0:
		user = ""
	case 1:
		user = nodeIDOf("h2") // another identity
	case 2:
		user = "someoneelse"
	case 3:
		user = nodeID + ":password"
	default:
		user = nodeID
	}
	host := []string{"1.2.3.4", "example.com", "[::1]", "[2001:db8::1]", "[fe80::1%25eth0]", "[::]", "0.0.0.0", "", "localhost", "10.0.0.256", "xn--bcher-kva.example"}[rng.Intn(11)]
	port := []string{"", ":30303", ":1234", ":0", ":65535"}[rng.Intn(5)]
	tail := []string{"", "", "/", "/path", "?discport=30301", "/p?q=1#frag"}[rng.Intn(6)]
	s := scheme + "://"
	if user != "" {
		s += user + "@"
	}
	return s + host + port + tail
}

// c19Handed: a pool with hosts of both kinds, some of them stale, and nodes that registered as a
// host and later again as a light client (their host connection stays open). Whatever the store
// lists as hosts and whatever a client is handed: every entry's address names the entry's own
// node id, at the host:port that node registered with.
func c19Handed(ctx *Ctx, i int, rng *rand.Rand) {
	drv := i % 2
	if rng.Intn(4) != 0 {
		drv = drvBdg
	}
	w := newWorld(worldCfg{Drv: drv, Price: "1000", IntervalNs: 60e9, Settle: true})
	defer w.Close()
	names := []string{"h1", "h2", "h3", "h4", "h5", "h6", "h7", "h8"}
	addrOf := map[string]string{} // node id -> host:port it registered with
	roles := map[string]string{}
	var mon []string
	reg := func(name string, host bool, kind string, k int) {
		uri := ""
		if host {
			uri = fmt.Sprintf("enode://%s@10.7.%d.%d:%d", nodeIDOf(name), k, k+1, 30303+k)
			addrOf[nodeIDOf(name)] = fmt.Sprintf("10.7.%d.%d:%d", k, k+1, 30303+k)
		}
		if _, err := w.connect(name, host, kind, "", uri); err != nil {
			fatal("connect %s: %v", name, err)
		}
	}
	var stale []string
	for k, nme := range names {
		if rng.Intn(4) == 0 {
			stale = append(stale, nme)
			reg(nme, true, []string{"geth", "parity"}[rng.Intn(2)], k)
			roles[nme] = "stale host"
		}
	}
	shiftTime(w.st.Store, 130*time.Second)
	for k, nme := range names {
		if roles[nme] != "" {
			continue
		}
		kind := []string{"geth", "parity"}[rng.Intn(2)]
		switch rng.Intn(4) {
		case 0: // a host that comes back as a light client of either kind
			reg(nme, true, kind, k)
			reg(nme, false, []string{"geth", "parity"}[rng.Intn(2)], k)
			roles[nme] = "host, then light client"
		case 1:
			reg(nme, false, kind, k)
			roles[nme] = "light client " + kind
		default:
			reg(nme, true, kind, k)
			roles[nme] = "host " + kind
		}
	}
	check := func(what string, n store.Node) {
		ok, id, _ := readRef(n.URI)
		hostport := ""
		if at := strings.LastIndex(n.URI, "@"); at >= 0 {
			hostport = n.URI[at+1:]
		}
		name := w.nameOf(string(n.ID), names)
		switch {
		case !ok || id != string(n.ID):
			mon = append(mon, fmt.Sprintf("c19-handed-identity: %s: the entry for node %s (%s) carries the address %q, which names node %s (%s)", what, shortID(string(n.ID)), name, n.URI, shortID(id), w.nameOf(id, names)))
		case hostport != addrOf[string(n.ID)]:
			mon = append(mon, fmt.Sprintf("c19-handed-address: %s: the entry for node %s (%s) carries host:port %q; it registered with %q", what, shortID(string(n.ID)), name, hostport, addrOf[string(n.ID)]))
		}
	}
	handed := 0
	for _, kind := range []string{"", "geth", "parity"} {
		if ans, err := w.st.ActiveHosts(kind, 0); err == nil {
			for _, n := range ans {
				handed++
				check(fmt.Sprintf("%s store, hosts of kind %q", driverNames[drv], kind), n)
			}
		}
	}
	for k, kind := range []string{"geth", "parity", ""} {
		cl := fmt.Sprintf("c%d", k+1)
		if _, err := w.connect(cl, false, []string{"geth", "parity"}[k%2], "", ""); err != nil {
			fatal("connect client: %v", err)
		}
		if r, err := w.peer(cl, 6, kind); err == nil && r != nil {
			for _, n := range r.Peers {
				handed++
				check(fmt.Sprintf("%s store, peers handed to a client asking for kind %q", driverNames[drv], kind), n)
			}
		}
	}
	// hosts move: they register again from another address; whoever asks next, for any kind or for
	// theirs, is handed the address of the latest registration
	moved := 0
	for k, nme := range names {
		if strings.HasPrefix(roles[nme], "host ") && moved < 3 {
			kind := strings.TrimPrefix(roles[nme], "host ")
			uri := fmt.Sprintf("enode://%s@10.9.%d.%d:%d", nodeIDOf(nme), k, k+1, 31000+k)
			addrOf[nodeIDOf(nme)] = fmt.Sprintf("10.9.%d.%d:%d", k, k+1, 31000+k)
			if _, err := w.connect(nme, true, kind, "", uri); err != nil {
				fatal("re-register %s: %v", nme, err)
			}
			roles[nme] += ", moved"
			moved++
		}
	}
	if moved > 0 {
		for k, kind := range []string{"", "geth", "parity", ""} {
			cl := fmt.Sprintf("d%d", k+1)
			if _, err := w.connect(cl, false, []string{"geth", "parity"}[k%2], "", ""); err != nil {
				fatal("connect client: %v", err)
			}
			if r, err := w.peer(cl, 6, kind); err == nil && r != nil {
				for _, n := range r.Peers {
					handed++
					check(fmt.Sprintf("%s store, peers handed to a client asking for kind %q right after hosts moved", driverNames[drv], kind), n)
				}
			}
		}
		for _, kind := range []string{"", "geth", "parity"} {
			if ans, err := w.st.ActiveHosts(kind, 0); err == nil {
				for _, n := range ans {
					check(fmt.Sprintf("%s store, hosts of kind %q after hosts moved", driverNames[drv], kind), n)
				}
			}
		}
	}
	if len(mon) > 4 {
		mon = mon[:4]
	}
	ctx.Emit(Case{I: i, Kind: "handed-out-" + driverNames[drv], Desc: map[string]interface{}{"roles": roles, "entries_checked": handed}, Monitor: mon})
}

func runC19(ctx *Ctx) {
	n := ctx.N(1200, 30000)
	for c := 0; c < ctx.N(10, 150); c++ {
		if ctx.Want(n + 700 + c) {
			c19Handed(ctx, n+700+c, ctx.Sub(n+700+c))
		}
	}
	for drv := 0; drv < 2; drv++ {
		if ctx.Want(n + 600 + drv) {
			c19ReusedRemote(ctx, n+600+drv, drv)
		}
	}
	if ctx.Want(n + 10) {
		defer c19WS(ctx, n+10)
	}
	if ctx.Want(n + 11) {
		defer c19NoAddress(ctx, n+11)
	}
	for c := 0; c < ctx.N(6, 60); c++ {
		if ctx.Want(n + 500 + c) {
			e2eCase(ctx, n+500+c, ctx.Sub(n+500+c), "c19-")
		}
	}
	nodeID := nodeIDOf("h1")
	sources := []string{"1.2.3.4:5555", "[::1]:5555", "[2001:db8::2]:80", "host.example:99", "", "[fe80::9%25lo0]:7"}
	// one shared world for the public path
	w := newWorld(worldCfg{Drv: drvMem, Price: "1000", IntervalNs: 60e9, Settle: true})
	defer w.Close()
	for c := 0; c < n; c++ {
		if !ctx.Want(c) {
			continue
		}
		rng := ctx.Sub(c)
		ov := genOverride(rng, nodeID)
		src := sources[rng.Intn(len(sources))]
		defHost := (&url.URL{Host: src}).Hostname()
		desc := c19Desc{Override: ov, NodeID: nodeID, Source: src}
		var stored string
		var err error
		if c%20 == 0 {
			// public path: vipnode_connect over a connection whose source address is scripted
			desc.Via = "vipnode_connect"
			hc := w.newConn(fmt.Sprintf("c19-%d", c), src)
			req := pool.ConnectRequest{VipnodeVersion: "verif", NodeInfo: userAgentFor("geth", true), NodeURI: ov}
			nonce := w.nextNonce()
			sig := w.sign(keyFor("h1"), "vipnode_connect", nodeID, nonce, req)
			var resp pool.ConnectResponse
			cctx, cancel := context.WithTimeout(context.Background(), 10*time.Second)
			// forget any earlier registration so that a refused one shows as absent
			err = hc.cliSide.Call(cctx, &resp, "vipnode_connect", sig, nodeID, nonce, req)
			cancel()
			if err == nil {
				nd, gerr := w.st.GetNode(store.NodeID(nodeID))
				if gerr != nil {
					fatal("connected but not stored: %v", gerr)
				}
				stored = nd.URI
			}
			hc.c1.Close()
			hc.c2.Close()
			w.pool.CloseRemote(hc.poolSide)
		} else {
			desc.Via = "normalizeNodeURI"
			stored, err = pool.VerifNormalizeNodeURI(ov, nodeID, defHost, "30303")
		}
		// model input: the parsed override, by the same library calls the code makes
		ovCoq := "NoOverride"
		if ov != "" {
			if u, perr := url.Parse(ov); perr != nil {
				ovCoq = "BadOverride"
			} else {
				ovCoq = fmt.Sprintf("(Parsed %s %s %s)", cBytes(u.User.Username()), cBytes(u.Hostname()), cBytes(u.Port()))
			}
		}
		obs := "None"
		var mon []string
		if err != nil {
			desc.Err = err.Error()
		} else {
			desc.Stored = stored
			u, perr := ethnode.ParseNodeURI(stored)
			if perr != nil {
				mon = append(mon, fmt.Sprintf("c19-unparsable-uri: stored URI %q is rejected by the agent-side parser: %v", stored, perr))
				obs = fmt.Sprintf("(Some (%s, None))", cBytes(""))
			} else {
				id := u.ID()
				if id != nodeID {
					mon = append(mon, fmt.Sprintf("c19-foreign-identity: stored URI %q advertises id %q, the authenticated id is %q", stored, id, nodeID))
				}
				h, p, serr := net.SplitHostPort((*url.URL)(u).Host)
				if serr != nil {
					mon = append(mon, fmt.Sprintf("c19-undialable: host:port %q of stored URI %q does not parse: %v", (*url.URL)(u).Host, stored, serr))
					obs = fmt.Sprintf("(Some (%s, None))", cBytes(id))
				} else {
					desc.Parsed = h + " | " + p
					obs = fmt.Sprintf("(Some (%s, Some (%s, %s)))", cBytes(id), cBytes(h), cBytes(p))
					if ip := net.ParseIP(h); ip != nil && ip.IsUnspecified() {
						mon = append(mon, fmt.Sprintf("c19-unspecified-address: stored URI %q advertises the unspecified address %s", stored, h))
					}
				}
			}
		}
		coq := fmt.Sprintf("{| c19_ov := %s; c19_id := %s; c19_dh := %s; c19_obs := %s |}", ovCoq, cBytes(nodeID), cBytes(defHost), obs)
		ctx.Count("via:" + desc.Via)
		ctx.Emit(Case{I: c, Kind: "uri", Coq: coq, Desc: desc, Monitor: mon})
	}
}
