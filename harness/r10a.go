package main

import (
	"context"
	"encoding/json"
	"errors"
	"fmt"
	"math/big"
	"net"
	"strings"
	"sync/atomic"
	"time"

	"github.com/vipnode/vipnode/v2/jsonrpc2"
	"github.com/vipnode/vipnode/v2/pool"
	"github.com/vipnode/vipnode/v2/pool/status"
	"github.com/vipnode/vipnode/v2/pool/store"
)

// c15Status: the status dashboard with an external deposit lookup (the binary wires one when a
// contract is configured) that fails for a while -- the chain's RPC is down, a caller hangs up --
// and then works again. Every pool_status request is answered (with a result or an error) in
// bounded time, while the lookup fails and after it has recovered.
func c15Status(ctx *Ctx, i int) {
	st := newStore(drvMem)
	defer st.Destroy()
	st.SetNode(store.Node{ID: "h1", IsHost: true, Kind: "geth", LastSeen: time.Now()})
	var calls, failFirst int64 = 0, 2
	ps := &status.PoolStatus{Store: st.Store, TimeStarted: time.Now(), Version: "verif", CacheDuration: 50 * time.Millisecond,
		GetTotalDeposit: func(c context.Context) (*big.Int, error) {
			if atomic.AddInt64(&calls, 1) <= failFirst {
				return nil, errors.New("contract RPC unavailable")
			}
			return big.NewInt(12345), nil
		}}
	var mon, log []string
	ask := func(what string, c context.Context) bool {
		type res struct {
			r   *status.StatusResponse
			err error
		}
		ch := make(chan res, 1)
		go func() { r, err := ps.Status(c); ch <- res{r, err} }()
		select {
		case x := <-ch:
			log = append(log, fmt.Sprintf("%s: answered (error %v)", what, x.err))
			return true
		case <-time.After(3 * time.Second):
			mon = append(mon, fmt.Sprintf("c15-status-unanswered: %s: pool_status was not answered within 3 s (the deposit lookup had failed %d time(s) before and works again now): every later status request and the /health check hang the same way", what, failFirst))
			return false
		}
	}
	cancelled, cancel := context.WithCancel(context.Background())
	cancel()
	ok := ask("first request (its caller has hung up, the lookup fails)", cancelled)
	for k := 0; ok && k < 5; k++ {
		time.Sleep(60 * time.Millisecond)
		ok = ask(fmt.Sprintf("request %d", k+2), context.Background())
	}
	ctx.Emit(Case{I: i, Kind: "status-after-failed-lookup", Desc: map[string]interface{}{"steps": log}, Monitor: mon})
}

// c14ServeEnds: the peer answers a call and hangs up at once; our reading loop routes the reply and
// returns before the caller has got from writing its request to waiting for the reply. The reply
// arrived in time and carries the call's id: the call returns it.
func c14ServeEnds(ctx *Ctx, i int) {
	var mon []string
	got := map[string]int{}
	for round := 0; round < 20 && len(mon) == 0; round++ {
		codec := newManualCodec()
		rem := &jsonrpc2.Remote{Codec: codec, Server: &jsonrpc2.Server{}}
		served := make(chan struct{})
		go func() { rem.Serve(); close(served) }()
		payload := 777000 + round
		codec.mu.Lock()
		codec.onWrite = func() {
			// the request is on the wire; its reply comes back and the connection ends before the
			// caller returns from the write
			codec.mu.Lock()
			id := codec.out[len(codec.out)-1].ID
			codec.mu.Unlock()
			raw, _ := json.Marshal(payload)
			codec.in <- &jsonrpc2.Message{Response: &jsonrpc2.Response{Result: raw}, ID: id, Version: "2.0"}
			codec.drained()
			codec.Close()
			select {
			case <-served:
			case <-time.After(time.Second):
			}
			time.Sleep(2 * time.Millisecond)
		}
		codec.mu.Unlock()
		cctx, cancel := context.WithTimeout(context.Background(), 1500*time.Millisecond)
		var out int
		err := rem.Call(cctx, &out, "probe", round)
		cancel()
		switch {
		case err == nil && out == payload:
			got["own reply"]++
		default:
			got["lost"]++
			mon = append(mon, fmt.Sprintf("c14-reply-lost-at-hangup: round %d: the peer answered the call (reply %d, carrying the call's id) and hung up; the reading loop routed the reply and ended before the caller started waiting; the call returned (%d, %v)", round, payload, out, err))
		}
	}
	ctx.Emit(Case{I: i, Kind: "reply-then-hang-up", Desc: map[string]interface{}{"rounds": 20, "outcomes": got}, Monitor: mon})
}

// c16DebugWrapper: the logging wrapper around a codec (the binaries use it for verbose output) is
// transparent to dispatch: a call with surplus, missing or wrongly typed parameters is answered
// with invalid-params and not run, a call with the declared parameters runs -- also when the
// parameters are larger than anything a log line would print.
func c16DebugWrapper(ctx *Ctx, i int) {
	recv := &ProbeService{}
	srv := &jsonrpc2.Server{}
	if err := srv.Register("probe_", recv); err != nil {
		fatal("register: %v", err)
	}
	c1, c2 := net.Pipe()
	defer c1.Close()
	defer c2.Close()
	server := &jsonrpc2.Remote{Codec: jsonrpc2.DebugCodec("server", jsonrpc2.IOCodec(c1)), Server: srv, Client: &jsonrpc2.Client{}}
	client := &jsonrpc2.Remote{Codec: jsonrpc2.DebugCodec("client", jsonrpc2.IOCodec(c2)), Server: &jsonrpc2.Server{}, Client: &jsonrpc2.Client{}}
	go server.Serve()
	go client.Serve()
	var mon, log []string
	call := func(what, method string, wantRun bool, params ...interface{}) {
		before := atomic.LoadInt64(&recv.ran)
		cctx, cancel := context.WithTimeout(context.Background(), 5*time.Second)
		defer cancel()
		var res json.RawMessage
		err := client.Call(cctx, &res, method, params...)
		ran := atomic.LoadInt64(&recv.ran) - before
		log = append(log, fmt.Sprintf("%s: error %v, method bodies run %d", what, err, ran))
		if wantRun && (err != nil || ran != 1) {
			mon = append(mon, fmt.Sprintf("c16-debug-wrapper: %s: a call with exactly the declared parameters, through the logging wrapper, was answered with %v and ran %d method bodies", what, err, ran))
		}
		if !wantRun && (ran != 0 || err == nil || !jsonrpc2.IsErrorCode(err, jsonrpc2.ErrCodeInvalidParams)) {
			mon = append(mon, fmt.Sprintf("c16-debug-wrapper: %s: through the logging wrapper the call was answered with %v and ran %d method bodies; it must be refused with invalid-params and not run", what, err, ran))
		}
	}
	for _, size := range []int{10, 1000, 1100, 4000, 5000, 70000} {
		big := strings.Repeat("x", size)
		call(fmt.Sprintf("probe_plain with a surplus parameter of %d bytes", size), "probe_plain", false, big)
		call(fmt.Sprintf("probe_oneString with its parameter of %d bytes", size), "probe_oneString", true, big)
		call(fmt.Sprintf("probe_oneString with a second parameter of %d bytes", size), "probe_oneString", false, "a", big)
		call(fmt.Sprintf("probe_containers with %d bytes of list", size), "probe_containers", true, strings.Split(big, ""), map[string]int{"k": 1})
	}
	ctx.Emit(Case{I: i, Kind: "debug-wrapper", Desc: map[string]interface{}{"calls": log}, Monitor: mon})
}

// c19ReusedRemote: the pool's side of a connection object is used for a second connection (its
// codec replaced after the first one ended, served again). A host that registers over the second
// connection without naming an address is stored and handed out at the address it connects from
// NOW.
func c19ReusedRemote(ctx *Ctx, i int, drv int) {
	w := newWorld(worldCfg{Drv: drv, Price: "1000", IntervalNs: 60e9, Settle: true})
	defer w.Close()
	w.aliasAll()
	var mon, log []string
	id := nodeIDOf("h1")
	poolSide := &jsonrpc2.Remote{Client: &jsonrpc2.Client{}, Server: w.server}
	register := func(addr string) string {
		c1, c2 := net.Pipe()
		poolSide.Codec = addrCodec{jsonrpc2.IOCodec(c1), addr}
		ag := &FakeAgent{w: w, name: "h1", mode: "ack"}
		srv := &jsonrpc2.Server{}
		srv.Register("vipnode_", ag)
		cli := &jsonrpc2.Remote{Codec: jsonrpc2.IOCodec(c2), Client: &jsonrpc2.Client{}, Server: srv}
		done := make(chan struct{})
		go func() { poolSide.Serve(); close(done) }()
		go cli.Serve()
		req := pool.ConnectRequest{VipnodeVersion: "verif", NodeInfo: userAgentFor("geth", true)}
		nonce := w.nextNonce()
		sig := w.sign(keyFor("h1"), "vipnode_connect", id, nonce, req)
		var resp pool.ConnectResponse
		cctx, cancel := context.WithTimeout(context.Background(), 5*time.Second)
		err := cli.Call(cctx, &resp, "vipnode_connect", sig, id, nonce, req)
		cancel()
		stored := ""
		if nd, gerr := w.st.GetNode(store.NodeID(id)); gerr == nil {
			stored = nd.URI
		}
		log = append(log, fmt.Sprintf("registration from %s: error %v, stored %s", addr, err, shortURI(stored)))
		c1.Close()
		c2.Close()
		select {
		case <-done:
		case <-time.After(2 * time.Second):
		}
		w.pool.CloseRemote(poolSide)
		return stored
	}
	for _, addr := range []string{"192.0.2.10:5001", "198.51.100.7:5002", "[2001:db8::9]:5003"} {
		stored := register(addr)
		host, _, _ := net.SplitHostPort(addr)
		_, _, gotHost := readRef(stored)
		if gotHost != host {
			mon = append(mon, fmt.Sprintf("c19-reused-connection-object: the host registered from %s without naming an address (over a connection object that had served another connection before); the pool stores and hands out %q: the address it connected from earlier, not the one it connects from now", addr, stored))
			break
		}
	}
	ctx.Emit(Case{I: i, Kind: "reused-connection-object-" + driverNames[drv], Desc: map[string]interface{}{"steps": log}, Monitor: mon})
}
