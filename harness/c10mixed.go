package main

import (
	"fmt"
	"io/ioutil"
	"math/big"
	"os"
	"sync"
	"sync/atomic"
	"time"

	"github.com/vipnode/vipnode/v2/pool/balance"
	badgerstore "github.com/vipnode/vipnode/v2/pool/store/badger"

	"github.com/vipnode/vipnode/v2/pool/store"
)

// C10, keep-alive x withdrawal: the model says a keep-alive is not atomic with respect to a
// withdrawal of a wallet that two of the credited hosts are paid into
// (Mixed.keepalive_withdraw_not_serialisable). The witness schedule is forced on the real pool
// and payment service: the balance manager's second credit is held at a gate while the wallet
// withdraws. The outcome (credit left on the wallet, amount settled) is compared with the
// outcomes of the two one-at-a-time orders, run on fresh worlds of the same code.

// addGate holds the n-th AddNodeBalance (from 0) before it is applied.
type addGate struct {
	store.AccountStore
	mu      sync.Mutex
	armed   bool
	holdAt  int
	n       int
	arrived chan struct{}
	release chan struct{}
}

func (g *addGate) AddNodeBalance(id store.NodeID, credit *big.Int) error {
	g.mu.Lock()
	hold := g.armed && g.n == g.holdAt
	if g.armed {
		g.n++
	}
	g.mu.Unlock()
	if hold {
		g.arrived <- struct{}{}
		select {
		case <-g.release:
		case <-time.After(5 * time.Second):
		}
	}
	return g.AccountStore.AddNodeBalance(id, credit)
}

type mixedOutcome struct {
	Left    string `json:"wallet_credit_left"`
	Settled string `json:"settled"`
	Client  string `json:"client_credit"`
	Note    string `json:"note,omitempty"`
}

// mode 0: keep-alive then withdrawal; 1: withdrawal then keep-alive; 2: withdrawal between the
// keep-alive's two credits
func c10MixedRun(drv int, mode int) mixedOutcome {
	cfg := worldCfg{Drv: drv, Price: "1000", IntervalNs: 60e9, Settle: true}
	w := newWorld(cfg)
	defer w.Close()
	w.aliasAll()
	g := &addGate{AccountStore: w.bstore.AccountStore, holdAt: 1, arrived: make(chan struct{}, 1), release: make(chan struct{}, 1)}
	w.bstore.AccountStore = g
	w.applyPOp(&POp{Op: "connect", Node: "h1", Host: true, Kind: "geth"})
	w.applyPOp(&POp{Op: "connect", Node: "h2", Host: true, Kind: "geth"})
	w.applyPOp(&POp{Op: "connect", Node: "c1", Kind: "geth"})
	if err := w.addNode("w1", "h1"); err != nil {
		fatal("%v", err)
	}
	if err := w.addNode("w1", "h2"); err != nil {
		fatal("%v", err)
	}
	// first keep-alive: both hosts become tracked peers (bills nothing: no time has passed)
	w.applyPOp(&POp{Op: "update", Node: "c1", Peers: []string{"h1", "h2"}, Block: 1, Elapsed: 0})
	prev, err := w.st.GetNode(store.NodeID(nodeIDOf("c1")))
	if err != nil {
		fatal("%v", err)
	}
	w.clockNow = time.Unix(0, prev.LastSeen.UnixNano()+60e9) // the next keep-alive bills one interval
	w.useRealClk = false
	w.mu.Lock()
	w.settleOK = true
	nlog := len(w.settleLog)
	w.mu.Unlock()
	keepalive := func() {
		if _, err := w.update("c1", []string{"h1", "h2"}, 2); err != nil {
			fatal("keep-alive: %v", err)
		}
	}
	withdraw := func() {
		if err := w.withdraw("w1"); err != nil {
			fatal("withdraw: %v", err)
		}
	}
	note := ""
	switch mode {
	case 0:
		keepalive()
		withdraw()
	case 1:
		withdraw()
		keepalive()
	case 2:
		g.mu.Lock()
		g.armed = true
		g.mu.Unlock()
		done := make(chan struct{})
		go func() { keepalive(); close(done) }()
		select {
		case <-g.arrived:
			withdraw()
		case <-time.After(3 * time.Second):
			note = "the keep-alive never reached a second credit"
		case <-done:
			note = "the keep-alive finished without a second credit call"
		}
		g.release <- struct{}{}
		<-done
		g.mu.Lock()
		g.armed = false
		g.mu.Unlock()
		if note != "" {
			withdraw()
		}
	}
	left, _ := w.st.GetAccountBalance(store.Account(walletOf("w1")))
	cl, _ := w.st.GetNodeBalance(store.NodeID(nodeIDOf("c1")))
	settled := new(big.Int)
	w.mu.Lock()
	for _, c := range w.settleLog[nlog:] {
		if c.OK {
			a, _ := new(big.Int).SetString(c.Amount, 10)
			settled.Add(settled, a)
		}
	}
	w.mu.Unlock()
	return mixedOutcome{Left: left.Credit.String(), Settled: settled.String(), Client: cl.Credit.String(), Note: note}
}

func c10Mixed(ctx *Ctx, i int, drv int) {
	kw := c10MixedRun(drv, 0)
	wk := c10MixedRun(drv, 1)
	mid := c10MixedRun(drv, 2)
	var mon []string
	same := func(a, b mixedOutcome) bool {
		return a.Left == b.Left && a.Settled == b.Settled && a.Client == b.Client
	}
	if mid.Note == "" && !same(mid, kw) && !same(mid, wk) {
		mon = append(mon, fmt.Sprintf("c10-keepalive-withdraw-not-serialisable: a client's keep-alive credits two hosts paid into one wallet; the wallet withdraws between the two credits: %s left on the wallet and %s settled; keep-alive then withdrawal leaves %s and settles %s, withdrawal then keep-alive leaves %s and settles %s: the result of neither one-at-a-time order (%s driver)",
			mid.Left, mid.Settled, kw.Left, kw.Settled, wk.Left, wk.Settled, driverNames[drv]))
	}
	// conservation holds in all three runs (C01): settled + left is the same
	sum := func(o mixedOutcome) string {
		a, _ := new(big.Int).SetString(o.Left, 10)
		b, _ := new(big.Int).SetString(o.Settled, 10)
		return a.Add(a, b).String()
	}
	if sum(mid) != sum(kw) || sum(wk) != sum(kw) || mid.Client != kw.Client || wk.Client != kw.Client {
		mon = append(mon, fmt.Sprintf("c10-mixed-not-conserved: settled + left differs between the three runs: %v %v %v (%s driver)", kw, wk, mid, driverNames[drv]))
	}
	ctx.Emit(Case{I: i, Kind: "keepalive-withdraw-" + driverNames[drv], Desc: map[string]interface{}{"keepalive_then_withdraw": kw, "withdraw_then_keepalive": wk, "withdraw_between_credits": mid}, Monitor: mon})
}

// The other way round: a keep-alive credits the wallet while the wallet's withdrawal is waiting for
// its settlement (after it read the balance). One-at-a-time orders: withdrawal first (pays what
// was earned, the new credit stays) or keep-alive first (pays both). Here every request touches
// the wallet once, so the outcome must be one of the two.
func c10WdCreditRun(drv int, mode int) mixedOutcome {
	cfg := worldCfg{Drv: drv, Price: "1000", IntervalNs: 60e9, Settle: true}
	w := newWorld(cfg)
	defer w.Close()
	w.aliasAll()
	for _, o := range []*POp{{Op: "connect", Node: "h1", Host: true, Kind: "geth"}, {Op: "connect", Node: "c1", Kind: "geth"},
		{Op: "addnode", Wallet: "w1", Node: "h1"},
		{Op: "update", Node: "c1", Peers: []string{"h1"}, Block: 1, Elapsed: 0},
		{Op: "update", Node: "c1", Peers: []string{"h1"}, Block: 2, Elapsed: 300e9}} { // the wallet earns 5000
		w.applyPOp(o)
	}
	prev, err := w.st.GetNode(store.NodeID(nodeIDOf("c1")))
	if err != nil {
		fatal("%v", err)
	}
	w.useRealClk = false
	w.clockNow = time.Unix(0, prev.LastSeen.UnixNano()+42e9) // the next keep-alive credits 700
	w.mu.Lock()
	w.settleOK = true
	nlog := len(w.settleLog)
	w.mu.Unlock()
	keepalive := func() {
		if _, err := w.update("c1", []string{"h1"}, 3); err != nil {
			fatal("keep-alive: %v", err)
		}
	}
	withdraw := func() {
		if err := w.withdraw("w1"); err != nil {
			fatal("withdraw: %v", err)
		}
	}
	switch mode {
	case 0:
		withdraw()
		keepalive()
	case 1:
		keepalive()
		withdraw()
	default:
		w.mu.Lock()
		w.settleHook = func(n int) bool { keepalive(); return true }
		w.mu.Unlock()
		withdraw()
		w.mu.Lock()
		w.settleHook = nil
		w.mu.Unlock()
	}
	left, _ := w.st.GetAccountBalance(store.Account(walletOf("w1")))
	cl, _ := w.st.GetNodeBalance(store.NodeID(nodeIDOf("c1")))
	settled := new(big.Int)
	w.mu.Lock()
	for _, c := range w.settleLog[nlog:] {
		if c.OK {
			a, _ := new(big.Int).SetString(c.Amount, 10)
			settled.Add(settled, a)
		}
	}
	w.mu.Unlock()
	return mixedOutcome{Left: left.Credit.String(), Settled: settled.String(), Client: cl.Credit.String()}
}

func c10WdCredit(ctx *Ctx, i int, drv int) {
	wk := c10WdCreditRun(drv, 0)
	kw := c10WdCreditRun(drv, 1)
	mid := c10WdCreditRun(drv, 2)
	var mon []string
	same := func(a, b mixedOutcome) bool {
		return a.Left == b.Left && a.Settled == b.Settled && a.Client == b.Client
	}
	if !same(mid, kw) && !same(mid, wk) {
		mon = append(mon, fmt.Sprintf("c10-withdraw-credit-not-serialisable: a keep-alive credits a wallet while the wallet's withdrawal waits for its settlement: %s left on the wallet and %s settled; withdrawal then keep-alive leaves %s and settles %s, keep-alive then withdrawal leaves %s and settles %s: the result of neither one-at-a-time order (%s driver)",
			mid.Left, mid.Settled, wk.Left, wk.Settled, kw.Left, kw.Settled, driverNames[drv]))
	}
	ctx.Emit(Case{I: i, Kind: "withdraw-credit-" + driverNames[drv], Desc: map[string]interface{}{"withdraw_then_keepalive": wk, "keepalive_then_withdraw": kw, "keepalive_during_settlement": mid}, Monitor: mon})
}

// firstCreditRace: a node's very first credit (no balance record yet) is applied while the node
// itself checks in (its record is rewritten at the same moment). The persistent driver retries a
// transaction that conflicts: a retry must apply the credit once, not once per attempt.
func firstCreditRace(ctx *Ctx, i int, drv int, prefix string) {
	st := newStore(drv)
	defer st.Destroy()
	var mon []string
	hosts := 250
	wrong := 0
	example := ""
	for h := 0; h < hosts; h++ {
		id := store.NodeID(fmt.Sprintf("%0128x", 0xfc0000+h))
		if err := st.SetNode(store.Node{ID: id, IsHost: true, Kind: "geth", LastSeen: time.Now()}); err != nil {
			fatal("%v", err)
		}
		var wg sync.WaitGroup
		start := make(chan struct{})
		for g := 0; g < 3; g++ {
			wg.Add(1)
			go func(g int) {
				defer wg.Done()
				<-start
				for k := 0; k < 6; k++ {
					st.UpdateNodePeers(id, nil, uint64(k))
				}
			}(g)
		}
		wg.Add(1)
		var addErr error
		go func() {
			defer wg.Done()
			<-start
			addErr = st.AddNodeBalance(id, big.NewInt(1000))
		}()
		close(start)
		wg.Wait()
		b, err := st.GetNodeBalance(id)
		if addErr == nil && err == nil && b.Credit.Cmp(big.NewInt(1000)) != 0 {
			wrong++
			if example == "" {
				example = b.Credit.String()
			}
		}
	}
	if wrong > 0 {
		mon = append(mon, fmt.Sprintf("%s-first-credit-applied-twice: %d of %d nodes that were credited 1000 once, while checking in, hold another amount (e.g. %s): the credit was applied more than once (%s driver)", prefix, wrong, hosts, example, driverNames[drv]))
	}
	ctx.Emit(Case{I: i, Kind: "first-credit-race-" + driverNames[drv], Desc: map[string]interface{}{"nodes": hosts, "wrong": wrong}, Monitor: mon})
}

// hotWallet: many light clients spend from ONE wallet, each peered with a host of its own, and all
// of them check in at the same moment, round after round, on the persistent driver (whose
// optimistic transactions conflict on the wallet's record). Every keep-alive returns -- with a
// result or with an error -- and after each of them the ledger is zero-sum: what the hosts were
// credited, the wallet was debited. Acknowledged credits are also there after a restart.
func hotWallet(ctx *Ctx, i int, prefix string) {
	st := newStore(drvBdg)
	defer st.Destroy()
	var mon []string
	const clients, rounds = 48, 60
	mgr := balance.PayPerInterval(st.Store, time.Second, big.NewInt(1000))
	var tick int64
	base := time.Now()
	mgr.VerifSetClock(func() time.Time { return base.Add(time.Duration(atomic.LoadInt64(&tick)) * time.Second) })
	wallet := store.Account(walletOf("w1"))
	type pair struct{ c, h store.Node }
	var pairs []pair
	for k := 0; k < clients; k++ {
		c := store.Node{ID: store.NodeID(fmt.Sprintf("%0128x", 0xc10000+k)), Kind: "geth", LastSeen: base}
		h := store.Node{ID: store.NodeID(fmt.Sprintf("%0128x", 0xa10000+k)), Kind: "geth", IsHost: true, LastSeen: base}
		for _, n := range []store.Node{c, h} {
			if err := st.SetNode(n); err != nil {
				fatal("%v", err)
			}
		}
		if err := st.AddAccountNode(wallet, c.ID); err != nil {
			fatal("%v", err)
		}
		pairs = append(pairs, pair{c, h})
	}
	total := func() *big.Int {
		s, err := st.Stats()
		if err != nil {
			fatal("%v", err)
		}
		return new(big.Int).Set(&s.TotalCredit)
	}
	start := total()
	var failed int64
	var firstErr atomic.Value
	// three bursts; within a burst every client sends its keep-alives one after the other without
	// waiting for anybody (so that one of them can lose the race for the wallet's record many
	// times in a row); the ledger is read when the burst is over
	for burst := 0; burst < 3 && len(mon) == 0; burst++ {
		var wg sync.WaitGroup
		gate := make(chan struct{})
		for k := range pairs {
			wg.Add(1)
			go func(p pair) {
				defer wg.Done()
				<-gate
				for r := 0; r < rounds/3; r++ {
					c := p.c
					c.LastSeen = base.Add(time.Duration(atomic.AddInt64(&tick, 1)-2) * time.Second)
					if _, err := mgr.OnUpdate(c, []store.Node{p.h}); err != nil {
						atomic.AddInt64(&failed, 1)
						firstErr.CompareAndSwap(nil, err.Error())
					}
				}
			}(pairs[k])
		}
		close(gate)
		wg.Wait()
		if t := total(); t.Cmp(start) != 0 {
			fe, _ := firstErr.Load().(string)
			mon = append(mon, fmt.Sprintf("%s-hot-wallet-total: %d light clients of one wallet sent %d keep-alives each as fast as they could (burst %d, persistent driver); every keep-alive has returned (%d so far with an error, e.g. %q) and the ledger total is %s, not %s: hosts were credited what the wallet was not debited", prefix, clients, rounds/3, burst+1, atomic.LoadInt64(&failed), fe, t, start))
		}
	}
	// what was acknowledged is there after a restart
	want := new(big.Int)
	for _, p := range pairs {
		b, err := st.GetNodeBalance(p.h.ID)
		if err != nil {
			fatal("%v", err)
		}
		want.Add(want, &b.Credit)
	}
	st.Reopen()
	got := new(big.Int)
	for _, p := range pairs {
		b, _ := st.GetNodeBalance(p.h.ID)
		got.Add(got, &b.Credit)
	}
	if got.Cmp(want) != 0 {
		mon = append(mon, fmt.Sprintf("%s-hot-wallet-restart: the hosts' credit was %s before the restart and is %s after it", prefix, want, got))
	}
	ctx.Emit(Case{I: i, Kind: "hot-wallet", Desc: map[string]interface{}{"clients": clients, "rounds": rounds, "keepalives_failed": atomic.LoadInt64(&failed)}, Monitor: mon})
}

// contendedWrites: many writers credit ONE node at the same moment on the persistent driver, on
// disk with synchronous writes. Each AddNodeBalance returns: nil (acknowledged) or an error
// (refused). The balance afterwards, and after a restart, is exactly the sum of the acknowledged
// credits: an acknowledged write that was not stored is a lost write.
func contendedWrites(ctx *Ctx, i int, prefix string) {
	dir, _ := ioutil.TempDir("", "vharness-contended")
	defer os.RemoveAll(dir)
	open := func() store.Store {
		s, err := retryOpen(badgerstore.Open, badgerOptsSync(dir))
		if err != nil {
			fatal("open: %v", err)
		}
		return s
	}
	s := open()
	id := store.NodeID(fmt.Sprintf("%0128x", 0xdd0001))
	if err := s.SetNode(store.Node{ID: id, IsHost: true, Kind: "geth", LastSeen: time.Now()}); err != nil {
		fatal("%v", err)
	}
	const writers, each = 160, 5
	var acked, refused int64
	var wg sync.WaitGroup
	gate := make(chan struct{})
	for g := 0; g < writers; g++ {
		wg.Add(1)
		go func() {
			defer wg.Done()
			<-gate
			for k := 0; k < each; k++ {
				if err := s.AddNodeBalance(id, big.NewInt(1)); err == nil {
					atomic.AddInt64(&acked, 1)
				} else {
					atomic.AddInt64(&refused, 1)
				}
			}
		}()
	}
	close(gate)
	wg.Wait()
	var mon []string
	b, err := s.GetNodeBalance(id)
	if err != nil || b.Credit.Cmp(big.NewInt(acked)) != 0 {
		mon = append(mon, fmt.Sprintf("%s-acknowledged-write-lost: %d writers credited one node %d times each at the same moment (persistent driver, on disk); %d credits of 1 were acknowledged, %d refused; the balance reads %v (error %v)", prefix, writers, each, acked, refused, b.Credit.String(), err))
	}
	s.Close()
	s = open()
	b2, err2 := s.GetNodeBalance(id)
	if len(mon) == 0 && (err2 != nil || b2.Credit.Cmp(big.NewInt(acked)) != 0) {
		mon = append(mon, fmt.Sprintf("%s-acknowledged-write-lost: %d credits of 1 were acknowledged under contention; after a restart the balance reads %v (error %v)", prefix, acked, b2.Credit.String(), err2))
	}
	s.Close()
	ctx.Emit(Case{I: i, Kind: "contended-writes", Desc: map[string]interface{}{"writers": writers, "credits_each": each, "acknowledged": acked, "refused": refused}, Monitor: mon})
}

// reRegisterRace: a node's keep-alive is being stored while the node registers again as something
// else (a host that comes back as a light client: no address, no kind, no payout; or the other way
// round). Both store calls return. A keep-alive changes a node's last check-in and block number
// and nothing else, so in either order the record afterwards carries the role, kind, address and
// payout of the registration -- on both drivers, however the persistent one retries its
// transaction.
func reRegisterRace(ctx *Ctx, i int, drv int, prefix string) {
	st := newStore(drv)
	defer st.Destroy()
	var mon []string
	var peers []string
	now := time.Now()
	for k := 0; k < 200; k++ {
		id := fmt.Sprintf("%0128x", 0x5000+k)
		st.SetNode(store.Node{ID: store.NodeID(id), IsHost: true, Kind: "geth", LastSeen: now, URI: "enode://" + id + "@10.0.0.1:30303"})
		peers = append(peers, id)
	}
	rounds, wrong := 300, 0
	example := ""
	for r := 0; r < rounds; r++ {
		id := store.NodeID(fmt.Sprintf("%0128x", 0x9000+r))
		first := store.Node{ID: id, IsHost: true, Kind: "geth", URI: "enode://" + string(id) + "@10.9.9.9:30303", LastSeen: time.Now(), Payout: store.Account(walletOf("w1"))}
		second := store.Node{ID: id, LastSeen: time.Now()}
		if r%2 == 1 {
			first, second = second, first
		}
		if err := st.SetNode(first); err != nil {
			fatal("%v", err)
		}
		var wg sync.WaitGroup
		wg.Add(2)
		start := make(chan struct{})
		var e1, e2 error
		go func() { defer wg.Done(); <-start; _, e1 = st.UpdateNodePeers(id, peers, 7) }()
		go func() {
			defer wg.Done()
			<-start
			time.Sleep(time.Duration(r%40) * 10 * time.Microsecond)
			second.LastSeen = time.Now()
			e2 = st.SetNode(second)
		}()
		close(start)
		wg.Wait()
		n, err := st.GetNode(id)
		if e1 != nil || e2 != nil || err != nil {
			continue
		}
		if n.IsHost != second.IsHost || n.URI != second.URI || n.Kind != second.Kind || n.Payout != second.Payout {
			wrong++
			if example == "" {
				example = fmt.Sprintf("registered again with host=%v kind=%q address %q payout %q; the record afterwards says host=%v kind=%q address %q payout %q", second.IsHost, second.Kind, shortURI(second.URI), second.Payout, n.IsHost, n.Kind, shortURI(n.URI), n.Payout)
			}
		}
	}
	if wrong > 0 {
		mon = append(mon, fmt.Sprintf("%s-keepalive-vs-registration: in %d of %d rounds a node registered again while its keep-alive was being stored (%s driver), both calls returned, and the record is the result of neither order: %s", prefix, wrong, rounds, driverNames[drv], example))
	}
	ctx.Emit(Case{I: i, Kind: "re-register-race-" + driverNames[drv], Desc: map[string]interface{}{"rounds": rounds, "wrong": wrong}, Monitor: mon})
}

func shortURI(u string) string {
	if len(u) > 30 {
		return u[:18] + "..." + u[len(u)-20:]
	}
	return u
}
