package main

import (
	"fmt"
	"math/big"
	"sync"
	"time"

	"github.com/vipnode/vipnode/v2/pool/store"
)

// C10, keep-alive x withdrawal: the model says a keep-alive is not atomic with respect to a
// withdrawal of a wallet that two of the credited hosts are paid into
// (Mixed.keepalive_withdraw_not_serialisable). The witness schedule is forced on the real pool
// and payment service: the balance manager's second credit is held at a gate while the wallet
// withdraws. The outcome (credit left on the wallet, amount settled) is compared with the
// outcomes of the two one-at-a-time orders, run on fresh worlds of the same code.

// addGate holds the n-th AddNodeBalance (from 0) before it is applied.
type addGate struct {
	store.AccountStore
	mu      sync.Mutex
	armed   bool
	holdAt  int
	n       int
	arrived chan struct{}
	release chan struct{}
}

func (g *addGate) AddNodeBalance(id store.NodeID, credit *big.Int) error {
	g.mu.Lock()
	hold := g.armed && g.n == g.holdAt
	if g.armed {
		g.n++
	}
	g.mu.Unlock()
	if hold {
		g.arrived <- struct{}{}
		select {
		case <-g.release:
		case <-time.After(5 * time.Second):
		}
	}
	return g.AccountStore.AddNodeBalance(id, credit)
}

type mixedOutcome struct {
	Left    string `json:"wallet_credit_left"`
	Settled string `json:"settled"`
	Client  string `json:"client_credit"`
	Note    string `json:"note,omitempty"`
}

// mode 0: keep-alive then withdrawal; 1: withdrawal then keep-alive; 2: withdrawal between the
// keep-alive's two credits
func c10MixedRun(drv int, mode int) mixedOutcome {
	cfg := worldCfg{Drv: drv, Price: "1000", IntervalNs: 60e9, Settle: true}
	w := newWorld(cfg)
	defer w.Close()
	w.aliasAll()
	g := &addGate{AccountStore: w.bstore.AccountStore, holdAt: 1, arrived: make(chan struct{}, 1), release: make(chan struct{}, 1)}
	w.bstore.AccountStore = g
	w.applyPOp(&POp{Op: "connect", Node: "h1", Host: true, Kind: "geth"})
	w.applyPOp(&POp{Op: "connect", Node: "h2", Host: true, Kind: "geth"})
	w.applyPOp(&POp{Op: "connect", Node: "c1", Kind: "geth"})
	if err := w.addNode("w1", "h1"); err != nil {
		fatal("%v", err)
	}
	if err := w.addNode("w1", "h2"); err != nil {
		fatal("%v", err)
	}
	// first keep-alive: both hosts become tracked peers (bills nothing: no time has passed)
	w.applyPOp(&POp{Op: "update", Node: "c1", Peers: []string{"h1", "h2"}, Block: 1, Elapsed: 0})
	prev, err := w.st.GetNode(store.NodeID(nodeIDOf("c1")))
	if err != nil {
		fatal("%v", err)
	}
	w.clockNow = time.Unix(0, prev.LastSeen.UnixNano()+60e9) // the next keep-alive bills one interval
	w.useRealClk = false
	w.mu.Lock()
	w.settleOK = true
	nlog := len(w.settleLog)
	w.mu.Unlock()
	keepalive := func() {
		if _, err := w.update("c1", []string{"h1", "h2"}, 2); err != nil {
			fatal("keep-alive: %v", err)
		}
	}
	withdraw := func() {
		if err := w.withdraw("w1"); err != nil {
			fatal("withdraw: %v", err)
		}
	}
	note := ""
	switch mode {
	case 0:
		keepalive()
		withdraw()
	case 1:
		withdraw()
		keepalive()
	case 2:
		g.mu.Lock()
		g.armed = true
		g.mu.Unlock()
		done := make(chan struct{})
		go func() { keepalive(); close(done) }()
		select {
		case <-g.arrived:
			withdraw()
		case <-time.After(3 * time.Second):
			note = "the keep-alive never reached a second credit"
		case <-done:
			note = "the keep-alive finished without a second credit call"
		}
		g.release <- struct{}{}
		<-done
		g.mu.Lock()
		g.armed = false
		g.mu.Unlock()
		if note != "" {
			withdraw()
		}
	}
	left, _ := w.st.GetAccountBalance(store.Account(walletOf("w1")))
	cl, _ := w.st.GetNodeBalance(store.NodeID(nodeIDOf("c1")))
	settled := new(big.Int)
	w.mu.Lock()
	for _, c := range w.settleLog[nlog:] {
		if c.OK {
			a, _ := new(big.Int).SetString(c.Amount, 10)
			settled.Add(settled, a)
		}
	}
	w.mu.Unlock()
	return mixedOutcome{Left: left.Credit.String(), Settled: settled.String(), Client: cl.Credit.String(), Note: note}
}

func c10Mixed(ctx *Ctx, i int, drv int) {
	kw := c10MixedRun(drv, 0)
	wk := c10MixedRun(drv, 1)
	mid := c10MixedRun(drv, 2)
	var mon []string
	same := func(a, b mixedOutcome) bool {
		return a.Left == b.Left && a.Settled == b.Settled && a.Client == b.Client
	}
	if mid.Note == "" && !same(mid, kw) && !same(mid, wk) {
		mon = append(mon, fmt.Sprintf("c10-keepalive-withdraw-not-serialisable: a client's keep-alive credits two hosts paid into one wallet; the wallet withdraws between the two credits: %s left on the wallet and %s settled; keep-alive then withdrawal leaves %s and settles %s, withdrawal then keep-alive leaves %s and settles %s: the result of neither one-at-a-time order (%s driver)",
			mid.Left, mid.Settled, kw.Left, kw.Settled, wk.Left, wk.Settled, driverNames[drv]))
	}
	// conservation holds in all three runs (C01): settled + left is the same
	sum := func(o mixedOutcome) string {
		a, _ := new(big.Int).SetString(o.Left, 10)
		b, _ := new(big.Int).SetString(o.Settled, 10)
		return a.Add(a, b).String()
	}
	if sum(mid) != sum(kw) || sum(wk) != sum(kw) || mid.Client != kw.Client || wk.Client != kw.Client {
		mon = append(mon, fmt.Sprintf("c10-mixed-not-conserved: settled + left differs between the three runs: %v %v %v (%s driver)", kw, wk, mid, driverNames[drv]))
	}
	ctx.Emit(Case{I: i, Kind: "keepalive-withdraw-" + driverNames[drv], Desc: map[string]interface{}{"keepalive_then_withdraw": kw, "withdraw_then_keepalive": wk, "withdraw_between_credits": mid}, Monitor: mon})
}

// The other way round: a keep-alive credits the wallet while the wallet's withdrawal is waiting for
// its settlement (after it read the balance). One-at-a-time orders: withdrawal first (pays what
// was earned, the new credit stays) or keep-alive first (pays both). Here every request touches
// the wallet once, so the outcome must be one of the two.
func c10WdCreditRun(drv int, mode int) mixedOutcome {
	cfg := worldCfg{Drv: drv, Price: "1000", IntervalNs: 60e9, Settle: true}
	w := newWorld(cfg)
	defer w.Close()
	w.aliasAll()
	for _, o := range []*POp{{Op: "connect", Node: "h1", Host: true, Kind: "geth"}, {Op: "connect", Node: "c1", Kind: "geth"},
		{Op: "addnode", Wallet: "w1", Node: "h1"},
		{Op: "update", Node: "c1", Peers: []string{"h1"}, Block: 1, Elapsed: 0},
		{Op: "update", Node: "c1", Peers: []string{"h1"}, Block: 2, Elapsed: 300e9}} { // the wallet earns 5000
		w.applyPOp(o)
	}
	prev, err := w.st.GetNode(store.NodeID(nodeIDOf("c1")))
	if err != nil {
		fatal("%v", err)
	}
	w.useRealClk = false
	w.clockNow = time.Unix(0, prev.LastSeen.UnixNano()+42e9) // the next keep-alive credits 700
	w.mu.Lock()
	w.settleOK = true
	nlog := len(w.settleLog)
	w.mu.Unlock()
	keepalive := func() {
		if _, err := w.update("c1", []string{"h1"}, 3); err != nil {
			fatal("keep-alive: %v", err)
		}
	}
	withdraw := func() {
		if err := w.withdraw("w1"); err != nil {
			fatal("withdraw: %v", err)
		}
	}
	switch mode {
	case 0:
		withdraw()
		keepalive()
	case 1:
		keepalive()
		withdraw()
	default:
		w.mu.Lock()
		w.settleHook = func(n int) bool { keepalive(); return true }
		w.mu.Unlock()
		withdraw()
		w.mu.Lock()
		w.settleHook = nil
		w.mu.Unlock()
	}
	left, _ := w.st.GetAccountBalance(store.Account(walletOf("w1")))
	cl, _ := w.st.GetNodeBalance(store.NodeID(nodeIDOf("c1")))
	settled := new(big.Int)
	w.mu.Lock()
	for _, c := range w.settleLog[nlog:] {
		if c.OK {
			a, _ := new(big.Int).SetString(c.Amount, 10)
			settled.Add(settled, a)
		}
	}
	w.mu.Unlock()
	return mixedOutcome{Left: left.Credit.String(), Settled: settled.String(), Client: cl.Credit.String()}
}

func c10WdCredit(ctx *Ctx, i int, drv int) {
	wk := c10WdCreditRun(drv, 0)
	kw := c10WdCreditRun(drv, 1)
	mid := c10WdCreditRun(drv, 2)
	var mon []string
	same := func(a, b mixedOutcome) bool {
		return a.Left == b.Left && a.Settled == b.Settled && a.Client == b.Client
	}
	if !same(mid, kw) && !same(mid, wk) {
		mon = append(mon, fmt.Sprintf("c10-withdraw-credit-not-serialisable: a keep-alive credits a wallet while the wallet's withdrawal waits for its settlement: %s left on the wallet and %s settled; withdrawal then keep-alive leaves %s and settles %s, keep-alive then withdrawal leaves %s and settles %s: the result of neither one-at-a-time order (%s driver)",
			mid.Left, mid.Settled, wk.Left, wk.Settled, kw.Left, kw.Settled, driverNames[drv]))
	}
	ctx.Emit(Case{I: i, Kind: "withdraw-credit-" + driverNames[drv], Desc: map[string]interface{}{"withdraw_then_keepalive": wk, "keepalive_then_withdraw": kw, "keepalive_during_settlement": mid}, Monitor: mon})
}

// firstCreditRace: a node's very first credit (no balance record yet) is applied while the node
// itself checks in (its record is rewritten at the same moment). The persistent driver retries a
// transaction that conflicts: a retry must apply the credit once, not once per attempt.
func firstCreditRace(ctx *Ctx, i int, drv int, prefix string) {
	st := newStore(drv)
	defer st.Destroy()
	var mon []string
	hosts := 250
	wrong := 0
	example := ""
	for h := 0; h < hosts; h++ {
		id := store.NodeID(fmt.Sprintf("%0128x", 0xfc0000+h))
		if err := st.SetNode(store.Node{ID: id, IsHost: true, Kind: "geth", LastSeen: time.Now()}); err != nil {
			fatal("%v", err)
		}
		var wg sync.WaitGroup
		start := make(chan struct{})
		for g := 0; g < 3; g++ {
			wg.Add(1)
			go func(g int) {
				defer wg.Done()
				<-start
				for k := 0; k < 6; k++ {
					st.UpdateNodePeers(id, nil, uint64(k))
				}
			}(g)
		}
		wg.Add(1)
		var addErr error
		go func() {
			defer wg.Done()
			<-start
			addErr = st.AddNodeBalance(id, big.NewInt(1000))
		}()
		close(start)
		wg.Wait()
		b, err := st.GetNodeBalance(id)
		if addErr == nil && err == nil && b.Credit.Cmp(big.NewInt(1000)) != 0 {
			wrong++
			if example == "" {
				example = b.Credit.String()
			}
		}
	}
	if wrong > 0 {
		mon = append(mon, fmt.Sprintf("%s-first-credit-applied-twice: %d of %d nodes that were credited 1000 once, while checking in, hold another amount (e.g. %s): the credit was applied more than once (%s driver)", prefix, wrong, hosts, example, driverNames[drv]))
	}
	ctx.Emit(Case{I: i, Kind: "first-credit-race-" + driverNames[drv], Desc: map[string]interface{}{"nodes": hosts, "wrong": wrong}, Monitor: mon})
}
