package main

import (
	"fmt"
	"math/big"
	"math/rand"
	"sync"

	"github.com/vipnode/vipnode/v2/pool/store"
)

// C10, call traces: the Coq theorems about concurrent requests (zero-sum under every
// interleaving, serialisability of keep-alives) speak about request *programs* — the sequence
// of atomic store calls a handler makes, each continuation depending on the previous result
// (Conc.v). Here the real handlers run against a store wrapper that records every call they
// make, in order, with its arguments; the model runs the corresponding program alone on the
// model store in the state the history reached and the two call sequences are compared in
// the kernel. A handler that reads and writes back in two calls where the model has one atomic
// add, skips the read-back, or bills in another order than the program no longer corresponds.

type traceStore struct {
	store.Store
	w   *world
	mu  sync.Mutex
	log []string
}

func (t *traceStore) add(format string, a ...interface{}) {
	t.mu.Lock()
	t.log = append(t.log, fmt.Sprintf(format, a...))
	t.mu.Unlock()
}
func (t *traceStore) take() []string {
	t.mu.Lock()
	defer t.mu.Unlock()
	l := t.log
	t.log = nil
	return l
}
func (t *traceStore) n(s string) string { return cN(t.w.t.id(s)) }

// the nonce check belongs to request verification, before the program starts
func (t *traceStore) CheckAndSaveNonce(id string, nonce int64) error {
	return t.Store.CheckAndSaveNonce(id, nonce)
}
func (t *traceStore) GetNode(id store.NodeID) (*store.Node, error) {
	t.add("GetNode %s", t.n(string(id)))
	return t.Store.GetNode(id)
}
func (t *traceStore) SetNode(n store.Node) error {
	t.add("SetNode %s", t.w.t.nodeCoq(n))
	return t.Store.SetNode(n)
}
func (t *traceStore) ActiveHosts(kind string, limit int) ([]store.Node, error) {
	t.add("ActiveHosts %s %s", t.n(kind), cZ(int64(limit)))
	return t.Store.ActiveHosts(kind, limit)
}
func (t *traceStore) NodePeers(id store.NodeID) ([]store.Node, error) {
	t.add("NodePeers %s", t.n(string(id)))
	return t.Store.NodePeers(id)
}
func (t *traceStore) UpdateNodePeers(id store.NodeID, peers []string, blk uint64) ([]store.NodeID, error) {
	t.add("UpdatePeers %s %s %s", t.n(string(id)), t.w.t.idsCoq(peers), cN(int(blk)))
	return t.Store.UpdateNodePeers(id, peers, blk)
}
func (t *traceStore) GetNodeBalance(id store.NodeID) (store.Balance, error) {
	t.add("GetNodeBal %s", t.n(string(id)))
	return t.Store.GetNodeBalance(id)
}
func (t *traceStore) AddNodeBalance(id store.NodeID, credit *big.Int) error {
	t.add("AddNodeBal %s %s", t.n(string(id)), cBig(credit))
	return t.Store.AddNodeBalance(id, credit)
}
func (t *traceStore) GetAccountBalance(a store.Account) (store.Balance, error) {
	t.add("GetAcctBal %s", t.n(string(a)))
	return t.Store.GetAccountBalance(a)
}
func (t *traceStore) AddAccountBalance(a store.Account, credit *big.Int) error {
	t.add("AddAcctBal %s %s", t.n(string(a)), cBig(credit))
	return t.Store.AddAccountBalance(a, credit)
}
func (t *traceStore) AddAccountNode(a store.Account, id store.NodeID) error {
	t.add("AddAcctNode %s %s", t.n(string(a)), t.n(string(id)))
	return t.Store.AddAccountNode(a, id)
}
func (t *traceStore) IsAccountNode(a store.Account, id store.NodeID) error {
	t.add("IsAcctNode %s %s", t.n(string(a)), t.n(string(id)))
	return t.Store.IsAccountNode(a, id)
}
func (t *traceStore) GetAccountNodes(a store.Account) ([]store.NodeID, error) {
	t.add("GetAcctNodes %s", t.n(string(a)))
	return t.Store.GetAccountNodes(a)
}
func (t *traceStore) Stats() (*store.Stats, error) {
	t.add("Stats")
	return t.Store.Stats()
}

// c10Traces runs a pool history with the recording wrapper between both services (and the
// balance manager) and the driver, and renders (operation, calls made) pairs.
func c10Traces(ctx *Ctx, i int, rng *rand.Rand) {
	drv := i % 2
	cfg := genPoolCfg(rng, drv)
	cfg.trace = true
	w := newWorld(cfg)
	defer w.Close()
	w.aliasAll()
	connected := map[string]bool{}
	steps := 10 + rng.Intn(16)
	var items []string
	var done []*POp
	var mon []string
	ncalls := 0
	for k := 0; k < steps; k++ {
		o := genPoolOp(rng, connected, k)
		_, m := w.applyPOp(o)
		mon = append(mon, m...)
		items = append(items, fmt.Sprintf("(%s, %s)", o.opCoq, cList(o.trace)))
		ncalls += len(o.trace)
		done = append(done, o)
	}
	coq := fmt.Sprintf("CTrace {| tc_cfg := %s; tc_items := %s |}", cfg.coq(), cList(items))
	ctx.Emit(Case{I: i, Kind: "call-traces-" + driverNames[drv], Coq: coq,
		Desc: map[string]interface{}{"cfg": cfg, "ops": done, "store_calls": ncalls}, Monitor: mon})
}
