package main

import (
	"context"
	"fmt"
	"sync"
	"time"

	"math/big"

	"github.com/vipnode/vipnode/v2/pool"
	"github.com/vipnode/vipnode/v2/pool/balance"
	"github.com/vipnode/vipnode/v2/pool/store"
)

func init() { commands["c01"] = runC01 }

func runC01(ctx *Ctx) {
	if ctx.Want(910000) {
		hotWallet(ctx, 910000, "c01")
	}
	if ctx.Want(910001) {
		c07Binary(ctx, 910001)
	}
	for c := 0; c < ctx.N(6, 60); c++ {
		if ctx.Want(900000 + c) {
			contractCase(ctx, 900000+c, ctx.Sub(900000+c), "keepalive", "c01-")
		}
	}
	// unit charges at the word boundaries of the arithmetic (2^32, 2^63, 2^64, 2^65, 2^128): earn
	// them, link, withdraw, withdraw again -- every amount is an amount
	for k, price := range []string{"4294967296", "9223372036854775808", "18446744073709551616", "36893488147419103232", "340282366920938463463374607431768211456"} {
		for drv := 0; drv < 2; drv++ {
			i := 800000 + 2*k + drv
			if !ctx.Want(i) {
				continue
			}
			cfg := worldCfg{Drv: drv, Price: price, IntervalNs: 60e9, Settle: true}
			ops := []*POp{{Op: "connect", Node: "h1", Host: true, Kind: "geth"}, {Op: "connect", Node: "c1", Kind: "geth"},
				{Op: "addnode", Wallet: "w1", Node: "h1"},
				{Op: "update", Node: "c1", Peers: []string{"h1"}, Elapsed: 0},
				{Op: "update", Node: "c1", Peers: []string{"h1"}, Elapsed: 60e9},
				{Op: "withdraw", Wallet: "w1", Settle: true},
				{Op: "withdraw", Wallet: "w1", Settle: true},
				{Op: "update", Node: "c1", Peers: []string{"h1"}, Elapsed: 120e9},
				{Op: "addnode", Wallet: "w2", Node: "c1"},
				{Op: "withdraw", Wallet: "w1", Settle: false},
				{Op: "withdraw", Wallet: "w1", Settle: true},
				{Op: "withdraw", Wallet: "w2", Settle: true}}
			coq, mon, done := runPoolSeq(cfg, ops)
			ctx.Emit(Case{I: i, Kind: "word-boundary-units-" + driverNames[drv], Coq: coq, Desc: poolDesc{cfg, done}, Monitor: mon})
		}
	}
	nseq := ctx.N(150, 4000)
	var wg sync.WaitGroup
	sem := make(chan struct{}, 12)
	for c := 0; c < nseq; c++ {
		if !ctx.Want(c) {
			continue
		}
		wg.Add(1)
		sem <- struct{}{}
		go func(c int) {
			defer wg.Done()
			defer func() { <-sem }()
			rng := ctx.Sub(c)
			drv := c % 2
			cfg := genPoolCfg(rng, drv)
			n := 15 + rng.Intn(30)
			connected := map[string]bool{}
			var ops []*POp
			for k := 0; k < n; k++ {
				o := genPoolOp(rng, connected, k)
				ops = append(ops, o)
				ctx.Count("op:" + o.Op)
			}
			coq, mon, done := runPoolSeq(cfg, ops)
			ctx.Emit(Case{I: c, Kind: "history-" + driverNames[drv], Coq: coq, Desc: poolDesc{cfg, done}, Monitor: mon})
		}(c)
	}
	wg.Wait()
	// a credit that the store refuses must not be charged to the client
	for c := 0; c < ctx.N(4, 40); c++ {
		i := nseq + 100 + c
		if ctx.Want(i) {
			c01CreditFault(ctx, i, c%2, c/2)
		}
	}
	// the first credit a node ever receives, racing with that node's own keep-alive
	for c := 0; c < ctx.N(2, 20); c++ {
		i := nseq + 200 + c
		if ctx.Want(i) {
			c01FirstCredit(ctx, i, c%2, ctx.N(80, 600))
		}
	}
	// credit reaching a wallet while its withdrawal is being settled
	for c := 0; c < ctx.N(2, 8); c++ {
		i := nseq + 300 + c
		if ctx.Want(i) {
			c01WithdrawDuringCredit(ctx, i, c%2)
		}
	}
	// many agents updating at once (free-running goroutines, both drivers)
	for c := 0; c < ctx.N(6, 60); c++ {
		i := nseq + c
		if ctx.Want(i) {
			c01Concurrent(ctx, i, c%2)
		}
	}
}

// c01Concurrent: clients sharing hosts (and a wallet) send keep-alives concurrently; at
// quiescence the ledger total must still be zero and every acknowledged charge accounted for.
func c01Concurrent(ctx *Ctx, i, drv int) {
	cfg := worldCfg{Drv: drv, Price: "1000", IntervalNs: 60e9, Settle: true}
	w := newWorld(cfg)
	defer w.Close()
	w.aliasAll()
	clients := []string{"c1", "c2", "c3", "c4", "c5", "c6", "c7", "c8"}
	hosts := []string{"h1", "h2", "h3"}
	for _, h := range hosts {
		w.applyPOp(&POp{Op: "connect", Node: h, Host: true, Kind: "geth"})
	}
	w.applyPOp(&POp{Op: "addnode", Wallet: "w1", Node: "h1"})
	w.applyPOp(&POp{Op: "addnode", Wallet: "w1", Node: "h2"})
	for _, c := range clients {
		if _, err := w.connect(c, false, "geth", "", ""); err != nil {
			fatal("connect %s: %v", c, err)
		}
		if _, err := w.update(c, hosts, 1); err != nil {
			fatal("first update %s: %v", c, err)
		}
	}
	// the balance manager's clock runs five minutes ahead so that every keep-alive bills
	w.useRealClk = false
	w.mu.Lock()
	w.clockNow = time.Now().Add(5 * time.Minute)
	w.mu.Unlock()
	rounds := 12
	var wg sync.WaitGroup
	var mu sync.Mutex
	errs := map[string]int{}
	acked := 0
	type req struct {
		sig   string
		id    string
		nonce int64
		r     pool.UpdateRequest
	}
	for _, c := range clients {
		// sign this client's requests up front with increasing nonces
		var reqs []req
		ids := make([]string, len(hosts))
		for k, h := range hosts {
			ids[k] = nodeIDOf(h)
		}
		for r := 0; r < rounds; r++ {
			ur := pool.UpdateRequest{PeerInfo: peerInfos(ids), BlockNumber: uint64(r)}
			mu.Lock()
			nonce := w.nextNonce()
			mu.Unlock()
			reqs = append(reqs, req{w.sign(keyFor(c), "vipnode_update", nodeIDOf(c), nonce, ur), nodeIDOf(c), nonce, ur})
		}
		wg.Add(1)
		go func(reqs []req) {
			defer wg.Done()
			for _, q := range reqs {
				_, err := w.pool.Update(context.Background(), q.sig, q.id, q.nonce, q.r)
				mu.Lock()
				if err != nil {
					errs[classify(err).Class+": "+err.Error()]++
				} else {
					acked++
				}
				mu.Unlock()
			}
		}(reqs)
	}
	wg.Wait()
	total := w.totalCredit()
	var mon []string
	if total.Sign() != 0 {
		mon = append(mon, fmt.Sprintf("c01-concurrent-total: after %d concurrent keep-alives (%d acknowledged) the ledger total is %s, not 0; errors: %v", len(clients)*rounds, acked, total, errs))
	}
	ctx.Emit(Case{I: i, Kind: "concurrent-" + driverNames[drv], Desc: map[string]interface{}{"clients": len(clients), "rounds": rounds, "acked": acked, "errors": errs, "total": total.String()}, Monitor: mon})
}

// faultStore fails AddNodeBalance for one chosen node (fault injection at the BalanceStore
// interface the balance manager is given).
type faultStore struct {
	store.BalanceStore
	failFor store.NodeID
	fails   int
}

func (f *faultStore) AddNodeBalance(id store.NodeID, credit *big.Int) error {
	if id == f.failFor {
		f.fails++
		return fmt.Errorf("injected store failure")
	}
	return f.BalanceStore.AddNodeBalance(id, credit)
}

func c01CreditFault(ctx *Ctx, i, drv, which int) {
	st := newStore(drv)
	defer st.Destroy()
	now := time.Now()
	hosts := []store.Node{{ID: "hostA", IsHost: true, LastSeen: now}, {ID: "hostB", IsHost: true, LastSeen: now}, {ID: "hostC", IsHost: true, LastSeen: now}}
	client := store.Node{ID: "client", LastSeen: now.Add(-5 * time.Minute)}
	for _, n := range append(hosts, client) {
		st.SetNode(n)
	}
	fs := &faultStore{BalanceStore: st.Store, failFor: hosts[which%3].ID}
	m := balance.PayPerInterval(fs, time.Minute, big.NewInt(1000))
	m.VerifSetClock(func() time.Time { return now })
	_, err := m.OnUpdate(client, hosts)
	s, _ := st.Stats()
	var mon []string
	if s.TotalCredit.Sign() != 0 {
		mon = append(mon, fmt.Sprintf("c01-credit-fault-total: the store refused the credit for %s, yet the client was charged for it: ledger total %s after the keep-alive (error returned: %v)", fs.failFor, s.TotalCredit.String(), err))
	}
	ctx.Emit(Case{I: i, Kind: "credit-fault-" + driverNames[drv], Desc: map[string]interface{}{"failing_peer": string(fs.failFor), "injected_failures": fs.fails, "total": s.TotalCredit.String()}, Monitor: mon})
}

// c01FirstCredit: in every round a fresh host and a fresh client are registered and the client is
// billed for the host for the first time while the host's own keep-alive (and reconnect) writes
// its node record concurrently; after every round the ledger total must be zero and the host
// must have earned exactly what the client paid.
func c01FirstCredit(ctx *Ctx, i, drv, rounds int) {
	st := newStore(drv)
	defer st.Destroy()
	var mon []string
	price := big.NewInt(1000)
	bad := 0
	for r := 0; r < rounds && bad == 0; r++ {
		now := time.Now()
		host := store.Node{ID: store.NodeID(fmt.Sprintf("host-%d", r)), IsHost: true, LastSeen: now}
		client := store.Node{ID: store.NodeID(fmt.Sprintf("client-%d", r)), LastSeen: now.Add(-5 * time.Minute)}
		st.SetNode(host)
		st.SetNode(client)
		m := balance.PayPerInterval(st.Store, time.Minute, price)
		m.VerifSetClock(func() time.Time { return now })
		var wg sync.WaitGroup
		start := make(chan struct{})
		for g := 0; g < 4; g++ {
			wg.Add(1)
			go func(g int) {
				defer wg.Done()
				<-start
				for k := 0; k < 6; k++ {
					if g%2 == 0 {
						st.UpdateNodePeers(host.ID, nil, uint64(k))
					} else {
						st.SetNode(host)
					}
				}
			}(g)
		}
		var err error
		wg.Add(1)
		go func() {
			defer wg.Done()
			<-start
			_, err = m.OnUpdate(client, []store.Node{host})
		}()
		close(start)
		wg.Wait()
		s, _ := st.Stats()
		hb, _ := st.GetNodeBalance(host.ID)
		cb, _ := st.GetNodeBalance(client.ID)
		if s.TotalCredit.Sign() != 0 {
			bad++
			mon = append(mon, fmt.Sprintf("c01-first-credit-total: round %d: a client was billed for a host for the first time while the host's keep-alive ran: the host earned %s, the client paid %s, ledger total %s, not 0 (error returned: %v)",
				r, hb.Credit.String(), new(big.Int).Neg(&cb.Credit).String(), s.TotalCredit.String(), err))
		}
	}
	ctx.Emit(Case{I: i, Kind: "first-credit-" + driverNames[drv], Desc: map[string]interface{}{"rounds": rounds}, Monitor: mon})
}

// c01WithdrawDuringCredit: while the withdrawal of a host's wallet is being settled, a client's
// keep-alive credits that wallet.  Only the credit that was settled may leave the ledger: the
// credit that arrived meanwhile must still be there.
func c01WithdrawDuringCredit(ctx *Ctx, i, drv int) {
	cfg := worldCfg{Drv: drv, Price: "1000", IntervalNs: 60e9, Settle: true}
	w := newWorld(cfg)
	defer w.Close()
	w.aliasAll()
	for _, o := range []*POp{{Op: "connect", Node: "h1", Host: true, Kind: "geth"}, {Op: "connect", Node: "c1", Kind: "geth"},
		{Op: "addnode", Wallet: "w1", Node: "h1"}} {
		w.applyPOp(o)
	}
	w.useRealClk = true
	if _, err := w.update("c1", []string{"h1"}, 1); err != nil {
		fatal("update: %v", err)
	}
	w.useRealClk = false
	w.mu.Lock()
	w.clockNow = time.Now().Add(5 * time.Minute)
	w.mu.Unlock()
	if _, err := w.update("c1", []string{"h1"}, 2); err != nil { // bills five minutes: the wallet earns
		fatal("update: %v", err)
	}
	acct := store.Account(walletOf("w1"))
	b0, _ := w.bstore.GetAccountBalance(acct)
	earned := new(big.Int).Set(&b0.Credit)
	total0 := w.totalCredit()
	var during error
	w.mu.Lock()
	w.clockNow = time.Now().Add(15 * time.Minute)
	w.settleHook = func(n int) bool {
		_, during = w.update("c1", []string{"h1"}, 3) // bills ten more minutes while the settlement is in flight
		return true
	}
	w.mu.Unlock()
	nonce := w.nextNonce()
	addr := walletOf("w1")
	err := w.pay.Withdraw(context.Background(), w.sign(keyFor("w1"), "pool_withdraw", addr, nonce), addr, nonce)
	w.mu.Lock()
	w.settleHook = nil
	w.mu.Unlock()
	b1, _ := w.bstore.GetAccountBalance(acct)
	total1 := w.totalCredit()
	var mon []string
	want := new(big.Int).Sub(total0, earned)
	if err == nil && during == nil && total1.Cmp(want) != 0 {
		mon = append(mon, fmt.Sprintf("c01-withdraw-lost-credit: a wallet that had earned %s was withdrawn while a keep-alive credited it again: the ledger total went from %s to %s instead of %s (only the settled credit may leave the ledger); the wallet now holds %s",
			earned, total0, total1, want, b1.Credit.String()))
	}
	ctx.Emit(Case{I: i, Kind: "withdraw-during-credit-" + driverNames[drv], Desc: map[string]interface{}{"earned": earned.String(), "total_before": total0.String(),
		"total_after": total1.String(), "wallet_after": b1.Credit.String(), "withdraw_error": fmt.Sprint(err), "update_error": fmt.Sprint(during)}, Monitor: mon})
}
