package main

import (
	"context"
	"fmt"
	"github.com/vipnode/vipnode/v2/jsonrpc2"
	"math"
	"math/rand"
	"net/http/httptest"
	"sort"
	"strings"
	"time"

	"github.com/vipnode/vipnode/v2/pool"
	"github.com/vipnode/vipnode/v2/pool/store"
)

func init() {
	commands["c08"] = runC08
	commands["c09"] = runC09
}

var c08Hosts = []string{"h1", "h2", "h3", "h4", "h5", "h6"}

type c08Desc struct {
	MaxHosts  int               `json:"max_request_hosts"`
	Hosts     map[string]string `json:"hosts"` // name -> "kind,fresh|stale,connected|closed,peered?,outcome"
	Requester string            `json:"requester"`
	Via       string            `json:"via"`
	Num       int               `json:"num"`
	Kind      string            `json:"kind"`
	Calls     []string          `json:"whitelist_calls"`
	Reply     []string          `json:"reply"`
	Err       string            `json:"error,omitempty"`
	TookMs    int64             `json:"took_ms"`
}

func safely(f func() error) (err error) {
	defer func() {
		if r := recover(); r != nil {
			err = panicErr{r}
		}
	}()
	return f()
}

func c08One(ctx *Ctx, i int, rng *rand.Rand, allowStall bool) {
	drv := i % 2
	// directed family: a small request, more eligible hosts of the requested kind than asked for,
	// some of them failing, and the requester already peered with hosts of another kind (the
	// pool over-fetches candidates by the number of existing peers)
	directed := (i/2)%4 == 3 && !allowStall
	dirKind := []string{"geth", "parity"}[rng.Intn(2)]
	dirOther := map[string]string{"geth": "parity", "parity": "geth"}[dirKind]
	maxh := []int{0, 0, 1, 3}[rng.Intn(4)]
	if directed {
		maxh = []int{0, 0, 3}[rng.Intn(3)]
		ctx.Count("directed-fallback")
	}
	// second directed family: a pool maximum below the legacy default of three, plenty of eligible
	// hosts, and a legacy vipnode_client request that names no count
	legacyCap := (i/2)%4 == 1 && !allowStall
	if legacyCap {
		maxh = 1 + rng.Intn(2)
		ctx.Count("directed-legacy-default-under-cap")
	}
	// third directed family: the requester's last check-in saw a peered host whose own check-in
	// was late; the host has checked in since, and the request comes a while after
	agedPeer := (i/2)%8 == 2 && !allowStall
	if agedPeer {
		maxh = []int{0, 0, 3}[rng.Intn(3)]
		ctx.Count("directed-aged-peer")
	}
	// fourth directed family: hosts that registered with a kind and register again without naming
	// one (an agent that cannot tell what its node is, a legacy request): they are hosts of no
	// particular kind from then on
	reKind := (i/2)%8 == 6 && !allowStall
	if reKind {
		maxh = 0
		ctx.Count("directed-re-registered-without-kind")
	}
	w := newWorld(worldCfg{Drv: drv, Price: "1000", IntervalNs: 60e9, Settle: true, MaxHosts: maxh})
	defer w.Close()
	w.stallFor = 7 * time.Second
	for _, h := range c08Hosts {
		w.t.m[nodeIDOf(h)] = w.t.id(h)
	}
	w.aliasAll()
	desc := c08Desc{MaxHosts: maxh, Hosts: map[string]string{}}
	nh := rng.Intn(len(c08Hosts) + 1)
	if directed || legacyCap || agedPeer || reKind {
		nh = len(c08Hosts)
	}
	hosts := append([]string{}, c08Hosts...)
	rng.Shuffle(len(hosts), func(a, b int) { hosts[a], hosts[b] = hosts[b], hosts[a] })
	hosts = hosts[:nh]
	kindOf := map[string]string{}
	stale := map[string]bool{}
	for _, h := range hosts {
		kindOf[h] = []string{"geth", "geth", "parity"}[rng.Intn(3)]
		stale[h] = rng.Intn(5) == 0
	}
	if legacyCap || agedPeer || reKind {
		for _, h := range hosts {
			kindOf[h], stale[h] = dirKind, false
		}
	}
	if directed {
		nOther := 1 + rng.Intn(2)
		for k, h := range hosts {
			kindOf[h], stale[h] = dirKind, false
			if k < nOther {
				kindOf[h] = dirOther
			}
		}
	}
	// stale hosts check in first, then time passes
	for _, h := range hosts {
		if stale[h] {
			w.newConn(h, "10.0.0.9:1")
			if _, err := w.connect(h, true, kindOf[h], "", "enode://"+nodeIDOf(h)+"@10.2.2.2:30303"); err != nil {
				fatal("connect %s: %v", h, err)
			}
		}
	}
	shiftTime(w.st.Store, 125*time.Second)
	for _, h := range hosts {
		if !stale[h] {
			w.newConn(h, "10.0.0.9:1")
			if _, err := w.connect(h, true, kindOf[h], "", "enode://"+nodeIDOf(h)+"@10.2.2.2:30303"); err != nil {
				fatal("connect %s: %v", h, err)
			}
		}
	}
	if reKind {
		for k, h := range hosts {
			if k < 1+i%3 {
				if _, err := w.connect(h, true, "", "", "enode://"+nodeIDOf(h)+"@10.2.2.2:30303"); err != nil {
					fatal("re-register %s: %v", h, err)
				}
				kindOf[h] = ""
			}
		}
	}
	// requester
	self := "c1"
	selfKind := []string{"geth", "parity"}[rng.Intn(2)]
	registered := rng.Intn(12) != 0
	if directed || legacyCap || agedPeer || reKind {
		selfKind, registered = dirKind, true
	}
	if !directed && !legacyCap && !agedPeer && !reKind && rng.Intn(8) == 0 && nh > 0 { // a host asking for peers
		self = hosts[0]
	} else if registered {
		if _, err := w.connect(self, false, selfKind, "", ""); err != nil {
			fatal("connect client: %v", err)
		}
	}
	// already-peered hosts
	var peered []string
	for _, h := range hosts {
		if h != self && rng.Intn(4) == 0 && !directed && !legacyCap && !agedPeer && !reKind {
			peered = append(peered, h)
		}
		if agedPeer && len(peered) < 1+i%2 {
			peered = append(peered, h)
		}
		if directed && kindOf[h] == dirOther {
			peered = append(peered, h)
		}
	}
	if agedPeer {
		// the hosts' check-ins are late when the requester reports its peers
		shiftTime(w.st.Store, time.Duration(95+rng.Intn(20))*time.Second)
	}
	if (registered || self != "c1") && len(peered) > 0 {
		if _, err := w.update(self, peered, 1); err != nil {
			fatal("update: %v", err)
		}
		if agedPeer {
			// every host checks in (the peered ones report the requester), then a while passes
			for _, h := range hosts {
				var ps []string
				for _, p := range peered {
					if p == h {
						ps = []string{self}
					}
				}
				if _, err := w.update(h, ps, 1); err != nil {
					fatal("host update: %v", err)
				}
			}
			shiftTime(w.st.Store, time.Duration(30+rng.Intn(25))*time.Second)
		}
	} else {
		peered = nil
	}
	// some connections drop
	connected := map[string]bool{}
	for _, h := range hosts {
		connected[h] = true
		if rng.Intn(5) == 0 && !directed && !legacyCap && !agedPeer && !reKind {
			w.closeConn(h, 0)
			connected[h] = false
		}
	}
	// scripted answers
	outcome := map[string]string{}
	for _, h := range hosts {
		outcome[h] = "ack"
		switch r := rng.Intn(10); {
		case r == 0:
			outcome[h] = "err"
		case r == 1 && allowStall:
			outcome[h] = "stall"
		}
		if legacyCap || agedPeer || reKind {
			outcome[h] = "ack"
		}
		if directed {
			outcome[h] = "ack"
			if kindOf[h] == dirKind && rng.Intn(5) < 2 {
				outcome[h] = "err"
			}
		}
		if hc := w.lastConn(h); hc != nil {
			hc.agent.mu.Lock()
			hc.agent.mode = outcome[h]
			hc.agent.mu.Unlock()
		}
		fs := "fresh"
		if stale[h] {
			fs = "stale"
		}
		cs := "connected"
		if !connected[h] {
			cs = "closed"
		}
		desc.Hosts[h] = fmt.Sprintf("%s,%s,%s,%s", kindOf[h], fs, cs, outcome[h])
	}
	for _, p := range peered {
		desc.Hosts[p] += ",peered"
	}
	// bystanders: light clients of every kind (never candidates), registered around the hosts
	for k, b := range []string{"by0", "by1", "by2", "by3", "by4"} {
		if rng.Intn(3) != 0 {
			if _, err := w.connect(b, false, []string{"geth", "parity", ""}[k%3], "", ""); err != nil {
				fatal("connect bystander: %v", err)
			}
		}
	}
	w.takeCalls()
	var mon0 []string
	// what the store answers to the candidate query, held against each node's own record
	for _, qk := range []string{"", "geth", "parity"} {
		ans, err := w.st.ActiveHosts(qk, 100)
		if err != nil {
			continue
		}
		for _, n := range ans {
			rec, gerr := w.st.GetNode(n.ID)
			if gerr != nil {
				mon0 = append(mon0, fmt.Sprintf("c08-store-answer: the store lists %s as an active host of kind %q; it has no such node", shortID(string(n.ID)), qk))
				continue
			}
			if !rec.IsHost || (qk != "" && rec.Kind != qk) || time.Since(rec.LastSeen) > store.ExpireInterval {
				mon0 = append(mon0, fmt.Sprintf("c08-store-answer: the store (%s driver) lists node %s as an active host of kind %q; its own record says host=%v kind=%q last seen %s ago", driverNames[drv], shortID(string(n.ID)), qk, rec.IsHost, rec.Kind, time.Since(rec.LastSeen).Round(time.Second)))
			}
		}
	}
	// the request
	supply := nh
	num := []int{-3, -1, 0, 1, 2, supply, supply + 2, 3}[rng.Intn(8)]
	kind := []string{"", "geth", "parity"}[rng.Intn(3)]
	via := "vipnode_peer"
	if self == "c1" && rng.Intn(5) == 0 {
		via = "vipnode_client"
	}
	if legacyCap {
		num, kind, via = []int{0, 0, -2}[rng.Intn(3)], []string{dirKind, ""}[rng.Intn(2)], "vipnode_client"
	}
	if !directed && !legacyCap && !agedPeer && !reKind && maxh == 0 && via == "vipnode_peer" && (i/2)%8 == 4 {
		// as many hosts as a count can say: the supply is what limits the answer
		num = []int{math.MaxInt64, math.MaxInt64 - 1, 1 << 62, 1 << 40, math.MaxInt32 + 1}[rng.Intn(5)]
		ctx.Count("directed-huge-count")
	}
	if reKind {
		num, kind, via = 4+rng.Intn(3), dirKind, []string{"vipnode_peer", "vipnode_client"}[rng.Intn(2)]
	}
	if agedPeer {
		num, kind, via = 1+rng.Intn(3), []string{dirKind, ""}[rng.Intn(2)], []string{"vipnode_peer", "vipnode_peer", "vipnode_client"}[rng.Intn(3)]
	}
	if directed {
		num, kind, via = 1+rng.Intn(2), []string{dirKind, dirKind, ""}[rng.Intn(3)], "vipnode_peer"
	} else if via == "vipnode_peer" && rng.Intn(6) == 0 {
		// kinds no host has: other clients, other spellings (a kind is matched as the string it is)
		kind = []string{"besu", "Geth", " geth", "geth-light", "pantheon"}[rng.Intn(5)]
	}
	desc.Requester, desc.Via, desc.Num, desc.Kind = self, via, num, kind
	// state the model needs, read before the request
	var nodesCoq []string
	for _, n := range append(append([]string{}, c08Hosts...), "c1") {
		if nd, err := w.st.GetNode(store.NodeID(nodeIDOf(n))); err == nil {
			if k, ok := kindOf[n]; ok && reKind {
				nd.Kind = k // the kind the host last registered with, by the harness's own record
			}
			nodesCoq = append(nodesCoq, w.t.nodeCoq(*nd))
		}
	}
	now := time.Now()
	var reply []store.Node
	var err error
	t0 := time.Now()
	effNum := num
	if via == "vipnode_peer" {
		err = safely(func() error {
			r, e := w.peer(self, num, kind)
			if r != nil {
				reply = r.Peers
			}
			return e
		})
	} else {
		// legacy endpoint: connects the client, then asks for NumHosts hosts (default when none named)
		err = safely(func() error {
			id := nodeIDOf(self)
			req := pool.ClientRequest{Kind: kind, NumHosts: num}
			nonce := w.nextNonce()
			sig := w.sign(keyFor(self), "vipnode_client", id, nonce, req)
			r, e := w.pool.Client(context.Background(), sig, id, nonce, req)
			if r != nil {
				reply = r.Hosts
			}
			return e
		})
		if num <= 0 {
			effNum = 3
		}
		registered = true
		// the legacy endpoint re-registers the client with the requested kind; refresh the model's view
		nodesCoq = nil
		for _, n := range append(append([]string{}, c08Hosts...), "c1") {
			if nd, e := w.st.GetNode(store.NodeID(nodeIDOf(n))); e == nil {
				if k, ok := kindOf[n]; ok && reKind {
					nd.Kind = k
				}
				nodesCoq = append(nodesCoq, w.t.nodeCoq(*nd))
			}
		}
	}
	took := time.Since(t0)
	desc.TookMs = took.Milliseconds()
	e := classify(err)
	mon := mon0
	if pe, ok := err.(panicErr); ok {
		mon = append(mon, fmt.Sprintf("c08-panic: peer request for %d hosts made the handler panic: %v", num, pe.v))
	}
	var replyNames, callNames []string
	for _, n := range reply {
		replyNames = append(replyNames, w.nameOf(string(n.ID), c08Hosts))
	}
	// late calls of stalled hosts arrive after the reply: wait for them so they are not mistaken
	calls := w.takeCalls()
	for _, c := range calls {
		if c.Method == "whitelist" {
			callNames = append(callNames, strings.SplitN(c.Host, "#", 2)[0])
			if c.Arg != nodeIDOf(self) {
				mon = append(mon, fmt.Sprintf("c08-whitelist-arg: host %s was told to whitelist %q, not the requester", c.Host, c.Arg))
			}
		}
	}
	sort.Strings(replyNames)
	desc.Reply, desc.Calls, desc.Err = replyNames, callNames, e.Class
	// model-free monitors
	if len(reply) > 0 && num > 0 && len(reply) > num && via == "vipnode_peer" {
		mon = append(mon, fmt.Sprintf("c08-too-many: asked for %d hosts, got %d", num, len(reply)))
	}
	if maxh > 0 && len(reply) > maxh {
		mon = append(mon, fmt.Sprintf("c08-over-maximum: pool maximum %d, got %d hosts", maxh, len(reply)))
	}
	if num <= 0 && via == "vipnode_peer" && (len(reply) > 0 || len(calls) > 0) {
		mon = append(mon, fmt.Sprintf("c08-nonpositive-request: a request for %d hosts returned %d hosts and caused %d whitelist calls", num, len(reply), len(calls)))
	}
	if via == "vipnode_client" && num <= 0 && len(reply) > 3 {
		mon = append(mon, fmt.Sprintf("c08-default-count: legacy request naming no count got %d hosts (documented default 3)", len(reply)))
	}
	for _, r := range replyNames {
		d := desc.Hosts[r]
		switch {
		case r == self:
			mon = append(mon, "c08-ineligible: the requester itself was returned")
		case strings.Contains(d, "stale"), strings.Contains(d, "closed"), strings.Contains(d, "peered"), strings.Contains(d, ",err"), strings.Contains(d, ",stall"):
			mon = append(mon, fmt.Sprintf("c08-ineligible: host %s (%s) was returned", r, d))
		case kind != "" && !strings.HasPrefix(d, kind+","):
			mon = append(mon, fmt.Sprintf("c08-ineligible: host %s (%s) is not of the requested kind %q", r, d, kind))
		}
	}
	if err != nil && len(reply) > 0 {
		mon = append(mon, "c08-error-with-hosts: an error was returned together with hosts")
	}
	// Gallina rendering: stalled hosts that were reachable count as called (TimedOut)
	var callIDs []int
	for _, c := range callNames {
		callIDs = append(callIDs, w.t.id(c))
	}
	var replyIDs, peerIDs, connIDs []int
	for _, r := range replyNames {
		replyIDs = append(replyIDs, w.t.id(r))
	}
	if agedPeer {
		// nothing was pruned in this family (every host was active at the requester's check-in):
		// the peers are the hosts it reported, whatever the store says now
		for _, p := range peered {
			peerIDs = append(peerIDs, w.t.id(p))
		}
	} else if ps, perr := w.st.NodePeers(store.NodeID(nodeIDOf(self))); perr == nil {
		for _, p := range ps {
			peerIDs = append(peerIDs, w.t.id(w.nameOf(string(p.ID), c08Hosts)))
		}
	}
	for h, c := range connected {
		if c {
			connIDs = append(connIDs, w.t.id(h))
		}
	}
	sort.Ints(connIDs)
	var outs []string
	for h, o := range outcome {
		oc := "Ack"
		if o == "err" {
			oc = "Failed"
		} else if o == "stall" {
			oc = "TimedOut"
		}
		outs = append(outs, fmt.Sprintf("(%s, %s)", cN(w.t.id(h)), oc))
	}
	sort.Strings(outs)
	errN := map[string]int{"": 0, "unregistered": 1, "nohosts": 2, "hosterrors": 3}
	en, known := errN[e.Class]
	if !known {
		en = 9
	}
	selfReg := registered || self != "c1"
	coq := fmt.Sprintf("{| c8_X := %s; c8_now := %s; c8_nodes := %s; c8_self := %s; c8_self_registered := %s; c8_peers := %s; c8_connected := %s; c8_maxh := %s; c8_num := %s; c8_kind := %s; c8_outs := %s; c8_calls := %s; c8_reply := %s; c8_err := %s |}",
		cZ(int64(store.ExpireInterval)), cZ(now.UnixNano()), cList(nodesCoq), cN(w.t.id(self)), cBool(selfReg), cNs(peerIDs), cNs(connIDs),
		cZ(int64(maxh)), cZ(int64(effNum)), cN(w.t.id(kind)), cList(outs), cNs(callIDs), cNs(replyIDs), cN(en))
	kindName := "request-" + driverNames[drv]
	if allowStall {
		kindName = "request-stall-" + driverNames[drv]
	}
	ctx.Emit(Case{I: i, Kind: kindName, Coq: coq, Desc: desc, Monitor: mon})
}

func runC08(ctx *Ctx) {
	n := ctx.N(200, 5000)
	for c := 0; c < ctx.N(8, 80); c++ {
		if ctx.Want(n + 500 + c) {
			e2eCase(ctx, n+500+c, ctx.Sub(n+500+c), "c08-")
		}
	}
	nstall := ctx.N(4, 60)
	forEachCase(ctx, n+nstall, func(i int, rng *rand.Rand) {
		c08One(ctx, i, rng, i >= n)
	})
}

// ---------- C09 ----------

type c09Ev struct {
	Ev      string `json:"ev"`
	Host    string `json:"host,omitempty"`
	Conn    int    `json:"conn"`
	Remotes int    `json:"num_remotes"`
	Called  []int  `json:"conns_called,omitempty"`
}

func runC09(ctx *Ctx) {
	n := ctx.N(150, 4000)
	if ctx.Want(n + 50) {
		defer c09Binary(ctx, n+50)
	}
	for drv := 0; drv < 2; drv++ {
		if ctx.Want(n + 60 + drv) {
			c09InflightReconnect(ctx, n+60+drv, drv)
		}
		if ctx.Want(n + 70 + drv) {
			c09CloseWhileOwnRequestRuns(ctx, n+70+drv, drv)
		}
		if ctx.Want(n + 80 + drv) {
			c09FailedReconnect(ctx, n+80+drv, drv, true)
		}
		if ctx.Want(n + 90 + drv) {
			c09FailedReconnect(ctx, n+90+drv, drv, false)
		}
		if ctx.Want(n + 100 + drv) {
			c09OldConnectionKeepalive(ctx, n+100+drv, drv)
		}
		if ctx.Want(n + 110 + drv) {
			// every host with a live registered connection is instructed, each on its own connection
			c03SharedConnection(ctx, n+110+drv, drv, ctx.Sub(n+110+drv))
		}
	}
	forEachCase(ctx, n, func(i int, rng *rand.Rand) {
		drv := i % 2
		w := newWorld(worldCfg{Drv: drv, Price: "1000", IntervalNs: 60e9, Settle: true})
		defer w.Close()
		w.aliasAll()
		hosts := []string{"h1", "h2", "h3"}
		// connections are global objects; any host may register over any open connection
		type conn struct {
			hc   *hostConn
			open bool
		}
		var conns []*conn
		open := func() int {
			hc := w.newConn(fmt.Sprintf("conn%d", len(conns)), "10.0.0.3:1")
			hc.agent.name = fmt.Sprintf("conn%d", len(conns))
			hc.agent.conn = len(conns)
			conns = append(conns, &conn{hc, true})
			return len(conns) - 1
		}
		if _, err := w.connect("c1", false, "geth", "", ""); err != nil {
			fatal("%v", err)
		}
		var hts *httptest.Server
		httpSrv := func() *httptest.Server {
			if hts == nil {
				hs := &jsonrpc2.HTTPServer{}
				if err := hs.Register("vipnode_", w.pool, "connect", "disconnect", "ping", "update", "peer", "client", "host"); err != nil {
					fatal("register: %v", err)
				}
				hts = httptest.NewServer(hs)
			}
			return hts
		}
		defer func() {
			if hts != nil {
				hts.Close()
			}
		}()
		var evs []c09Ev
		var items []string
		var mon []string
		cur := map[string]int{} // connection each host most recently registered on
		steps := 6 + rng.Intn(14)
		for k := 0; k < steps; k++ {
			r := rng.Intn(13)
			switch {
			case r == 12: // a keep-alive of a host, sent over any open connection (the one it is registered on, one it was registered on before, or another host's): a keep-alive is not a registration
				h := hosts[rng.Intn(len(hosts))]
				var openIdx []int
				for j, c := range conns {
					if c.open {
						openIdx = append(openIdx, j)
					}
				}
				if len(openIdx) == 0 {
					continue
				}
				ci := openIdx[rng.Intn(len(openIdx))]
				id := nodeIDOf(h)
				req := pool.UpdateRequest{BlockNumber: uint64(k)}
				nonce := w.nextNonce()
				sig := w.sign(keyFor(h), "vipnode_update", id, nonce, req)
				before := w.pool.NumRemotes()
				var resp pool.UpdateResponse
				cctx, cancel := context.WithTimeout(context.Background(), 10*time.Second)
				err := conns[ci].hc.cliSide.Call(cctx, &resp, "vipnode_update", sig, id, nonce, req)
				cancel()
				nr := w.pool.NumRemotes()
				evs = append(evs, c09Ev{Ev: "keepalive-over-connection", Host: h, Conn: ci, Remotes: nr})
				if nr != before {
					where := "a connection it is not registered on"
					if cc, ok := cur[h]; ok && cc == ci {
						where = "the connection it is registered on"
					}
					mon = append(mon, fmt.Sprintf("c09-keepalive-changed-registry: a keep-alive of host %s arrived over connection %d (%s; result %v): registry entries %d -> %d; only registrations and closed connections change who can be instructed", h, ci, where, err, before, nr))
				}
			case r == 11: // a goodbye (vipnode_disconnect, as pool.Remote sends it) for a host, arriving on a connection other than the one it is registered on
				h := hosts[rng.Intn(len(hosts))]
				var others []int
				for j, c := range conns {
					if c.open && j != cur[h] {
						others = append(others, j)
					}
				}
				if _, registered := cur[h]; !registered || len(others) == 0 {
					continue
				}
				ci := others[rng.Intn(len(others))]
				id := nodeIDOf(h)
				nonce := w.nextNonce()
				sig := w.sign(keyFor(h), "vipnode_disconnect", id, nonce)
				before := w.pool.NumRemotes()
				var res interface{}
				cctx, cancel := context.WithTimeout(context.Background(), 10*time.Second)
				err := conns[ci].hc.cliSide.Call(cctx, &res, "vipnode_disconnect", sig, id, nonce)
				cancel()
				nr := w.pool.NumRemotes()
				evs = append(evs, c09Ev{Ev: "goodbye-on-other-connection", Host: h, Conn: ci, Remotes: nr})
				if nr != before {
					mon = append(mon, fmt.Sprintf("c09-goodbye-from-another-connection: a vipnode_disconnect for host %s arrived on connection %d; the host is registered on connection %d, which is open; registry entries %d -> %d (result %v): a host stays instructable while the connection it registered on is open", h, ci, cur[h], before, nr, err))
				}
			case r == 10: // a full node sends its connect over plain HTTP: there is no connection to instruct it over
				h := hosts[rng.Intn(len(hosts))]
				id := nodeIDOf(h)
				req := pool.ConnectRequest{VipnodeVersion: "verif", NodeInfo: userAgentFor("geth", true), NodeURI: "enode://" + id + "@10.3.3.3:30303"}
				nonce := w.nextNonce()
				sig := w.sign(keyFor(h), "vipnode_connect", id, nonce, req)
				before := w.pool.NumRemotes()
				var resp pool.ConnectResponse
				cctx, cancel := context.WithTimeout(context.Background(), 10*time.Second)
				err := (&jsonrpc2.HTTPService{Endpoint: httpSrv().URL}).Call(cctx, &resp, "vipnode_connect", sig, id, nonce, req)
				cancel()
				nr := w.pool.NumRemotes()
				evs = append(evs, c09Ev{Ev: "http-connect", Host: h, Remotes: nr})
				if err == nil || nr != before {
					mon = append(mon, fmt.Sprintf("c09-http-host-registered: host %s sent vipnode_connect over plain HTTP (a request with no connection behind it): result %v, registry entries %d -> %d; nothing can be instructable over a request that has ended", h, err, before, nr))
				}
			case r < 5: // (re)connect a host on a new or an existing open connection
				h := hosts[rng.Intn(len(hosts))]
				ci := -1
				var openIdx []int
				for j, c := range conns {
					if c.open {
						openIdx = append(openIdx, j)
					}
				}
				if len(openIdx) > 0 && rng.Intn(3) == 0 {
					ci = openIdx[rng.Intn(len(openIdx))]
				} else {
					ci = open()
				}
				id := nodeIDOf(h)
				req := pool.ConnectRequest{VipnodeVersion: "verif", NodeInfo: userAgentFor("geth", true), NodeURI: "enode://" + id + "@10.3.3.3:30303"}
				nonce := w.nextNonce()
				sig := w.sign(keyFor(h), "vipnode_connect", id, nonce, req)
				var resp pool.ConnectResponse
				cctx, cancel := context.WithTimeout(context.Background(), 10*time.Second)
				err := conns[ci].hc.cliSide.Call(cctx, &resp, "vipnode_connect", sig, id, nonce, req)
				cancel()
				if err != nil {
					fatal("host connect over conn %d: %v", ci, err)
				}
				nr := w.pool.NumRemotes()
				cur[h] = ci
				evs = append(evs, c09Ev{Ev: "register", Host: h, Conn: ci, Remotes: nr})
				items = append(items, fmt.Sprintf("EvReg %s %s %s", cN(w.t.id(h)), cN(ci+1), cNat(nr)))
			case r < 8: // close a connection (old or new, possibly twice)
				if len(conns) == 0 {
					continue
				}
				ci := rng.Intn(len(conns))
				c := conns[ci]
				c.hc.c1.Close()
				c.hc.c2.Close()
				c.open = false
				for hh, cc := range cur {
					if cc == ci {
						delete(cur, hh)
					}
				}
				w.pool.CloseRemote(c.hc.poolSide)
				nr := w.pool.NumRemotes()
				evs = append(evs, c09Ev{Ev: "close", Conn: ci, Remotes: nr})
				items = append(items, fmt.Sprintf("EvClose %s %s", cN(ci+1), cNat(nr)))
			default: // probe: ask for as many hosts as exist; every instructable host gets a call
				w.takeCalls()
				// refresh every host's check-in so that all are active candidates
				cctx, cancel := context.WithTimeout(context.Background(), 12*time.Second)
				_, _ = w.peerCtx(cctx, "c1", 6, "")
				cancel()
				var called []int
				for _, c := range w.takeCalls() {
					if c.Method == "whitelist" {
						var ci int
						fmt.Sscanf(strings.SplitN(c.Host, "#", 2)[0], "conn%d", &ci)
						called = append(called, ci)
					}
				}
				sort.Ints(called)
				evs = append(evs, c09Ev{Ev: "probe", Called: called})
				ids := make([]int, len(called))
				for j, c := range called {
					ids[j] = c + 1
					if !conns[c].open {
						mon = append(mon, fmt.Sprintf("c09-dead-connection-called: a request that started after connection %d closed still called it", c))
					}
				}
				items = append(items, "EvProbe "+cNs(ids))
			}
		}
		coq := fmt.Sprintf("{| c9_evs := %s |}", cList(items))
		ctx.Emit(Case{I: i, Kind: "registry-" + driverNames[drv], Coq: coq, Desc: map[string]interface{}{"events": evs}, Monitor: mon})
	})
}

func shortID(id string) string {
	if len(id) > 12 {
		return id[:12] + "..."
	}
	return id
}
