package main

import (
	"encoding/json"
	"fmt"
	"os/exec"
	"strings"
	"time"

	"github.com/vipnode/vipnode/v2/ethnode"
	"github.com/vipnode/vipnode/v2/pool"
	"github.com/vipnode/vipnode/v2/request"
)

// c03BinaryFlags: the shipped pool binary with its price and minimum-balance flags in every
// combination, the free pool (price 0) included: a light client without any balance that
// registers over HTTP is refused exactly when a minimum above 0 is configured; a full node is
// never refused for its balance.
func c03BinaryFlags(ctx *Ctx, i int) {
	bin, cleanup := buildBinary(ctx.Repo)
	defer cleanup()
	var mon, log []string
	for _, tc := range []struct {
		price, min string
		refuse     bool
	}{{"100 gwei", "1000", true}, {"0", "1000", true}, {"0 gwei", "1 gwei", true}, {"100 gwei", "off", false}, {"0", "off", false}, {"1", "0", false}} {
		port := freePort()
		cmd := exec.Command(bin, "pool", "--store=memory", fmt.Sprintf("--bind=127.0.0.1:%d", port), "--contract.price="+tc.price, "--contract.min-balance="+tc.min)
		var out strings.Builder
		cmd.Stdout, cmd.Stderr = &out, &out
		if err := cmd.Start(); err != nil {
			fatal("start pool: %v", err)
		}
		up := false
		for t := 0; t < 60 && !up; t++ {
			time.Sleep(50 * time.Millisecond)
			if _, body, err := httpRPC(port, `{"jsonrpc":"2.0","id":1,"method":"vipnode_ping"}`); err == nil && strings.Contains(body, "result") {
				up = true
			}
		}
		if !up {
			log = append(log, fmt.Sprintf("price %q minimum %q: the binary did not come up: %s", tc.price, tc.min, tailStr(out.String(), 200)))
			cmd.Process.Kill()
			cmd.Wait()
			continue
		}
		connect := func(name string, full bool) string {
			id := nodeIDOf(name)
			req := pool.ConnectRequest{VipnodeVersion: "verif", NodeInfo: ethnode.UserAgent{Kind: ethnode.Geth, IsFullNode: full}}
			nonce := time.Now().UnixNano()
			sig, err := request.Sign(keyFor(name), "vipnode_connect", id, nonce, req)
			if err != nil {
				fatal("sign: %v", err)
			}
			params, _ := json.Marshal([]interface{}{sig, id, nonce, req})
			body := fmt.Sprintf(`{"jsonrpc":"2.0","id":1,"method":"vipnode_connect","params":%s}`, params)
			_, resp, _ := httpRPC(port, body)
			return strings.TrimSpace(resp)
		}
		r := connect("c1", false)
		refused := strings.Contains(r, "low balance") || strings.Contains(r, "minimum")
		log = append(log, fmt.Sprintf("price %q minimum %q: light client without balance: %s", tc.price, tc.min, r))
		if refused != tc.refuse {
			mon = append(mon, fmt.Sprintf("c03-binary-minimum: vipnode pool --contract.price=%q --contract.min-balance=%q: a light client with balance 0 registering was answered %s; with this minimum it must be %s", tc.price, tc.min, r, map[bool]string{true: "refused for its balance", false: "accepted"}[tc.refuse]))
		}
		cmd.Process.Kill()
		cmd.Wait()
	}
	ctx.Emit(Case{I: i, Kind: "binary-price-and-minimum", Desc: map[string]interface{}{"steps": log}, Monitor: mon})
}
