package main

import (
	"context"
	"fmt"
	"math/big"
	"math/rand"
	"sync"
	"sync/atomic"
	"time"

	"github.com/vipnode/vipnode/v2/pool/store"
)

func init() {
	commands["c02"] = runC02
	commands["c03"] = runC03
	commands["c07"] = runC07
}

func forEachCase(ctx *Ctx, n int, f func(i int, rng *rand.Rand)) {
	var wg sync.WaitGroup
	sem := make(chan struct{}, 12)
	for c := 0; c < n; c++ {
		if !ctx.Want(c) {
			continue
		}
		wg.Add(1)
		sem <- struct{}{}
		go func(c int) {
			defer wg.Done()
			defer func() { <-sem }()
			f(c, ctx.Sub(c))
		}(c)
	}
	wg.Wait()
}

// C02: keep-alive heavy histories; unit-level elapsed/price extremes; real-clock runs.
func runC02(ctx *Ctx) {
	for drv := 0; drv < 2; drv++ {
		if ctx.Want(900200 + drv) {
			firstCreditRace(ctx, 900200+drv, drv, "c02")
			c02RefusedKeepalive(ctx, 900400+drv, drv)
		}
	}
	for c := 0; c < ctx.N(6, 60); c++ {
		if ctx.Want(900000 + c) {
			contractCase(ctx, 900000+c, ctx.Sub(900000+c), "keepalive", "c02-")
		}
	}
	n := ctx.N(200, 6000)
	forEachCase(ctx, n, func(i int, rng *rand.Rand) {
		drv := i % 2
		if i < 6 {
			c02RealClock(ctx, i, drv)
			return
		}
		if i < 10 {
			c02Reconnect(ctx, i, drv, i >= 8)
			return
		}
		cfg := genPoolCfg(rng, drv)
		cfg.Min = nil
		var ops []*POp
		hosts := poolHosts[:1+rng.Intn(3)]
		clients := poolClients[:1+rng.Intn(3)]
		for _, h := range hosts {
			ops = append(ops, &POp{Op: "connect", Node: h, Host: true, Kind: "geth", Payout: []string{"", "w1"}[rng.Intn(2)]})
		}
		for _, c := range clients {
			ops = append(ops, &POp{Op: "connect", Node: c, Kind: "geth"})
		}
		if rng.Intn(2) == 0 { // a peer sharing the client's wallet
			ops = append(ops, &POp{Op: "addnode", Wallet: "w2", Node: clients[0]}, &POp{Op: "addnode", Wallet: "w2", Node: hosts[0]})
		}
		all := append(append([]string{}, hosts...), clients...)
		rounds := 4 + rng.Intn(10)
		for r := 0; r < rounds; r++ {
			who := all[rng.Intn(len(all))]
			k := rng.Intn(len(all) + 1)
			var peers []string
			for j := 0; j < k; j++ {
				peers = append(peers, all[rng.Intn(len(all))])
			}
			ops = append(ops, &POp{Op: "update", Node: who, Peers: peers, Block: uint64(r), Elapsed: elapsedChoices[rng.Intn(len(elapsedChoices))]})
			ctx.Count(fmt.Sprintf("peers:%d", k))
			if rng.Intn(5) == 0 {
				ops = append(ops, &POp{Op: "advance", D: []int64{30e9, 61e9, 121e9}[rng.Intn(3)]})
			}
		}
		coq, mon, done := runPoolSeq(cfg, ops)
		ctx.Emit(Case{I: i, Kind: "keepalives-" + driverNames[drv], Coq: coq, Desc: poolDesc{cfg, done}, Monitor: mon})
	})
}

// c02RealClock lets the balance manager read the real clock (as in production) for a quick run
// of keep-alives and compares the time billed with the wall-clock span covered.
func c02RealClock(ctx *Ctx, i, drv int) {
	cfg := worldCfg{Drv: drv, Price: "1000000000000000000", IntervalNs: 60e9, Settle: true}
	ops := []*POp{{Op: "connect", Node: "h1", Host: true, Kind: "geth"}, {Op: "connect", Node: "c1", Kind: "geth"}}
	for r := 0; r < 9; r++ {
		ops = append(ops, &POp{Op: "update", Node: "c1", Peers: []string{"h1"}, Block: uint64(r), RealClk: true})
	}
	w := newWorld(cfg)
	defer w.Close()
	w.aliasAll()
	var items []string
	var done []*POp
	var mon []string
	var first, billed int64
	var lastB int64
	for _, o := range ops {
		c := *o
		var prevSeen int64
		if c.Op == "update" {
			if n, err := w.st.GetNode(store.NodeID(nodeIDOf(c.Node))); err == nil {
				prevSeen = n.LastSeen.UnixNano()
			}
			time.Sleep(2 * time.Millisecond)
		}
		item, m := w.applyPOp(&c)
		items = append(items, item)
		mon = append(mon, m...)
		done = append(done, &c)
		if c.Op == "update" && c.Result == "" {
			if first == 0 {
				first = prevSeen
			}
			billed += c.NowB - prevSeen
			lastB = c.NowB
		}
	}
	span := lastB - first
	if billed > span {
		mon = append(mon, fmt.Sprintf("c02-time-charged-twice: 9 keep-alives covering a span of %d ns were billed for %d ns (the gap between the store's and the balance manager's clock reads is billed by two consecutive keep-alives)", span, billed))
	}
	coq := fmt.Sprintf("{| pc_cfg := %s; pc_ops := %s |}", cfg.coq(), cList(items))
	ctx.Emit(Case{I: i, Kind: "real-clock-" + driverNames[drv], Coq: coq, Desc: poolDesc{cfg, done}, Monitor: mon})
}

// c02Reconnect: a client that was away connects again and sends a keep-alive at once: only the
// time since that connect may be billed (real clock, as in production).
func c02Reconnect(ctx *Ctx, i, drv int, legacy bool) {
	cfg := worldCfg{Drv: drv, Price: "60000000000", IntervalNs: 60e9, Settle: true} // one credit per nanosecond
	w := newWorld(cfg)
	defer w.Close()
	w.aliasAll()
	var items []string
	var done []*POp
	var mon []string
	run := func(o *POp) *POp {
		c := *o
		item, m := w.applyPOp(&c)
		items = append(items, item)
		mon = append(mon, m...)
		done = append(done, &c)
		return &c
	}
	run(&POp{Op: "connect", Node: "h1", Host: true, Kind: "geth"})
	run(&POp{Op: "connect", Node: "c1", Kind: "geth"})
	run(&POp{Op: "update", Node: "c1", Peers: []string{"h1"}, Block: 1, RealClk: true})
	away := int64(100e9) // shorter than the expiry window: the host is still the client's active peer
	run(&POp{Op: "advance", D: away})
	run(&POp{Op: "update", Node: "h1", Block: 2, RealClk: true}) // the host kept checking in
	c1 := store.NodeID(nodeIDOf("c1"))
	t0 := time.Now()
	run(&POp{Op: "connect", Node: "c1", Kind: "geth"})
	before, _ := w.st.GetNodeBalance(c1)
	b0 := new(big.Int).Set(&before.Credit)
	u := run(&POp{Op: "update", Node: "c1", Peers: []string{"h1"}, Block: 3, RealClk: true})
	since := time.Since(t0)
	after, _ := w.st.GetNodeBalance(c1)
	billed := new(big.Int).Sub(b0, &after.Credit)
	if u.Result == "" && billed.Cmp(big.NewInt(int64(since+50*time.Millisecond))) > 0 {
		mon = append(mon, fmt.Sprintf("c02-billed-before-connect: a client connected again and sent a keep-alive %d ns later; it was billed %s ns of service for its one active peer (it had been away for %d ns before connecting)", int64(since), billed, away))
	}
	coq := fmt.Sprintf("{| pc_cfg := %s; pc_ops := %s |}", cfg.coq(), cList(items))
	ctx.Emit(Case{I: i, Kind: "reconnect-" + driverNames[drv], Coq: coq, Desc: poolDesc{cfg, done}, Monitor: mon})
}

// C03: balances driven across the minimum at connect and at a billing keep-alive.
func runC03(ctx *Ctx) {
	for c := 0; c < ctx.N(4, 40); c++ {
		if ctx.Want(900000 + c) {
			contractCase(ctx, 900000+c, ctx.Sub(900000+c), "late-deposit", "c03-")
		}
	}
	n := ctx.N(200, 5000)
	mins := []string{"-5", "0", "1", "1000", "1000000000000000000"}
	forEachCase(ctx, n, func(i int, rng *rand.Rand) {
		drv := i % 2
		if i%10 == 7 {
			c03Contract(ctx, i, drv, rng)
			return
		}
		if i%10 == 3 {
			c03Legacy(ctx, i, drv, rng)
			return
		}
		if i%20 == 5 || i%20 == 14 {
			c03SharedConnection(ctx, i, drv, rng)
			return
		}
		if i == 16 {
			c03BinaryFlags(ctx, i)
			return
		}
		// the per-request cap on returned hosts is about peer requests only: a cut-off must reach
		// every connected host the client peers with, however many that is
		cfg := worldCfg{Drv: drv, Price: "1", IntervalNs: 1, Settle: true, MaxHosts: rng.Intn(3)}
		unset := rng.Intn(6) == 0
		m := new(big.Int)
		if !unset {
			ms := mins[rng.Intn(len(mins))]
			cfg.Min = strp(ms)
			m.SetString(ms, 10)
		}
		var ops []*POp
		ops = append(ops, &POp{Op: "connect", Node: "h1", Host: true, Kind: "geth"}, &POp{Op: "connect", Node: "h2", Host: true, Kind: "parity", Payout: "w2"})
		k := int64(1 + rng.Intn(3)) // peers billed
		if k == 3 || rng.Intn(3) == 0 {
			ops = append(ops, &POp{Op: "connect", Node: "h3", Host: true, Kind: "geth"})
		}
		ctx.Count(fmt.Sprintf("max-request-hosts:%d/peers:%d", cfg.MaxHosts, k))
		// client's wallet gets a deposit around the minimum, then the client connects
		delta := int64(rng.Intn(5) - 2)
		charge := int64(1 + rng.Intn(50))
		// deposit such that after a charge of k*charge the spendable balance is m + delta
		linked := rng.Intn(4) != 0
		// an operator's own host and client under one wallet: what the host earns in this
		// keep-alive lands in the account the client spends from
		shared := linked && rng.Intn(3) == 0
		net := k * charge
		if shared {
			net -= charge
			ctx.Count("shared-account")
		}
		dep := new(big.Int).Add(m, big.NewInt(delta+net))
		if linked {
			ops = append(ops, &POp{Op: "connect", Node: "c1", Kind: "geth"})
			ops = append(ops, &POp{Op: "addnode", Wallet: "w1", Node: "c1"})
			if shared {
				ops = append(ops, &POp{Op: "addnode", Wallet: "w1", Node: "h1"})
			}
			if dep.Sign() > 0 {
				ops = append(ops, &POp{Op: "deposit", Wallet: "w1", Amount: dep.String()})
			}
			ops = append(ops, &POp{Op: "connect", Node: "c1", Kind: "geth"}) // reconnect with the balance in place
		} else {
			ops = append(ops, &POp{Op: "connect", Node: "c1", Kind: "geth"})
		}
		peers := []string{"h1", "h2", "h3"}[:k]
		ops = append(ops, &POp{Op: "update", Node: "c1", Peers: peers, Elapsed: 0}) // start tracking, no charge
		ops = append(ops, &POp{Op: "update", Node: "c1", Peers: peers, Elapsed: charge})
		ops = append(ops, &POp{Op: "update", Node: "c1", Peers: peers, Elapsed: int64(rng.Intn(3))})
		ops = append(ops, &POp{Op: "update", Node: "h1", Peers: []string{"c1"}, Elapsed: 1000}) // hosts never cut off
		ops = append(ops, &POp{Op: "connect", Node: "c1", Kind: "geth"})
		ops = append(ops, &POp{Op: "connect", Node: "c2", Kind: "geth"}) // fresh client: balance 0 vs minimum
		ctx.Count(fmt.Sprintf("delta:%d", delta))
		// every fourth history: the client posts its keep-alives and hangs up without waiting for
		// the reply (plain HTTP allows it): the request's context is done when it is handled.
		// Billing, the cut-off and the instructions to the hosts are the same.
		cfg.CtxDone = i%4 == 1
		coq, mon, done := runPoolSeq(cfg, ops)
		ctx.Emit(Case{I: i, Kind: "threshold-" + driverNames[drv], Coq: coq, Desc: poolDesc{cfg, done}, Monitor: mon})
	})
}

// C07: accrual and withdrawals; fee/minimum around the balance; failing settlements; repeats;
// racing withdrawals of one wallet.
func runC07(ctx *Ctx) {
	for c := 0; c < ctx.N(6, 60); c++ {
		if ctx.Want(900000 + c) {
			contractCase(ctx, 900000+c, ctx.Sub(900000+c), "failed-settlement", "c07-")
		}
		if ctx.Want(900100 + c) {
			contractCase(ctx, 900100+c, ctx.Sub(900100+c), "restart-before-mining", "c07-")
		}
		if c < 2 && ctx.Want(900200+c) {
			contractCase(ctx, 900200+c, ctx.Sub(900200+c), "many-accounts", "c07-", "c15-")
		}
		if c == 0 && ctx.Want(900300) {
			c07Binary(ctx, 900300)
		}
	}
	n := ctx.N(200, 5000)
	forEachCase(ctx, n, func(i int, rng *rand.Rand) {
		drv := i % 2
		if i%10 == 9 {
			c07Race(ctx, i, drv, rng)
			return
		}
		if i%10 == 4 {
			c07Staged(ctx, i, drv, rng)
			return
		}
		if i%10 == 7 || i%10 == 2 {
			c07Contract(ctx, i, drv, rng)
			return
		}
		cfg := worldCfg{Drv: drv, Price: "1", IntervalNs: 1, Settle: rng.Intn(10) != 0, FeeFresh: rng.Intn(2) == 0}
		switch rng.Intn(4) {
		case 0:
			cfg.WMin, cfg.Fee = strp("5000"), "2500"
		case 1:
			cfg.WMin = strp("100")
		case 2:
			cfg.Fee = "10"
		}
		var ops []*POp
		ops = append(ops, &POp{Op: "connect", Node: "h1", Host: true, Kind: "geth"}, &POp{Op: "connect", Node: "h2", Host: true, Kind: "geth"},
			&POp{Op: "connect", Node: "c1", Kind: "geth"})
		ops = append(ops, &POp{Op: "addnode", Wallet: "w1", Node: "h1"})
		if rng.Intn(2) == 0 {
			ops = append(ops, &POp{Op: "addnode", Wallet: "w1", Node: "h2"})
		} else {
			ops = append(ops, &POp{Op: "addnode", Wallet: "w2", Node: "h2"})
		}
		ops = append(ops, &POp{Op: "update", Node: "c1", Peers: []string{"h1", "h2"}, Elapsed: 0})
		steps := 6 + rng.Intn(12)
		for k := 0; k < steps; k++ {
			switch rng.Intn(6) {
			case 0, 1:
				amounts := []int64{1, 99, 100, 101, 2499, 2500, 2501, 4999, 5000, 5001, 20000}
				ops = append(ops, &POp{Op: "update", Node: "c1", Peers: []string{"h1", "h2"}, Elapsed: amounts[rng.Intn(len(amounts))]})
			case 2:
				ops = append(ops, &POp{Op: "deposit", Wallet: []string{"w1", "w2"}[rng.Intn(2)], Amount: []string{"1", "100", "5000"}[rng.Intn(3)]})
			default:
				ops = append(ops, &POp{Op: "withdraw", Wallet: []string{"w1", "w1", "w2", "w3", "w1~"}[rng.Intn(5)], Settle: rng.Intn(4) != 0})
				if rng.Intn(2) == 0 { // immediate repeat
					ops = append(ops, &POp{Op: "withdraw", Wallet: "w1", Settle: true})
				}
			}
		}
		coq, mon, done := runPoolSeq(cfg, ops)
		ctx.Emit(Case{I: i, Kind: "withdrawals-" + driverNames[drv], Coq: "C7Pool (" + coq + ")", Desc: poolDesc{cfg, done}, Monitor: mon})
	})
}

func c07Race(ctx *Ctx, i, drv int, rng *rand.Rand) {
	cfg := worldCfg{Drv: drv, Price: "1", IntervalNs: 1, Settle: true, Fee: "10", WMin: strp("100")}
	w := newWorld(cfg)
	defer w.Close()
	w.aliasAll()
	var mon []string
	pre := []*POp{{Op: "connect", Node: "h1", Host: true, Kind: "geth"}, {Op: "connect", Node: "c1", Kind: "geth"},
		{Op: "addnode", Wallet: "w1", Node: "h1"}, {Op: "update", Node: "c1", Peers: []string{"h1"}, Elapsed: 0},
		{Op: "update", Node: "c1", Peers: []string{"h1"}, Elapsed: int64(1000 + rng.Intn(9000))}}
	for _, o := range pre {
		_, m := w.applyPOp(o)
		mon = append(mon, m...)
	}
	acct := store.Account(walletOf("w1"))
	b0, _ := w.bstore.GetAccountBalance(acct)
	owed := new(big.Int).Add(&b0.Credit, &b0.Deposit)
	owed = new(big.Int).Set(owed)
	k := 2 + rng.Intn(5)
	var wg sync.WaitGroup
	start := make(chan struct{})
	// racing copies need distinct nonces: sign them up front
	type signed struct {
		sig   string
		nonce int64
	}
	var reqs []signed
	addr := walletOf("w1")
	for j := 0; j < k; j++ {
		nonce := w.nextNonce()
		reqs = append(reqs, signed{w.sign(keyFor("w1"), "pool_withdraw", addr, nonce), nonce})
	}
	okCount := 0
	var mu sync.Mutex
	for j := 0; j < k; j++ {
		wg.Add(1)
		go func(r signed) {
			defer wg.Done()
			<-start
			if err := w.pay.Withdraw(context.Background(), r.sig, addr, r.nonce); err == nil {
				mu.Lock()
				okCount++
				mu.Unlock()
			}
		}(reqs[j])
	}
	close(start)
	wg.Wait()
	paid := new(big.Int)
	w.mu.Lock()
	for _, c := range w.settleLog {
		if c.OK {
			a, _ := new(big.Int).SetString(c.Amount, 10)
			paid.Add(paid, a)
		}
	}
	nsettle := len(w.settleLog)
	w.mu.Unlock()
	fees := big.NewInt(int64(10 * nsettle))
	if new(big.Int).Add(paid, fees).Cmp(owed) > 0 {
		mon = append(mon, fmt.Sprintf("c07-race-double-pay: %d racing withdrawals of a wallet owed %s were paid %s in %d settlements", k, owed, paid, nsettle))
	}
	b1, _ := w.bstore.GetAccountBalance(acct)
	left := new(big.Int).Add(&b1.Credit, &b1.Deposit)
	if nsettle > 0 && left.Sign() != 0 {
		mon = append(mon, fmt.Sprintf("c07-not-drained: %s left after racing withdrawals paid %s", left, paid))
	}
	// note: racing requests with nonces submitted out of order may be refused as replays; that is C05's business
	ctx.Emit(Case{I: i, Kind: "race-" + driverNames[drv], Desc: map[string]interface{}{"racing": k, "owed": owed.String(), "paid": paid.String(), "settlements": nsettle, "succeeded": okCount}, Monitor: mon})
}

// c07Staged forces the interleaving "a withdrawal queues behind one that is settling; the settling
// one fails; the queued one starts settling; a further withdrawal arrives" for a chain of
// withdrawals of one wallet: no two settlements of a wallet may be in progress at once, and the
// wallet is paid what it is owed once.
func c07Staged(ctx *Ctx, i, drv int, rng *rand.Rand) {
	cfg := worldCfg{Drv: drv, Price: "1", IntervalNs: 1, Settle: true, Fee: "10", WMin: strp("100")}
	w := newWorld(cfg)
	defer w.Close()
	w.aliasAll()
	var mon []string
	pre := []*POp{{Op: "connect", Node: "h1", Host: true, Kind: "geth"}, {Op: "connect", Node: "c1", Kind: "geth"},
		{Op: "addnode", Wallet: "w1", Node: "h1"}, {Op: "update", Node: "c1", Peers: []string{"h1"}, Elapsed: 0},
		{Op: "update", Node: "c1", Peers: []string{"h1"}, Elapsed: int64(1000 + rng.Intn(9000))}}
	for _, o := range pre {
		_, m := w.applyPOp(o)
		mon = append(mon, m...)
	}
	acct := store.Account(walletOf("w1"))
	b0, _ := w.bstore.GetAccountBalance(acct)
	owed := new(big.Int).Add(&b0.Credit, &b0.Deposit)
	owed = new(big.Int).Set(owed)
	chain := 3 + rng.Intn(3)
	failing := rng.Intn(3) != 0 // the settlements before the last fail (balance stays), or all succeed
	entered := make(chan int, 64)
	release := make([]chan bool, 64)
	for j := range release {
		release[j] = make(chan bool, 1)
	}
	var inflight, maxInflight int32
	w.mu.Lock()
	w.settleHook = func(n int) bool {
		c := atomic.AddInt32(&inflight, 1)
		for {
			m := atomic.LoadInt32(&maxInflight)
			if c <= m || atomic.CompareAndSwapInt32(&maxInflight, m, c) {
				break
			}
		}
		defer atomic.AddInt32(&inflight, -1)
		entered <- n
		if n < len(release) {
			select {
			case ok := <-release[n]:
				return ok
			case <-time.After(3 * time.Second):
			}
		}
		return true
	}
	w.mu.Unlock()
	addr := walletOf("w1")
	var wg sync.WaitGroup
	launch := func() {
		nonce := w.nextNonce()
		sig := w.sign(keyFor("w1"), "pool_withdraw", addr, nonce)
		wg.Add(1)
		go func() {
			defer wg.Done()
			w.pay.Withdraw(context.Background(), sig, addr, nonce)
		}()
	}
	waitEntered := func(d time.Duration) (int, bool) {
		select {
		case n := <-entered:
			return n, true
		case <-time.After(d):
			return 0, false
		}
	}
	launch() // the first withdrawal: wait until it is settling
	cur, ok := waitEntered(2 * time.Second)
	launched := 1
	for ok && launched < chain {
		launch() // queues behind the settling one
		launched++
		time.Sleep(15 * time.Millisecond)
		if n, early := waitEntered(30 * time.Millisecond); early {
			// a second settlement started while the first is still in progress
			release[n] <- true
		}
		release[cur] <- !failing // the settling one ends; the queued one may start
		cur, ok = waitEntered(500 * time.Millisecond)
		if !ok {
			break // nothing left to settle (the previous one succeeded and drained the wallet)
		}
		if launched < chain {
			launch() // arrives while the previously queued one is settling
			launched++
			if n, early := waitEntered(120 * time.Millisecond); early {
				release[n] <- true
			}
		}
	}
	for j := range release { // let everything finish, successfully
		select {
		case release[j] <- true:
		default:
		}
	}
	wg.Wait()
	paid := new(big.Int)
	w.mu.Lock()
	nok := 0
	for _, c := range w.settleLog {
		if c.OK {
			a, _ := new(big.Int).SetString(c.Amount, 10)
			paid.Add(paid, a)
			nok++
		}
	}
	nsettle := len(w.settleLog)
	w.settleHook = nil
	w.mu.Unlock()
	fees := big.NewInt(int64(10 * nok))
	if new(big.Int).Add(paid, fees).Cmp(owed) > 0 {
		mon = append(mon, fmt.Sprintf("c07-race-double-pay: a chain of %d overlapping withdrawals of a wallet owed %s was paid %s in %d successful settlements", launched, owed, paid, nok))
	}
	if m := atomic.LoadInt32(&maxInflight); m > 1 {
		mon = append(mon, fmt.Sprintf("c07-overlapping-settlements: %d settlements of one wallet were in progress at the same time (each pays the balance it read)", m))
	}
	b1, _ := w.bstore.GetAccountBalance(acct)
	left := new(big.Int).Add(&b1.Credit, &b1.Deposit)
	if nok > 0 && left.Sign() != 0 {
		mon = append(mon, fmt.Sprintf("c07-not-drained: %s left after overlapping withdrawals paid %s", left, paid))
	}
	ctx.Emit(Case{I: i, Kind: "staged-race-" + driverNames[drv], Desc: map[string]interface{}{"chain": launched, "earlier_settlements_fail": failing,
		"owed": owed.String(), "paid": paid.String(), "settlements": nsettle, "successful": nok}, Monitor: mon})
}
