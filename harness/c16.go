package main

import (
	"bytes"
	"context"
	"encoding/json"
	"fmt"
	"io/ioutil"
	"math/rand"
	"net"
	"net/http"
	"os"
	"os/exec"
	"sort"
	"strings"
	"sync/atomic"
	"time"

	"github.com/vipnode/vipnode/v2/jsonrpc2"
	"github.com/vipnode/vipnode/v2/pool"
	"github.com/vipnode/vipnode/v2/pool/payment"
	"github.com/vipnode/vipnode/v2/pool/status"
	"github.com/vipnode/vipnode/v2/pool/store/memory"
)

func init() { commands["c16"] = runC16 }

// ProbeArg is a struct parameter.
type ProbeArg struct {
	A int    `json:"a"`
	B string `json:"b"`
}

type hiddenArg struct{ X int }

// ProbeService is an instrumented receiver: every method counts its invocations.
type ProbeService struct{ ran int64 }

func (p *ProbeService) Plain(ctx context.Context) string { atomic.AddInt64(&p.ran, 1); return "ok" }
func (p *ProbeService) OneString(s string) error         { atomic.AddInt64(&p.ran, 1); return nil }
func (p *ProbeService) Signed(ctx context.Context, sig string, id string, nonce int64, req ProbeArg) (*ProbeArg, error) {
	atomic.AddInt64(&p.ran, 1)
	return &req, nil
}
func (p *ProbeService) Numbers(a int, b uint64, c bool, d float64) error {
	atomic.AddInt64(&p.ran, 1)
	return nil
}
func (p *ProbeService) Containers(l []string, m map[string]int) error {
	atomic.AddInt64(&p.ran, 1)
	return nil
}
func (p *ProbeService) Optional(s string, opt *ProbeArg) error {
	atomic.AddInt64(&p.ran, 1)
	return nil
}
func (p *ProbeService) Anything(v interface{}) error { atomic.AddInt64(&p.ran, 1); return nil }
func (p *ProbeService) HiddenArg(h hiddenArg) error  { atomic.AddInt64(&p.ran, 1); return nil }
func (p *ProbeService) helper(s string) error        { atomic.AddInt64(&p.ran, 1); return nil }
func (p *ProbeService) URLLike() string              { atomic.AddInt64(&p.ran, 1); return "x" }

// BadReturns has a method whose return layout the registry does not support.
type BadReturns struct{}

func (BadReturns) Fine() error     { return nil }
func (BadReturns) Two() (int, int) { return 1, 2 }

// further receivers, each with one return layout outside (T), (error), (T, error)
type BadReturns3 struct{}

func (BadReturns3) Fine() error                  { return nil }
func (BadReturns3) Triple() (int, string, error) { return 1, "x", nil }

type BadReturnsErrFirst struct{}

func (BadReturnsErrFirst) ErrFirst() (error, int) { return nil, 1 }

type BadReturns4 struct{}

func (BadReturns4) Four() (int, int, int, error) { return 1, 2, 3, nil }

// GoodReturns: every supported layout (the control)
type GoodReturns struct{}

func (GoodReturns) One() int           { return 1 }
func (GoodReturns) Err() error         { return nil }
func (GoodReturns) Both() (int, error) { return 1, nil }

type jk struct {
	coq  string
	json string
}

var jkinds = []jk{
	{"JString", `"x"`}, {"(JInt true false)", `7`}, {"(JInt true true)", `-7`}, {"(JInt false false)", `99999999999999999999999`},
	{"JFloat", `1.5`}, {"JBool", `true`}, {"JNull", `null`}, {"JObject", `{"zz":1}`}, {"JArray", `["q"]`},
}

// a JSON value that the kind accepts
func goodFor(kind string) jk {
	switch kind {
	case "KString":
		return jkinds[0]
	case "KInt", "KInt64", "KUint64", "KFloat":
		return jkinds[1]
	case "KBool":
		return jkinds[5]
	case "KStruct", "KMap", "KPtr":
		return jkinds[7]
	case "KSlice":
		return jkinds[8]
	}
	return jkinds[0]
}

type c16Probe struct {
	Name   string `json:"name"`
	Params string `json:"params"` // raw JSON or "(absent)"
	Code   int    `json:"code"`
	Ran    int64  `json:"ran"`
}

func caseVariants(name string) []string {
	out := []string{name}
	if i := strings.Index(name, "_"); i >= 0 && i+1 < len(name) {
		pre, rest := name[:i+1], name[i+1:]
		out = append(out, pre+strings.ToUpper(rest[:1])+rest[1:], pre+strings.ToLower(rest), pre+strings.ToUpper(rest), strings.ToUpper(pre)+rest, rest)
	}
	return out
}

// allowed: is the registered name within the allow-list (empty list = everything)?
func allowed(allow []string, name, prefix string) bool {
	if len(allow) == 0 {
		return true
	}
	for _, a := range allow {
		if prefix+a == name {
			return true
		}
	}
	return false
}

// requestMsg builds a request message the way the wire does (by decoding its JSON text), so that
// the harness does not depend on how the library represents parameters internally.
func requestMsg(method, rawParams string) *jsonrpc2.Message {
	mj, _ := json.Marshal(method)
	text := fmt.Sprintf(`{"jsonrpc":"2.0","id":1,"method":%s`, mj)
	if rawParams != "(absent)" {
		text += `,"params":` + rawParams
	}
	text += "}"
	var m jsonrpc2.Message
	if err := json.Unmarshal([]byte(text), &m); err != nil || m.Request == nil {
		// a request the library cannot even decode: hand the dispatcher an empty request with the
		// method name, which it must answer like any other (the wire-level behaviour is C15's)
		var m2 jsonrpc2.Message
		json.Unmarshal([]byte(fmt.Sprintf(`{"jsonrpc":"2.0","id":1,"method":%s}`, mj)), &m2)
		return &m2
	}
	return &m
}

func c16Instrumented(ctx *Ctx, i int, rng *rand.Rand) {
	recv := &ProbeService{}
	table := methodTable(recv)
	prefixes := []string{"probe_", "", "x"}
	prefix := prefixes[rng.Intn(len(prefixes))]
	var allow []string
	switch rng.Intn(4) {
	case 0:
	case 1:
		allow = []string{"plain", "signed", "nothere"}
	case 2:
		allow = []string{"Plain", "oneString"} // "Plain" (Go casing) matches nothing
	default:
		for _, m := range table {
			if rng.Intn(2) == 0 {
				allow = append(allow, strings.ToLower(m.Name[:1])+m.Name[1:])
			}
		}
	}
	srv := &jsonrpc2.Server{}
	err := srv.Register(prefix, recv, allow...)
	regOK := err == nil
	var probes []c16Probe
	var items []string
	var mon []string
	names := map[string]bool{}
	for _, m := range table {
		for _, v := range caseVariants(prefix + strings.ToLower(m.Name[:1]) + m.Name[1:]) {
			names[v] = true
		}
		names[prefix+m.Name] = true
	}
	for _, extra := range []string{prefix + "helper", prefix + "Helper", prefix + "ran", "rpc_modules", "", prefix} {
		names[extra] = true
	}
	var nameList []string
	for n := range names {
		nameList = append(nameList, n)
	}
	sort.Strings(nameList)
	byName := map[string]GMethod{}
	for _, m := range table {
		byName[prefix+strings.ToLower(m.Name[:1])+m.Name[1:]] = m
	}
	probe := func(name, raw, coqParams string) {
		before := atomic.LoadInt64(&recv.ran)
		msg := requestMsg(name, raw)
		resp := srv.Handle(context.Background(), msg)
		ran := atomic.LoadInt64(&recv.ran) - before
		code := 0
		if resp.Response != nil && resp.Response.Error != nil {
			code = resp.Response.Error.Code
		}
		obs := "HInvoked"
		switch code {
		case jsonrpc2.ErrCodeMethodNotFound:
			obs = "HNotFound"
		case jsonrpc2.ErrCodeInvalidParams:
			obs = "HInvalidParams"
		}
		probes = append(probes, c16Probe{name, raw, code, ran})
		items = append(items, fmt.Sprintf("{| pb_name := %s; pb_params := %s; pb_obs := %s; pb_ran := %s |}", cString(name), coqParams, obs, cNat(int(ran))))
		if code != 0 && ran != 0 {
			mon = append(mon, fmt.Sprintf("c16-rejected-but-run: %s %s was answered with error %d but the method body ran", name, raw, code))
		}
		if code != 0 && code != jsonrpc2.ErrCodeMethodNotFound && code != jsonrpc2.ErrCodeInvalidParams {
			mon = append(mon, fmt.Sprintf("c16-wrong-error-code: %s %s was answered with error %d (neither method-not-found nor invalid-params) and the method did not run", name, raw, code))
		}
	}
	if regOK {
		for _, name := range nameList {
			probe(name, "(absent)", "PAbsent")
			m, known := byName[name]
			if !known {
				probe(name, `["x"]`, "(PArray [JString])")
				continue
			}
			probe(name, "null", "PAbsent")
			probe(name, `{"a":1}`, "PNotArray")
			probe(name, `"str"`, "PNotArray")
			// arities 0..n+2 with acceptable values
			for ar := 0; ar <= len(m.Args)+2; ar++ {
				var js, cs []string
				for k := 0; k < ar; k++ {
					g := jkinds[0]
					if k < len(m.Args) {
						g = goodFor(m.Args[k])
					}
					js = append(js, g.json)
					cs = append(cs, g.coq)
				}
				probe(name, "["+strings.Join(js, ",")+"]", "(PArray "+cList(cs)+")")
			}
			// every JSON kind as the first surplus argument (alone, and followed by one more)
			for _, surplus := range jkinds {
				for tail := 0; tail < 2; tail++ {
					var js, cs []string
					for k := range m.Args {
						g := goodFor(m.Args[k])
						js = append(js, g.json)
						cs = append(cs, g.coq)
					}
					js, cs = append(js, surplus.json), append(cs, surplus.coq)
					if tail == 1 {
						js, cs = append(js, jkinds[1].json), append(cs, jkinds[1].coq)
					}
					raw := "[" + strings.Join(js, ",") + "]"
					nb := len(probes)
					probe(name, raw, "(PArray "+cList(cs)+")")
					if last := probes[nb]; last.Ran != 0 || (last.Code != jsonrpc2.ErrCodeInvalidParams && last.Code != jsonrpc2.ErrCodeMethodNotFound) {
						if allowed(allow, name, prefix) { // (whether the name should be registered at all is the model's business)
							mon = append(mon, fmt.Sprintf("c16-surplus-accepted: %s takes %d parameters; called with %s it answered with code %d and the method ran %d time(s), instead of invalid-params without running", name, len(m.Args), raw, last.Code, last.Ran))
						}
					}
				}
			}
			// every JSON kind at every position, others acceptable
			for pos := range m.Args {
				for _, bad := range jkinds {
					var js, cs []string
					for k := range m.Args {
						g := goodFor(m.Args[k])
						if k == pos {
							g = bad
						}
						js = append(js, g.json)
						cs = append(cs, g.coq)
					}
					probe(name, "["+strings.Join(js, ",")+"]", "(PArray "+cList(cs)+")")
				}
			}
		}
	}
	coq := fmt.Sprintf("{| c16_prefix := %s; c16_methods := %s; c16_allow := %s; c16_register_ok := %s; c16_probes := %s |}",
		cString(prefix), gmethodsCoq(table), stringsCoq(allow), cBool(regOK), cList(items))
	sample := probes
	if len(sample) > 12 {
		sample = sample[:12]
	}
	ctx.Emit(Case{I: i, Kind: "instrumented", Coq: coq, Desc: map[string]interface{}{"prefix": prefix, "allow": allow, "register_ok": regOK, "probes": len(probes), "first_probes": sample}, Monitor: mon})
}

func c16BadReturns(ctx *Ctx, i int) {
	for k, recv := range []interface{}{BadReturns{}, BadReturns3{}, BadReturnsErrFirst{}, BadReturns4{}, GoodReturns{}} {
		srv := &jsonrpc2.Server{}
		err := srv.Register("bad_", recv)
		table := methodTable(recv)
		var mon []string
		bad := false
		for _, m := range table {
			bad = bad || !m.RetOK
		}
		if bad && err == nil {
			mon = append(mon, fmt.Sprintf("c16-unsupported-returns-registered: Register accepted receiver %T although it has a method whose return layout is none of (T), (error), (T, error): its methods are now callable", recv))
		}
		coq := fmt.Sprintf("{| c16_prefix := %s; c16_methods := %s; c16_allow := []; c16_register_ok := %s; c16_probes := [] |}", cString("bad_"), gmethodsCoq(table), cBool(err == nil))
		ctx.Emit(Case{I: i + 20 + k, Kind: "unsupported-returns", Coq: coq, Desc: map[string]interface{}{"receiver": fmt.Sprintf("%T", recv), "error": fmt.Sprint(err)}, Monitor: mon})
	}
}

// c16Production: the production receivers registered with the allow-lists read from pool.go;
// probes carry no or too few parameters, so nothing is executed.
func c16Production(ctx *Ctx, i int) {
	st := memory.New()
	p := pool.New(st, nil)
	recv := map[string]interface{}{"p": p, "payment": &payment.PaymentService{NonceStore: st, AccountStore: st, BalanceStore: st},
		"dashboard": &status.PoolStatus{Store: st, CacheDuration: time.Minute}}
	regs := productionRegistrations(ctx.Repo)
	if ctx.Want(i + 40) {
		c16Deep(ctx, i+40, recv)
	}
	var mon []string
	for k, r := range regs {
		srv := &jsonrpc2.Server{}
		rv, ok := recv[r.Recv]
		if !ok {
			mon = append(mon, fmt.Sprintf("c16-unknown-receiver: pool.go registers %q, which the harness does not know", r.Recv))
			continue
		}
		err := srv.Register(r.Prefix, rv, r.Allow...)
		table := methodTable(rv)
		var items []string
		var probes []c16Probe
		for _, m := range table {
			for _, name := range caseVariants(r.Prefix + strings.ToLower(m.Name[:1]) + m.Name[1:]) {
				for _, raw := range []string{"(absent)", `["x","y","z","w","v","u"]`} {
					if len(m.Args) == 0 && raw == "(absent)" {
						continue // would run the method
					}
					msg := requestMsg(name, raw)
					cp := "PAbsent"
					if raw != "(absent)" {
						cp = "(PArray [JString; JString; JString; JString; JString; JString])"
					}
					resp := srv.Handle(context.Background(), msg)
					code := 0
					if resp.Response != nil && resp.Response.Error != nil {
						code = resp.Response.Error.Code
					}
					obs := "HInvoked"
					switch code {
					case jsonrpc2.ErrCodeMethodNotFound:
						obs = "HNotFound"
					case jsonrpc2.ErrCodeInvalidParams:
						obs = "HInvalidParams"
					}
					probes = append(probes, c16Probe{name, raw, code, 0})
					items = append(items, fmt.Sprintf("{| pb_name := %s; pb_params := %s; pb_obs := %s; pb_ran := 0%%nat |}", cString(name), cp, obs))
				}
			}
		}
		coq := fmt.Sprintf("{| c16_prefix := %s; c16_methods := %s; c16_allow := %s; c16_register_ok := %s; c16_probes := %s |}",
			cString(r.Prefix), gmethodsCoq(table), stringsCoq(r.Allow), cBool(err == nil), cList(items))
		ctx.Emit(Case{I: i + k, Kind: "production-" + r.Recv, Coq: coq, Desc: map[string]interface{}{"prefix": r.Prefix, "allow": r.Allow, "probes": len(probes)}, Monitor: mon})
	}
}

func freePort() int {
	l, err := net.Listen("tcp", "127.0.0.1:0")
	if err != nil {
		fatal("%v", err)
	}
	defer l.Close()
	return l.Addr().(*net.TCPAddr).Port
}

var documentedRPC = []string{"vipnode_connect", "vipnode_update", "vipnode_peer", "vipnode_client", "vipnode_host", "vipnode_ping",
	"pool_account", "pool_addNode", "pool_withdraw", "pool_status"}

// buildBinary builds the vipnode binary from the working tree into a temporary directory.
func buildBinary(repo string) (bin string, cleanup func()) {
	dir, err := ioutil.TempDir("", "vharness-bin")
	if err != nil {
		fatal("%v", err)
	}
	bin = dir + "/vipnode"
	cmd := exec.Command("go", "build", "-o", bin, ".")
	cmd.Dir = repo
	cmd.Env = append(os.Environ(), "GOFLAGS=-mod=mod", "GOPROXY=off", "GOSUMDB=off", "GOTOOLCHAIN=local")
	if out, err := cmd.CombinedOutput(); err != nil {
		os.RemoveAll(dir)
		fatal("building the vipnode binary failed: %v\n%s", err, out)
	}
	return bin, func() { os.RemoveAll(dir) }
}

func startPoolBinary(bin string) (port int, stop func()) {
	port = freePort()
	cmd := exec.Command(bin, "pool", "--store=memory", fmt.Sprintf("--bind=127.0.0.1:%d", port))
	cmd.Stdout, cmd.Stderr = nil, nil
	if err := cmd.Start(); err != nil {
		fatal("start pool: %v", err)
	}
	for t := 0; t < 100; t++ {
		c, err := net.DialTimeout("tcp", fmt.Sprintf("127.0.0.1:%d", port), 100*time.Millisecond)
		if err == nil {
			c.Close()
			break
		}
		time.Sleep(50 * time.Millisecond)
	}
	return port, func() { cmd.Process.Kill(); cmd.Wait() }
}

func httpRPC(port int, body string) (int, string, error) {
	cl := &http.Client{Timeout: 8 * time.Second}
	resp, err := cl.Post(fmt.Sprintf("http://127.0.0.1:%d/", port), "application/json", bytes.NewReader([]byte(body)))
	if err != nil {
		return 0, "", err
	}
	defer resp.Body.Close()
	b, _ := ioutil.ReadAll(resp.Body)
	return resp.StatusCode, string(b), nil
}

// c16Binary probes the built pool binary over HTTP with every method name of the production
// receivers in all case variants (no parameters, so nothing but ping/status runs).
func c16Binary(ctx *Ctx, i int) {
	bin, cleanup := buildBinary(ctx.Repo)
	defer cleanup()
	port, stop := startPoolBinary(bin)
	defer stop()
	var mon []string
	answered := map[string]int{}
	var all []string
	for prefix, rv := range map[string][]interface{}{"vipnode_": {&pool.VipnodePool{}, &payment.PaymentService{}, &status.PoolStatus{}},
		"pool_": {&pool.VipnodePool{}, &payment.PaymentService{}, &status.PoolStatus{}}} {
		for _, r := range rv {
			for _, m := range methodTable(r) {
				all = append(all, caseVariants(prefix+strings.ToLower(m.Name[:1])+m.Name[1:])...)
				all = append(all, prefix+m.Name)
			}
		}
	}
	all = append(all, "vipnode_verify", "vipnode_requestHosts", "pool_verify", "pool_getStatus", "vipnode_disconnect", "rpc_modules", "vipnode_whitelist")
	sort.Strings(all)
	seen := map[string]bool{}
	for _, name := range all {
		if seen[name] {
			continue
		}
		seen[name] = true
		_, body, err := httpRPC(port, fmt.Sprintf(`{"jsonrpc":"2.0","id":1,"method":%q}`, name))
		if err != nil {
			mon = append(mon, fmt.Sprintf("c16-binary-no-answer: probing %q: %v", name, err))
			continue
		}
		var m struct {
			Error *struct {
				Code int `json:"code"`
			} `json:"error"`
		}
		json.Unmarshal([]byte(body), &m)
		code := 0
		if m.Error != nil {
			code = m.Error.Code
		}
		answered[name] = code
	}
	doc := map[string]bool{}
	for _, d := range documentedRPC {
		doc[d] = true
	}
	var served []string
	for name, code := range answered {
		if code != jsonrpc2.ErrCodeMethodNotFound {
			served = append(served, name)
			if !doc[name] {
				mon = append(mon, fmt.Sprintf("c16-undocumented-method-served: the pool binary answers %q with code %d instead of method-not-found", name, code))
			}
		}
	}
	for _, d := range documentedRPC {
		if c, ok := answered[d]; ok && c == jsonrpc2.ErrCodeMethodNotFound {
			mon = append(mon, fmt.Sprintf("c16-documented-method-missing: the pool binary does not serve %q", d))
		}
	}
	sort.Strings(served)
	ctx.Emit(Case{I: i, Kind: "binary", Desc: map[string]interface{}{"probed": len(seen), "served": served}, Monitor: mon})
}

func runC16(ctx *Ctx) {
	n := ctx.N(12, 200)
	forEachCase(ctx, n, func(i int, rng *rand.Rand) { c16Instrumented(ctx, i, rng) })
	if ctx.Want(n) || ctx.Want(n+20) || ctx.Want(n+21) || ctx.Want(n+22) || ctx.Want(n+23) || ctx.Want(n+24) {
		c16BadReturns(ctx, n)
	}
	if ctx.Want(n+1) || ctx.Want(n+2) || ctx.Want(n+3) || ctx.Want(n+41) {
		c16Production(ctx, n+1)
	}
	if ctx.Want(n + 10) {
		c16Binary(ctx, n+10)
	}
	if ctx.Want(n + 40) {
		c16DebugWrapper(ctx, n+40)
	}
	for c := 0; c < ctx.N(2, 20); c++ {
		if ctx.Want(n + 50 + c) {
			c16HTTPBodies(ctx, n+50+c, ctx.Sub(n+50+c))
		}
	}
}
