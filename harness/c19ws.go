package main

import (
	"context"
	"fmt"
	"io/ioutil"
	"net"
	"net/http"
	"net/http/httptest"
	"os"
	"strings"
	"time"

	gobws "github.com/gobwas/ws"
	"github.com/gorilla/websocket"
	"github.com/vipnode/vipnode/v2/ethnode"
	"github.com/vipnode/vipnode/v2/jsonrpc2"
	gobwasws "github.com/vipnode/vipnode/v2/jsonrpc2/ws/gobwas"
	gorillaws "github.com/vipnode/vipnode/v2/jsonrpc2/ws/gorilla"
	"github.com/vipnode/vipnode/v2/pool"
	"github.com/vipnode/vipnode/v2/pool/store"
)

// C19 over the real WebSocket transports: "the address it connected from" is the source address
// of the TCP connection, whatever the upgrade request's headers say about it. A host registers
// without an override over a connection whose handshake carries forwarding headers; the stored
// address must be the connection's own source host with port 30303.

type gorillaClientCodec struct{ c *websocket.Conn }

func (g gorillaClientCodec) ReadMessage() (*jsonrpc2.Message, error) {
	var m jsonrpc2.Message
	if err := g.c.ReadJSON(&m); err != nil {
		return nil, err
	}
	return &m, nil
}
func (g gorillaClientCodec) WriteMessage(m *jsonrpc2.Message) error { return g.c.WriteJSON(m) }
func (g gorillaClientCodec) Close() error                           { return g.c.Close() }
func (g gorillaClientCodec) RemoteAddr() string                     { return g.c.RemoteAddr().String() }

func c19WS(ctx *Ctx, i int) {
	var mon []string
	w := newWorld(worldCfg{Drv: drvMem, Price: "1000", IntervalNs: 60e9, Settle: true})
	defer w.Close()
	handler := func(lib string) http.HandlerFunc {
		return func(rw http.ResponseWriter, r *http.Request) {
			var codec jsonrpc2.Codec
			var err error
			if lib == "gorilla" {
				codec, err = (&gorillaws.Upgrader{}).Upgrade(r, rw, nil)
			} else {
				codec, err = (&gobwasws.Upgrader{Upgrader: gobws.HTTPUpgrader{}}).Upgrade(r, rw, nil)
			}
			if err != nil {
				return
			}
			remote := &jsonrpc2.Remote{Codec: codec, Server: w.server, Client: &jsonrpc2.Client{}}
			defer w.pool.CloseRemote(remote)
			defer codec.Close()
			remote.Serve()
		}
	}
	mux := http.NewServeMux()
	mux.HandleFunc("/gorilla", handler("gorilla"))
	mux.HandleFunc("/gobwas", handler("gobwas"))
	srv := httptest.NewServer(mux)
	defer srv.Close()
	headers := []http.Header{
		{},
		{"X-Forwarded-For": {"203.0.113.9"}},
		{"X-Forwarded-For": {"evil.example"}},
		{"X-Forwarded-For": {"203.0.113.9, 10.0.0.1"}},
		{"X-Forwarded-For": {"not an address"}},
		{"X-Real-Ip": {"203.0.113.9"}},
		{"Forwarded": {"for=203.0.113.9;proto=http"}},
		{"X-Forwarded-Host": {"evil.example"}, "X-Forwarded-Port": {"1"}},
	}
	nodeID := nodeIDOf("h1")
	n := 0
	var seen []string
	for _, lib := range []string{"gorilla", "gobwas"} {
		for _, h := range headers {
			url := "ws" + strings.TrimPrefix(srv.URL, "http") + "/" + lib
			conn, _, err := websocket.DefaultDialer.Dial(url, h)
			if err != nil {
				mon = append(mon, fmt.Sprintf("c19-ws-dial: %v", err))
				continue
			}
			srcHost, _, _ := net.SplitHostPort(conn.LocalAddr().String())
			cli := &jsonrpc2.Remote{Codec: gorillaClientCodec{conn}, Client: &jsonrpc2.Client{}, Server: &jsonrpc2.Server{}}
			go cli.Serve()
			req := pool.ConnectRequest{VipnodeVersion: "verif", NodeInfo: userAgentFor("geth", true)}
			nonce := w.nextNonce()
			sig := w.sign(keyFor("h1"), "vipnode_connect", nodeID, nonce, req)
			var resp pool.ConnectResponse
			cctx, cancel := context.WithTimeout(context.Background(), 10*time.Second)
			err = cli.Call(cctx, &resp, "vipnode_connect", sig, nodeID, nonce, req)
			cancel()
			n++
			what := fmt.Sprintf("%s transport, handshake headers %v, connected from %s", lib, map[string][]string(h), srcHost)
			if err != nil {
				mon = append(mon, fmt.Sprintf("c19-ws-refused: %s: registration without an override refused: %v", what, err))
				conn.Close()
				continue
			}
			nd, gerr := w.st.GetNode(store.NodeID(nodeID))
			if gerr != nil {
				fatal("connected but not stored: %v", gerr)
			}
			seen = append(seen, nd.URI)
			u, perr := ethnode.ParseNodeURI(nd.URI)
			if perr != nil {
				mon = append(mon, fmt.Sprintf("c19-unparsable-uri: %s: stored URI %q is rejected by the agent-side parser: %v", what, nd.URI, perr))
			} else {
				host, port, serr := net.SplitHostPort(u.RemoteAddress())
				if u.RemoteAddress() == "" { // loopback sources are not "remote" to the agent-side parser: read the raw host
					host, port, serr = net.SplitHostPort((*u).Host)
				}
				if serr != nil || host != srcHost || port != "30303" || u.ID() != nodeID {
					mon = append(mon, fmt.Sprintf("c19-ws-source-address: %s: stored %q; the default is the address the host connected from (%s) with port 30303", what, nd.URI, srcHost))
				}
			}
			conn.Close()
			time.Sleep(5 * time.Millisecond)
		}
	}
	ctx.Emit(Case{I: i, Kind: "websocket-source-address", Desc: map[string]interface{}{"registrations": n, "stored": seen}, Monitor: mon})
}

// c19NoAddress: connections that have no network source address at all (an in-process pipe, a
// unix-domain socket), served with the plain stream codec: a host registering without an
// override has no determinable address, so the registration must be refused, not stored under
// whatever the transport calls itself.
func c19NoAddress(ctx *Ctx, i int) {
	var mon []string
	w := newWorld(worldCfg{Drv: drvMem, Price: "1000", IntervalNs: 60e9, Settle: true})
	defer w.Close()
	nodeID := nodeIDOf("h1")
	var tried []string
	try := func(what string, poolConn, hostConn net.Conn) {
		poolSide := &jsonrpc2.Remote{Codec: jsonrpc2.IOCodec(poolConn), Client: &jsonrpc2.Client{}, Server: w.server}
		cli := &jsonrpc2.Remote{Codec: jsonrpc2.IOCodec(hostConn), Client: &jsonrpc2.Client{}, Server: &jsonrpc2.Server{}}
		go func() { poolSide.Serve(); w.pool.CloseRemote(poolSide) }()
		go cli.Serve()
		for _, ov := range []string{"", "enode://" + nodeID + "@[::]:30303", "enode://" + nodeID + "@0.0.0.0:30304", "enode://" + nodeID + "@:30305"} {
			req := pool.ConnectRequest{VipnodeVersion: "verif", NodeInfo: userAgentFor("geth", true), NodeURI: ov}
			nonce := w.nextNonce()
			sig := w.sign(keyFor("h1"), "vipnode_connect", nodeID, nonce, req)
			var resp pool.ConnectResponse
			cctx, cancel := context.WithTimeout(context.Background(), 10*time.Second)
			err := cli.Call(cctx, &resp, "vipnode_connect", sig, nodeID, nonce, req)
			cancel()
			tried = append(tried, fmt.Sprintf("%s, override %q: %v", what, ov, err))
			if err == nil {
				stored := "?"
				if nd, gerr := w.st.GetNode(store.NodeID(nodeID)); gerr == nil {
					stored = nd.URI
				}
				mon = append(mon, fmt.Sprintf("c19-no-source-address-stored: a host registered over %s (no network address to connect back to) with override %q was accepted and is advertised as %q; an undeterminable address must be refused", what, ov, stored))
			}
		}
		poolConn.Close()
		hostConn.Close()
	}
	p1, p2 := net.Pipe()
	try("an in-process pipe", p1, p2)
	dir, _ := ioutil.TempDir("", "vharness-unix")
	defer os.RemoveAll(dir)
	if ln, err := net.Listen("unix", dir+"/s"); err == nil {
		accepted := make(chan net.Conn, 1)
		go func() {
			c, err := ln.Accept()
			if err == nil {
				accepted <- c
			}
		}()
		if hc, err := net.Dial("unix", dir+"/s"); err == nil {
			select {
			case pc := <-accepted:
				try("a unix-domain socket", pc, hc)
			case <-time.After(2 * time.Second):
			}
		}
		ln.Close()
	}
	ctx.Emit(Case{I: i, Kind: "no-source-address", Desc: map[string]interface{}{"registrations": tried}, Monitor: mon})
}
