package main

import (
	"context"
	"encoding/json"
	"fmt"
	"math/big"
	"time"

	"github.com/vipnode/vipnode/v2/jsonrpc2"
	"github.com/vipnode/vipnode/v2/pool"
	"github.com/vipnode/vipnode/v2/pool/store"
)

// c11Boundary: the expiry window is exact: a peer whose recorded check-in is 119.6 s old is inside
// the two-keep-alive window (120 s) and stays; at 120.4 s it is out. The harness measures the real
// time that passes around the scripted shift and only judges when the total is clearly on one
// side (so a stalled machine makes the case inconclusive, not wrong).
func c11Boundary(ctx *Ctx, i int, drv int) {
	var mon, log []string
	for _, tc := range []struct {
		age     time.Duration
		tracked bool // the peer is not reported now, only tracked from an earlier keep-alive
		want    bool // stays
	}{{119600 * time.Millisecond, false, true}, {119600 * time.Millisecond, true, true}, {119750 * time.Millisecond, false, true},
		{120400 * time.Millisecond, false, false}, {120400 * time.Millisecond, true, false}, {119200 * time.Millisecond, true, true}} {
		st := newStore(drv)
		stamp := time.Now()
		st.SetNode(store.Node{ID: "n1", Kind: "geth", LastSeen: stamp})
		st.SetNode(store.Node{ID: "n2", IsHost: true, Kind: "geth", LastSeen: stamp})
		if tc.tracked {
			st.UpdateNodePeers("n1", []string{"n2"}, 1)
		}
		shiftTime(st.Store, tc.age)
		var rep []string
		if !tc.tracked {
			rep = []string{"n2"}
		}
		gone, err := st.UpdateNodePeers("n1", rep, 2)
		real := time.Since(stamp)
		total := tc.age + real
		peers, _ := st.NodePeers("n1")
		st.Destroy()
		stays := err == nil && len(gone) == 0 && len(peers) == 1
		how := "reported now"
		if tc.tracked {
			how = "tracked from the previous keep-alive, not reported now"
		}
		log = append(log, fmt.Sprintf("check-in %s old (%s): declared %v, tracked after %d (error %v)", total.Round(time.Millisecond), how, gone, len(peers), err))
		conclusive := (tc.want && total < 119900*time.Millisecond) || (!tc.want && total > 120100*time.Millisecond && total < 121*time.Second)
		if conclusive && stays != tc.want {
			mon = append(mon, fmt.Sprintf("c11-window-edge: a peer (%s) whose recorded check-in is %s old (window %s, %s driver): declared invalid %v, tracked afterwards %d; it must %s", how, total.Round(time.Millisecond), store.ExpireInterval, driverNames[drv], gone, len(peers), map[bool]string{true: "stay", false: "be declared and dropped"}[tc.want]))
		}
	}
	ctx.Emit(Case{I: i, Kind: "window-edge-" + driverNames[drv], Desc: map[string]interface{}{"steps": log}, Monitor: mon})
}

// c04Leftovers: a refused call leaves nothing behind in the server either: after a call of a
// method was refused for its parameters (too many of them, with its request object already
// spelled out), the next calls of the same method are verified and executed on exactly what THEY
// carry -- a correctly signed request that leaves an optional field out is accepted, and a request
// signed over a field it does not carry is refused.
func c04Leftovers(ctx *Ctx, i int, drv int) {
	a := newAuthWorld(drv)
	defer a.Close()
	var mon, log []string
	handle := func(method string, params ...interface{}) error {
		raw, _ := json.Marshal(params)
		var msg jsonrpc2.Message
		if err := json.Unmarshal([]byte(fmt.Sprintf(`{"jsonrpc":"2.0","id":1,"method":%q,"params":%s}`, method, raw)), &msg); err != nil {
			fatal("%v", err)
		}
		resp := a.server.Handle(context.Background(), &msg)
		if resp != nil && resp.Response != nil && resp.Response.Error != nil {
			return resp.Response.Error
		}
		return nil
	}
	id := nodeIDOf("c2")
	for round := 0; round < 3; round++ {
		// the seed: refused for its parameter count, after its request object was read
		seed := map[string]interface{}{"num": 1, "kind": []string{"parity", "geth", "besu"}[round]}
		err0 := handle("vipnode_peer", "AAAA", id, a.nextNonce(), seed, "one parameter too many")
		log = append(log, fmt.Sprintf("seed (five parameters, kind %v): %v", seed["kind"], err0))
		// (1) the owner's request, kind left out
		req := pool.PeerRequest{Num: 1}
		n1 := a.nextNonce()
		sig1 := signNodeStyle(keyFor("c2"), "vipnode_peer", id, n1, []interface{}{req})
		err1 := handle("vipnode_peer", sig1, id, n1, map[string]interface{}{"num": 1})
		log = append(log, fmt.Sprintf("owner's request {num:1}: %v", err1))
		if err1 != nil && classify(err1).Class != "nohosts" && classify(err1).Class != "hosterrors" {
			mon = append(mon, fmt.Sprintf("c04-leftovers: right after a vipnode_peer call was refused for its parameters (its request named kind %v), the owner's correctly signed vipnode_peer {num:1} was answered with %v", seed["kind"], err1))
		}
		// (2) again a seed, then a request signed over {num:1, kind:K} but delivered without the kind
		handle("vipnode_peer", "AAAA", id, a.nextNonce(), seed, "one parameter too many")
		signedOver := pool.PeerRequest{Num: 1, Kind: seed["kind"].(string)}
		n2 := a.nextNonce()
		sig2 := signNodeStyle(keyFor("c2"), "vipnode_peer", id, n2, []interface{}{signedOver})
		before := a.digest(a.nodes, a.wallets)
		err2 := handle("vipnode_peer", sig2, id, n2, map[string]interface{}{"num": 1})
		log = append(log, fmt.Sprintf("request signed over {num:1,kind:%v} delivered as {num:1}: %v", seed["kind"], err2))
		if err2 == nil || classify(err2).Class == "nohosts" || classify(err2).Class == "hosterrors" {
			mon = append(mon, fmt.Sprintf("c04-leftovers: a vipnode_peer request signed over {num:1, kind:%v} and delivered as {num:1} (after a refused call that had named that kind) passed verification (answer: %v): what was verified is not what the request carried", seed["kind"], err2))
		}
		_ = before
	}
	ctx.Emit(Case{I: i, Kind: "leftovers-" + driverNames[drv], Desc: map[string]interface{}{"steps": log}, Monitor: mon})
}

// c05AcrossEndpoints: one identity, one nonce sequence: a wallet that has used nonce N2 on one of
// the pool's endpoints cannot use a smaller one on another, however the identity is spelled out
// in upper and lower case (it is signed for, and recorded, as spelled).
func c05AcrossEndpoints(ctx *Ctx, i int, drv int) {
	a := newAuthWorld(drv)
	defer a.Close()
	var mon, log []string
	for _, wname := range []string{"w2", "w3"} {
		wallet := walletOf(wname) // EIP-55: mixed case
		base := time.Now().UnixNano()
		n2, n1 := base+5000, base+1000
		req := pool.ConnectRequest{VipnodeVersion: "verif", NodeInfo: userAgentFor("geth", false)}
		sigC := signWalletStyle(keyFor(wname), "vipnode_connect", wallet, n2, []interface{}{req})
		_, errC := a.pool.Connect(context.Background(), sigC, wallet, n2, req)
		sigA := signWalletStyle(keyFor(wname), "pool_addNode", wallet, n1, []interface{}{nodeIDOf("c2")})
		errA := a.pay.AddNode(context.Background(), sigA, wallet, n1, nodeIDOf("c2"))
		log = append(log, fmt.Sprintf("%s: vipnode_connect with nonce N+5000: %v; pool_addNode with nonce N+1000: %v", wname, errC, errA))
		if errC == nil && errA == nil {
			mon = append(mon, fmt.Sprintf("c05-lower-nonce-accepted: identity %s was accepted with nonce %d on vipnode_connect and afterwards with the smaller nonce %d on pool_addNode: accepted nonces of one identity are strictly increasing, whichever endpoint they arrive on", wallet, n2, n1))
		}
		// and the other way round: pool_ first, vipnode_ with a smaller nonce after
		n4, n3 := base+9000, base+7000
		sigW := signWalletStyle(keyFor(wname), "pool_addNode", wallet, n4, []interface{}{nodeIDOf("c1")})
		errW := a.pay.AddNode(context.Background(), sigW, wallet, n4, nodeIDOf("c1"))
		sigC2 := signWalletStyle(keyFor(wname), "vipnode_connect", wallet, n3, []interface{}{req})
		_, errC2 := a.pool.Connect(context.Background(), sigC2, wallet, n3, req)
		log = append(log, fmt.Sprintf("%s: pool_addNode with nonce N+9000: %v; vipnode_connect with nonce N+7000: %v", wname, errW, errC2))
		if errW == nil && errC2 == nil {
			mon = append(mon, fmt.Sprintf("c05-lower-nonce-accepted: identity %s was accepted with nonce %d on pool_addNode and afterwards with the smaller nonce %d on vipnode_connect", wallet, n4, n3))
		}
	}
	ctx.Emit(Case{I: i, Kind: "across-endpoints-" + driverNames[drv], Desc: map[string]interface{}{"steps": log}, Monitor: mon})
}

// c02RefusedKeepalive: a keep-alive that is billed and then refused for the balance it leaves has
// been billed: the stretch it covered is not billed again by the next one. Hosts' credit over a
// run of refused keep-alives is the price of the time that passed, once.
func c02RefusedKeepalive(ctx *Ctx, i int, drv int) {
	w := newWorld(worldCfg{Drv: drv, Price: "1", IntervalNs: 1, Settle: true, Min: strp("0")})
	defer w.Close()
	w.aliasAll()
	var mon, log []string
	w.applyPOp(&POp{Op: "connect", Node: "h1", Host: true, Kind: "geth"})
	w.applyPOp(&POp{Op: "connect", Node: "c1", Kind: "geth"})
	hostCredit := func() *big.Int {
		b, _ := w.st.GetNodeBalance(store.NodeID(nodeIDOf("h1")))
		return new(big.Int).Set(&b.Credit)
	}
	w.applyPOp(&POp{Op: "update", Node: "c1", Peers: []string{"h1"}, Elapsed: 0})
	start := hostCredit()
	var elapsedTotal int64
	for k := 0; k < 5; k++ {
		el := int64(1000 + 137*k)
		elapsedTotal += el
		time.Sleep(3 * time.Millisecond)
		tBefore := time.Now()
		_, m := w.applyPOp(&POp{Op: "update", Node: "c1", Peers: []string{"h1"}, Elapsed: el})
		_ = m
		nd, _ := w.st.GetNode(store.NodeID(nodeIDOf("c1")))
		if nd.LastSeen.Before(tBefore) {
			mon = append(mon, fmt.Sprintf("c02-refused-keepalive-not-recorded: keep-alive %d was billed (host credit %s so far) and refused for the balance it left; the client's record still carries the check-in time of the keep-alive before it (%s earlier): the next keep-alive bills this stretch again", k+1, new(big.Int).Sub(hostCredit(), start), tBefore.Sub(nd.LastSeen).Round(time.Microsecond)))
			break
		}
		log = append(log, fmt.Sprintf("keep-alive %d covering %d ns: host credit %s, client last seen %s ago", k+1, el, new(big.Int).Sub(hostCredit(), start), time.Since(nd.LastSeen).Round(time.Millisecond)))
		if age := time.Since(nd.LastSeen); age > 5*time.Second {
			mon = append(mon, fmt.Sprintf("c02-refused-keepalive-not-recorded: keep-alive %d was billed and refused for the balance it left; the client's record says it was last seen %s ago, not now: the next keep-alive bills this stretch again", k+1, age.Round(time.Millisecond)))
			break
		}
	}
	earned := new(big.Int).Sub(hostCredit(), start)
	if earned.Cmp(big.NewInt(elapsedTotal)) != 0 && len(mon) == 0 {
		mon = append(mon, fmt.Sprintf("c02-refused-keepalive-amount: five keep-alives covering %d ns in all (price 1 per ns, every one of them refused for the balance it left) credited the host %s", elapsedTotal, earned))
	}
	ctx.Emit(Case{I: i, Kind: "refused-keepalives-" + driverNames[drv], Desc: map[string]interface{}{"steps": log}, Monitor: mon})
}
