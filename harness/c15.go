package main

import (
	"bufio"
	"bytes"
	"context"
	"encoding/json"
	"fmt"
	"io/ioutil"
	"math/rand"
	"net"
	"net/http"
	"net/url"
	"os"
	"os/exec"
	"reflect"
	"strings"
	"sync"
	"time"

	"github.com/gobwas/ws"
	"github.com/vipnode/vipnode/v2/agent"
	"github.com/vipnode/vipnode/v2/ethnode"
	"github.com/vipnode/vipnode/v2/jsonrpc2"
	gobwasws "github.com/vipnode/vipnode/v2/jsonrpc2/ws/gobwas"
	gorillaws "github.com/vipnode/vipnode/v2/jsonrpc2/ws/gorilla"
	"github.com/vipnode/vipnode/v2/pool"
	"github.com/vipnode/vipnode/v2/pool/balance"
	"github.com/vipnode/vipnode/v2/pool/payment"
	"github.com/vipnode/vipnode/v2/pool/status"
	"github.com/vipnode/vipnode/v2/pool/store/memory"
	"github.com/vipnode/vipnode/v2/request"
	"math/big"
)

func init() {
	commands["c15"] = runC15
	commands["c15child"] = runC15Child
}

// runC15Child serves the production registrations of the pool over raw TCP (one Remote per
// connection, as the WebSocket path does) and over HTTP, until killed.
func runC15Child(ctx *Ctx) {
	st := memory.New()
	mgr := balance.PayPerInterval(st, time.Minute, big.NewInt(1000))
	if os.Getenv("VERIF_C15_MIN") != "" {
		mgr.MinBalance, _ = new(big.Int).SetString(os.Getenv("VERIF_C15_MIN"), 10)
	}
	p := pool.New(st, mgr)
	recv := map[string]interface{}{"p": p,
		"payment":   &payment.PaymentService{NonceStore: st, AccountStore: st, BalanceStore: st, WithdrawMin: big.NewInt(5)},
		"dashboard": &status.PoolStatus{Store: st, CacheDuration: time.Millisecond}}
	hs := &jsonrpc2.HTTPServer{}
	for _, r := range productionRegistrations(ctx.Repo) {
		if rv, ok := recv[r.Recv]; ok {
			if err := hs.Server.Register(r.Prefix, rv, r.Allow...); err != nil {
				fatal("register: %v", err)
			}
		}
	}
	ln, err := net.Listen("tcp", "127.0.0.1:0")
	if err != nil {
		fatal("%v", err)
	}
	hln, err := net.Listen("tcp", "127.0.0.1:0")
	if err != nil {
		fatal("%v", err)
	}
	// WebSocket, wired as the pool binary does (server.go): upgrade, one Remote per connection
	// served inside the HTTP handler, the registry told when it ends; /gobwas uses the other codec
	wln, err := net.Listen("tcp", "127.0.0.1:0")
	if err != nil {
		fatal("%v", err)
	}
	wsHandler := func(lib string) http.HandlerFunc {
		return func(w http.ResponseWriter, r *http.Request) {
			var codec jsonrpc2.Codec
			var err error
			if lib == "gorilla" {
				codec, err = (&gorillaws.Upgrader{}).Upgrade(r, w, nil)
			} else {
				codec, err = (&gobwasws.Upgrader{Upgrader: ws.HTTPUpgrader{}}).Upgrade(r, w, nil)
			}
			if err != nil {
				return
			}
			remote := &jsonrpc2.Remote{Codec: codec, Server: &hs.Server, Client: &jsonrpc2.Client{}, PendingLimit: 50, PendingDiscard: 10}
			defer p.CloseRemote(remote)
			defer codec.Close()
			remote.Serve()
		}
	}
	mux := http.NewServeMux()
	mux.HandleFunc("/gorilla", wsHandler("gorilla"))
	mux.HandleFunc("/gobwas", wsHandler("gobwas"))
	go http.Serve(wln, mux)
	// the agent's side of a WebSocket (agent.go): dial, then serve the connection in a goroutine of
	// its own -- nothing recovers a panic there
	if target := os.Getenv("VERIF_C15_DIAL"); target != "" {
		go func() {
			dctx, cancel := context.WithTimeout(context.Background(), 5*time.Second)
			defer cancel()
			codec, err := gorillaws.WebSocketDial(dctx, target)
			if err != nil {
				fmt.Fprintf(os.Stderr, "dial: %v\n", err)
				return
			}
			remote := &jsonrpc2.Remote{Codec: codec, Server: &hs.Server, Client: &jsonrpc2.Client{}}
			go func() {
				err := remote.Serve()
				fmt.Fprintf(os.Stderr, "dialled connection ended: %v\n", err)
			}()
		}()
	}
	fmt.Printf("PORTS %d %d %d\n", ln.Addr().(*net.TCPAddr).Port, hln.Addr().(*net.TCPAddr).Port, wln.Addr().(*net.TCPAddr).Port)
	os.Stdout.Sync()
	go http.Serve(hln, hs)
	for {
		c, err := ln.Accept()
		if err != nil {
			return
		}
		go func(c net.Conn) {
			remote := &jsonrpc2.Remote{Codec: addrCodec{jsonrpc2.IOCodec(c), c.RemoteAddr().String()}, Server: &hs.Server, Client: &jsonrpc2.Client{},
				PendingLimit: 50, PendingDiscard: 10}
			remote.Serve()
			p.CloseRemote(remote)
			c.Close()
		}(c)
	}
}

type rawConn struct {
	c   net.Conn
	dec *json.Decoder
	mu  sync.Mutex
}

func dialRaw(port int) (*rawConn, error) {
	c, err := net.DialTimeout("tcp", fmt.Sprintf("127.0.0.1:%d", port), 2*time.Second)
	if err != nil {
		return nil, err
	}
	return &rawConn{c: c, dec: json.NewDecoder(c)}, nil
}

func (r *rawConn) send(raw string) error {
	r.c.SetWriteDeadline(time.Now().Add(2 * time.Second))
	_, err := r.c.Write([]byte(raw + "\n"))
	return err
}

// next reads the next JSON value within the timeout (nil on timeout).
func (r *rawConn) next(d time.Duration) (map[string]json.RawMessage, error) {
	r.c.SetReadDeadline(time.Now().Add(d))
	var m map[string]json.RawMessage
	if err := r.dec.Decode(&m); err != nil {
		if ne, ok := err.(net.Error); ok && ne.Timeout() {
			// a timed-out decoder is unusable: rebuild it on the same connection
			r.dec = json.NewDecoder(r.c)
			return nil, nil
		}
		return nil, err
	}
	return m, nil
}

// ---------- message generation ----------

type hostile struct {
	Raw      string `json:"raw"`
	What     string `json:"what"`
	coqMsg   string
	expectID string // raw id expected back ("" = none)
}

var c15Methods = []string{"vipnode_connect", "vipnode_update", "vipnode_peer", "vipnode_client", "vipnode_host", "vipnode_ping",
	"pool_account", "pool_addNode", "pool_withdraw", "pool_status"}

func methodArgs(name string) ([]string, bool) {
	recv := map[string]interface{}{"vipnode_": &pool.VipnodePool{}, "pool_": nil}
	_ = recv
	for _, t := range [][]GMethod{methodTable(&pool.VipnodePool{}), methodTable(&payment.PaymentService{}), methodTable(&status.PoolStatus{})} {
		for _, m := range t {
			for _, pre := range []string{"vipnode_", "pool_"} {
				if pre+strings.ToLower(m.Name[:1])+m.Name[1:] == name {
					return m.Args, true
				}
			}
		}
	}
	return nil, false
}

func isDocumented(name string) bool {
	for _, d := range documentedRPC {
		if d == name {
			return true
		}
	}
	return false
}

var oddStrings = []string{`""`, `"AAAA"`, `"0x"`, `"::"`, `"enode://"`, `"enode://a@[::1"`, `"%zz"`, `"` + strings.Repeat("A", 88) + `"`,
	`"` + strings.Repeat("ab", 65) + `"`, `"` + strings.Repeat("z", 128) + `"`, `"` + strings.Repeat("0", 5000) + `"`, `"\u0000\ud800"`, `"0x` + strings.Repeat("f", 130) + `"`}

func genParamValue(rng *rand.Rand, kind string) (string, string) {
	// returns (json, coq jkind); mostly of the right JSON kind with odd content, sometimes of the wrong kind
	if rng.Intn(4) == 0 {
		k := jkinds[rng.Intn(len(jkinds))]
		return k.json, k.coq
	}
	switch kind {
	case "KString":
		return oddStrings[rng.Intn(len(oddStrings))], "JString"
	case "KInt64", "KInt", "KUint64":
		v := []string{"0", "-1", "1", "9223372036854775807", "-9223372036854775808", fmt.Sprint(time.Now().UnixNano())}[rng.Intn(6)]
		neg := strings.HasPrefix(v, "-")
		return v, fmt.Sprintf("(JInt true %v)", neg)
	case "KStruct":
		objs := []string{`{}`, `{"num":-5}`, `{"num":999999999,"kind":"geth"}`, `{"node_uri":"enode://x@[::1"}`, `{"peers_info":[{"id":"a","enode":"enode://short"}]}`,
			`{"peers_info":[{"enode":"` + strings.Repeat("e", 137) + `"}],"block_number":18446744073709551615}`, `{"node_info":{"kind":99,"full_node":true},"node_uri":"::"}`,
			`{"peers_info":null,"peers":["x"]}`, `{"kind":"` + strings.Repeat("k", 3000) + `"}`, `{"num_hosts":-3}`, `{"payout":"0x00"}`, `{"unknown":[[[[[[]]]]]]}`}
		return objs[rng.Intn(len(objs))], "JObject"
	}
	return `"x"`, "JString"
}

func coqMsg(hasMethod, known bool, params string, hasParams bool, args []string, hasID bool, hasResult, resultNull, hasError bool) string {
	return fmt.Sprintf("{| m_has_method := %s; m_method_known := %s; m_params := %s; m_has_params := %s; m_args := [%s]; m_has_id := %s; m_id := 0; m_has_result := %s; m_result_null := %s; m_result_fits := false; m_has_error := %s |}",
		cBool(hasMethod), cBool(known), params, cBool(hasParams), strings.Join(args, "; "), cBool(hasID), cBool(hasResult), cBool(resultNull), cBool(hasError))
}

func genHostile(rng *rand.Rand, id int) hostile {
	idRaw := fmt.Sprint(id)
	switch rng.Intn(12) {
	case 0: // reply-shaped message nobody asked for
		variants := []struct {
			body, what    string
			res, null, er bool
		}{
			{`"result":1`, "unsolicited result", true, false, false}, {`"result":null`, "unsolicited null result", true, true, false},
			{`"error":{"code":1,"message":"x"}`, "unsolicited error", false, false, true}, {`"error":null`, "error null", false, false, true}}
		v := variants[rng.Intn(len(variants))]
		return hostile{Raw: fmt.Sprintf(`{"jsonrpc":"2.0","id":%s,%s}`, idRaw, v.body), What: v.what,
			coqMsg: coqMsg(false, false, "PAbsent", false, nil, true, v.res, v.null, v.er)}
	case 1: // neither request nor reply
		if rng.Intn(2) == 0 {
			return hostile{Raw: fmt.Sprintf(`{"jsonrpc":"2.0","id":%s}`, idRaw), What: "bare id", coqMsg: coqMsg(false, false, "PAbsent", false, nil, true, false, false, false)}
		}
		return hostile{Raw: `{"jsonrpc":"2.0"}`, What: "empty message", coqMsg: coqMsg(false, false, "PAbsent", false, nil, false, false, false, false)}
	case 2: // params without method
		return hostile{Raw: fmt.Sprintf(`{"id":%s,"params":[1]}`, idRaw), What: "params without method", expectID: idRaw,
			coqMsg: coqMsg(false, false, "(PArray [JInt true false])", true, nil, true, false, false, false)}
	case 3: // unknown method / case variant / helper
		names := []string{"vipnode_Connect", "vipnode_closeRemote", "vipnode_numRemotes", "pool_verify", "", "rpc_modules", "VIPNODE_PING", "pool_Status"}
		n := names[rng.Intn(len(names))]
		return hostile{Raw: fmt.Sprintf(`{"id":%s,"method":%q,"params":[]}`, idRaw, n), What: "unknown method " + n, expectID: idRaw,
			coqMsg: coqMsg(true, false, "(PArray [])", true, nil, true, false, false, false)}
	case 4: // request that is also a reply
		return hostile{Raw: fmt.Sprintf(`{"id":%s,"method":"vipnode_ping","result":1,"error":{"code":1,"message":"x"}}`, idRaw), What: "request and reply at once", expectID: idRaw,
			coqMsg: coqMsg(true, true, "PAbsent", false, nil, true, true, false, true)}
	case 5: // notification (no id)
		return hostile{Raw: `{"method":"vipnode_ping"}`, What: "request without id", expectID: "none",
			coqMsg: coqMsg(true, true, "PAbsent", false, nil, false, false, false, false)}
	case 6: // params not an array
		m := c15Methods[rng.Intn(len(c15Methods))]
		args, _ := methodArgs(m)
		body := []string{`{"a":1}`, `"str"`, `7`, `true`}[rng.Intn(4)]
		return hostile{Raw: fmt.Sprintf(`{"id":%s,"method":%q,"params":%s}`, idRaw, m, body), What: "params not an array", expectID: idRaw,
			coqMsg: coqMsg(true, true, "PNotArray", true, args, true, false, false, false)}
	default: // a documented method with generated positional parameters
		m := c15Methods[rng.Intn(len(c15Methods))]
		args, _ := methodArgs(m)
		ar := len(args)
		switch rng.Intn(6) {
		case 0:
			ar = rng.Intn(len(args) + 3)
		case 1:
			ar = len(args) + 1
		}
		var js, cs []string
		for k := 0; k < ar; k++ {
			kind := "KString"
			if k < len(args) {
				kind = args[k]
			}
			j, c := genParamValue(rng, kind)
			js = append(js, j)
			cs = append(cs, c)
		}
		return hostile{Raw: fmt.Sprintf(`{"jsonrpc":"2.0","id":%s,"method":%q,"params":[%s]}`, idRaw, m, strings.Join(js, ",")), What: "generated params for " + m, expectID: idRaw,
			coqMsg: coqMsg(true, true, "(PArray "+cList(cs)+")", true, args, true, false, false, false)}
	}
}

var malformedStreams = []string{
	`{"id":1,"method":"vipnode_ping"`, `{"id":1,"method":"vipnode_ping"}}`, `[]`, `[{"id":1,"method":"vipnode_ping"}]`, `nul`, `"just a string"`,
	"\xff\xfe\x00{", `{"id":` + strings.Repeat("9", 400) + `,"method":"vipnode_ping"}`, strings.Repeat("[", 20000), `{"id":1,"method":"vipnode_ping","params":` + strings.Repeat("[", 5000) + strings.Repeat("]", 5000) + `}`,
	`{"id":{"a":1},"method":"vipnode_ping"}`, `{"method":7}`, `{"params":{}}`, `{"id":1,"method":"vipnode_ping","jsonrpc":2}`, "\x00\x00\x00\x00",
}

type c15Child struct {
	cmd        *exec.Cmd
	tcp, httpP int
	exited     chan struct{}
	stderr     bytes.Buffer
	wsP        int
}

func startC15Child(ctx *Ctx, env ...string) *c15Child {
	cmd := exec.Command(os.Args[0], "c15child", "-repo", ctx.Repo)
	cmd.Env = append(os.Environ(), env...)
	out, _ := cmd.StdoutPipe()
	ch := &c15Child{cmd: cmd, exited: make(chan struct{})}
	cmd.Stderr = &ch.stderr
	if err := cmd.Start(); err != nil {
		fatal("child: %v", err)
	}
	sc := bufio.NewScanner(out)
	if !sc.Scan() {
		fatal("child did not start: %s", ch.stderr.String())
	}
	fmt.Sscanf(sc.Text(), "PORTS %d %d %d", &ch.tcp, &ch.httpP, &ch.wsP)
	go func() { cmd.Wait(); close(ch.exited) }()
	return ch
}

func (c *c15Child) alive() bool {
	select {
	case <-c.exited:
		return false
	default:
		return true
	}
}
func (c *c15Child) stop() {
	if c.alive() {
		c.cmd.Process.Kill()
		<-c.exited
	}
}

func panicLine(stderr string) string {
	for _, l := range strings.Split(stderr, "\n") {
		if strings.HasPrefix(l, "panic:") || strings.Contains(l, "fatal error") {
			return l
		}
	}
	if len(stderr) > 300 {
		return stderr[len(stderr)-300:]
	}
	return stderr
}

// probe sends vipnode_ping with a fresh id and waits for its reply, skipping anything else.
func probe(rc *rawConn, id int) error {
	if err := rc.send(fmt.Sprintf(`{"jsonrpc":"2.0","id":"probe-%d","method":"vipnode_ping"}`, id)); err != nil {
		return err
	}
	deadline := time.Now().Add(3 * time.Second)
	for time.Now().Before(deadline) {
		m, err := rc.next(time.Until(deadline))
		if err != nil {
			return err
		}
		if m == nil {
			break
		}
		if string(m["id"]) == fmt.Sprintf(`"probe-%d"`, id) {
			if string(m["result"]) != `"pong"` {
				return fmt.Errorf("probe answered %s / %s", m["result"], m["error"])
			}
			return nil
		}
	}
	return fmt.Errorf("no answer to the probe within 3 s")
}

// c15Socket: structured hostile messages over the socket transport (Remote.Serve).
func c15Socket(ctx *Ctx, i int, rng *rand.Rand, n int) {
	ch := startC15Child(ctx)
	defer ch.stop()
	a, err := dialRaw(ch.tcp)
	if err != nil {
		fatal("dial: %v", err)
	}
	b, _ := dialRaw(ch.tcp)
	var items []string
	var sent []hostile
	var mon []string
	for k := 0; k < n; k++ {
		h := genHostile(rng, 1000+k)
		if err := a.send(h.Raw); err != nil {
			mon = append(mon, fmt.Sprintf("c15-connection-unusable: sending connection broke after %q: %v", h.What, err))
			break
		}
		// collect the reply (if one is due) — anything with our id
		obs := "ONoReply"
		wait := 150 * time.Millisecond
		if h.expectID != "" {
			wait = 7 * time.Second
		}
		deadline := time.Now().Add(wait)
		for time.Now().Before(deadline) {
			m, err := a.next(time.Until(deadline))
			if err != nil {
				break
			}
			if m == nil {
				break
			}
			idOK := string(m["id"]) == fmt.Sprint(1000+k) || (h.expectID == "none" && len(m["id"]) == 0)
			code := "COk"
			hasErr := len(m["error"]) > 0 && string(m["error"]) != "null"
			hasRes := len(m["result"]) > 0 && string(m["result"]) != "null"
			if hasErr {
				var e struct{ Code int }
				json.Unmarshal(m["error"], &e)
				switch e.Code {
				case jsonrpc2.ErrCodeMethodNotFound:
					code = "CMethodNotFound"
				case jsonrpc2.ErrCodeInvalidParams:
					code = "CInvalidParams"
				case jsonrpc2.ErrCodeInvalidRequest:
					code = "CInvalidRequest"
				default:
					code = "CInternal"
				}
			}
			if hasErr && hasRes {
				mon = append(mon, fmt.Sprintf("c15-reply-shape: reply to %q carries both a result and an error: %v", h.What, m))
			}
			obs = fmt.Sprintf("(OReply %s %s)", cBool(idOK), code)
			if !idOK {
				mon = append(mon, fmt.Sprintf("c15-reply-id: reply to %q (id %d) carries id %s", h.What, 1000+k, m["id"]))
			}
			break
		}
		if h.expectID != "" && obs == "ONoReply" {
			mon = append(mon, fmt.Sprintf("c15-no-reply: request %q received no reply", h.What))
		}
		items = append(items, fmt.Sprintf("(%s, %s)", h.coqMsg, obs))
		sent = append(sent, h)
		if !ch.alive() {
			mon = append(mon, fmt.Sprintf("c15-process-died: the serving process exited after message %s (%s): %s", h.Raw, h.What, panicLine(ch.stderr.String())))
			break
		}
		if k%8 == 7 {
			if err := probe(a, k); err != nil {
				mon = append(mon, fmt.Sprintf("c15-connection-unusable: after hostile request %q the sending connection no longer answers: %v", h.What, err))
				break
			}
			if err := probe(b, k); err != nil {
				mon = append(mon, fmt.Sprintf("c15-other-connection-stalled: after %q another connection no longer answers: %v", h.What, err))
				break
			}
		}
	}
	if len(sent) > 6 {
		sent = sent[len(sent)-6:]
	}
	coq := fmt.Sprintf("{| c15_http := false; c15_msgs := %s |}", cList(items))
	ctx.Emit(Case{I: i, Kind: "socket-structured", Coq: coq, Desc: map[string]interface{}{"messages": len(items), "last": sent}, Monitor: mon})
}

// c15HTTP: the same generator over the HTTP transport.
func c15HTTP(ctx *Ctx, i int, rng *rand.Rand, n int) {
	ch := startC15Child(ctx)
	defer ch.stop()
	var items []string
	var mon []string
	cl := &http.Client{Timeout: 8 * time.Second}
	for k := 0; k < n; k++ {
		h := genHostile(rng, 1000+k)
		resp, err := cl.Post(fmt.Sprintf("http://127.0.0.1:%d/", ch.httpP), "application/json", strings.NewReader(h.Raw))
		obs := "ONoReply"
		if err == nil {
			body, _ := ioutil.ReadAll(resp.Body)
			resp.Body.Close()
			var m map[string]json.RawMessage
			if json.Unmarshal(body, &m) == nil {
				idOK := string(m["id"]) == fmt.Sprint(1000+k) || len(m["id"]) == 0 && !strings.Contains(h.Raw, `"id"`)
				code := "COk"
				if len(m["error"]) > 0 && string(m["error"]) != "null" {
					var e struct{ Code int }
					json.Unmarshal(m["error"], &e)
					switch e.Code {
					case jsonrpc2.ErrCodeMethodNotFound:
						code = "CMethodNotFound"
					case jsonrpc2.ErrCodeInvalidParams:
						code = "CInvalidParams"
					case jsonrpc2.ErrCodeInvalidRequest:
						code = "CInvalidRequest"
					default:
						code = "CInternal"
					}
				}
				obs = fmt.Sprintf("(OReply %s %s)", cBool(idOK), code)
			} else {
				mon = append(mon, fmt.Sprintf("c15-no-reply: HTTP request %q was answered with status %d and no JSON-RPC reply: %.80s", h.What, resp.StatusCode, body))
			}
		} else {
			mon = append(mon, fmt.Sprintf("c15-no-reply: HTTP request %q got no response: %v", h.What, err))
		}
		items = append(items, fmt.Sprintf("(%s, %s)", h.coqMsg, obs))
		if !ch.alive() {
			mon = append(mon, fmt.Sprintf("c15-process-died: the serving process exited after HTTP message %s: %s", h.Raw, panicLine(ch.stderr.String())))
			break
		}
	}
	coq := fmt.Sprintf("{| c15_http := true; c15_msgs := %s |}", cList(items))
	ctx.Emit(Case{I: i, Kind: "http-structured", Coq: coq, Desc: map[string]interface{}{"messages": len(items)}, Monitor: mon})
}

// c15Bytes: malformed byte streams; the sending connection may end, every other one must go on.
func c15Bytes(ctx *Ctx, i int) {
	ch := startC15Child(ctx)
	defer ch.stop()
	b, _ := dialRaw(ch.tcp)
	var mon []string
	for k, s := range malformedStreams {
		a, err := dialRaw(ch.tcp)
		if err != nil {
			mon = append(mon, fmt.Sprintf("c15-process-died: cannot connect any more before stream %d: %v", k, err))
			break
		}
		a.c.SetWriteDeadline(time.Now().Add(2 * time.Second))
		a.c.Write([]byte(s))
		time.Sleep(30 * time.Millisecond)
		a.c.Close()
		cl := &http.Client{Timeout: 5 * time.Second}
		if resp, err := cl.Post(fmt.Sprintf("http://127.0.0.1:%d/", ch.httpP), "application/json", strings.NewReader(s)); err == nil {
			resp.Body.Close()
		}
		if !ch.alive() {
			mon = append(mon, fmt.Sprintf("c15-process-died: the serving process exited after the byte stream %.60q: %s", s, panicLine(ch.stderr.String())))
			break
		}
		if err := probe(b, k); err != nil {
			mon = append(mon, fmt.Sprintf("c15-other-connection-stalled: after the byte stream %.60q another connection no longer answers: %v", s, err))
			break
		}
	}
	ctx.Emit(Case{I: i, Kind: "bytes", Desc: map[string]interface{}{"streams": len(malformedStreams)}, Monitor: mon})
}

// c15SignedOdd: correctly signed requests with semantically odd parameters (they pass
// verification and reach the pool logic), and hostile replies to the pool's own calls.
func c15Signed(ctx *Ctx, i int, rng *rand.Rand) {
	ch := startC15Child(ctx)
	defer ch.stop()
	host, err := dialRaw(ch.tcp)
	if err != nil {
		fatal("dial: %v", err)
	}
	cli, _ := dialRaw(ch.tcp)
	other, _ := dialRaw(ch.tcp)
	var mon []string
	nonce := time.Now().UnixNano()
	signed := func(name, method string, args ...interface{}) string {
		nonce++
		id := nodeIDOf(name)
		if strings.HasPrefix(method, "pool_") {
			id = walletOf(name)
		}
		sig, err := request.Sign(keyFor(name), method, id, nonce, args...)
		if err != nil {
			fatal("sign: %v", err)
		}
		all := append([]interface{}{sig, id, nonce}, args...)
		b, _ := json.Marshal(all)
		return string(b)
	}
	step := 0
	dead := false
	check := func(what string) bool {
		if dead {
			return false
		}
		step++
		defer func() { dead = len(mon) > 0 }()
		if !ch.alive() {
			mon = append(mon, fmt.Sprintf("c15-process-died: the serving process exited after %s: %s", what, panicLine(ch.stderr.String())))
			return false
		}
		if err := probe(other, step); err != nil {
			mon = append(mon, fmt.Sprintf("c15-other-connection-stalled: after %s another connection no longer answers: %v", what, err))
			return false
		}
		return true
	}
	// a host registers over `host`; the pool will call back vipnode_whitelist on this connection
	hostReq := pool.ConnectRequest{VipnodeVersion: "x", NodeInfo: ethnode.UserAgent{Kind: ethnode.Geth, IsFullNode: true}, NodeURI: "enode://" + nodeIDOf("h1") + "@10.0.0.1:30303"}
	host.send(fmt.Sprintf(`{"id":1,"method":"vipnode_connect","params":%s}`, signed("h1", "vipnode_connect", hostReq)))
	host.next(3 * time.Second)
	cli.send(fmt.Sprintf(`{"id":1,"method":"vipnode_connect","params":%s}`, signed("c1", "vipnode_connect", pool.ConnectRequest{VipnodeVersion: "x", NodeInfo: ethnode.UserAgent{Kind: ethnode.Geth}})))
	cli.next(3 * time.Second)
	if !check("registration") {
		ctx.Emit(Case{I: i, Kind: "signed", Desc: map[string]interface{}{"step": step}, Monitor: mon})
		return
	}
	// hostile replies to the pool's whitelist call
	replies := []string{`{"id":%s}`, `{"id":%s,"jsonrpc":"2.0"}`, `{"id":%s,"result":null}`, `{"id":%s,"error":null}`, `{"id":%s,"error":{"code":"x"}}`,
		`{"id":%s,"result":{"deep":[1,2,3]}}`, `{"id":%s,"result":1,"error":{"code":1,"message":"both"}}`, `{"id":%s,"error":{}}`}
	for k, tmpl := range replies {
		cli.send(fmt.Sprintf(`{"id":%d,"method":"vipnode_peer","params":%s}`, 10+k, signed("c1", "vipnode_peer", pool.PeerRequest{Num: 1})))
		// the pool now calls the host: answer its request with a hostile reply
		deadline := time.Now().Add(3 * time.Second)
		for time.Now().Before(deadline) {
			m, err := host.next(time.Until(deadline))
			if err != nil || m == nil {
				break
			}
			if string(m["method"]) == `"vipnode_whitelist"` {
				host.send(fmt.Sprintf(tmpl, string(m["id"])))
				break
			}
		}
		cli.next(7 * time.Second)
		if !check(fmt.Sprintf("the host answered the pool's whitelist call with %s", fmt.Sprintf(tmpl, "<id>"))) {
			break
		}
	}
	// correctly signed requests with odd contents
	odd := []struct {
		who, method string
		arg         interface{}
	}{
		{"c1", "vipnode_peer", pool.PeerRequest{Num: -3}}, {"c1", "vipnode_peer", pool.PeerRequest{Num: 1 << 40, Kind: "nope"}},
		{"c1", "vipnode_client", pool.ClientRequest{NumHosts: -1}},
		{"c1", "vipnode_update", pool.UpdateRequest{PeerInfo: []ethnode.PeerInfo{{ID: "", Enode: "enode://short"}, {Enode: strings.Repeat("e", 136)}, {Enode: strings.Repeat("é", 100)}}}},
		{"c1", "vipnode_update", pool.UpdateRequest{Peers: []string{""}, BlockNumber: ^uint64(0)}},
		{"h2", "vipnode_connect", pool.ConnectRequest{NodeInfo: ethnode.UserAgent{IsFullNode: true}, NodeURI: "enode://@"}},
		{"h2", "vipnode_connect", pool.ConnectRequest{NodeInfo: ethnode.UserAgent{IsFullNode: true}, NodeURI: "%zz"}},
		// enumerations and counters decoded straight from the wire, outside their declared range
		{"c1", "vipnode_connect", pool.ConnectRequest{NodeInfo: ethnode.UserAgent{Kind: ethnode.NodeKind(99)}}},
		{"c1", "vipnode_connect", pool.ConnectRequest{NodeInfo: ethnode.UserAgent{Kind: ethnode.NodeKind(-1)}}},
		{"c1", "vipnode_connect", pool.ConnectRequest{NodeInfo: ethnode.UserAgent{Kind: ethnode.NodeKind(4)}}},
		{"h2", "vipnode_connect", pool.ConnectRequest{NodeInfo: ethnode.UserAgent{Kind: ethnode.NodeKind(1 << 40), IsFullNode: true}, NodeURI: "enode://" + nodeIDOf("h2") + "@10.0.0.2:30303"}},
		{"c1", "vipnode_peer", pool.PeerRequest{Num: -1 << 62}}, {"c1", "vipnode_client", pool.ClientRequest{NumHosts: 1 << 40}},
		{"h2", "vipnode_host", pool.HostRequest{Kind: strings.Repeat("k", 5000), NodeURI: "enode://" + nodeIDOf("h2") + "@[fe80::1%25eth0]:1"}},
	}
	for k, o := range odd {
		cli.send(fmt.Sprintf(`{"id":%d,"method":%q,"params":%s}`, 100+k, o.method, signed(o.who, o.method, o.arg)))
		cli.next(7 * time.Second)
		if !check(fmt.Sprintf("correctly signed %s with %+v", o.method, o.arg)) {
			break
		}
	}
	// a wallet links a node registered under a wallet-style identity, then asks for its account
	cli.send(fmt.Sprintf(`{"id":200,"method":"vipnode_connect","params":%s}`, func() string {
		nonce++
		id := walletOf("w3")
		req := pool.ConnectRequest{VipnodeVersion: "x"}
		sig, _ := request.Sign(keyFor("w3"), "vipnode_connect", id, nonce, req)
		b, _ := json.Marshal([]interface{}{sig, id, nonce, req})
		return string(b)
	}()))
	cli.next(3 * time.Second)
	cli.send(fmt.Sprintf(`{"id":201,"method":"pool_addNode","params":%s}`, signed("w1", "pool_addNode", walletOf("w3"))))
	cli.next(3 * time.Second)
	cli.send(fmt.Sprintf(`{"id":202,"method":"pool_account","params":[%q]}`, walletOf("w1")))
	cli.next(3 * time.Second)
	check("pool_account for a wallet whose node has a wallet-style id")
	ctx.Emit(Case{I: i, Kind: "signed", Desc: map[string]interface{}{"steps": step}, Monitor: mon})
}

// c15Withheld: a host reads the pool's own calls (vipnode_disconnect after a client ran out of
// balance, vipnode_whitelist for a peer request) and never answers them.  Requests of other
// nodes on other connections must keep being answered meanwhile.
// c15HTTPHost: a full node sends its registration over plain HTTP (a request with no connection
// behind it, so nothing to call it back on), with and without an explicit address, through both
// the current and the legacy endpoint. Whether the pool refuses or accepts it, the pool goes on
// serving: the next peer request of a client, and a low-balance cut-off, must not bring it down.
func c15HTTPHost(ctx *Ctx, i int) {
	ch := startC15Child(ctx)
	defer ch.stop()
	cli, err := dialRaw(ch.tcp)
	if err != nil {
		fatal("dial: %v", err)
	}
	other, _ := dialRaw(ch.tcp)
	var mon, log []string
	nonce := time.Now().UnixNano()
	signed := func(name, method string, args ...interface{}) string {
		nonce++
		id := nodeIDOf(name)
		sig, err := request.Sign(keyFor(name), method, id, nonce, args...)
		if err != nil {
			fatal("sign: %v", err)
		}
		b, _ := json.Marshal(append([]interface{}{sig, id, nonce}, args...))
		return string(b)
	}
	for k, name := range []string{"h1", "h2", "h3"} {
		uri := []string{"enode://" + nodeIDOf(name) + "@10.0.0.1:30303", "", "enode://" + nodeIDOf(name) + "@host.example:30303"}[k]
		var body string
		if k == 2 {
			body = fmt.Sprintf(`{"jsonrpc":"2.0","id":1,"method":"vipnode_host","params":%s}`, signed(name, "vipnode_host", pool.HostRequest{Kind: "geth", NodeURI: uri}))
		} else {
			body = fmt.Sprintf(`{"jsonrpc":"2.0","id":1,"method":"vipnode_connect","params":%s}`, signed(name, "vipnode_connect",
				pool.ConnectRequest{VipnodeVersion: "x", NodeInfo: ethnode.UserAgent{Kind: ethnode.Geth, IsFullNode: true}, NodeURI: uri}))
		}
		_, resp, herr := httpRPC(ch.httpP, body)
		log = append(log, fmt.Sprintf("full node %s registers over HTTP (node_uri %q): %s %v", name, uri, strings.TrimSpace(resp), herr))
	}
	cli.send(fmt.Sprintf(`{"id":1,"method":"vipnode_connect","params":%s}`, signed("c1", "vipnode_connect", pool.ConnectRequest{VipnodeVersion: "x", NodeInfo: ethnode.UserAgent{Kind: ethnode.Geth}})))
	cli.next(3 * time.Second)
	for k, req := range []string{
		fmt.Sprintf(`{"id":2,"method":"vipnode_peer","params":%s}`, signed("c1", "vipnode_peer", pool.PeerRequest{Num: 3, Kind: "geth"})),
		fmt.Sprintf(`{"id":3,"method":"vipnode_peer","params":%s}`, signed("c1", "vipnode_peer", pool.PeerRequest{Num: 3})),
		fmt.Sprintf(`{"id":4,"method":"vipnode_client","params":%s}`, signed("c1", "vipnode_client", pool.ClientRequest{Kind: "geth", NumHosts: 2})),
	} {
		cli.send(req)
		m, rerr := cli.next(4 * time.Second)
		log = append(log, fmt.Sprintf("client request %d: %s %v", k+1, m["error"], rerr))
		time.Sleep(150 * time.Millisecond)
		if !ch.alive() {
			mon = append(mon, fmt.Sprintf("c15-process-died: full nodes had sent their registration over plain HTTP; the serving process exited when a client then asked for hosts (request %d): %s", k+1, panicLine(ch.stderr.String())))
			break
		}
		if perr := probe(other, 10+k); perr != nil {
			mon = append(mon, fmt.Sprintf("c15-other-connection-stalled: after a client's request for hosts (full nodes had registered over plain HTTP) another connection no longer answers: %v", perr))
			break
		}
	}
	ctx.Emit(Case{I: i, Kind: "http-full-node-then-peer", Desc: map[string]interface{}{"steps": log}, Monitor: mon})
}

func c15Withheld(ctx *Ctx, i int) {
	ch := startC15Child(ctx, "VERIF_C15_MIN=0")
	defer ch.stop()
	host, err := dialRaw(ch.tcp)
	if err != nil {
		fatal("dial: %v", err)
	}
	cli, _ := dialRaw(ch.tcp)
	other, _ := dialRaw(ch.tcp)
	var mon []string
	nonce := time.Now().UnixNano()
	signed := func(name, method string, args ...interface{}) string {
		nonce++
		id := nodeIDOf(name)
		sig, err := request.Sign(keyFor(name), method, id, nonce, args...)
		if err != nil {
			fatal("sign: %v", err)
		}
		b, _ := json.Marshal(append([]interface{}{sig, id, nonce}, args...))
		return string(b)
	}
	reg := func(rc *rawConn, name string, full bool, uri string) {
		rc.send(fmt.Sprintf(`{"id":1,"method":"vipnode_connect","params":%s}`, signed(name, "vipnode_connect",
			pool.ConnectRequest{VipnodeVersion: "x", NodeInfo: ethnode.UserAgent{Kind: ethnode.Geth, IsFullNode: full}, NodeURI: uri})))
		rc.next(3 * time.Second)
	}
	reg(host, "h1", true, "enode://"+nodeIDOf("h1")+"@10.0.0.1:30303")
	reg(other, "h2", true, "enode://"+nodeIDOf("h2")+"@10.0.0.2:30303")
	reg(cli, "c1", false, "")
	var notes []string
	// waitCall reads the host connection until the pool's call arrives, and does not answer it
	waitCall := func(method string) bool {
		deadline := time.Now().Add(3 * time.Second)
		for time.Now().Before(deadline) {
			m, err := host.next(time.Until(deadline))
			if err != nil || m == nil {
				return false
			}
			if string(m["method"]) == `"`+method+`"` {
				return true
			}
		}
		return false
	}
	// bystander: h2's keep-alive on its own connection must be answered promptly
	bystander := func(what string, id int) {
		other.send(fmt.Sprintf(`{"id":%d,"method":"vipnode_update","params":%s}`, id, signed("h2", "vipnode_update", pool.UpdateRequest{BlockNumber: uint64(id)})))
		t0 := time.Now()
		deadline := t0.Add(1500 * time.Millisecond)
		for time.Now().Before(deadline) {
			m, err := other.next(time.Until(deadline))
			if err != nil || m == nil {
				break
			}
			if string(m["id"]) == fmt.Sprint(id) {
				notes = append(notes, fmt.Sprintf("%s: bystander answered in %s", what, time.Since(t0).Round(time.Millisecond)))
				return
			}
		}
		mon = append(mon, fmt.Sprintf("c15-other-connection-stalled: while a host withholds its reply to the pool's %s, the keep-alive of another host on another connection was not answered within 1.5 s", what))
	}
	// (1) the client runs below the minimum: the pool tells its host to disconnect it
	time.Sleep(200 * time.Millisecond)
	cli.send(fmt.Sprintf(`{"id":5,"method":"vipnode_update","params":%s}`, signed("c1", "vipnode_update", pool.UpdateRequest{PeerInfo: []ethnode.PeerInfo{{ID: nodeIDOf("h1")}}, BlockNumber: 1})))
	if waitCall("vipnode_disconnect") {
		bystander("vipnode_disconnect call", 50)
	} else {
		notes = append(notes, "the pool did not call vipnode_disconnect (client not below the minimum?)")
	}
	// (2) a peer request makes the pool call vipnode_whitelist on the host
	if len(mon) == 0 {
		cli2, _ := dialRaw(ch.tcp)
		reg(cli2, "c2", false, "")
		cli2.send(fmt.Sprintf(`{"id":6,"method":"vipnode_peer","params":%s}`, signed("c2", "vipnode_peer", pool.PeerRequest{Num: 2})))
		if waitCall("vipnode_whitelist") {
			bystander("vipnode_whitelist call", 51)
		} else {
			notes = append(notes, "the pool did not call vipnode_whitelist")
		}
	}
	if !ch.alive() {
		mon = append(mon, fmt.Sprintf("c15-process-died: the serving process exited: %s", panicLine(ch.stderr.String())))
	}
	ctx.Emit(Case{I: i, Kind: "withheld-replies", Desc: map[string]interface{}{"notes": notes}, Monitor: mon})
}

// hostilePool answers the agent's calls with structurally valid replies full of odd values.
type hostilePool struct {
	scriptPool
	nilBalance bool
}

func (p *hostilePool) Update(ctx context.Context, r pool.UpdateRequest) (*pool.UpdateResponse, error) {
	resp, err := p.scriptPool.Update(ctx, r)
	if resp != nil && p.nilBalance {
		resp.Balance = nil
	}
	return resp, err
}

var hostileRefs = []string{"", "enode://", "enode://@", "enode://id@1.2.3.4:notaport", "%zz", "enode://a b@%zz", "http://x/y", "enode://" + strings.Repeat("e", 137),
	strings.Repeat("é", 70), "enode://" + strings.Repeat("a1", 64) + "@[::1", "enode://" + strings.Repeat("a1", 64) + "@1.2.3.4:99999", "://", "enode:opaque",
	"enode://" + strings.Repeat("a1", 64) + "@1.2.3.4:30303?discport=x#frag", "\x00", "enode://" + strings.Repeat("a1", 64) + "@:0"}

// c15Agent: the agent side of "no message from the network can crash or wedge": a real Agent
// (strict peering on and off) runs keep-alive rounds against a pool whose replies carry malformed
// peer references, no balance, hosts with odd URIs.  A panic in the agent is a violation; errors
// are fine.
func c15Agent(ctx *Ctx, i int, rng *rand.Rand) {
	var mon []string
	rounds := 0
	for k := 0; k < 40 && len(mon) == 0; k++ {
		strict := k%2 == 0
		node := &recNode{kind: ethnode.Geth, full: k%3 == 0, connFail: -1}
		for j := rng.Intn(4); j > 0; j-- {
			node.peers = append(node.peers, genLocalPeer(rng))
		}
		hp := &hostilePool{nilBalance: rng.Intn(3) == 0}
		hp.peerMode = []string{"ok", "ok", "nopeers", "fail"}[rng.Intn(4)]
		pick := func(n int) []string {
			var out []string
			for j := 0; j < n; j++ {
				if rng.Intn(3) == 0 {
					out = append(out, genPoolRef(rng))
				} else {
					out = append(out, hostileRefs[rng.Intn(len(hostileRefs))])
				}
			}
			return out
		}
		hp.active, hp.invalid, hp.peerURIs = pick(rng.Intn(5)), pick(rng.Intn(4)), pick(rng.Intn(4))
		a := &agent.Agent{EthNode: node, NumHosts: rng.Intn(5), StrictPeers: strict, UpdateInterval: time.Hour}
		desc := fmt.Sprintf("strict=%v active=%q invalid=%q peer_uris=%q nil_balance=%v", strict, hp.active, hp.invalid, hp.peerURIs, hp.nilBalance)
		func() {
			defer func() {
				if r := recover(); r != nil {
					mon = append(mon, fmt.Sprintf("c15-agent-panic: the agent panicked on a pool reply (%s): %v", desc, r))
				}
			}()
			done := make(chan struct{})
			go func() {
				defer func() {
					if r := recover(); r != nil {
						mon = append(mon, fmt.Sprintf("c15-agent-panic: the agent panicked on a pool reply (%s): %v", desc, r))
					}
					close(done)
				}()
				cctx, cancel := context.WithTimeout(context.Background(), 3*time.Second)
				defer cancel()
				a.UpdatePeers(cctx, hp)
			}()
			select {
			case <-done:
			case <-time.After(5 * time.Second):
				mon = append(mon, fmt.Sprintf("c15-agent-wedged: a keep-alive round did not return within 5 s (%s)", desc))
			}
		}()
		rounds++
	}
	ctx.Emit(Case{I: i, Kind: "agent-hostile-pool", Desc: map[string]interface{}{"rounds": rounds}, Monitor: mon})
}

func runC15(ctx *Ctx) {
	per := ctx.N(120, 1500)
	cases := ctx.N(6, 60)
	var wg sync.WaitGroup
	sem := make(chan struct{}, 6)
	for c := 0; c < cases; c++ {
		if !ctx.Want(c) {
			continue
		}
		wg.Add(1)
		sem <- struct{}{}
		go func(c int) {
			defer wg.Done()
			defer func() { <-sem }()
			rng := ctx.Sub(c)
			switch c % 3 {
			case 0, 1:
				c15Socket(ctx, c, rng, per)
			default:
				c15HTTP(ctx, c, rng, per)
			}
		}(c)
	}
	wg.Wait()
	if ctx.Want(cases) {
		c15Bytes(ctx, cases)
	}
	if ctx.Want(cases + 1) {
		c15Signed(ctx, cases+1, ctx.Sub(cases+1))
	}
	if ctx.Want(cases + 2) {
		c15Withheld(ctx, cases+2)
	}
	if ctx.Want(cases + 30) {
		c15WS(ctx, cases+30)
	}
	if ctx.Want(cases + 31) {
		c15AgentBinary(ctx, cases+31)
	}
	if ctx.Want(cases + 32) {
		c15ServedNulls(ctx, cases+32)
	}
	if ctx.Want(cases + 33) {
		contractCase(ctx, cases+33, ctx.Sub(cases+33), "many-accounts", "c15-")
	}
	if ctx.Want(cases + 34) {
		c15HTTPHost(ctx, cases+34)
	}
	if ctx.Want(cases + 35) {
		c15Status(ctx, cases+35)
	}
	for c := 0; c < ctx.N(2, 20); c++ {
		if ctx.Want(cases + 3 + c) {
			c15Agent(ctx, cases+3+c, ctx.Sub(cases+3+c))
		}
	}
	_ = context.Background
	_ = rand.Int
}

// c15WS: frames that violate WebSocket framing (RFC 6455 5.1, 5.2, 5.5), from a hostile client to
// the pool's WebSocket endpoint (both codecs), and from a hostile pool to a dialling agent. The
// receiving process must end that connection and nothing else: no panic, no crash, and the next
// connection is served.
func c15WS(ctx *Ctx, i int) {
	var mon []string
	bad := map[string][]byte{
		"unmasked-text-frame-from-client": {0x81, 0x02, '{', '}'},
		"unknown-opcode-3":                {0x83, 0x80, 1, 2, 3, 4},
		"reserved-bit-set":                {0xC1, 0x82, 1, 2, 3, 4, '{' ^ 1, '}' ^ 2},
		"oversized-control-frame":         append([]byte{0x89, 0xFE, 0x00, 0x7E, 1, 2, 3, 4}, make([]byte, 126)...),
		"fragmented-control-frame":        {0x09, 0x80, 1, 2, 3, 4},
	}
	kinds := []string{"unmasked-text-frame-from-client", "unknown-opcode-3", "reserved-bit-set", "oversized-control-frame", "fragmented-control-frame"}
	ch := startC15Child(ctx)
	defer ch.stop()
	n := 0
	wsProbe := func(path string) error {
		c, err := net.DialTimeout("tcp", fmt.Sprintf("127.0.0.1:%d", ch.wsP), 2*time.Second)
		if err != nil {
			return err
		}
		defer c.Close()
		c.SetDeadline(time.Now().Add(4 * time.Second))
		if _, _, err := (ws.Dialer{}).Upgrade(c, mustURL(fmt.Sprintf("ws://127.0.0.1:%d%s", ch.wsP, path))); err != nil {
			return fmt.Errorf("upgrade: %v", err)
		}
		f := ws.NewTextFrame([]byte(`{"jsonrpc":"2.0","id":"p","method":"vipnode_ping"}` + "\n"))
		if err := ws.WriteFrame(c, ws.MaskFrameInPlace(f)); err != nil {
			return err
		}
		for {
			fr, err := ws.ReadFrame(c)
			if err != nil {
				return fmt.Errorf("no answer to the probe: %v", err)
			}
			if fr.Header.OpCode == ws.OpText || fr.Header.OpCode == ws.OpBinary {
				if !strings.Contains(string(fr.Payload), `"pong"`) {
					return fmt.Errorf("probe answered %s", fr.Payload)
				}
				return nil
			}
		}
	}
	for _, path := range []string{"/gorilla", "/gobwas"} {
		for _, k := range kinds {
			if !ch.alive() {
				break
			}
			c, err := net.DialTimeout("tcp", fmt.Sprintf("127.0.0.1:%d", ch.wsP), 2*time.Second)
			if err != nil {
				mon = append(mon, fmt.Sprintf("c15-ws-dial: %v", err))
				break
			}
			c.SetDeadline(time.Now().Add(4 * time.Second))
			if _, _, err := (ws.Dialer{}).Upgrade(c, mustURL(fmt.Sprintf("ws://127.0.0.1:%d%s", ch.wsP, path))); err != nil {
				c.Close()
				mon = append(mon, fmt.Sprintf("c15-ws-upgrade: %v", err))
				break
			}
			c.Write(bad[k])
			// the server ends the connection (a close frame and/or the TCP close), promptly
			t0 := time.Now()
			buf := make([]byte, 512)
			for {
				if _, err := c.Read(buf); err != nil {
					break
				}
			}
			if took := time.Since(t0); took > 3*time.Second {
				mon = append(mon, fmt.Sprintf("c15-ws-not-closed: %s after a frame with %s the connection was still open after %s", path, k, took.Round(time.Millisecond)))
			}
			c.Close()
			n++
			time.Sleep(30 * time.Millisecond)
			if pl := wsPanic(ch.stderr.String()); pl != "" {
				mon = append(mon, fmt.Sprintf("c15-ws-panic: %s: a frame with %s made the serving goroutine panic: %s", path, k, pl))
				break
			}
			if err := wsProbe(path); err != nil {
				mon = append(mon, fmt.Sprintf("c15-ws-dead: %s: after a frame with %s the next connection is not served: %v", path, k, err))
				break
			}
		}
	}
	if !ch.alive() {
		mon = append(mon, "c15-crash: the serving process died on a malformed WebSocket frame: "+panicLine(ch.stderr.String()))
	}
	// a hostile pool: the dialling side (agent.go) reads server frames; masked frames, unknown
	// opcodes and reserved bits from a server are protocol violations too
	srvBad := map[string][]byte{
		"masked-text-frame-from-server": {0x81, 0x82, 1, 2, 3, 4, '{' ^ 1, '}' ^ 2},
		"unknown-opcode-3":              {0x83, 0x00},
		"reserved-bit-set":              {0xC1, 0x02, '{', '}'},
	}
	for _, k := range []string{"masked-text-frame-from-server", "unknown-opcode-3", "reserved-bit-set"} {
		ln, err := net.Listen("tcp", "127.0.0.1:0")
		if err != nil {
			fatal("%v", err)
		}
		accepted := make(chan net.Conn, 1)
		go func() {
			c, err := ln.Accept()
			if err != nil {
				return
			}
			if _, err := ws.Upgrade(c); err != nil {
				c.Close()
				return
			}
			accepted <- c
		}()
		dial := startC15Child(ctx, fmt.Sprintf("VERIF_C15_DIAL=ws://%s/", ln.Addr().String()))
		select {
		case c := <-accepted:
			c.Write(srvBad[k])
			time.Sleep(400 * time.Millisecond)
			c.Close()
		case <-time.After(5 * time.Second):
			mon = append(mon, "c15-ws-agent-dial: the dialling process never connected: "+panicLine(dial.stderr.String()))
		}
		time.Sleep(200 * time.Millisecond)
		if !dial.alive() {
			mon = append(mon, fmt.Sprintf("c15-crash: a process that dialled a pool over WebSocket (as the agent does) died when the pool sent a frame with %s: %s", k, panicLine(dial.stderr.String())))
		} else if pl := wsPanic(dial.stderr.String()); pl != "" {
			mon = append(mon, fmt.Sprintf("c15-ws-panic: dialling side: a frame with %s: %s", k, pl))
		}
		dial.stop()
		ln.Close()
		n++
	}
	ctx.Emit(Case{I: i, Kind: "websocket-frames", Desc: map[string]interface{}{"hostile_frames": n, "kinds": kinds}, Monitor: mon})
}

func wsPanic(stderr string) string {
	for _, l := range strings.Split(stderr, "\n") {
		if strings.Contains(l, "panic") {
			return l
		}
	}
	return ""
}

func mustURL(s string) *url.URL {
	u, err := url.Parse(s)
	if err != nil {
		fatal("%v", err)
	}
	return u
}

// c15ServedNulls: every method the production registrations actually serve (by reflection, not the
// documented list: an extra exported method of a service registered without an allow-list is
// served too), called with nothing but nulls, in every arity from none to one more than declared.
// Each call gets a reply with its id, the process survives, and the next connection is served.
func c15ServedNulls(ctx *Ctx, i int) {
	var mon []string
	ch := startC15Child(ctx)
	defer ch.stop()
	recv := map[string]interface{}{"p": &pool.VipnodePool{}, "payment": &payment.PaymentService{}, "dashboard": &status.PoolStatus{}}
	type probeT struct {
		name  string
		arity int
	}
	var probes []probeT
	for _, r := range productionRegistrations(ctx.Repo) {
		rv, ok := recv[r.Recv]
		if !ok {
			continue
		}
		rt := reflect.TypeOf(rv)
		for k := 0; k < rt.NumMethod(); k++ {
			m := rt.Method(k)
			name := r.Prefix + strings.ToLower(m.Name[:1]) + m.Name[1:]
			if !allowed(r.Allow, name, r.Prefix) {
				continue
			}
			n := 0
			for a := 1; a < m.Type.NumIn(); a++ {
				if m.Type.In(a).String() != "context.Context" {
					n++
				}
			}
			for ar := 0; ar <= n+1; ar++ {
				probes = append(probes, probeT{name, ar})
			}
		}
	}
	sent := 0
	for transport := 0; transport < 2 && ch.alive(); transport++ {
		for k, pr := range probes {
			if !ch.alive() {
				break
			}
			nulls := make([]string, pr.arity)
			for j := range nulls {
				nulls[j] = "null"
			}
			body := fmt.Sprintf(`{"jsonrpc":"2.0","id":%d,"method":%q,"params":[%s]}`, 5000+k, pr.name, strings.Join(nulls, ","))
			sent++
			if transport == 0 {
				rc, err := dialRaw(ch.tcp)
				if err != nil {
					mon = append(mon, fmt.Sprintf("c15-dead: cannot connect any more: %v", err))
					break
				}
				rc.send(body)
				answered := false
				deadline := time.Now().Add(3 * time.Second)
				for time.Now().Before(deadline) {
					m, err := rc.next(time.Until(deadline))
					if err != nil || m == nil {
						break
					}
					if string(m["id"]) == fmt.Sprint(5000+k) {
						answered = true
						break
					}
				}
				rc.c.Close()
				if !answered && ch.alive() && len(mon) < 4 {
					mon = append(mon, fmt.Sprintf("c15-no-reply: %s with %d null parameter(s) got no reply carrying its id", pr.name, pr.arity))
				}
			} else {
				cl := &http.Client{Timeout: 4 * time.Second}
				resp, err := cl.Post(fmt.Sprintf("http://127.0.0.1:%d/", ch.httpP), "application/json", strings.NewReader(body))
				if err != nil {
					if len(mon) < 4 {
						mon = append(mon, fmt.Sprintf("c15-no-reply: %s with %d null parameter(s) over HTTP: no reply (%v)", pr.name, pr.arity, err))
					}
				} else {
					ioutil.ReadAll(resp.Body)
					resp.Body.Close()
				}
			}
			if pl := wsPanic(ch.stderr.String()); pl != "" {
				mon = append(mon, fmt.Sprintf("c15-handler-panic: %s with %d null parameter(s) made its handler panic: %s", pr.name, pr.arity, pl))
				break
			}
		}
	}
	if !ch.alive() {
		mon = append(mon, "c15-crash: the serving process died on a call with null parameters: "+panicLine(ch.stderr.String()))
	}
	ctx.Emit(Case{I: i, Kind: "served-methods-null-params", Desc: map[string]interface{}{"methods_x_arities": len(probes), "calls": sent}, Monitor: mon})
}
