package main

import (
	"fmt"
	"hash/fnv"
	"math/big"
	"math/rand"
	"sort"
	"strings"
	"time"

	"github.com/vipnode/vipnode/v2/pool/store"
)

// interner maps the strings the implementation sees to the small numbers of the model
// ("" is 0); only equality of identifiers matters to the modelled code.
type interner struct {
	m      map[string]int
	r      []string
	sealed bool // the fixed universe has been numbered
}

func newInterner() *interner {
	t := &interner{m: map[string]int{"": 0}, r: []string{""}}
	// fixed universe first, so every process and driver numbers the known strings alike
	for _, l := range [][]string{nodeAlphabet, acctAlphabet, kindAlphabet, {"unknown", "enode://a@1.2.3.4:30303", "enode://b@[::1]:1"}} {
		for _, s := range l {
			t.id(s)
		}
	}
	t.sealed = true
	return t
}
func (t *interner) id(s string) int {
	if v, ok := t.m[s]; ok {
		return v
	}
	v := len(t.r)
	if t.sealed {
		// strings outside the fixed universe get a number that depends on the string only, so
		// that every process (the kill scenarios run the history in a child) and every interner
		// numbers them alike
		h := fnv.New64a()
		h.Write([]byte(s))
		v = 1000 + int(h.Sum64()%(1<<40))
		for {
			clash := false
			for _, u := range t.m {
				if u == v {
					clash = true
				}
			}
			if !clash {
				break
			}
			v++
		}
	}
	t.m[s] = v
	t.r = append(t.r, s)
	return v
}

// SOp is one store-level operation in harness syntax (also the replay format).
type SOp struct {
	Op     string   `json:"op"`
	ID     string   `json:"id,omitempty"`
	Acct   string   `json:"acct,omitempty"`
	Kind   string   `json:"kind,omitempty"`
	Host   bool     `json:"host,omitempty"`
	URI    string   `json:"uri,omitempty"`
	Payout string   `json:"payout,omitempty"`
	Block  uint64   `json:"block,omitempty"`
	AgeNs  int64    `json:"age_ns,omitempty"` // SetNode: LastSeen = now - age
	Limit  int      `json:"limit,omitempty"`
	Peers  []string `json:"peers,omitempty"`
	Amount string   `json:"amount,omitempty"`
	Nonce  int64    `json:"nonce,omitempty"`
	D      int64    `json:"d_ns,omitempty"`
	// observations
	Now int64  `json:"now"`
	Obs string `json:"obs"`
	// Bad: what is wrong with this operation's answer by itself (set by applySOp): e.g. a peer
	// listed with a record that is not the record the store holds for it
	Bad string `json:"bad,omitempty"`
}

func errEnum(err error) string {
	switch err {
	case store.ErrUnregisteredNode:
		return "EUnregistered"
	case store.ErrMalformedNode:
		return "EMalformed"
	case store.ErrNotAuthorized:
		return "ENotAuthorized"
	case store.ErrInvalidNonce:
		return "EInvalidNonce"
	}
	return "EOther"
}

func (t *interner) nodeCoq(n store.Node) string {
	return fmt.Sprintf("{| n_id := %s; n_uri := %s; n_seen := %s; n_kind := %s; n_host := %s; n_payout := %s; n_block := %s |}",
		cN(t.id(string(n.ID))), cN(t.id(n.URI)), cZ(n.LastSeen.UnixNano()), cN(t.id(n.Kind)), cBool(n.IsHost),
		cN(t.id(string(n.Payout))), cN(int(n.BlockNumber)))
}

func (t *interner) idsCoq(ids []string) string {
	v := make([]int, len(ids))
	for i, s := range ids {
		v[i] = t.id(s)
	}
	return cNs(v)
}

func resOkErr(err error) (string, string) {
	if err != nil {
		e := errEnum(err)
		if e == "EOther" {
			return "(OErr EOther)", "err:" + err.Error()
		}
		return "(OErr " + e + ")", "err:" + e
	}
	return "OOk", "ok"
}

// applySOp executes one operation on a real driver. It returns the Gallina rendering of the
// model operation, of the observed result, and a time-free projection used to compare drivers.
func applySOp(st *openStore, t *interner, o *SOp) (opCoq, obsCoq, proj string) {
	if o.Now == 0 {
		o.Now = time.Now().UnixNano()
	}
	defer func() { o.Obs = proj }()
	switch o.Op {
	case "CheckNonce":
		opCoq = fmt.Sprintf("CheckNonce %s %s", cN(t.id(o.ID)), cZ(o.Nonce))
		obsCoq, proj = resOkErr(st.CheckAndSaveNonce(o.ID, o.Nonce))
	case "GetNode":
		opCoq = "GetNode " + cN(t.id(o.ID))
		n, err := st.GetNode(store.NodeID(o.ID))
		if err != nil {
			obsCoq, proj = resOkErr(err)
		} else {
			obsCoq = "(ONode " + t.nodeCoq(*n) + ")"
			proj = fmt.Sprintf("node:%s,%s,%s,%v,%s,%d", n.ID, n.URI, n.Kind, n.IsHost, n.Payout, n.BlockNumber)
		}
	case "SetNode":
		n := store.Node{ID: store.NodeID(o.ID), URI: o.URI, LastSeen: time.Unix(0, o.Now-o.AgeNs), Kind: o.Kind,
			IsHost: o.Host, Payout: store.Account(o.Payout), BlockNumber: o.Block}
		opCoq = "SetNode " + t.nodeCoq(n)
		obsCoq, proj = resOkErr(st.SetNode(n))
	case "ActiveHosts":
		opCoq = fmt.Sprintf("ActiveHosts %s %s", cN(t.id(o.Kind)), cZ(int64(o.Limit)))
		r, err := st.ActiveHosts(o.Kind, o.Limit)
		if err != nil {
			obsCoq, proj = resOkErr(err)
		} else {
			ids := make([]string, len(r))
			for i, n := range r {
				ids[i] = string(n.ID)
				// every peer comes back as the record the store holds for it
				if rec, gerr := st.GetNode(n.ID); gerr == nil && o.Bad == "" {
					if rec.URI != n.URI || rec.Kind != n.Kind || rec.IsHost != n.IsHost || rec.Payout != n.Payout || rec.BlockNumber != n.BlockNumber || !rec.LastSeen.Equal(n.LastSeen) {
						o.Bad = fmt.Sprintf("c12-peer-record: ActiveHosts(%s) lists node %s as host=%v kind=%q uri=%q payout=%q block=%d; the store's record of that node says host=%v kind=%q uri=%q payout=%q block=%d", shortID(o.ID), shortID(string(n.ID)), n.IsHost, n.Kind, n.URI, n.Payout, n.BlockNumber, rec.IsHost, rec.Kind, rec.URI, rec.Payout, rec.BlockNumber)
					}
				}
			}
			obsCoq = "(ONodes " + t.idsCoq(ids) + ")"
			proj = fmt.Sprintf("hosts:%d", len(ids))
		}
	case "NodePeers":
		opCoq = "NodePeers " + cN(t.id(o.ID))
		r, err := st.NodePeers(store.NodeID(o.ID))
		if err != nil {
			obsCoq, proj = resOkErr(err)
		} else {
			ids := make([]string, len(r))
			for i, n := range r {
				ids[i] = string(n.ID)
				// every peer comes back as the record the store holds for it
				if rec, gerr := st.GetNode(n.ID); gerr == nil && o.Bad == "" {
					if rec.URI != n.URI || rec.Kind != n.Kind || rec.IsHost != n.IsHost || rec.Payout != n.Payout || rec.BlockNumber != n.BlockNumber || !rec.LastSeen.Equal(n.LastSeen) {
						o.Bad = fmt.Sprintf("c12-peer-record: NodePeers(%s) lists peer %s as host=%v kind=%q uri=%q payout=%q block=%d; the store's record of that node says host=%v kind=%q uri=%q payout=%q block=%d", shortID(o.ID), shortID(string(n.ID)), n.IsHost, n.Kind, n.URI, n.Payout, n.BlockNumber, rec.IsHost, rec.Kind, rec.URI, rec.Payout, rec.BlockNumber)
					}
				}
			}
			obsCoq = "(ONodes " + t.idsCoq(ids) + ")"
			sort.Strings(ids)
			proj = "peers:" + strings.Join(ids, ",")
		}
	case "UpdatePeers":
		opCoq = fmt.Sprintf("UpdatePeers %s %s %s", cN(t.id(o.ID)), t.idsCoq(o.Peers), cN(int(o.Block)))
		inactive, err := st.UpdateNodePeers(store.NodeID(o.ID), o.Peers, o.Block)
		if err != nil {
			obsCoq, proj = resOkErr(err)
		} else {
			// the clock value the driver used is the node's new LastSeen
			if n, e := st.GetNode(store.NodeID(o.ID)); e == nil {
				o.Now = n.LastSeen.UnixNano()
			}
			ids := make([]string, len(inactive))
			for i, n := range inactive {
				ids[i] = string(n)
			}
			obsCoq = "(OIds " + t.idsCoq(ids) + ")"
			sort.Strings(ids)
			proj = "inactive:" + strings.Join(ids, ",")
		}
	case "GetNodeBal":
		opCoq = "GetNodeBal " + cN(t.id(o.ID))
		b, err := st.GetNodeBalance(store.NodeID(o.ID))
		if err != nil {
			obsCoq, proj = resOkErr(err)
		} else {
			obsCoq = fmt.Sprintf("(OBal %s %s)", cN(t.id(string(b.Account))), cBig(&b.Credit))
			proj = fmt.Sprintf("bal:%s,%s,dep%s", b.Account, b.Credit.String(), b.Deposit.String())
		}
	case "AddNodeBal":
		amt, _ := new(big.Int).SetString(o.Amount, 10)
		opCoq = fmt.Sprintf("AddNodeBal %s %s", cN(t.id(o.ID)), cBig(amt))
		obsCoq, proj = resOkErr(st.AddNodeBalance(store.NodeID(o.ID), amt))
	case "GetAcctBal":
		opCoq = "GetAcctBal " + cN(t.id(o.Acct))
		b, err := st.GetAccountBalance(store.Account(o.Acct))
		if err != nil {
			obsCoq, proj = resOkErr(err)
		} else {
			obsCoq = fmt.Sprintf("(OBal %s %s)", cN(t.id(string(b.Account))), cBig(&b.Credit))
			proj = fmt.Sprintf("bal:%s,%s,dep%s", b.Account, b.Credit.String(), b.Deposit.String())
		}
	case "AddAcctBal":
		amt, _ := new(big.Int).SetString(o.Amount, 10)
		opCoq = fmt.Sprintf("AddAcctBal %s %s", cN(t.id(o.Acct)), cBig(amt))
		obsCoq, proj = resOkErr(st.AddAccountBalance(store.Account(o.Acct), amt))
	case "AddAcctNode":
		opCoq = fmt.Sprintf("AddAcctNode %s %s", cN(t.id(o.Acct)), cN(t.id(o.ID)))
		obsCoq, proj = resOkErr(st.AddAccountNode(store.Account(o.Acct), store.NodeID(o.ID)))
	case "IsAcctNode":
		opCoq = fmt.Sprintf("IsAcctNode %s %s", cN(t.id(o.Acct)), cN(t.id(o.ID)))
		obsCoq, proj = resOkErr(st.IsAccountNode(store.Account(o.Acct), store.NodeID(o.ID)))
	case "GetAcctNodes":
		opCoq = "GetAcctNodes " + cN(t.id(o.Acct))
		r, err := st.GetAccountNodes(store.Account(o.Acct))
		if err != nil {
			obsCoq, proj = resOkErr(err)
		} else {
			ids := make([]string, len(r))
			for i, n := range r {
				ids[i] = string(n)
			}
			obsCoq = "(OIds " + t.idsCoq(ids) + ")"
			sort.Strings(ids)
			proj = "ids:" + strings.Join(ids, ",")
		}
	case "Stats":
		opCoq = "Stats"
		s, err := st.Stats()
		if err != nil {
			obsCoq, proj = resOkErr(err)
		} else {
			obsCoq = fmt.Sprintf("(OStats {| st_active_hosts := %s; st_total_hosts := %s; st_active_clients := %s; st_total_clients := %s; st_latest_block := %s; st_total_credit := %s; st_trials := %s |})",
				cNat(s.NumActiveHosts), cNat(s.NumTotalHosts), cNat(s.NumActiveClients), cNat(s.NumTotalClients),
				cN(int(s.LatestBlockNumber)), cBig(&s.TotalCredit), cNat(s.NumTrialBalances))
			proj = fmt.Sprintf("stats:%d,%d,%d,%d,%d,%s,%d,dep%s", s.NumActiveHosts, s.NumTotalHosts, s.NumActiveClients,
				s.NumTotalClients, s.LatestBlockNumber, s.TotalCredit.String(), s.NumTrialBalances, s.TotalDeposit.String())
		}
	case "Advance":
		opCoq = "Advance " + cZ(o.D)
		shiftTime(st.Store, time.Duration(o.D))
		obsCoq, proj = "OOk", "ok"
	case "Reopen":
		opCoq = "Reopen"
		st.Reopen()
		obsCoq, proj = "OOk", "ok"
	default:
		fatal("unknown store op %q", o.Op)
	}
	return
}

var (
	nodeAlphabet  = []string{"n1", "n2", "n3", "n4"}
	acctAlphabet  = []string{"w1", "w2", "w3"}
	kindAlphabet  = []string{"", "geth", "parity"}
	amountChoices = []string{"0", "1", "-1", "7", "1000", "-1000", "18446744073709551617", "-18446744073709551617",
		"18446744073709551616", "-18446744073709551616", "36893488147419103232", "4294967296", "-4294967296", "9223372036854775808",
		"1000000000000000000000000000000", "-3"}
	advanceChoices = []int64{1e9, 30e9, 59e9, 61e9, 119e9, 121e9, 240e9}
	ageChoices     = []int64{0, 0, 0, 30e9, 118e9, 122e9, 500e9}
)

func pick(rng *rand.Rand, l []string) string { return l[rng.Intn(len(l))] }

func genNodeID(rng *rand.Rand) string {
	switch rng.Intn(20) {
	case 0:
		return ""
	case 1:
		return "unknown"
	case 2:
		// another spelling of a known id: to the store a different identifier (ids are opaque strings)
		id := pick(rng, nodeAlphabet)
		return []string{strings.ToUpper(id), "0x" + id, " " + id + " ", id + "\x00", "enode:" + id, "::" + id, id + ":", id + ":" + id}[rng.Intn(8)]
	}
	return pick(rng, nodeAlphabet)
}
func genAcct(rng *rand.Rand) string {
	if rng.Intn(9) == 0 {
		return "" // the empty name is an account like any other to the store
	}
	return pick(rng, acctAlphabet)
}

// genSOp draws one operation; weights favour histories that register nodes early.
func genSOp(rng *rand.Rand, pos int, allowReopen bool) *SOp {
	w := rng.Intn(125)
	if pos < 4 && rng.Intn(2) == 0 {
		w = 0
	}
	switch {
	case w < 15:
		return &SOp{Op: "SetNode", ID: genNodeID(rng), Kind: pick(rng, kindAlphabet), Host: rng.Intn(3) != 0,
			URI: pick(rng, []string{"", "enode://a@1.2.3.4:30303", "enode://b@[::1]:1"}), Payout: pick(rng, []string{"", "w1"}),
			Block: uint64(rng.Intn(50)), AgeNs: ageChoices[rng.Intn(len(ageChoices))]}
	case w < 32:
		n := rng.Intn(5)
		peers := make([]string, n)
		for i := range peers {
			peers[i] = genNodeID(rng)
		}
		return &SOp{Op: "UpdatePeers", ID: genNodeID(rng), Peers: peers, Block: uint64(rng.Intn(50))}
	case w < 37:
		return &SOp{Op: "GetNode", ID: genNodeID(rng)}
	case w < 45:
		return &SOp{Op: "NodePeers", ID: genNodeID(rng)}
	case w < 53:
		return &SOp{Op: "ActiveHosts", Kind: pick(rng, kindAlphabet), Limit: rng.Intn(6)}
	case w < 61:
		return &SOp{Op: "GetNodeBal", ID: genNodeID(rng)}
	case w < 72:
		return &SOp{Op: "AddNodeBal", ID: genNodeID(rng), Amount: pick(rng, amountChoices)}
	case w < 77:
		return &SOp{Op: "GetAcctBal", Acct: genAcct(rng)}
	case w < 82:
		return &SOp{Op: "AddAcctBal", Acct: genAcct(rng), Amount: pick(rng, amountChoices)}
	case w < 91:
		return &SOp{Op: "AddAcctNode", Acct: genAcct(rng), ID: genNodeID(rng)}
	case w < 95:
		return &SOp{Op: "IsAcctNode", Acct: genAcct(rng), ID: genNodeID(rng)}
	case w < 99:
		return &SOp{Op: "GetAcctNodes", Acct: genAcct(rng)}
	case w < 106:
		return &SOp{Op: "Stats"}
	case w < 115:
		return &SOp{Op: "Advance", D: advanceChoices[rng.Intn(len(advanceChoices))]}
	case w < 120:
		now := time.Now().UnixNano()
		n := now - int64(rng.Intn(1000))*1e6
		if rng.Intn(3) == 0 {
			n = now - int64(store.ExpireNonce) - 5e9
		}
		return &SOp{Op: "CheckNonce", ID: genNodeID(rng), Nonce: n}
	default:
		if allowReopen {
			return &SOp{Op: "Reopen"}
		}
		return &SOp{Op: "Stats"}
	}
}

// runStoreSeq executes ops on a fresh store of the given driver and renders a c12_case.
func runStoreSeq(drv int, ops []*SOp) (coq string, projs []string, done []*SOp) {
	st := newStore(drv)
	defer st.Destroy()
	t := newInterner()
	// intern the alphabets first so both drivers use the same numbering
	for _, s := range nodeAlphabet {
		t.id(s)
	}
	for _, s := range acctAlphabet {
		t.id(s)
	}
	items := make([]string, 0, len(ops))
	for _, o := range ops {
		c := *o
		opCoq, obsCoq, proj := applySOp(st, t, &c)
		c.Obs = proj
		items = append(items, fmt.Sprintf("(%s, %s, %s)", cZ(c.Now), opCoq, obsCoq))
		projs = append(projs, proj)
		done = append(done, &c)
	}
	coq = fmt.Sprintf("{| c12_X := %s; c12_E := %s; c12_ops := %s |}", cZ(int64(store.ExpireInterval)),
		cZ(int64(store.ExpireNonce)), cList(items))
	return
}
