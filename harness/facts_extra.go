package main

import (
	"fmt"
	"go/ast"
	"go/parser"
	"go/token"
	"path/filepath"
	"sort"
	"strings"
)

// factsExtra appends structural facts that running the code cannot observe reliably.
func factsExtra(ctx *Ctx, b *strings.Builder) {
	b.WriteString("Open Scope string_scope.\n\n")
	txnShape(ctx, b)
	lockShape(ctx, b)
	lockFacts(ctx, b)
	poolMutexSpans(ctx, b)
	claimFacts(ctx, b)
	decodeFacts(ctx, b)
	serverFacts(ctx, b)
	factsMore(ctx, b)
}

func parseFile(repo, rel string) (*token.FileSet, *ast.File) {
	fset := token.NewFileSet()
	f, err := parser.ParseFile(fset, filepath.Join(repo, rel), nil, parser.ParseComments)
	if err != nil {
		fatal("parse %s: %v", rel, err)
	}
	return fset, f
}

func recvName(fd *ast.FuncDecl) (typ string, name string) {
	if fd.Recv == nil || len(fd.Recv.List) == 0 {
		return "", ""
	}
	f := fd.Recv.List[0]
	t := f.Type
	if st, ok := t.(*ast.StarExpr); ok {
		t = st.X
	}
	if id, ok := t.(*ast.Ident); ok {
		typ = id.Name
	}
	if len(f.Names) > 0 {
		name = f.Names[0].Name
	}
	return
}

func isSel(e ast.Expr, parts ...string) bool {
	// matches a.b.c selector chains
	for i := len(parts) - 1; i >= 1; i-- {
		s, ok := e.(*ast.SelectorExpr)
		if !ok || s.Sel.Name != parts[i] {
			return false
		}
		e = s.X
	}
	id, ok := e.(*ast.Ident)
	return ok && id.Name == parts[0]
}

var storeMethods = []string{"CheckAndSaveNonce", "GetNodeBalance", "AddNodeBalance", "GetAccountBalance",
	"AddAccountBalance", "AddAccountNode", "IsAccountNode", "GetAccountNodes", "ActiveHosts", "GetNode", "SetNode",
	"NodePeers", "UpdateNodePeers", "Stats"}

// txnShape: for every Store method of the badger driver, how many transactions it runs
// (s.db.Update / s.db.View, or the driver's own single-transaction wrappers) and how many
// key writes happen lexically outside a transaction closure.
func txnShape(ctx *Ctx, b *strings.Builder) {
	_, f := parseFile(ctx.Repo, "pool/store/badger/badger.go")
	decls := map[string]*ast.FuncDecl{}
	for _, d := range f.Decls {
		if fd, ok := d.(*ast.FuncDecl); ok {
			if typ, _ := recvName(fd); typ == "badgerStore" {
				decls[fd.Name.Name] = fd
			}
		}
	}
	// wrappers: methods of badgerStore, not Store methods, that contain exactly one db txn call
	countDirect := func(fd *ast.FuncDecl) (upd, view int) {
		_, recv := recvName(fd)
		ast.Inspect(fd.Body, func(n ast.Node) bool {
			if c, ok := n.(*ast.CallExpr); ok {
				if isSel(c.Fun, recv, "db", "Update") {
					upd++
				} else if isSel(c.Fun, recv, "db", "View") {
					view++
				}
			}
			return true
		})
		return
	}
	isStore := map[string]bool{}
	for _, m := range storeMethods {
		isStore[m] = true
	}
	wrappers := map[string][2]int{}
	for name, fd := range decls {
		if isStore[name] || fd.Body == nil {
			continue
		}
		u, v := countDirect(fd)
		if u+v == 1 {
			wrappers[name] = [2]int{u, v}
		}
	}
	var lines []string
	for _, m := range storeMethods {
		fd := decls[m]
		if fd == nil {
			lines = append(lines, fmt.Sprintf("(%q, (0, 0, 1))", m)) // missing method: flagged
			continue
		}
		_, recv := recvName(fd)
		upd, view := countDirect(fd)
		outside := 0
		// calls to wrappers
		ast.Inspect(fd.Body, func(n ast.Node) bool {
			if c, ok := n.(*ast.CallExpr); ok {
				if s, ok := c.Fun.(*ast.SelectorExpr); ok {
					if id, ok := s.X.(*ast.Ident); ok && id.Name == recv {
						if w, ok := wrappers[s.Sel.Name]; ok {
							upd += w[0]
							view += w[1]
						}
					}
				}
			}
			return true
		})
		// writes outside of any function literal
		var walk func(n ast.Node, inLit bool)
		walk = func(n ast.Node, inLit bool) {
			ast.Inspect(n, func(x ast.Node) bool {
				switch v := x.(type) {
				case *ast.FuncLit:
					if !inLit {
						walk(v.Body, true)
						return false
					}
				case *ast.CallExpr:
					name := ""
					switch fn := v.Fun.(type) {
					case *ast.Ident:
						name = fn.Name
					case *ast.SelectorExpr:
						name = fn.Sel.Name
					}
					if !inLit && (name == "setItem" || name == "setExpiringItem" || name == "Set" || name == "SetEntry" || name == "Delete") {
						outside++
					}
				}
				return true
			})
		}
		walk(fd.Body, false)
		lines = append(lines, fmt.Sprintf("(%q, (%d, %d, %d))", m, upd, view, outside))
	}
	b.WriteString("(* badger driver: per Store method (update transactions, view transactions, writes outside a transaction) *)\n")
	b.WriteString("Definition txn_shape : list (string * (Z * Z * Z)) :=\n  [" + strings.Join(lines, ";\n   ") + "].\n\n")

	// Migrate runs in one update transaction
	_, mf := parseFile(ctx.Repo, "pool/store/badger/migration.go")
	mig := 0
	for _, d := range mf.Decls {
		if fd, ok := d.(*ast.FuncDecl); ok && fd.Name.Name == "Migrate" {
			ast.Inspect(fd.Body, func(n ast.Node) bool {
				if c, ok := n.(*ast.CallExpr); ok {
					if s, ok := c.Fun.(*ast.SelectorExpr); ok && s.Sel.Name == "Update" {
						mig++
					}
				}
				return true
			})
		}
	}
	fmt.Fprintf(b, "Definition migrate_txns : Z := %d.\n\n", mig)
}

// lockShape: for every method of the in-memory driver, whether every access to a field of the
// store happens with the store mutex held and the mutex is released on every way out.
func lockShape(ctx *Ctx, b *strings.Builder) {
	_, f := parseFile(ctx.Repo, "pool/store/memory/memory.go")
	var lines []string
	names := []string{}
	res := map[string]bool{}
	for _, d := range f.Decls {
		fd, ok := d.(*ast.FuncDecl)
		if !ok || fd.Body == nil {
			continue
		}
		typ, recv := recvName(fd)
		if typ != "memoryStore" || fd.Name.Name == "Close" {
			continue
		}
		touches := func(n ast.Node) bool {
			found := false
			ast.Inspect(n, func(x ast.Node) bool {
				if s, ok := x.(*ast.SelectorExpr); ok {
					if id, ok := s.X.(*ast.Ident); ok && id.Name == recv && s.Sel.Name != "mu" {
						found = true
					}
				}
				return true
			})
			return found
		}
		// every access to a field happens with the mutex held, and the mutex is released on every
		// way out (Lock; defer Unlock, or an explicit Unlock before each return): facts_lockflow.go
		usesState := touches(fd.Body)
		flowOK := lockFlowOK(fd.Body,
			func(e ast.Expr) bool { return isSel(e, recv, "mu", "Lock") },
			func(e ast.Expr) bool { return isSel(e, recv, "mu", "Unlock") }, touches)
		locked, okShape := flowOK, true
		_ = usesState
		names = append(names, fd.Name.Name)
		res[fd.Name.Name] = locked && okShape
	}
	sort.Strings(names)
	for _, n := range names {
		v := "false"
		if res[n] {
			v = "true"
		}
		lines = append(lines, fmt.Sprintf("(%q, %s)", n, v))
	}
	b.WriteString("(* memory driver: every field access of the method happens with the mutex held; it is released on every way out *)\n")
	b.WriteString("Definition lock_shape : list (string * bool) :=\n  [" + strings.Join(lines, ";\n   ") + "].\n\n")
}
