package main

import "strings"

// factsExtra appends structural facts (filled in per property).
func factsExtra(ctx *Ctx, b *strings.Builder) {}
