package main

import (
	"go/ast"
	"go/token"
)

// lockFlow: a small flow analysis over one function body. It answers: is every statement that
// `touches` (reads or writes the guarded state) executed while the mutex is held, and is the
// mutex released (explicitly, or by a deferred Unlock) on every way out? It accepts
// "Lock; defer Unlock; ..." as well as "Lock; ...; Unlock; return" on every path, and rejects
// a touch before the Lock, after an Unlock, an exit with the mutex held, a double Lock, an
// Unlock without a Lock, and branches that join with different lock states.
type lfState struct{ held, deferred bool }

type lockFlow struct {
	isLock, isUnlock func(ast.Expr) bool
	touches          func(ast.Node) bool
	bad              bool
}

func (lf *lockFlow) need(st lfState, n ast.Node) {
	if n != nil && lf.touches(n) && !st.held {
		lf.bad = true
	}
}

// block returns the state after the statements and whether every path through them left the function.
func (lf *lockFlow) block(stmts []ast.Stmt, st lfState) (lfState, bool) {
	for _, s := range stmts {
		var term bool
		st, term = lf.stmt(s, st)
		if term {
			return st, true
		}
	}
	return st, false
}

func (lf *lockFlow) merge(base lfState, outs []lfState, terms []bool) (lfState, bool) {
	var live []lfState
	for i, o := range outs {
		if !terms[i] {
			live = append(live, o)
		}
	}
	if len(live) == 0 {
		return base, true
	}
	for _, o := range live[1:] {
		if o != live[0] {
			lf.bad = true
		}
	}
	return live[0], false
}

func (lf *lockFlow) stmt(s ast.Stmt, st lfState) (lfState, bool) {
	switch v := s.(type) {
	case *ast.ExprStmt:
		if c, ok := v.X.(*ast.CallExpr); ok {
			if lf.isLock(c.Fun) {
				if st.held {
					lf.bad = true
				}
				st.held = true
				return st, false
			}
			if lf.isUnlock(c.Fun) {
				if !st.held || st.deferred {
					lf.bad = true
				}
				st.held = false
				return st, false
			}
		}
		lf.need(st, v)
	case *ast.DeferStmt:
		if lf.isUnlock(v.Call.Fun) {
			if !st.held {
				lf.bad = true
			}
			st.deferred = true
			return st, false
		}
		if lf.touches(v) { // a deferred closure touching the state runs at exit: only safe under a deferred unlock registered earlier
			if !st.deferred {
				lf.bad = true
			}
		}
	case *ast.ReturnStmt:
		lf.need(st, v)
		if st.held && !st.deferred {
			lf.bad = true
		}
		return st, true
	case *ast.BlockStmt:
		return lf.block(v.List, st)
	case *ast.IfStmt:
		if v.Init != nil {
			st, _ = lf.stmt(v.Init, st)
		}
		lf.need(st, v.Cond)
		s1, t1 := lf.block(v.Body.List, st)
		s2, t2 := st, false
		if v.Else != nil {
			s2, t2 = lf.stmt(v.Else, st)
		}
		return lf.merge(st, []lfState{s1, s2}, []bool{t1, t2})
	case *ast.ForStmt:
		if v.Init != nil {
			st, _ = lf.stmt(v.Init, st)
		}
		lf.need(st, v.Cond)
		if v.Post != nil {
			lf.need(st, v.Post)
		}
		out, term := lf.block(v.Body.List, st)
		if !term && out != st {
			lf.bad = true
		}
	case *ast.RangeStmt:
		lf.need(st, v.X)
		out, term := lf.block(v.Body.List, st)
		if !term && out != st {
			lf.bad = true
		}
	case *ast.SwitchStmt, *ast.TypeSwitchStmt, *ast.SelectStmt:
		var body *ast.BlockStmt
		hasDefault := false
		switch w := v.(type) {
		case *ast.SwitchStmt:
			if w.Init != nil {
				st, _ = lf.stmt(w.Init, st)
			}
			lf.need(st, w.Tag)
			body = w.Body
		case *ast.TypeSwitchStmt:
			lf.need(st, w.Assign)
			body = w.Body
		case *ast.SelectStmt:
			body = w.Body
			hasDefault = true // a select always takes one of its clauses
		}
		var outs []lfState
		var terms []bool
		for _, c := range body.List {
			var list []ast.Stmt
			switch cc := c.(type) {
			case *ast.CaseClause:
				for _, e := range cc.List {
					lf.need(st, e)
				}
				if cc.List == nil {
					hasDefault = true
				}
				list = cc.Body
			case *ast.CommClause:
				if cc.Comm != nil {
					lf.need(st, cc.Comm)
				}
				list = cc.Body
			}
			o, t := lf.block(list, st)
			outs, terms = append(outs, o), append(terms, t)
		}
		if !hasDefault {
			outs, terms = append(outs, st), append(terms, false)
		}
		return lf.merge(st, outs, terms)
	case *ast.BranchStmt:
		if v.Tok == token.GOTO {
			lf.bad = true
		}
	case *ast.LabeledStmt:
		return lf.stmt(v.Stmt, st)
	case *ast.GoStmt:
		if lf.touches(v) { // a goroutine outlives the critical section
			lf.bad = true
		}
	default:
		lf.need(st, s)
	}
	// a Lock or Unlock buried in an expression is not a shape this analysis follows
	ast.Inspect(s, func(n ast.Node) bool {
		if c, ok := n.(*ast.CallExpr); ok {
			if _, isStmt := s.(*ast.ExprStmt); !isStmt || s.(*ast.ExprStmt).X != ast.Expr(c) {
				if lf.isLock(c.Fun) || lf.isUnlock(c.Fun) {
					switch s.(type) {
					case *ast.IfStmt, *ast.ForStmt, *ast.RangeStmt, *ast.SwitchStmt, *ast.TypeSwitchStmt, *ast.SelectStmt, *ast.BlockStmt, *ast.LabeledStmt, *ast.DeferStmt:
						// handled through their sub-statements
					default:
						lf.bad = true
					}
				}
			}
		}
		return true
	})
	return st, false
}

// lockFlowOK runs the analysis over a whole function body.
func lockFlowOK(body *ast.BlockStmt, isLock, isUnlock func(ast.Expr) bool, touches func(ast.Node) bool) bool {
	lf := &lockFlow{isLock: isLock, isUnlock: isUnlock, touches: touches}
	st, term := lf.block(body.List, lfState{})
	if !term && st.held && !st.deferred {
		lf.bad = true
	}
	return !lf.bad
}
