package main

import (
	"context"
	"encoding/json"
	"fmt"
	"reflect"
	"strings"
	"time"

	"github.com/vipnode/vipnode/v2/jsonrpc2"
	"github.com/vipnode/vipnode/v2/pool"
)

// signedMethods lists, by reflection, every method of a served object that takes the signed
// triple (signature, identity, nonce) first: whatever the object gains, the list follows.
func signedMethods(recv interface{}) []reflect.Method {
	var out []reflect.Method
	t := reflect.TypeOf(recv)
	ctxT := reflect.TypeOf((*context.Context)(nil)).Elem()
	for k := 0; k < t.NumMethod(); k++ {
		m := t.Method(k)
		var ins []reflect.Type
		for j := 1; j < m.Type.NumIn(); j++ {
			if m.Type.In(j) != ctxT {
				ins = append(ins, m.Type.In(j))
			}
		}
		if len(ins) >= 3 && ins[0].Kind() == reflect.String && ins[1].Kind() == reflect.String && ins[2].Kind() == reflect.Int64 {
			out = append(out, m)
		}
	}
	return out
}

// c06Unfamiliar: requests that must be refused, in the shapes a fixed list of endpoints and of
// well-formed identities does not reach: (a) every signed method the pool and the payment service
// have (found by reflection, so also ones added later), named as the transport would name them,
// with a signature that does not verify, naming a registered host, over the host's own connection
// and over another one; (b) identities that are neither a wallet address nor a node id (a 64-digit
// hash id, a compressed key, an enode URL, 127 and 129 digits, blanks), any signature; (c) a
// signature that is genuine for one nonce, presented with a nonce next to it. Each is answered
// with an error and leaves records, ledger and registry as they were; the host stays reachable.
func c06Unfamiliar(ctx *Ctx, i int, drv int) {
	a := newAuthWorld(drv)
	defer a.Close()
	var mon, log []string
	hc := a.lastConn("h1")
	other := a.newConn("zz", "10.0.0.77:1")
	srvAll := &jsonrpc2.Server{} // the objects registered without an allow-list as well
	srvAll.Register("vipnode_", a.pool)
	srvAll.Register("pool_", a.pay)
	reachable := func() bool {
		a.takeCalls()
		cctx, cancel := context.WithTimeout(context.Background(), 8*time.Second)
		a.peerCtx(cctx, "c2", 2, "geth")
		cancel()
		for _, c := range a.takeCalls() {
			if c.Method == "whitelist" && strings.HasPrefix(c.Host, "h1#") {
				return true
			}
		}
		return false
	}
	try := func(what, method string, send func() error) {
		before := a.digest(a.nodes, a.wallets)
		err := safely(send)
		after := a.digest(a.nodes, a.wallets)
		log = append(log, fmt.Sprintf("%s %s: %v", method, what, err))
		if _, ok := err.(panicErr); ok {
			mon = append(mon, fmt.Sprintf("c06-refused-panicked: %s (%s) made the handler panic: %v", method, what, err))
			return
		}
		if err == nil {
			mon = append(mon, fmt.Sprintf("c04-forged-accepted: %s (%s) was answered without an error", method, what))
		}
		if before != after {
			mon = append(mon, fmt.Sprintf("c06-refused-left-trace: %s (%s) was answered with %v and changed the pool's state (records, ledger, statistics or registry)", method, what, err))
		}
	}
	// (a) every signed method of the served objects
	for _, recv := range []struct {
		prefix string
		obj    interface{}
		victim string
	}{{"vipnode_", a.pool, nodeIDOf("h1")}, {"pool_", a.pay, walletOf("w1")}} {
		for _, m := range signedMethods(recv.obj) {
			name := recv.prefix + strings.ToLower(m.Name[:1]) + m.Name[1:]
			// the remaining parameters: zero values of their types
			var extra []interface{}
			seen := 0
			ctxT := reflect.TypeOf((*context.Context)(nil)).Elem()
			for j := 1; j < m.Type.NumIn(); j++ {
				if m.Type.In(j) == ctxT {
					continue
				}
				seen++
				if seen > 3 {
					extra = append(extra, reflect.New(m.Type.In(j)).Elem().Interface())
				}
			}
			for k, sig := range []string{"", "AAAA", signNodeStyle(keyFor("h2"), name, recv.victim, 0, extra)} {
				nonce := a.nextNonce()
				params := append([]interface{}{sig, recv.victim, nonce}, extra...)
				what := []string{"empty signature", "garbage signature", "signed by another key"}[k] + " naming " + shortID(recv.victim)
				conn := []*hostConn{hc, other, other}[k]
				try(what+" over "+[]string{"the host's own connection", "another connection", "another connection"}[k], name, func() error {
					var res json.RawMessage
					cctx, cancel := context.WithTimeout(context.Background(), 8*time.Second)
					defer cancel()
					return conn.cliSide.Call(cctx, &res, name, params...)
				})
				// and on a server that registers the objects without an allow-list
				try(what+" (objects registered without an allow-list)", name, func() error {
					raw, _ := json.Marshal(params)
					var msg jsonrpc2.Message
					json.Unmarshal([]byte(fmt.Sprintf(`{"jsonrpc":"2.0","id":1,"method":%q,"params":%s}`, name, raw)), &msg)
					cctx := context.WithValue(context.Background(), struct{}{}, nil)
					resp := srvAll.Handle(cctx, &msg)
					if resp != nil && resp.Response != nil && resp.Response.Error != nil {
						return resp.Response.Error
					}
					return nil
				})
			}
			if !reachable() {
				mon = append(mon, fmt.Sprintf("c06-refused-left-trace: after refused %s calls naming host h1, h1 no longer receives whitelist instructions", name))
				break
			}
		}
	}
	// (b) identities that fit no signing scheme
	hex := nodeIDOf("h1")
	odd := []string{hex[:64], "02" + hex[:64], "enode://" + hex + "@10.1.1.1:30303", hex + "a", hex[:127], " " + hex, hex + " ", hex[:43], strings.Repeat("z", 128), "0x" + hex[:126]}
	for k, id := range odd {
		req := pool.ConnectRequest{VipnodeVersion: "verif", NodeInfo: userAgentFor("geth", k%2 == 0), NodeURI: "enode://" + hex + "@10.1.1.1:30303"}
		for j, sig := range []string{"", "AAAA", signNodeStyle(keyFor("h2"), "vipnode_connect", id, 7, []interface{}{req})} {
			nonce := a.nextNonce()
			what := fmt.Sprintf("identity %q (%d characters), %s", shortID(id), len(id), []string{"empty signature", "garbage signature", "another key's signature"}[j])
			try(what, "vipnode_connect", func() error {
				var res json.RawMessage
				cctx, cancel := context.WithTimeout(context.Background(), 8*time.Second)
				defer cancel()
				return other.cliSide.Call(cctx, &res, "vipnode_connect", sig, id, nonce, req)
			})
			try(what, "vipnode_update", func() error {
				_, err := a.pool.Update(context.Background(), sig, id, a.nextNonce(), pool.UpdateRequest{BlockNumber: 99999999})
				return err
			})
			try(what, "pool_addNode", func() error {
				return a.pay.AddNode(context.Background(), sig, id, a.nextNonce(), nodeIDOf("c2"))
			})
		}
	}
	// (c) a genuine signature presented with a neighbouring nonce (wallet- and node-signed)
	for _, base := range []int64{time.Now().UnixNano(), time.Now().UnixNano() / 1e6 * 1e6, time.Now().UnixNano() / 1e9 * 1e9} {
		for _, d := range []int64{1, 2, 3, 17, 100, 127, 255, 256, 1000, -1} {
			wallet := walletOf("w1")
			sig := signWalletStyle(keyFor("w1"), "pool_addNode", wallet, base, []interface{}{nodeIDOf("c2")})
			try(fmt.Sprintf("signature made for nonce %d presented with nonce %d", base, base+d), "pool_addNode", func() error {
				return a.pay.AddNode(context.Background(), sig, wallet, base+d, nodeIDOf("c2"))
			})
			ureq := pool.UpdateRequest{BlockNumber: 424242}
			nsig := signNodeStyle(keyFor("c2"), "vipnode_update", nodeIDOf("c2"), base, []interface{}{ureq})
			try(fmt.Sprintf("signature made for nonce %d presented with nonce %d", base, base+d), "vipnode_update", func() error {
				_, err := a.pool.Update(context.Background(), nsig, nodeIDOf("c2"), base+d, ureq)
				return err
			})
		}
	}
	// (d) a long run of refused requests naming one wallet, then the owner's own request: refused
	// requests leave no trace, so the owner is served as if they had never been sent
	{
		wallet := walletOf("w1")
		for k := 0; k < 160; k++ {
			sig := []string{"AAAA", "", signWalletStyle(keyFor("w2"), "pool_addNode", wallet, int64(k), []interface{}{nodeIDOf("c2")})}[k%3]
			if k%4 == 3 {
				a.pay.Withdraw(context.Background(), sig, wallet, a.nextNonce())
			} else {
				a.pay.AddNode(context.Background(), sig, wallet, a.nextNonce(), nodeIDOf("c2"))
			}
		}
		n := a.nextNonce()
		sig := signWalletStyle(keyFor("w1"), "pool_addNode", wallet, n, []interface{}{nodeIDOf("c2")})
		if err := a.pay.AddNode(context.Background(), sig, wallet, n, nodeIDOf("c2")); err != nil {
			mon = append(mon, fmt.Sprintf("c06-refused-left-trace: 160 requests naming wallet w1 were refused (garbage, empty and another key's signatures); the owner's own correctly signed pool_addNode right after them is refused too: %v", err))
		}
		log = append(log, "160 refused requests naming w1, then the owner's pool_addNode")
	}
	if len(mon) > 6 {
		mon = mon[:6]
	}
	if len(log) > 60 {
		log = append(log[:60], fmt.Sprintf("... %d more", len(log)-60))
	}
	ctx.Emit(Case{I: i, Kind: "refused-unfamiliar-" + driverNames[drv], Desc: map[string]interface{}{"requests": log}, Monitor: mon})
}
