package main

import (
	"fmt"
	"math/big"
	"math/rand"
	"sort"
	"strings"
	"time"

	"github.com/vipnode/vipnode/v2/pool"
	"github.com/vipnode/vipnode/v2/pool/balance"
	"github.com/vipnode/vipnode/v2/pool/store"
)

// POp is one pool-level operation in harness syntax (also the replay format).
type POp struct {
	Op      string   `json:"op"` // connect update addnode withdraw deposit advance refused peer
	Node    string   `json:"node,omitempty"`
	Host    bool     `json:"host,omitempty"`
	Kind    string   `json:"kind,omitempty"`
	Payout  string   `json:"payout,omitempty"`
	Peers   []string `json:"peers,omitempty"`
	Block   uint64   `json:"block,omitempty"`
	Elapsed int64    `json:"elapsed_ns,omitempty"` // update: balance clock = previous LastSeen + elapsed
	RealClk bool     `json:"real_clock,omitempty"` // update: balance manager reads the real clock
	Wallet  string   `json:"wallet,omitempty"`
	Amount  string   `json:"amount,omitempty"`
	Settle  bool     `json:"settle_ok,omitempty"`
	D       int64    `json:"d_ns,omitempty"`
	Forge   string   `json:"forge,omitempty"`
	Num     int      `json:"num,omitempty"`
	// observations
	Result string   `json:"result,omitempty"`
	Total  string   `json:"total_credit,omitempty"`
	Inv    []string `json:"invalid,omitempty"`
	Act    []string `json:"active,omitempty"`
	Disc   []string `json:"disconnect,omitempty"`
	NowS   int64    `json:"now_store,omitempty"`
	NowB   int64    `json:"now_balance,omitempty"`
	Charge string   `json:"charged,omitempty"`
	Calls  []string `json:"store_calls,omitempty"`
	opCoq  string
	trace  []string
}

var (
	poolHosts   = []string{"h1", "h2", "h3"}
	poolClients = []string{"c1", "c2", "c3"}
	poolWallets = []string{"w1", "w2", "w3"}
)

func (w *world) checkIn(name string) {
	if w.checkIns == nil {
		w.checkIns = map[string]time.Time{}
	}
	w.checkIns[name] = time.Now()
}

func poolNodes() []string { return append(append([]string{}, poolHosts...), poolClients...) }

// alias makes the real id/address strings intern to the same number as their logical names.
func (w *world) aliasAll() {
	for _, n := range poolNodes() {
		w.t.m[nodeIDOf(n)] = w.t.id(n)
	}
	for _, a := range poolWallets {
		w.t.m[walletOf(a)] = w.t.id(a)
	}
}

func presErr(e opErr) string {
	switch e.Class {
	case "low":
		return "(PLow " + cBig(e.Bal) + ")"
	case "unregistered":
		return "(PStoreErr EUnregistered)"
	case "cfg":
		return "PCfgErr"
	case "belowmin":
		return "(PBelowMin " + cBig(e.Bal) + ")"
	case "settle":
		return "PSettleFailed"
	case "disabled":
		return "PDisabled"
	}
	return "(PStoreErr EOther)"
}

func (w *world) names(ids []string) []string {
	r := make([]string, len(ids))
	for i, id := range ids {
		r[i] = w.nameOf(id, poolNodes())
	}
	return r
}

func (w *world) cNames(names []string) string {
	v := make([]int, len(names))
	for i, n := range names {
		v[i] = w.t.id(n)
	}
	return cNs(v)
}

// applyPOp executes one pool operation and renders (pop, pobs) for the model, plus monitor
// verdicts evaluated directly on the observations.
func (w *world) applyPOp(o *POp) (coq string, mon []string) {
	before := w.totalCredit()
	var opCoq, obsCoq string
	settledCredit := new(big.Int)
	switch o.Op {
	case "connect":
		if o.Host && w.lastConn(o.Node) == nil {
			w.newConn(o.Node, "10.0.0.7:4000")
		}
		uri := ""
		if o.Host {
			uri = "enode://" + nodeIDOf(o.Node) + "@10.1.1.1:30303"
		}
		var err error
		o.trace = w.traced(func() { _, err = w.connect(o.Node, o.Host, o.Kind, o.Payout, uri) })
		e := classify(err)
		nd, gerr := w.st.GetNode(store.NodeID(nodeIDOf(o.Node)))
		if gerr != nil {
			fatal("connect did not store node %s: %v / %v", o.Node, err, gerr)
		}
		opCoq = "OConnect " + w.t.nodeCoq(*nd)
		o.NowS = nd.LastSeen.UnixNano()
		// a registration is a check-in: the record carries the time of this registration, whatever
		// the node's history (a peer that just registered is live to everybody who reports it)
		if age := time.Since(nd.LastSeen); age > 10*time.Second || age < -10*time.Second {
			mon = append(mon, fmt.Sprintf("c11-registration-not-a-check-in: %s registered just now, its record says it was last seen %s ago: whoever reports it next will have it declared invalid", o.Node, age.Round(time.Second)))
		}
		res := "POk"
		if err != nil {
			res = presErr(e)
		}
		if err == nil {
			w.checkIn(o.Node)
		}
		o.Result = e.Class
		obsCoq = fmt.Sprintf("ObRes %s %s", res, cBig(w.totalCredit()))
		// C03 monitor: refused iff client and spendable balance below the minimum
		if w.min != nil {
			bal, _ := w.bstore.GetNodeBalance(nd.ID)
			sp := new(big.Int).Add(&bal.Credit, &bal.Deposit)
			below := sp.Cmp(w.min) < 0
			if o.Host && e.Class == "low" {
				mon = append(mon, fmt.Sprintf("c03-host-refused: host %s refused for its balance (%s < %s)", o.Node, sp, w.min))
			}
			if !o.Host && below != (e.Class == "low") {
				mon = append(mon, fmt.Sprintf("c03-connect-threshold: client %s spendable %s, minimum %s, refused=%v", o.Node, sp, w.min, e.Class == "low"))
			}
			if e.Class == "low" && e.Bal != nil && e.Bal.Cmp(sp) != 0 {
				mon = append(mon, fmt.Sprintf("c03-reported-balance: error reports %s, balance read back is %s", e.Bal, sp))
			}
		} else if e.Class == "low" {
			mon = append(mon, "c03-unset-minimum: low-balance refusal with no minimum configured")
		}
	case "update":
		id := store.NodeID(nodeIDOf(o.Node))
		prev, perr := w.st.GetNode(id)
		w.useRealClk = o.RealClk
		if perr == nil {
			w.clockNow = time.Unix(0, prev.LastSeen.UnixNano()+o.Elapsed)
		} else {
			w.clockNow = time.Now()
		}
		w.mu.Lock()
		w.clockReads = nil
		w.mu.Unlock()
		w.takeCalls()
		// balances before, for the C02 monitor
		univ := poolNodes()
		balBefore := map[string]*big.Int{}
		for _, n := range univ {
			if b, err := w.st.GetNodeBalance(store.NodeID(nodeIDOf(n))); err == nil {
				balBefore[n] = new(big.Int).Set(&b.Credit)
			}
		}
		// reported peers that are registered and checked in within the window: live, whatever the
		// style of the record that names them
		liveReported := map[string]bool{}
		for _, pn := range o.Peers {
			if pn == o.Node {
				continue
			}
			// (by the harness's own record of who checked in when, not by what the store says now)
			if _, e := w.st.GetNode(store.NodeID(nodeIDOf(pn))); e == nil {
				if at, ok := w.checkIns[pn]; ok && time.Since(at) < store.ExpireInterval-2*time.Second {
					liveReported[pn] = true
				}
			}
		}
		var resp *pool.UpdateResponse
		var err error
		o.trace = w.traced(func() { resp, err = w.update(o.Node, o.Peers, o.Block) })
		if w.updateCtxDone {
			// nobody waited for the hosts' answers: give the instructions time to arrive (until no
			// new call has shown up for a while; a loaded machine takes longer)
			last, quiet := -1, 0
			for t0 := time.Now(); time.Since(t0) < 2*time.Second && quiet < 3; {
				time.Sleep(40 * time.Millisecond)
				w.mu.Lock()
				n := len(w.calls)
				w.mu.Unlock()
				if n == last {
					quiet++
				} else {
					last, quiet = n, 0
				}
			}
		}
		e := classify(err)
		o.Result = e.Class
		nowS := int64(0)
		if after, aerr := w.st.GetNode(id); aerr == nil {
			nowS = after.LastSeen.UnixNano()
		}
		w.mu.Lock()
		nowB := w.clockNow.UnixNano()
		if len(w.clockReads) > 0 {
			nowB = w.clockReads[len(w.clockReads)-1]
		}
		w.mu.Unlock()
		o.NowS, o.NowB = nowS, nowB
		opCoq = fmt.Sprintf("OUpdate %s %s %s %s %s", cN(w.t.id(o.Node)), w.cNames(o.Peers), cN(int(o.Block)), cZ(nowS), cZ(nowB))
		var active []string
		if ps, perr2 := w.st.NodePeers(id); perr2 == nil {
			for _, p := range ps {
				active = append(active, w.nameOf(string(p.ID), univ))
			}
		}
		var disc []string
		for _, c := range w.takeCalls() {
			if c.Method == "disconnect" {
				disc = append(disc, strings.SplitN(c.Host, "#", 2)[0])
				if c.Arg != string(id) {
					mon = append(mon, fmt.Sprintf("c03-disconnect-arg: host %s asked to disconnect %q instead of the client", c.Host, c.Arg))
				}
			}
		}
		var res string
		var inv []string
		if err == nil {
			b := resp.Balance
			res = fmt.Sprintf("(PBal %s %s %s)", cN(w.t.id(string(b.Account))), cBig(&b.Credit), cBig(&b.Deposit))
			inv = w.names(resp.InvalidPeers)
			// C11 reply mapping: ActivePeers are the URIs of the tracked peers
			var uris []string
			if ps, _ := w.st.NodePeers(id); ps != nil {
				for _, p := range ps {
					uris = append(uris, p.URI)
				}
			}
			if strings.Join(sortedStrings(uris), "|") != strings.Join(sortedStrings(resp.ActivePeers), "|") {
				mon = append(mon, fmt.Sprintf("c11-active-reply: ActivePeers %q differ from the tracked peers' URIs %q", resp.ActivePeers, uris))
			}
		} else {
			res = presErr(e)
		}
		o.Inv, o.Act, o.Disc = inv, active, disc
		if err == nil || e.Class == "low" {
			w.checkIn(o.Node)
		}
		if perr == nil && (err == nil || e.Class == "low") {
			for pn := range liveReported {
				tracked := false
				for _, a := range active {
					if a == pn {
						tracked = true
					}
				}
				if !tracked {
					mon = append(mon, fmt.Sprintf("c11-reported-live-peer-not-tracked: %s reported %s, a registered node that checked in within the expiry window; after the keep-alive it is not among the tracked peers %v (nobody is credited for it, the client is not charged for it)", o.Node, pn, active))
				}
			}
		}
		obsCoq = fmt.Sprintf("ObUpdate %s %s %s %s %s", res, w.cNames(inv), w.cNames(active), w.cNames(disc), cBig(w.totalCredit()))
		// C02 monitor: per-peer credit and client debit equal floor(elapsed*price/interval)
		if perr == nil && !o.RealClk && (err == nil || e.Class == "low") {
			elapsed := big.NewInt(nowB - prev.LastSeen.UnixNano())
			c := new(big.Int).Mul(elapsed, w.price)
			c.Div(c, big.NewInt(int64(w.interval)))
			if prev.IsHost {
				c = new(big.Int)
			}
			mon = append(mon, w.c02Monitor(o, prev, active, c, balBefore)...)
		}
		// C03 monitor: cut off iff spendable balance after the charge is below the minimum
		if perr == nil && !prev.IsHost && (err == nil || e.Class == "low") {
			bal, _ := w.bstore.GetNodeBalance(id)
			sp := new(big.Int).Add(&bal.Credit, &bal.Deposit)
			unit := new(big.Int).Mul(big.NewInt(nowB-prev.LastSeen.UnixNano()), w.price)
			unit.Div(unit, big.NewInt(int64(w.interval)))
			charged := unit.Sign() != 0 // a keep-alive whose unit charge is zero bills nothing
			if w.min != nil && charged {
				below := sp.Cmp(w.min) < 0
				if below != (e.Class == "low") {
					mon = append(mon, fmt.Sprintf("c03-cutoff-threshold: client %s spendable %s after the charge, minimum %s, cut off=%v", o.Node, sp, w.min, e.Class == "low"))
				}
			}
			if e.Class == "low" && e.Bal != nil && e.Bal.Cmp(sp) != 0 {
				mon = append(mon, fmt.Sprintf("c03-reported-balance: error reports %s, balance read back is %s", e.Bal, sp))
			}
			if w.min == nil && e.Class == "low" {
				mon = append(mon, "c03-unset-minimum: low-balance cut-off with no minimum configured")
			}
		}
		if _, isLow := err.(balance.LowBalanceError); isLow {
			// every connected host peering with the client must have been asked once
			var want []string
			for _, a := range active {
				if w.lastConn(a) != nil {
					want = append(want, a)
				}
			}
			if strings.Join(sortedStrings(want), ",") != strings.Join(sortedStrings(disc), ",") {
				mon = append(mon, fmt.Sprintf("c03-cutoff-calls: asked %v to disconnect, connected active peers are %v", disc, want))
			}
		} else if len(disc) > 0 {
			mon = append(mon, fmt.Sprintf("c03-spurious-disconnect: hosts %v asked to disconnect without a cut-off", disc))
		}
	case "addnode":
		var err error
		o.trace = w.traced(func() { err = w.addNode(o.Wallet, o.Node) })
		e := classify(err)
		o.Result = e.Class
		opCoq = fmt.Sprintf("OAddNode %s %s", cN(w.t.id(o.Wallet)), cN(w.t.id(o.Node)))
		res := "POk"
		if err != nil {
			res = presErr(e)
		}
		obsCoq = fmt.Sprintf("ObRes %s %s", res, cBig(w.totalCredit()))
	case "withdraw":
		acct := store.Account(walletOf(o.Wallet))
		balRaw, _ := w.bstore.GetAccountBalance(acct)
		// deep copy at once: the drivers may hand out values sharing digit storage (see C10)
		balB := store.Balance{Account: balRaw.Account}
		balB.Credit.Set(&balRaw.Credit)
		balB.Deposit.Set(&balRaw.Deposit)
		w.mu.Lock()
		w.settleOK = o.Settle
		nlog := len(w.settleLog)
		w.mu.Unlock()
		var err error
		o.trace = w.traced(func() { err = w.withdraw(o.Wallet) })
		e := classify(err)
		o.Result = e.Class
		opCoq = fmt.Sprintf("OWithdraw %s %s", cN(w.t.id(o.Wallet)), cBool(o.Settle))
		res := ""
		w.mu.Lock()
		newCalls := w.settleLog[nlog:]
		w.mu.Unlock()
		paid := new(big.Int)
		for _, c := range newCalls {
			if c.OK {
				a, _ := new(big.Int).SetString(c.Amount, 10)
				paid.Add(paid, a)
			}
		}
		if err == nil {
			res = "(PPaid " + cBig(paid) + ")"
			settledCredit.Set(&balB.Credit)
			o.Charge = paid.String()
		} else {
			res = presErr(e)
		}
		obsCoq = fmt.Sprintf("ObRes %s %s", res, cBig(w.totalCredit()))
		mon = append(mon, w.c07Monitor(o, err, e, &balB, paid, newCalls)...)
	case "deposit":
		amt, _ := new(big.Int).SetString(o.Amount, 10)
		acct := store.Account(walletOf(o.Wallet))
		w.bstore.setDeposit(acct, new(big.Int).Add(w.bstore.deposit(acct), amt))
		opCoq = fmt.Sprintf("ODeposit %s %s", cN(w.t.id(o.Wallet)), cBig(amt))
		obsCoq = fmt.Sprintf("ObRes POk %s", cBig(w.totalCredit()))
	case "hangup":
		// the connection a host registered on goes away; the host may keep checking in elsewhere
		w.mu.Lock()
		n := len(w.conns[o.Node])
		w.mu.Unlock()
		if n > 0 {
			w.closeConn(o.Node, n-1)
		}
		opCoq = "OAdvance 0"
		obsCoq = fmt.Sprintf("ObRes POk %s", cBig(w.totalCredit()))
	case "peer":
		// a request for hosts: it changes nothing the ledger or the keep-alive bookkeeping sees
		var perr error
		o.trace = w.traced(func() { _, perr = w.peer(o.Node, o.Num, o.Kind) })
		o.Result = classify(perr).Class
		opCoq = "OAdvance 0"
		obsCoq = fmt.Sprintf("ObRes POk %s", cBig(w.totalCredit()))
	case "advance":
		for k, at := range w.checkIns {
			w.checkIns[k] = at.Add(-time.Duration(o.D))
		}
		shiftTime(w.st.Store, time.Duration(o.D))
		opCoq = "OAdvance " + cZ(o.D)
		obsCoq = fmt.Sprintf("ObRes POk %s", cBig(w.totalCredit()))
	default:
		fatal("unknown pool op %q", o.Op)
	}
	after := w.totalCredit()
	o.Total = after.String()
	// C01 monitor: the ledger total moves only by the credit a successful withdrawal settled
	want := new(big.Int).Sub(before, settledCredit)
	if after.Cmp(want) != 0 {
		mon = append(mon, fmt.Sprintf("c01-total-changed: %s of %s moved the ledger total from %s to %s (expected %s)", o.Op, o.Node+o.Wallet, before, after, want))
	}
	o.opCoq, o.Calls = opCoq, o.trace
	return fmt.Sprintf("(%s, %s)", opCoq, obsCoq), mon
}

// c02Monitor: each active peer's wallet/trial balance grew by c per peer it owns, the client
// paid the sum, nobody else moved (balances are per wallet once linked).
func (w *world) c02Monitor(o *POp, prev *store.Node, active []string, c *big.Int, before map[string]*big.Int) []string {
	var mon []string
	// owner key of a node: its wallet if linked, else itself
	owner := func(n string) string {
		b, err := w.st.GetNodeBalance(store.NodeID(nodeIDOf(n)))
		if err == nil && b.Account != "" {
			return "wallet:" + string(b.Account)
		}
		return "trial:" + n
	}
	delta := map[string]*big.Int{}
	add := func(k string, v *big.Int) {
		if delta[k] == nil {
			delta[k] = new(big.Int)
		}
		delta[k].Add(delta[k], v)
	}
	total := new(big.Int)
	for _, a := range active {
		add(owner(a), c)
		total.Add(total, c)
	}
	add(owner(o.Node), new(big.Int).Neg(total))
	seen := map[string]bool{}
	for _, n := range poolNodes() {
		b, err := w.st.GetNodeBalance(store.NodeID(nodeIDOf(n)))
		if err != nil || before[n] == nil {
			continue
		}
		k := owner(n)
		if seen[k] {
			continue
		}
		seen[k] = true
		got := new(big.Int).Sub(&b.Credit, before[n])
		want := delta[k]
		if want == nil {
			want = new(big.Int)
		}
		if got.Cmp(want) != 0 {
			mon = append(mon, fmt.Sprintf("c02-amount: keep-alive of %s (host=%v, elapsed %d ns, %d active peers, unit charge %s): balance of %s moved by %s, expected %s",
				o.Node, prev.IsHost, o.NowB-prev.LastSeen.UnixNano(), len(active), c, k, got, want))
		}
	}
	o.Charge = total.String()
	return mon
}

// c07Monitor: executed iff balance >= minimum (and settlement enabled and succeeding); pays
// balance - fee; afterwards nothing further to withdraw; on failure nothing paid or changed.
func (w *world) c07Monitor(o *POp, err error, e opErr, before *store.Balance, paid *big.Int, calls []settleCall) []string {
	var mon []string
	acct := store.Account(walletOf(o.Wallet))
	after, _ := w.bstore.GetAccountBalance(acct)
	spB := new(big.Int).Add(&before.Credit, &before.Deposit)
	spA := new(big.Int).Add(&after.Credit, &after.Deposit)
	if err == nil {
		want := new(big.Int).Set(spB)
		if w.pay.WithdrawFee != nil {
			want = w.pay.WithdrawFee(want)
		}
		if paid.Cmp(want) != 0 {
			mon = append(mon, fmt.Sprintf("c07-amount: paid %s, owed %s (balance %s)", paid, want, spB))
		}
		if spA.Sign() != 0 {
			mon = append(mon, fmt.Sprintf("c07-not-drained: wallet %s still holds %s after a successful withdrawal of %s", o.Wallet, spA, paid))
		}
		if w.pay.WithdrawMin != nil && spB.Cmp(w.pay.WithdrawMin) < 0 {
			mon = append(mon, fmt.Sprintf("c07-below-minimum-paid: balance %s below minimum %s was paid out", spB, w.pay.WithdrawMin))
		}
	} else {
		if paid.Sign() != 0 {
			mon = append(mon, fmt.Sprintf("c07-paid-on-failure: %s disbursed although the request failed (%s)", paid, e.Class))
		}
		if spA.Cmp(spB) != 0 {
			mon = append(mon, fmt.Sprintf("c07-balance-changed-on-failure: balance %s -> %s on a failed withdrawal (%s)", spB, spA, e.Class))
		}
		if e.Class == "belowmin" && w.pay.WithdrawMin != nil && spB.Cmp(w.pay.WithdrawMin) >= 0 {
			mon = append(mon, fmt.Sprintf("c07-refused-above-minimum: balance %s meets minimum %s but was refused", spB, w.pay.WithdrawMin))
		}
	}
	return mon
}

// ---------- configuration rendering ----------

func (c worldCfg) coq() string {
	opt := func(s *string) string {
		if s == nil {
			return "None"
		}
		v, _ := new(big.Int).SetString(*s, 10)
		return "(Some " + cBig(v) + ")"
	}
	price, _ := new(big.Int).SetString(c.Price, 10)
	fee := new(big.Int)
	if c.Fee != "" {
		fee.SetString(c.Fee, 10)
	}
	return fmt.Sprintf("{| p_X := %s; p_E := %s; p_price := %s; p_interval := %s; p_min := %s; p_wmin := %s; p_fee := %s; p_settle_enabled := %s |}",
		cZ(int64(store.ExpireInterval)), cZ(int64(store.ExpireNonce)), cBig(price), cZ(c.IntervalNs), opt(c.Min), opt(c.WMin), cBig(fee), cBool(c.Settle))
}

type poolDesc struct {
	Cfg worldCfg `json:"cfg"`
	Ops []*POp   `json:"ops"`
}

// runPoolSeq executes a pool history on a fresh world and renders a pool_case.
func runPoolSeq(cfg worldCfg, ops []*POp) (coq string, mon []string, done []*POp) {
	w := newWorld(cfg)
	defer w.Close()
	w.aliasAll()
	var items []string
	for _, o := range ops {
		c := *o
		item, m := w.applyPOp(&c)
		items = append(items, item)
		mon = append(mon, m...)
		done = append(done, &c)
	}
	coq = fmt.Sprintf("{| pc_cfg := %s; pc_ops := %s |}", cfg.coq(), cList(items))
	return
}

func strp(s string) *string { return &s }

var (
	priceChoices = []string{"1000", "1", "1000000000000000000", "18446744073709551617", "10000000000000000000000000000000000000000",
		"18446744073709551616", "18446744073709551616"} // with an elapsed time of exactly one interval the unit charge is 2^64
	elapsedChoices = []int64{0, 1e6, 30e9, 59999999999, 60e9, 61e9, 300e9, 4611686018427387904}
)

func genPoolCfg(rng *rand.Rand, drv int) worldCfg {
	cfg := worldCfg{Drv: drv, Price: priceChoices[rng.Intn(len(priceChoices))], IntervalNs: []int64{60e9, 60e9, 1e9, 3600e9}[rng.Intn(4)],
		Settle: rng.Intn(8) != 0}
	switch rng.Intn(8) {
	case 0:
		cfg.Min = strp("-5")
	case 1:
		cfg.Min = strp("0")
	case 2:
		cfg.Min = strp("1")
	case 3:
		cfg.Min = strp("-100000")
	case 4:
		cfg.Min = strp("1000000")
	case 5:
		cfg.Min = strp("-1000000000000000000")
	}
	switch rng.Intn(4) {
	case 0:
		cfg.WMin = strp("5000")
		cfg.Fee = "2500"
	case 1:
		cfg.WMin = strp("0")
	case 2:
		cfg.Fee = "1"
	}
	return cfg
}

// genPoolOp draws one pool operation given which nodes have connected so far.
func genPoolOp(rng *rand.Rand, connected map[string]bool, pos int) *POp {
	nodes := poolNodes()
	pickNode := func() string { return nodes[rng.Intn(len(nodes))] }
	isHost := func(n string) bool { return strings.HasPrefix(n, "h") }
	w := rng.Intn(100)
	if pos < 5 {
		w = rng.Intn(20)
	}
	switch {
	case w < 20:
		n := pickNode()
		connected[n] = true
		return &POp{Op: "connect", Node: n, Host: isHost(n), Kind: []string{"geth", "parity", ""}[rng.Intn(3)],
			Payout: []string{"", "", "w1", "w2"}[rng.Intn(4)]}
	case w < 62:
		n := pickNode()
		k := rng.Intn(5)
		var peers []string
		for i := 0; i < k; i++ {
			peers = append(peers, pickNode())
		}
		return &POp{Op: "update", Node: n, Peers: peers, Block: uint64(rng.Intn(100)), Elapsed: elapsedChoices[rng.Intn(len(elapsedChoices))]}
	case w < 72:
		return &POp{Op: "addnode", Wallet: poolWallets[rng.Intn(len(poolWallets))], Node: pickNode()}
	case w < 80:
		return &POp{Op: "withdraw", Wallet: poolWallets[rng.Intn(len(poolWallets))], Settle: rng.Intn(4) != 0}
	case w < 86:
		return &POp{Op: "deposit", Wallet: poolWallets[rng.Intn(len(poolWallets))], Amount: []string{"1", "5000", "1000000", "100000000000000000000"}[rng.Intn(4)]}
	default:
		return &POp{Op: "advance", D: []int64{1e9, 30e9, 61e9, 121e9}[rng.Intn(4)]}
	}
}

func sortNames(v []string) []string { r := append([]string{}, v...); sort.Strings(r); return r }
