package main

import (
	"context"
	"fmt"
	"math/rand"
	"net"
	"net/http/httptest"
	"strings"
	"time"

	"github.com/vipnode/vipnode/v2/agent"
	"github.com/vipnode/vipnode/v2/ethnode"
	"github.com/vipnode/vipnode/v2/jsonrpc2"
	"github.com/vipnode/vipnode/v2/pool"
	"github.com/vipnode/vipnode/v2/pool/store"
)

// End to end, wired as the two binaries wire themselves: real agent.Agent instances over fake
// local nodes, each talking to the real VipnodePool through pool.Remote (the production signer,
// pool/remote.go) over a bidirectional jsonrpc2.Remote whose reverse service is the agent's own
// vipnode_whitelist. Nothing here is scripted by the harness except the local nodes.
// Monitors (model-free), by the property they belong to:
//   c04-: a request signed by the production client is accepted by the pool (registration,
//         keep-alives, peer requests: no verification failure anywhere);
//   c08-: every host a client's node was told to connect to had been told, before, to trust that
//         client, is a registered connected full node, and is not the client;
//   c19-: the address the client connects to is the address the pool stored for that host;
//   c18-: the agent asked for exactly its shortfall and connected to every returned host.

type e2eAgent struct {
	name    string
	host    bool
	node    *recNode
	ag      *agent.Agent
	remote  *jsonrpc2.Remote
	c1, c2  net.Conn
	started bool
}

func e2eRun(drv int, rng *rand.Rand) (map[string]interface{}, []string) {
	w := newWorld(worldCfg{Drv: drv, Price: "1000", IntervalNs: 60e9, Settle: true})
	defer w.Close()
	var mon []string
	nh := 1 + rng.Intn(3)
	var agents []*e2eAgent
	mk := func(name string, host bool, numHosts int) *e2eAgent {
		c1, c2 := net.Pipe()
		a := &e2eAgent{name: name, host: host, c1: c1, c2: c2}
		a.node = &recNode{kind: ethnode.Geth, full: host, connFail: -1}
		a.ag = &agent.Agent{EthNode: a.node, NumHosts: numHosts, UpdateInterval: time.Hour, Version: "verif"}
		if host {
			a.ag.NodeURI = fmt.Sprintf("enode://%s@10.9.%d.%d:30303", nodeIDOf(name), len(agents), 1+rng.Intn(200))
		}
		rpcServer := &jsonrpc2.Server{}
		if err := rpcServer.RegisterMethod("vipnode_whitelist", agent.Service(a.ag), "Whitelist"); err != nil {
			fatal("%v", err)
		}
		poolSide := &jsonrpc2.Remote{Codec: addrCodec{jsonrpc2.IOCodec(c1), fmt.Sprintf("10.8.0.%d:5000", len(agents)+1)}, Client: &jsonrpc2.Client{}, Server: w.server}
		a.remote = &jsonrpc2.Remote{Server: rpcServer, Client: &jsonrpc2.Client{}, Codec: jsonrpc2.IOCodec(c2)}
		go func() { poolSide.Serve(); w.pool.CloseRemote(poolSide) }()
		go a.remote.Serve()
		agents = append(agents, a)
		return a
	}
	verifyFailed := func(what string, err error) {
		if err == nil {
			return
		}
		if e := classify(err); e.Class == "verify" {
			mon = append(mon, fmt.Sprintf("c04-production-client-refused: %s, signed by pool.Remote (the agent's own client), was refused by the pool's verification: %v", what, err))
		}
	}
	// hosts first
	for k := 0; k < nh; k++ {
		a := mk(fmt.Sprintf("h%d", k+1), true, 0)
		err := a.ag.Start(pool.Remote(a.remote, keyFor(a.name)))
		a.started = err == nil
		verifyFailed("a host's registration / first keep-alive", err)
		if err != nil && len(mon) == 0 {
			mon = append(mon, fmt.Sprintf("c04-e2e-host-start: host %s could not start against the pool: %v", a.name, err))
		}
	}
	want := 1 + rng.Intn(3)
	c := mk("c1", false, want)
	var p pool.Pool = pool.Remote(c.remote, keyFor("c1"))
	overHTTP := rng.Intn(2) == 0
	if overHTTP {
		// a light client may use plain HTTP (agent.go): one request per call, no reverse service
		hs := &jsonrpc2.HTTPServer{}
		if err := hs.Register("vipnode_", w.pool, "connect", "disconnect", "ping", "update", "peer", "client", "host"); err != nil {
			fatal("register: %v", err)
		}
		ts := httptest.NewServer(hs)
		defer ts.Close()
		p = pool.Remote(&jsonrpc2.HTTPService{Endpoint: ts.URL}, keyFor("c1"))
	}
	err := c.ag.Start(p) // registers, sends the first keep-alive, asks for `want` hosts, connects to them
	c.started = err == nil
	verifyFailed("a client's registration / first keep-alive / peer request", err)
	clientID := nodeIDOf("c1")
	var connected []string
	for _, call := range c.node.take() {
		if strings.HasPrefix(call, "connect ") {
			connected = append(connected, strings.TrimPrefix(call, "connect "))
		}
	}
	exp := want
	if nh < exp {
		exp = nh
	}
	if err == nil && len(connected) != exp {
		mon = append(mon, fmt.Sprintf("c18-e2e-shortfall: the client wants %d hosts, %d are available: its node was told to connect to %d (%q)", want, nh, len(connected), connected))
	}
	for _, uri := range connected {
		var h *e2eAgent
		for _, a := range agents {
			if a.host && strings.Contains(uri, nodeIDOf(a.name)) {
				h = a
			}
		}
		if h == nil {
			mon = append(mon, fmt.Sprintf("c08-e2e-unknown-host: the client was told to connect to %q, which is none of the registered hosts", uri))
			continue
		}
		if strings.Contains(uri, clientID) {
			mon = append(mon, "c08-e2e-self: the client was told to connect to itself")
		}
		trusted := false
		for _, call := range h.node.take() {
			if call == "trust "+clientID {
				trusted = true
			}
		}
		if !trusted {
			mon = append(mon, fmt.Sprintf("c08-e2e-not-whitelisted: the client was told to connect to host %s, whose node was never told to trust the client", h.name))
		}
		nd, gerr := w.st.GetNode(store.NodeID(nodeIDOf(h.name)))
		if gerr != nil || nd.URI != uri {
			mon = append(mon, fmt.Sprintf("c19-e2e-address: the client connects to %q, the pool stored %v for that host (it registered with %q)", uri, nd, h.ag.NodeURI))
		} else if nd.URI != h.ag.NodeURI {
			mon = append(mon, fmt.Sprintf("c19-e2e-address: host %s registered with %q, the pool stored %q", h.name, h.ag.NodeURI, nd.URI))
		}
	}
	// more keep-alives from everybody: all signed by the production client, nonces from its clock
	rounds := 2 + rng.Intn(3)
	for r := 0; r < rounds; r++ {
		for _, a := range agents {
			var pr pool.Pool = pool.Remote(a.remote, keyFor(a.name))
			if a == c && overHTTP {
				pr = p
			}
			cctx, cancel := context.WithTimeout(context.Background(), 10*time.Second)
			err := a.ag.UpdatePeers(cctx, pr)
			cancel()
			verifyFailed(fmt.Sprintf("keep-alive %d of %s", r, a.name), err)
		}
	}
	// registrations as the store sees them
	for _, a := range agents {
		nd, gerr := w.st.GetNode(store.NodeID(nodeIDOf(a.name)))
		if gerr != nil {
			mon = append(mon, fmt.Sprintf("c04-e2e-not-registered: %s started against the pool but is not registered: %v", a.name, gerr))
		} else if nd.IsHost != a.host {
			mon = append(mon, fmt.Sprintf("c08-e2e-role: %s registered as host=%v", a.name, nd.IsHost))
		}
	}
	for _, a := range agents {
		if a.started {
			a.ag.Stop()
			a.ag.Wait()
		}
		a.c1.Close()
		a.c2.Close()
	}
	return map[string]interface{}{"hosts": nh, "client_wants": want, "connected_to": connected, "keepalive_rounds": rounds, "client_over_http": overHTTP, "start_error": fmt.Sprint(err)}, mon
}

func e2eCase(ctx *Ctx, i int, rng *rand.Rand, prefixes ...string) {
	drv := i % 2
	desc, mon := e2eRun(drv, rng)
	var mine []string
	for _, m := range mon {
		for _, p := range prefixes {
			if strings.HasPrefix(m, p) {
				mine = append(mine, m)
			}
		}
	}
	ctx.Emit(Case{I: i, Kind: "end-to-end-" + driverNames[drv], Desc: desc, Monitor: mine})
}
