package main

import (
	"encoding/json"
	"fmt"
	"sync"
	"time"

	"github.com/gorilla/websocket"
	"github.com/vipnode/vipnode/v2/ethnode"
	"github.com/vipnode/vipnode/v2/pool"
	"github.com/vipnode/vipnode/v2/request"
)

// c14Binary: the shipped pool, one WebSocket connection, many calls in flight on it at once: a
// client sends several dozen peer requests that all wait for a host that never answers its
// whitelist instruction (5 s each), then a ping on the same connection. "Any number of calls in
// flight": the ping's reply must not have to wait for the slow calls (their handlers may in turn
// be waiting for calls over this very connection: a cap on concurrent handlers per connection is
// a deadlock for nested call-backs).
func c14Binary(ctx *Ctx, i int) {
	bin, cleanup := buildBinary(ctx.Repo)
	defer cleanup()
	port, stop := startPoolBinary(bin)
	defer stop()
	var mon []string
	nonce := time.Now().UnixNano()
	var nmu sync.Mutex
	signed := func(who, method string, arg interface{}) string {
		nmu.Lock()
		nonce++
		n := nonce
		nmu.Unlock()
		id := nodeIDOf(who)
		sig, err := request.Sign(keyFor(who), method, id, n, arg)
		if err != nil {
			fatal("sign: %v", err)
		}
		b, _ := json.Marshal([]interface{}{sig, id, n, arg})
		return string(b)
	}
	dial := func() *websocket.Conn {
		c, _, err := websocket.DefaultDialer.Dial(fmt.Sprintf("ws://127.0.0.1:%d/", port), nil)
		if err != nil {
			fatal("ws dial: %v", err)
		}
		return c
	}
	// the host: registers, then reads the pool's instructions and never answers them
	hc := dial()
	defer hc.Close()
	hc.WriteMessage(websocket.TextMessage, []byte(fmt.Sprintf(`{"jsonrpc":"2.0","id":1,"method":"vipnode_connect","params":%s}`,
		signed("b14h", "vipnode_connect", pool.ConnectRequest{VipnodeVersion: "x", NodeURI: "enode://" + nodeIDOf("b14h") + "@10.4.4.4:30303", NodeInfo: ethnode.UserAgent{Kind: ethnode.Geth, IsFullNode: true}}))))
	instructions := 0
	var imu sync.Mutex
	hostReady := make(chan struct{}, 1)
	go func() {
		for {
			_, data, err := hc.ReadMessage()
			if err != nil {
				return
			}
			var m struct {
				ID     json.RawMessage `json:"id"`
				Method string          `json:"method"`
			}
			json.Unmarshal(data, &m)
			if m.Method != "" {
				imu.Lock()
				instructions++
				imu.Unlock()
			} else {
				select {
				case hostReady <- struct{}{}:
				default:
				}
			}
		}
	}()
	select {
	case <-hostReady:
	case <-time.After(3 * time.Second):
		fatal("host registration got no reply")
	}
	// the client
	cc := dial()
	defer cc.Close()
	var wmu sync.Mutex
	write := func(s string) {
		wmu.Lock()
		cc.WriteMessage(websocket.TextMessage, []byte(s))
		wmu.Unlock()
	}
	got := make(chan string, 256)
	go func() {
		for {
			_, data, err := cc.ReadMessage()
			if err != nil {
				return
			}
			var m struct {
				ID json.RawMessage `json:"id"`
			}
			json.Unmarshal(data, &m)
			got <- string(m.ID)
		}
	}()
	// two dozen light clients share the connection (nothing forbids it), so that their requests
	// do not compete for one identity's nonce order
	slow := 24
	for k := 0; k < slow; k++ {
		who := fmt.Sprintf("b14c%d", k)
		write(fmt.Sprintf(`{"jsonrpc":"2.0","id":"connect-%d","method":"vipnode_connect","params":%s}`, k,
			signed(who, "vipnode_connect", pool.ConnectRequest{VipnodeVersion: "x", NodeInfo: ethnode.UserAgent{Kind: ethnode.Geth}})))
		select {
		case <-got:
		case <-time.After(3 * time.Second):
			fatal("client registration got no reply")
		}
	}
	for k := 0; k < slow; k++ {
		who := fmt.Sprintf("b14c%d", k)
		write(fmt.Sprintf(`{"jsonrpc":"2.0","id":"slow-%d","method":"vipnode_peer","params":%s}`, k, signed(who, "vipnode_peer", pool.PeerRequest{Num: 1, Kind: "geth"})))
	}
	time.Sleep(500 * time.Millisecond) // let them reach the host
	imu.Lock()
	waiting := instructions
	imu.Unlock()
	t0 := time.Now()
	write(`{"jsonrpc":"2.0","id":"ping-after-slow","method":"vipnode_ping"}`)
	answered := time.Duration(-1)
	deadline := time.After(4 * time.Second)
wait:
	for {
		select {
		case id := <-got:
			if id == `"ping-after-slow"` {
				answered = time.Since(t0)
				break wait
			}
		case <-deadline:
			break wait
		}
	}
	if waiting >= 12 && (answered < 0 || answered > 2*time.Second) {
		took := "not within 4 s"
		if answered >= 0 {
			took = "after " + answered.Round(time.Millisecond).String()
		}
		mon = append(mon, fmt.Sprintf("c14-binary-connection-starved: with %d calls of one connection in flight (each waiting for a host that does not answer) a ping on the same connection was answered %s: the calls of one connection are not handled independently", waiting, took))
	}
	ctx.Emit(Case{I: i, Kind: "binary-calls-in-flight", Desc: map[string]interface{}{"slow_calls_sent": slow, "waiting_on_host": waiting, "ping_answered_ms": answered.Milliseconds()}, Monitor: mon})
}
