package main

import (
	"bytes"
	"encoding/json"
	"fmt"
	"io/ioutil"
	"net/http"
	"net/http/httptest"
	"os"
	"os/exec"
	"strings"
	"sync"
	"time"

	"github.com/ethereum/go-ethereum/crypto"
	"github.com/ethereum/go-ethereum/p2p/discv5"
	"github.com/gorilla/websocket"
)

// c15AgentBinary: the shipped `vipnode agent`, in front of a light and of a full local node
// (fakenode://), connects over WebSocket to a pool played by the harness. The pool answers the
// agent's calls and sends requests of its own (the documented vipnode_whitelist, an unknown
// method, a notification). Every request must get a reply carrying its id, and the agent must
// still be running afterwards.
func c15AgentBinary(ctx *Ctx, i int) {
	bin, cleanup := buildBinary(ctx.Repo)
	defer cleanup()
	dir, _ := ioutil.TempDir("", "vharness-agentbin")
	defer os.RemoveAll(dir)
	var mon []string
	var tried []string
	for _, full := range []bool{false, true} {
		key := keyFor(fmt.Sprintf("agentbin-%v", full))
		keyFile := fmt.Sprintf("%s/nodekey-%v", dir, full)
		if err := crypto.SaveECDSA(keyFile, key); err != nil {
			fatal("%v", err)
		}
		id := discv5.PubkeyID(&key.PublicKey).String()
		replies := make(chan map[string]json.RawMessage, 16)
		var once sync.Once
		upgrader := websocket.Upgrader{CheckOrigin: func(*http.Request) bool { return true }}
		srv := httptest.NewServer(http.HandlerFunc(func(w http.ResponseWriter, r *http.Request) {
			conn, err := upgrader.Upgrade(w, r, nil)
			if err != nil {
				return
			}
			defer conn.Close()
			var wmu sync.Mutex
			write := func(s string) {
				wmu.Lock()
				conn.WriteMessage(websocket.TextMessage, []byte(s))
				wmu.Unlock()
			}
			for {
				_, raw, err := conn.ReadMessage()
				if err != nil {
					return
				}
				var m map[string]json.RawMessage
				if json.Unmarshal(raw, &m) != nil {
					continue
				}
				if _, isReq := m["method"]; isReq {
					// the agent's own calls: answer with an empty result of the right shape
					if id, ok := m["id"]; ok {
						write(fmt.Sprintf(`{"jsonrpc":"2.0","id":%s,"result":{}}`, id))
					}
					once.Do(func() {
						go func() {
							time.Sleep(50 * time.Millisecond)
							write(`{"jsonrpc":"2.0","id":7001,"method":"vipnode_whitelist","params":["abcdef"]}`)
							write(`{"jsonrpc":"2.0","id":7002,"method":"vipnode_nosuchmethod","params":[]}`)
							write(`{"jsonrpc":"2.0","method":"vipnode_whitelist","params":["abcdef"]}`)
							write(`{"jsonrpc":"2.0","id":7003,"method":"vipnode_whitelist","params":[1,2,3]}`)
						}()
					})
					continue
				}
				replies <- m
			}
		}))
		rpc := "fakenode://" + id
		if full {
			rpc += "?fullnode=1"
		}
		cmd := exec.Command(bin, "agent", "--rpc", rpc, "--nodekey", keyFile, "ws"+strings.TrimPrefix(srv.URL, "http")+"/")
		var stderr bytes.Buffer
		cmd.Stderr = &stderr
		cmd.Stdout = &stderr
		if err := cmd.Start(); err != nil {
			fatal("agent binary: %v", err)
		}
		exited := make(chan struct{})
		go func() { cmd.Wait(); close(exited) }()
		got := map[string]bool{}
		deadline := time.After(6 * time.Second)
	collect:
		for len(got) < 3 {
			select {
			case m := <-replies:
				got[string(m["id"])] = true
			case <-exited:
				break collect
			case <-deadline:
				break collect
			}
		}
		what := fmt.Sprintf("vipnode agent in front of a %s node", map[bool]string{false: "light", true: "full"}[full])
		alive := true
		select {
		case <-exited:
			alive = false
		default:
		}
		tried = append(tried, fmt.Sprintf("%s: replies to %d of 3 requests, running afterwards: %v", what, len(got), alive))
		if !alive && (strings.Contains(stderr.String(), "panic") || strings.Contains(stderr.String(), "SIGSEGV")) {
			mon = append(mon, fmt.Sprintf("c15-crash: %s died when the pool sent it a request: %s", what, panicLine(stderr.String())))
		} else if len(got) < 3 {
			var missing []string
			for _, id := range []string{"7001", "7002", "7003"} {
				if !got[id] {
					missing = append(missing, id)
				}
			}
			mon = append(mon, fmt.Sprintf("c15-agent-binary-no-reply: %s did not answer the pool's requests with ids %v within 6 s (running: %v; output: %s)", what, missing, alive, lastLines(stderr.String(), 3)))
		}
		if alive {
			cmd.Process.Kill()
			<-exited
		}
		srv.Close()
	}
	ctx.Emit(Case{I: i, Kind: "agent-binary-requests", Desc: map[string]interface{}{"runs": tried}, Monitor: mon})
}

func lastLines(s string, n int) string {
	l := strings.Split(strings.TrimSpace(s), "\n")
	if len(l) > n {
		l = l[len(l)-n:]
	}
	return strings.Join(l, " | ")
}
