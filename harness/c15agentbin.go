package main

import (
	"bytes"
	"encoding/json"
	"fmt"
	"io/ioutil"
	"net/http"
	"net/http/httptest"
	"os"
	"os/exec"
	"strings"
	"sync"
	"time"

	"github.com/ethereum/go-ethereum/crypto"
	"github.com/ethereum/go-ethereum/p2p/discv5"
	"github.com/gorilla/websocket"
)

// c15AgentBinary: the shipped `vipnode agent`, in front of a light and of a full local node
// (fakenode://), connects over WebSocket to a pool played by the harness. The pool answers the
// agent's calls and sends requests of its own (the documented vipnode_whitelist, an unknown
// method, a notification). Every request must get a reply carrying its id, and the agent must
// still be running afterwards.
func c15AgentBinary(ctx *Ctx, i int) {
	bin, cleanup := buildBinary(ctx.Repo)
	defer cleanup()
	dir, _ := ioutil.TempDir("", "vharness-agentbin")
	defer os.RemoveAll(dir)
	var mon []string
	var tried []string
	for _, full := range []bool{false, true} {
		key := keyFor(fmt.Sprintf("agentbin-%v", full))
		keyFile := fmt.Sprintf("%s/nodekey-%v", dir, full)
		if err := crypto.SaveECDSA(keyFile, key); err != nil {
			fatal("%v", err)
		}
		id := discv5.PubkeyID(&key.PublicKey).String()
		replies := make(chan map[string]json.RawMessage, 16)
		var once sync.Once
		upgrader := websocket.Upgrader{CheckOrigin: func(*http.Request) bool { return true }}
		srv := httptest.NewServer(http.HandlerFunc(func(w http.ResponseWriter, r *http.Request) {
			conn, err := upgrader.Upgrade(w, r, nil)
			if err != nil {
				return
			}
			defer conn.Close()
			var wmu sync.Mutex
			write := func(s string) {
				wmu.Lock()
				conn.WriteMessage(websocket.TextMessage, []byte(s))
				wmu.Unlock()
			}
			for {
				_, raw, err := conn.ReadMessage()
				if err != nil {
					return
				}
				var m map[string]json.RawMessage
				if json.Unmarshal(raw, &m) != nil {
					continue
				}
				if _, isReq := m["method"]; isReq {
					// the agent's own calls: answer with an empty result of the right shape
					if id, ok := m["id"]; ok {
						write(fmt.Sprintf(`{"jsonrpc":"2.0","id":%s,"result":{}}`, id))
					}
					once.Do(func() {
						go func() {
							time.Sleep(50 * time.Millisecond)
							write(`{"jsonrpc":"2.0","id":7001,"method":"vipnode_whitelist","params":["abcdef"]}`)
							write(`{"jsonrpc":"2.0","id":7002,"method":"vipnode_nosuchmethod","params":[]}`)
							write(`{"jsonrpc":"2.0","method":"vipnode_whitelist","params":["abcdef"]}`)
							write(`{"jsonrpc":"2.0","id":7003,"method":"vipnode_whitelist","params":[1,2,3]}`)
						}()
					})
					continue
				}
				replies <- m
			}
		}))
		rpc := "fakenode://" + id
		if full {
			rpc += "?fullnode=1"
		}
		cmd := exec.Command(bin, "agent", "--rpc", rpc, "--nodekey", keyFile, "ws"+strings.TrimPrefix(srv.URL, "http")+"/")
		var stderr bytes.Buffer
		cmd.Stderr = &stderr
		cmd.Stdout = &stderr
		if err := cmd.Start(); err != nil {
			fatal("agent binary: %v", err)
		}
		exited := make(chan struct{})
		go func() { cmd.Wait(); close(exited) }()
		got := map[string]bool{}
		deadline := time.After(6 * time.Second)
	collect:
		for len(got) < 3 {
			select {
			case m := <-replies:
				got[string(m["id"])] = true
			case <-exited:
				break collect
			case <-deadline:
				break collect
			}
		}
		what := fmt.Sprintf("vipnode agent in front of a %s node", map[bool]string{false: "light", true: "full"}[full])
		alive := true
		select {
		case <-exited:
			alive = false
		default:
		}
		tried = append(tried, fmt.Sprintf("%s: replies to %d of 3 requests, running afterwards: %v", what, len(got), alive))
		if !alive && (strings.Contains(stderr.String(), "panic") || strings.Contains(stderr.String(), "SIGSEGV")) {
			mon = append(mon, fmt.Sprintf("c15-crash: %s died when the pool sent it a request: %s", what, panicLine(stderr.String())))
		} else if len(got) < 3 {
			var missing []string
			for _, id := range []string{"7001", "7002", "7003"} {
				if !got[id] {
					missing = append(missing, id)
				}
			}
			mon = append(mon, fmt.Sprintf("c15-agent-binary-no-reply: %s did not answer the pool's requests with ids %v within 6 s (running: %v; output: %s)", what, missing, alive, lastLines(stderr.String(), 3)))
		}
		if alive {
			cmd.Process.Kill()
			<-exited
		}
		srv.Close()
	}
	ctx.Emit(Case{I: i, Kind: "agent-binary-requests", Desc: map[string]interface{}{"runs": tried}, Monitor: mon})
}

func lastLines(s string, n int) string {
	l := strings.Split(strings.TrimSpace(s), "\n")
	if len(l) > n {
		l = l[len(l)-n:]
	}
	return strings.Join(l, " | ")
}

// c18AgentBinary: the shipped `vipnode agent` with --min-peers N against a pool (played by the
// harness) that lists no active peers: the agent must ask for exactly N hosts (N > 0), and for
// none when N is 0 -- the target is what the operator configured, the documented default (3) only
// when nothing was configured.
func c18AgentBinary(ctx *Ctx, i int) {
	bin, cleanup := buildBinary(ctx.Repo)
	defer cleanup()
	dir, _ := ioutil.TempDir("", "vharness-agentbin18")
	defer os.RemoveAll(dir)
	var mon []string
	var runs []string
	for _, tc := range []struct {
		flag string
		want int // hosts asked for; 0 = no peer request at all
	}{{"--min-peers=0", 0}, {"--min-peers=2", 2}, {"", 3}, {"--min-peers=5", 5}} {
		key := keyFor("agentbin18" + tc.flag)
		keyFile := fmt.Sprintf("%s/nodekey%d", dir, len(runs))
		if err := crypto.SaveECDSA(keyFile, key); err != nil {
			fatal("%v", err)
		}
		id := discv5.PubkeyID(&key.PublicKey).String()
		var mu sync.Mutex
		asked := []int{}
		updates := 0
		upgrader := websocket.Upgrader{CheckOrigin: func(*http.Request) bool { return true }}
		srv := httptest.NewServer(http.HandlerFunc(func(w http.ResponseWriter, r *http.Request) {
			conn, err := upgrader.Upgrade(w, r, nil)
			if err != nil {
				return
			}
			defer conn.Close()
			for {
				_, raw, err := conn.ReadMessage()
				if err != nil {
					return
				}
				var m struct {
					ID     json.RawMessage   `json:"id"`
					Method string            `json:"method"`
					Params []json.RawMessage `json:"params"`
				}
				if json.Unmarshal(raw, &m) != nil || m.Method == "" {
					continue
				}
				result := "{}"
				switch m.Method {
				case "vipnode_update":
					mu.Lock()
					updates++
					mu.Unlock()
					result = `{"active_peers":[],"invalid_peers":[]}`
				case "vipnode_peer":
					var pr struct {
						Num int `json:"num"`
					}
					if len(m.Params) >= 4 {
						json.Unmarshal(m.Params[3], &pr)
					}
					mu.Lock()
					asked = append(asked, pr.Num)
					mu.Unlock()
					result = `{"peers":[]}`
				}
				conn.WriteMessage(websocket.TextMessage, []byte(fmt.Sprintf(`{"jsonrpc":"2.0","id":%s,"result":%s}`, m.ID, result)))
			}
		}))
		args := []string{"agent", "--rpc", "fakenode://" + id, "--nodekey", keyFile}
		if tc.flag != "" {
			args = append(args, tc.flag)
		}
		args = append(args, "ws"+strings.TrimPrefix(srv.URL, "http")+"/")
		cmd := exec.Command(bin, args...)
		var out bytes.Buffer
		cmd.Stderr, cmd.Stdout = &out, &out
		if err := cmd.Start(); err != nil {
			fatal("agent binary: %v", err)
		}
		// registration, then the first keep-alive (sent by Start itself), then the peer request if any
		for t := 0; t < 60; t++ {
			time.Sleep(50 * time.Millisecond)
			mu.Lock()
			done := updates >= 1
			mu.Unlock()
			if done {
				break
			}
		}
		time.Sleep(400 * time.Millisecond)
		cmd.Process.Kill()
		cmd.Wait()
		srv.Close()
		mu.Lock()
		got, ups := append([]int{}, asked...), updates
		mu.Unlock()
		label := tc.flag
		if label == "" {
			label = "(no --min-peers)"
		}
		runs = append(runs, fmt.Sprintf("%s: %d keep-alive(s), peer requests %v", label, ups, got))
		if ups == 0 {
			mon = append(mon, fmt.Sprintf("c18-agent-binary: vipnode agent %s sent no keep-alive within 3 s: %s", label, lastLines(out.String(), 2)))
			continue
		}
		switch {
		case tc.want == 0 && len(got) > 0:
			mon = append(mon, fmt.Sprintf("c18-binary-target: vipnode agent %s: the pool lists 0 active peers and the target is 0, yet the agent asked for %v more hosts", label, got))
		case tc.want > 0 && (len(got) == 0 || got[0] != tc.want):
			mon = append(mon, fmt.Sprintf("c18-binary-target: vipnode agent %s: the pool lists 0 active peers: the agent should ask for %d hosts, it asked for %v", label, tc.want, got))
		}
	}
	ctx.Emit(Case{I: i, Kind: "agent-binary-target", Desc: map[string]interface{}{"runs": runs}, Monitor: mon})
}
