package main

import (
	"context"
	"crypto/ecdsa"
	"encoding/base64"
	"encoding/hex"
	"encoding/json"
	"fmt"
	"math/rand"
	"strings"
	"time"

	"github.com/vipnode/vipnode/v2/ethnode"
	"github.com/vipnode/vipnode/v2/pool"
	"github.com/vipnode/vipnode/v2/pool/store"
	"github.com/vipnode/vipnode/v2/request"
)

func init() {
	commands["c04"] = runC04
	commands["c06"] = runC06
}

var authEndpoints = []string{"vipnode_connect", "vipnode_update", "vipnode_peer", "vipnode_host", "vipnode_client", "pool_addNode", "pool_withdraw"}

var forgeKinds = []string{"valid", "method", "identity", "otherkey", "nonce+1", "nonce-1", "param", "sigflip", "empty", "short",
	"badencoding", "truncated", "style", "stale", "replay", "oldformat", "respell", "zero-id"}

// AReq is one signed request as sent, plus how its signature was made.
type AReq struct {
	Field    int    `json:"changed_field,omitempty"`
	Endpoint string `json:"endpoint"`
	Identity string `json:"identity"` // logical name of the claimed identity
	Forge    string `json:"forge"`
	FlipPos  int    `json:"flip_pos,omitempty"`
	Signer   string `json:"signer"`
	SignedAs string `json:"signed_as,omitempty"` // what was signed, when it differs from what was sent
	Nonce    int64  `json:"nonce"`
	// observations
	Refused bool   `json:"refused"`
	Err     string `json:"error,omitempty"`
	Trace   string `json:"trace,omitempty"`
	Now     int64  `json:"now"`
}

type authWorld struct {
	forceBase, forceK int // param sweep: which base and which single field to change (0 = draw)
	*world
	nodes   []string
	wallets []string
	last    map[string]int64 // last nonce accepted per identity (harness view)
	prev    *sentReq         // previous valid request (for replays)
}

type sentReq struct {
	endpoint string
	sig      string
	id       string
	nonce    int64
	args     []interface{}
}

func newAuthWorld(drv int) *authWorld {
	w := newWorld(worldCfg{Drv: drv, Price: "1000", IntervalNs: 60e9, Settle: true})
	w.aliasAll()
	a := &authWorld{world: w, nodes: poolNodes(), wallets: poolWallets, last: map[string]int64{}}
	// a small live session: two hosts, two clients, a linked wallet with credit
	for _, o := range []*POp{{Op: "connect", Node: "h1", Host: true, Kind: "geth"}, {Op: "connect", Node: "h2", Host: true, Kind: "geth"},
		{Op: "connect", Node: "c1", Kind: "geth"}, {Op: "connect", Node: "c2", Kind: "geth"},
		{Op: "addnode", Wallet: "w1", Node: "h1"},
		{Op: "update", Node: "c1", Peers: []string{"h1", "h2"}, Elapsed: 0},
		{Op: "update", Node: "c1", Peers: []string{"h1", "h2"}, Elapsed: 300e9}} {
		w.applyPOp(o)
	}
	w.takeCalls()
	return a
}

func (a *authWorld) realID(name string) string {
	if strings.HasPrefix(name, "w") {
		return walletOf(name)
	}
	return nodeIDOf(name)
}

// argsFor builds the parameter list of an endpoint: variant 0 (and, for vipnode_connect, 100: a
// node of a kind and on a network the code has no name for) is what is sent; variant base+k is
// the same with ONE field changed, for every field of the request in turn (k = 1 .. argVariants).
func argVariants(endpoint string) int {
	switch endpoint {
	case "vipnode_connect":
		return 8
	case "vipnode_update":
		return 4
	case "vipnode_peer", "vipnode_client":
		return 2
	case "vipnode_host":
		return 3
	case "pool_addNode":
		return 1
	}
	return 0
}

func (a *authWorld) argsFor(endpoint string, variant int) []interface{} {
	base, k := (variant/100)*100, variant%100
	switch endpoint {
	case "vipnode_connect":
		r := pool.ConnectRequest{VipnodeVersion: "verif", NodeInfo: ethnode.UserAgent{Kind: ethnode.Geth, Network: 1, Version: "Geth/v1.9", EthProtocol: "63", IsFullNode: false}}
		if base == 100 {
			r.NodeInfo.Kind, r.NodeInfo.Network = 7, 61
		}
		switch k {
		case 1:
			r.Payout = walletOf("w2")
		case 2:
			r.VipnodeVersion = "verif2"
		case 3:
			r.NodeInfo.Version = "Geth/v1.8"
		case 4:
			r.NodeInfo.EthProtocol = "64"
		case 5: // another kind: a named one for a named one, an unnamed one for an unnamed one
			if base == 100 {
				r.NodeInfo.Kind = 9
			} else {
				r.NodeInfo.Kind = ethnode.Parity
			}
		case 6:
			if base == 100 {
				r.NodeInfo.Network = 1337
			} else {
				r.NodeInfo.Network = 3
			}
		case 7:
			r.NodeURI = "enode://" + a.realID("c1") + "@9.9.9.9:30303"
		case 8:
			r.NodeInfo.Network = r.NodeInfo.Network + 1000000
		}
		return []interface{}{r}
	case "vipnode_update":
		pi := peerInfos([]string{nodeIDOf("h1")})
		pi[0].Name = "Geth/v1.9"
		r := pool.UpdateRequest{PeerInfo: pi, BlockNumber: 7}
		switch k {
		case 1:
			r.BlockNumber = 8
		case 2:
			r.PeerInfo = peerInfos([]string{nodeIDOf("h2")})
			r.PeerInfo[0].Name = "Geth/v1.9"
		case 3:
			r.PeerInfo[0].Name = "Geth/v1.8"
		case 4:
			r.PeerInfo = append(r.PeerInfo, peerInfos([]string{nodeIDOf("h2")})...)
		}
		return []interface{}{r}
	case "vipnode_peer":
		r := pool.PeerRequest{Num: 3, Kind: "geth"}
		switch k {
		case 1:
			r.Num = 2
		case 2:
			r.Kind = "parity"
		}
		return []interface{}{r}
	case "vipnode_host":
		r := pool.HostRequest{Kind: "geth", NodeURI: "enode://x@9.9.9.9:30303"}
		switch k {
		case 1:
			r.Payout = walletOf("w2")
		case 2:
			r.Kind = "parity"
		case 3:
			r.NodeURI = "enode://x@9.9.9.8:30303"
		}
		return []interface{}{r}
	case "vipnode_client":
		r := pool.ClientRequest{Kind: "geth", NumHosts: 3}
		switch k {
		case 1:
			r.NumHosts = 2
		case 2:
			r.Kind = "parity"
		}
		return []interface{}{r}
	case "pool_addNode":
		if k == 1 {
			return []interface{}{nodeIDOf("c2")}
		}
		return []interface{}{nodeIDOf("c1")}
	}
	return nil
}

// oldArgs is the deprecated vipnode_update parameter format.
type oldUpdate struct {
	Peers       []string `json:"peers"`
	BlockNumber uint64   `json:"block_number"`
}

func renderArgs(args []interface{}) string {
	b, _ := json.Marshal(args)
	return string(b)
}

func isWalletEndpoint(e string) bool { return strings.HasPrefix(e, "pool_") }

type panicErr struct{ v interface{} }

func (p panicErr) Error() string { return fmt.Sprintf("PANIC: %v", p.v) }

func (a *authWorld) call(endpoint, sig, id string, nonce int64, args []interface{}) (err error) {
	ctx, cancel := context.WithTimeout(context.Background(), 8*time.Second)
	defer cancel()
	defer func() {
		if r := recover(); r != nil {
			err = panicErr{r}
		}
	}()
	switch endpoint {
	case "vipnode_connect":
		_, err := a.pool.Connect(ctx, sig, id, nonce, args[0].(pool.ConnectRequest))
		return err
	case "vipnode_update":
		_, err := a.pool.Update(ctx, sig, id, nonce, args[0].(pool.UpdateRequest))
		return err
	case "vipnode_peer":
		_, err := a.pool.Peer(ctx, sig, id, nonce, args[0].(pool.PeerRequest))
		return err
	case "vipnode_host":
		_, err := a.pool.Host(ctx, sig, id, nonce, args[0].(pool.HostRequest))
		return err
	case "vipnode_client":
		_, err := a.pool.Client(ctx, sig, id, nonce, args[0].(pool.ClientRequest))
		return err
	case "pool_addNode":
		return a.pay.AddNode(ctx, sig, id, nonce, args[0].(string))
	case "pool_withdraw":
		return a.pay.Withdraw(ctx, sig, id, nonce)
	}
	return fmt.Errorf("unknown endpoint")
}

func signNodeStyle(key *ecdsa.PrivateKey, method, id string, nonce int64, args []interface{}) string {
	s, err := request.NodeRequest{Method: method, NodeID: id, Nonce: nonce, ExtraArgs: args}.Sign(key)
	if err != nil {
		fatal("sign: %v", err)
	}
	return s
}
func signWalletStyle(key *ecdsa.PrivateKey, method, id string, nonce int64, args []interface{}) string {
	s, err := request.AddressRequest{Method: method, Address: id, Nonce: nonce, ExtraArgs: args}.Sign(key)
	if err != nil {
		fatal("sign: %v", err)
	}
	return s
}

// send builds, sends and observes one request; it returns the Gallina rendering for the model.
func (a *authWorld) send(rng *rand.Rand, endpoint, forge string) (*AReq, string, []string) {
	wallet := isWalletEndpoint(endpoint)
	idName := []string{"c1", "c2"}[rng.Intn(2)]
	other := "c2"
	if idName == "c2" {
		other = "c1"
	}
	if endpoint == "vipnode_host" {
		idName, other = "h2", "h1"
	}
	if wallet {
		idName, other = "w1", "w2"
	}
	id := a.realID(idName)
	argBase := 0
	if endpoint == "vipnode_connect" && rng.Intn(2) == 0 {
		argBase = 100
	}
	if a.forceK > 0 {
		argBase = a.forceBase
	}
	args := a.argsFor(endpoint, argBase)
	nonce := a.nextNonce()
	// what is signed: start from what is sent
	sMethod, sIDName, sNonce, sArgs, sKey := endpoint, idName, nonce, args, idName
	sStyleWallet := wallet
	garbage := false
	var oldRender string
	if endpoint == "vipnode_update" {
		u := args[0].(pool.UpdateRequest)
		oldRender = renderArgs([]interface{}{oldUpdate{u.Peers, u.BlockNumber}})
	}
	q := &AReq{Endpoint: endpoint, Identity: idName, Forge: forge}
	switch forge {
	case "method":
		sMethod = authEndpoints[(indexOf(authEndpoints, endpoint)+1+rng.Intn(len(authEndpoints)-1))%len(authEndpoints)]
	case "identity":
		sIDName, sKey = other, other
	case "otherkey":
		sKey = other
	case "nonce+1":
		sNonce = nonce - 1 // signed n-1, sent n
	case "nonce-1":
		sNonce = nonce + 1
	case "param":
		if len(args) == 0 {
			forge, q.Forge = "otherkey", "otherkey"
			sKey = other
		} else {
			kk := 1 + rng.Intn(argVariants(endpoint))
			if a.forceK > 0 {
				kk = a.forceK
			}
			sArgs = a.argsFor(endpoint, argBase+kk)
			q.Field = kk
		}
	case "style":
		sStyleWallet = !wallet
	case "stale":
		nonce = time.Now().UnixNano() - int64(store.ExpireNonce) - 5e9
		sNonce = nonce
	case "oldformat":
		if endpoint == "vipnode_update" {
			u := args[0].(pool.UpdateRequest)
			sArgs = []interface{}{oldUpdate{u.Peers, u.BlockNumber}}
		} else {
			forge, q.Forge = "valid", "valid"
		}
	}
	var sig string
	key := keyFor(sKey)
	if sStyleWallet {
		sig = signWalletStyle(key, sMethod, a.realID(sIDName), sNonce, sArgs)
	} else {
		sig = signNodeStyle(key, sMethod, a.realID(sIDName), sNonce, sArgs)
	}
	switch forge {
	case "sigflip":
		var raw []byte
		if sStyleWallet {
			raw, _ = hex.DecodeString(sig)
		} else {
			raw, _ = base64.StdEncoding.DecodeString(sig)
		}
		q.FlipPos = rng.Intn(64) // R or S; the recovery byte is not part of the signed value
		raw[q.FlipPos] ^= byte(1 << uint(rng.Intn(8)))
		if sStyleWallet {
			sig = hex.EncodeToString(raw)
		} else {
			sig = base64.StdEncoding.EncodeToString(raw)
		}
		garbage = true
	case "empty":
		sig, garbage = "", true
	case "short":
		sig, garbage = []string{"AAAA", "QUJD", "00", "0x"}[rng.Intn(4)], true
	case "badencoding":
		sig, garbage = "!!!not-base64-or-hex!!!", true
	case "truncated":
		sig, garbage = sig[:len(sig)/2], true
	case "replay":
		if a.prev == nil {
			forge, q.Forge = "valid", "valid"
		} else {
			endpoint, sig, id, nonce, args = a.prev.endpoint, a.prev.sig, a.prev.id, a.prev.nonce, a.prev.args
			q.Endpoint = endpoint
			for _, n := range append(a.nodes, a.wallets...) {
				if a.realID(n) == id {
					idName = n
				}
			}
			q.Identity = idName
			sMethod, sIDName, sNonce, sArgs, sKey = endpoint, idName, nonce, args, idName
			sStyleWallet = isWalletEndpoint(endpoint)
			wallet = sStyleWallet
			oldRender = ""
			if endpoint == "vipnode_update" {
				u := args[0].(pool.UpdateRequest)
				oldRender = renderArgs([]interface{}{oldUpdate{u.Peers, u.BlockNumber}})
			}
		}
	}
	if forge == "zero-id" {
		if wallet {
			// the all-zero wallet address with a well-formed 65-byte signature from which no key
			// can be recovered (zero R/S, an impossible recovery id, R and S above the group order)
			id = "0x" + strings.Repeat("0", 40)
			idName = "zero-wallet"
			q.Identity = idName
			raw := make([]byte, 65)
			switch rng.Intn(4) {
			case 0: // all zero
			case 1:
				raw[31], raw[63], raw[64] = 1, 1, 5
			case 2:
				for k := 0; k < 64; k++ {
					raw[k] = 0xff
				}
			default:
				raw[31], raw[63], raw[64] = 5, 2, byte(27+rng.Intn(2))
			}
			sig, garbage = hex.EncodeToString(raw), true
		} else {
			// the all-zero node id (not a curve point) with a well-formed signature that nobody made:
			// R is not the x-coordinate of a curve point, so no public key can be recovered from it
			id = strings.Repeat("0", 128)
			idName = "zero-node-id"
			q.Identity = idName
			raw := make([]byte, 65)
			raw[31] = []byte{5, 1, 2, 7, 11}[rng.Intn(5)]
			raw[63] = byte(1 + rng.Intn(3))
			raw[64] = byte(rng.Intn(2))
			sig, garbage = base64.StdEncoding.EncodeToString(raw), true
		}
	}
	if forge == "respell" {
		// the signed request is sent under another spelling of the same identity (hex letter case):
		// a different identity string, which the signature does not cover
		id = respell(id)
		idName = idName + "/respelled"
		q.Identity = idName
	}
	q.Signer, q.Nonce = sKey, nonce
	if sMethod != endpoint || sIDName != idName || sNonce != nonce || renderArgs(sArgs) != renderArgs(args) || sStyleWallet != wallet {
		q.SignedAs = fmt.Sprintf("%s %s %d %s wallet-style=%v", sMethod, sIDName, sNonce, renderArgs(sArgs), sStyleWallet)
	}
	before := a.digest(a.nodes, a.wallets)
	a.takeCalls()
	q.Now = time.Now().UnixNano()
	err := a.call(endpoint, sig, id, nonce, args)
	after := a.digest(a.nodes, a.wallets)
	calls := a.takeCalls()
	e := classify(err)
	q.Refused = e.Class == "verify"
	if err != nil {
		q.Err = e.Class + ": " + e.Text
	}
	var traces []string
	if before != after {
		traces = append(traces, "state changed")
	}
	for _, c := range calls {
		traces = append(traces, fmt.Sprintf("host %s got %s(%s)", c.Host, c.Method, a.nameOf(c.Arg, a.nodes)))
	}
	q.Trace = strings.Join(traces, "; ")
	if forge == "valid" || forge == "oldformat" {
		a.prev = &sentReq{endpoint, sig, id, nonce, args}
	}
	// monitors (model-free): an altered request must be refused and leave no trace
	var mon []string
	if pe, ok := err.(panicErr); ok {
		mon = append(mon, fmt.Sprintf("c04-panic: %s request with alteration %q made the handler panic: %v", endpoint, forge, pe.v))
	}
	altered := forge != "valid" && forge != "oldformat"
	if altered && !q.Refused {
		mon = append(mon, fmt.Sprintf("c04-forged-accepted: %s request with alteration %q was not refused by verification (result: %s)", endpoint, forge, q.Err))
	}
	if q.Refused && q.Trace != "" {
		mon = append(mon, fmt.Sprintf("c06-refused-left-trace: refused %s request (%s) left a trace: %s", endpoint, forge, q.Trace))
	}
	if altered && !q.Refused && q.Trace != "" {
		mon = append(mon, fmt.Sprintf("c06-forged-had-effect: %s request with alteration %q had an effect: %s", endpoint, forge, q.Trace))
	}
	if !altered && q.Refused {
		mon = append(mon, fmt.Sprintf("c04-valid-refused: correctly signed fresh %s request refused: %s", endpoint, q.Err))
	}
	// Gallina rendering
	t := a.t
	sigCoq := "Garbage"
	if !garbage {
		sigCoq = fmt.Sprintf("(Sig %s {| pl_wallet_style := %s; pl_method := %s; pl_id := %s; pl_nonce := %s; pl_params := %s |})",
			cN(t.id(sKey)), cBool(sStyleWallet), cN(t.id(sMethod)), cN(t.id(sIDName)), cZ(sNonce), cN(t.id(renderArgs(sArgs))))
	}
	old := 0
	if oldRender != "" {
		old = t.id(oldRender)
	}
	coq := fmt.Sprintf("{| q_method := %s; q_id := %s; q_nonce := %s; q_params := %s; q_params_old := %s; q_sig := %s; q_now := %s; q_refused := %s; q_trace := %s |}",
		cN(t.id(endpoint)), cN(t.id(idName)), cZ(nonce), cN(t.id(renderArgs(args))), cN(old), sigCoq, cZ(q.Now), cBool(q.Refused), cBool(q.Trace != ""))
	return q, coq, mon
}

// respell changes the letter case of the hex digits of an identity (keeping a 0x prefix).
func respell(id string) string {
	pre, body := "", id
	if strings.HasPrefix(id, "0x") {
		pre, body = "0x", id[2:]
	}
	if l := strings.ToLower(body); l != body {
		return pre + l
	}
	return pre + strings.ToUpper(body)
}

func indexOf(l []string, s string) int {
	for i, x := range l {
		if x == s {
			return i
		}
	}
	return 0
}

func (a *authWorld) caseCoq(items []string) string {
	var ws []int
	for _, w := range a.wallets {
		ws = append(ws, a.t.id(w))
	}
	return fmt.Sprintf("{| c4_E := %s; c4_wallets := %s; c4_reqs := %s |}", cZ(int64(store.ExpireNonce)), cNs(ws), cList(items))
}

// C04: every endpoint x every alteration.
// c04ParamSweep: for every endpoint, every field of its request changed alone (signed with the
// changed value, sent with the original): each must be refused.
func c04ParamSweep(ctx *Ctx, i int, drv int) {
	a := newAuthWorld(drv)
	defer a.Close()
	// every other sweep runs on a pool with a per-request cap on returned hosts: a configuration
	// of what is SERVED, which must not reach into what is verified (requests ask for 3, a
	// changed one for 2 = the cap)
	if i%4 >= 2 {
		a.pool.MaxRequestHosts = 2
	}
	rng := ctx.Sub(i)
	var items []string
	var reqs []*AReq
	var mon []string
	for _, ep := range authEndpoints {
		bases := []int{0}
		if ep == "vipnode_connect" {
			bases = []int{0, 100}
		}
		for _, b := range bases {
			for k := 1; k <= argVariants(ep); k++ {
				a.forceBase, a.forceK = b, k
				q, coq, m := a.send(rng, ep, "param")
				items = append(items, coq)
				reqs = append(reqs, q)
				mon = append(mon, m...)
			}
			a.forceK = 0
			q, coq, m := a.send(rng, ep, "valid")
			items = append(items, coq)
			reqs = append(reqs, q)
			mon = append(mon, m...)
		}
	}
	ctx.Emit(Case{I: i, Kind: "param-sweep-" + driverNames[drv], Coq: a.caseCoq(items), Desc: map[string]interface{}{"requests": reqs}, Monitor: mon})
}

// c04LayoutMix: one node alternates between the deprecated and the current layout of
// vipnode_update, with and without reported peers: every correctly signed fresh request is
// accepted, whatever the node sent before.
func c04LayoutMix(ctx *Ctx, i int, drv int) {
	a := newAuthWorld(drv)
	defer a.Close()
	rng := ctx.Sub(i)
	var mon []string
	var log []string
	id := a.realID("c1")
	for k := 0; k < 24; k++ {
		legacy := rng.Intn(2) == 0
		empty := rng.Intn(2) == 0
		if k < 4 { // the shortest mixes first
			legacy, empty = k%2 == 0, true
		}
		var peers []string
		if !empty {
			peers = []string{nodeIDOf("h1")}
		}
		req := pool.UpdateRequest{PeerInfo: peerInfos(peers), BlockNumber: uint64(100 + k)}
		nonce := a.nextNonce()
		var sig string
		if legacy {
			req.Peers = peers
			if req.Peers == nil {
				req.Peers = []string{}
			}
			req.PeerInfo = nil
			sig = signNodeStyle(keyFor("c1"), "vipnode_update", id, nonce, []interface{}{oldUpdate{req.Peers, req.BlockNumber}})
		} else {
			sig = signNodeStyle(keyFor("c1"), "vipnode_update", id, nonce, []interface{}{req})
		}
		err := a.call("vipnode_update", sig, id, nonce, []interface{}{req})
		log = append(log, fmt.Sprintf("layout=%s peers=%d: %v", map[bool]string{true: "deprecated", false: "current"}[legacy], len(peers), err))
		if classify(err).Class == "verify" {
			mon = append(mon, fmt.Sprintf("c04-valid-refused: keep-alive %d of the node (signed over the %s layout, %d peers, fresh nonce) was refused by verification: %v; earlier keep-alives: %v", k, map[bool]string{true: "deprecated", false: "current"}[legacy], len(peers), err, log))
			break
		}
		if k%6 == 5 { // re-register in between now and then
			args := a.argsFor("vipnode_connect", 0)
			n2 := a.nextNonce()
			a.call("vipnode_connect", signNodeStyle(keyFor("c1"), "vipnode_connect", id, n2, args), id, n2, args)
		}
	}
	ctx.Emit(Case{I: i, Kind: "layout-mix-" + driverNames[drv], Desc: map[string]interface{}{"keepalives": log}, Monitor: mon})
}

func runC04(ctx *Ctx) {
	n := ctx.N(24, 600)
	for k := 0; k < ctx.N(4, 40); k++ {
		if ctx.Want(n + 70 + k) {
			c04LayoutMix(ctx, n+70+k, k%2)
		}
	}
	for k := 0; k < 4; k++ {
		if ctx.Want(n + 50 + k) {
			c04ParamSweep(ctx, n+50+k, k%2)
		}
	}
	for k := 0; k < 2; k++ {
		if ctx.Want(n + 60 + k) {
			c06Unfamiliar(ctx, n+60+k, k)
		}
		if ctx.Want(n + 64 + k) {
			c04Leftovers(ctx, n+64+k, k)
		}
	}
	for c := 0; c < ctx.N(6, 60); c++ {
		if ctx.Want(n + 100 + c) {
			e2eCase(ctx, n+100+c, ctx.Sub(n+100+c), "c04-")
		}
	}
	forEachCase(ctx, n, func(i int, rng *rand.Rand) {
		drv := i % 2
		a := newAuthWorld(drv)
		defer a.Close()
		var items []string
		var reqs []*AReq
		var mon []string
		// each case covers all endpoints with a rotating subset of alterations, valid ones in between
		for k, ep := range authEndpoints {
			for j := 0; j < 5; j++ {
				forge := forgeKinds[(i*5+k*3+j*7+rng.Intn(len(forgeKinds)))%len(forgeKinds)]
				if j == 0 {
					forge = "valid"
				}
				q, coq, m := a.send(rng, ep, forge)
				items = append(items, coq)
				reqs = append(reqs, q)
				mon = append(mon, m...)
				ctx.Count("forge:" + q.Forge)
				ctx.Count("endpoint:" + ep)
			}
		}
		ctx.Emit(Case{I: i, Kind: "alterations-" + driverNames[drv], Coq: a.caseCoq(items), Desc: map[string]interface{}{"requests": reqs}, Monitor: mon})
	})
}

// C06: refused requests interleaved at any point of a valid session; afterwards the owner's
// request with a smaller but fresh nonce must still be accepted.
// c06HostConnection: refused requests arriving on the very connection a host is registered on
// (a replayed or mis-signed vipnode_connect / vipnode_host of that host): they leave no trace --
// the host stays registered and instructable on that connection.
func c06HostConnection(ctx *Ctx, i int, drv int) {
	a := newAuthWorld(drv)
	defer a.Close()
	rng := ctx.Sub(i)
	var mon []string
	var log []string
	hc := a.lastConn("h1")
	if hc == nil {
		fatal("h1 has no connection")
	}
	id := nodeIDOf("h1")
	for k := 0; k < 8; k++ {
		method := []string{"vipnode_connect", "vipnode_host"}[k%2]
		var arg interface{} = pool.ConnectRequest{VipnodeVersion: "verif", NodeInfo: userAgentFor("geth", true), NodeURI: "enode://" + id + "@10.1.1.1:30303"}
		if method == "vipnode_host" {
			arg = pool.HostRequest{Kind: "geth", NodeURI: "enode://" + id + "@10.1.1.1:30303"}
		}
		nonce := a.nextNonce()
		sig := signNodeStyle(keyFor("h1"), method, id, nonce, []interface{}{arg})
		what := ""
		switch rng.Intn(4) {
		case 0:
			what, sig = "garbage signature", "AAAA"
		case 1:
			what, sig = "signed by another key", signNodeStyle(keyFor("h2"), method, id, nonce, []interface{}{arg})
		case 2:
			what = "stale nonce"
			nonce = time.Now().UnixNano() - int64(store.ExpireNonce) - 5e9
			sig = signNodeStyle(keyFor("h1"), method, id, nonce, []interface{}{arg})
		default:
			what = "nonce below the last one"
			nonce = 5
			sig = signNodeStyle(keyFor("h1"), method, id, nonce, []interface{}{arg})
		}
		before := a.digest(a.nodes, a.wallets)
		var res json.RawMessage
		cctx, cancel := context.WithTimeout(context.Background(), 8*time.Second)
		err := hc.cliSide.Call(cctx, &res, method, sig, id, nonce, arg)
		cancel()
		after := a.digest(a.nodes, a.wallets)
		log = append(log, fmt.Sprintf("%s with %s over h1's own connection: %v", method, what, err))
		if err == nil {
			mon = append(mon, fmt.Sprintf("c04-forged-accepted: %s with %s was accepted", method, what))
		}
		if before != after {
			mon = append(mon, fmt.Sprintf("c06-refused-left-trace: a refused %s (%s) arriving on the connection host h1 is registered on changed the pool state (registry entries, records): a refused request has no effect, wherever it arrives", method, what))
		}
		// and the host is still instructable
		a.takeCalls()
		cctx, cancel = context.WithTimeout(context.Background(), 8*time.Second)
		a.peerCtx(cctx, "c2", 2, "geth")
		cancel()
		reached := false
		for _, c := range a.takeCalls() {
			if c.Method == "whitelist" && strings.HasPrefix(c.Host, "h1#") {
				reached = true
			}
		}
		if !reached {
			mon = append(mon, fmt.Sprintf("c06-refused-left-trace: after a refused %s (%s) on its connection, host h1 no longer receives whitelist instructions", method, what))
			break
		}
	}
	ctx.Emit(Case{I: i, Kind: "refused-on-host-connection-" + driverNames[drv], Desc: map[string]interface{}{"requests": log}, Monitor: mon})
}

// c06Crowd: a request carrying a few-minutes-old (still fresh) nonce is accepted; hundreds of
// other identities use the pool; the first request is replayed verbatim. It is a repeat: it must
// be refused and leave no trace, however busy the nonce table has been in between.
func c06Crowd(ctx *Ctx, i int, drv int) {
	a := newAuthWorld(drv)
	defer a.Close()
	var mon []string
	id := a.realID("c3")
	args := a.argsFor("vipnode_connect", 0)
	n0 := time.Now().UnixNano() - int64(5*time.Minute)
	sig := signNodeStyle(keyFor("c3"), "vipnode_connect", id, n0, args)
	first := a.call("vipnode_connect", sig, id, n0, args)
	crowd := 600
	for k := 0; k < crowd; k++ {
		if err := a.st.CheckAndSaveNonce(fmt.Sprintf("crowd-%d-%d", i, k), time.Now().UnixNano()); err != nil {
			fatal("crowd nonce: %v", err)
		}
	}
	before := a.digest(a.nodes, a.wallets)
	a.takeCalls()
	again := a.call("vipnode_connect", sig, id, n0, args)
	after := a.digest(a.nodes, a.wallets)
	if first != nil {
		mon = append(mon, fmt.Sprintf("c04-valid-refused: a correctly signed connect with a 5-minute-old nonce was refused: %v", first))
	} else {
		if classify(again).Class != "verify" {
			mon = append(mon, fmt.Sprintf("c06-replay-after-busy-period-accepted: a connect accepted with nonce %d was replayed verbatim after %d other identities had used the pool (%s driver): result %v instead of a verification failure", n0, crowd, driverNames[drv], again))
		}
		if before != after {
			mon = append(mon, "c06-refused-left-trace: the replayed connect changed the pool state")
		}
	}
	ctx.Emit(Case{I: i, Kind: "replay-after-crowd-" + driverNames[drv], Desc: map[string]interface{}{"other_identities": crowd, "first": fmt.Sprint(first), "replay": fmt.Sprint(again)}, Monitor: mon})
}

func runC06(ctx *Ctx) {
	n := ctx.N(30, 800)
	for drv := 0; drv < 2; drv++ {
		if ctx.Want(n + 50 + drv) {
			c06Crowd(ctx, n+50+drv, drv)
		}
		if ctx.Want(n + 60 + drv) {
			c06HostConnection(ctx, n+60+drv, drv)
		}
		if ctx.Want(n + 70 + drv) {
			c06Unfamiliar(ctx, n+70+drv, drv)
		}
	}
	forEachCase(ctx, n, func(i int, rng *rand.Rand) {
		drv := i % 2
		a := newAuthWorld(drv)
		defer a.Close()
		var items []string
		var reqs []*AReq
		var mon []string
		steps := 10 + rng.Intn(10)
		refusals := []string{"sigflip", "otherkey", "empty", "short", "badencoding", "truncated", "stale", "replay", "identity", "method", "param", "nonce+1", "respell", "zero-id"}
		for k := 0; k < steps; k++ {
			ep := authEndpoints[rng.Intn(len(authEndpoints))]
			forge := "valid"
			if rng.Intn(2) == 0 {
				forge = refusals[rng.Intn(len(refusals))]
			}
			q, coq, m := a.send(rng, ep, forge)
			items = append(items, coq)
			reqs = append(reqs, q)
			mon = append(mon, m...)
			ctx.Count("forge:" + q.Forge)
			if q.Forge != "valid" && q.Forge != "replay" && q.Forge != "stale" && rng.Intn(2) == 0 {
				// a forged request carrying a nonce far ahead, then the owner with an ordinary fresh nonce
				q2, coq2, m2 := a.sendAhead(rng, ep)
				items = append(items, coq2...)
				reqs = append(reqs, q2...)
				mon = append(mon, m2...)
			}
		}
		ctx.Emit(Case{I: i, Kind: "session-" + driverNames[drv], Coq: a.caseCoq(items), Desc: map[string]interface{}{"requests": reqs}, Monitor: mon})
	})
}

// sendAhead sends a garbage-signed request whose nonce is one minute in the future, then the
// legitimate owner's request with an ordinary (smaller, fresh) nonce.
func (a *authWorld) sendAhead(rng *rand.Rand, endpoint string) ([]*AReq, []string, []string) {
	saved := a.nonce
	a.nonce = time.Now().UnixNano() + int64(time.Minute)
	q1, c1, m1 := a.send(rng, endpoint, []string{"empty", "otherkey", "sigflip"}[rng.Intn(3)])
	victim := q1.Identity
	a.nonce = saved
	// the owner's next request: same identity; pick an endpoint that identity may call
	ep := endpoint
	q2, c2, m2 := a.sendAs(rng, ep, victim)
	var mon []string
	mon = append(mon, m1...)
	mon = append(mon, m2...)
	if q2.Refused {
		mon = append(mon, fmt.Sprintf("c06-nonce-burned: after a refused %s request (%s) with a larger nonce, the owner's correctly signed request with a smaller fresh nonce was refused: %s", endpoint, q1.Forge, q2.Err))
	}
	return []*AReq{q1, q2}, []string{c1, c2}, mon
}

// sendAs sends a valid request for a fixed identity.
func (a *authWorld) sendAs(rng *rand.Rand, endpoint, idName string) (*AReq, string, []string) {
	// send() picks identities itself; retry until it picks the wanted one (two candidates at most)
	for tries := 0; tries < 50; tries++ {
		st := rng.Int63()
		r2 := rand.New(rand.NewSource(st))
		wallet := isWalletEndpoint(endpoint)
		pick := []string{"c1", "c2"}[r2.Intn(2)]
		if endpoint == "vipnode_host" {
			pick = "h2"
		}
		if wallet {
			pick = "w1"
		}
		if pick == idName {
			return a.send(rand.New(rand.NewSource(st)), endpoint, "valid")
		}
	}
	return a.send(rng, endpoint, "valid")
}
