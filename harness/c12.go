package main

import (
	"strings"
	"fmt"
	"sync"
)

func init() { commands["c12"] = runC12 }

type storeDesc struct {
	Driver string `json:"driver"`
	Ops    []*SOp `json:"ops"`
}

// fixed scripted histories first (minimised disagreements kept as a corpus)
func c12Corpus() [][]*SOp {
	return [][]*SOp{
		{ // re-registering a node must not forget its tracked peers
			{Op: "SetNode", ID: "n1", Host: true}, {Op: "SetNode", ID: "n2"},
			{Op: "UpdatePeers", ID: "n2", Peers: []string{"n1"}}, {Op: "SetNode", ID: "n2"},
			{Op: "NodePeers", ID: "n2"}},
		{ // a wallet credited before any node is linked is not a trial balance
			{Op: "AddAcctBal", Acct: "w1", Amount: "5"}, {Op: "Stats"}, {Op: "GetAcctBal", Acct: "w1"}},
		{ // a node that reports itself is judged by the check-in it is making
			{Op: "SetNode", ID: "n1", AgeNs: 500e9}, {Op: "UpdatePeers", ID: "n1", Peers: []string{"n1"}},
			{Op: "NodePeers", ID: "n1"}},
		{ // trial credit migrates once; re-linking to another wallet moves only the link
			{Op: "SetNode", ID: "n1"}, {Op: "AddNodeBal", ID: "n1", Amount: "7"}, {Op: "AddAcctNode", Acct: "w1", ID: "n1"},
			{Op: "GetNodeBal", ID: "n1"}, {Op: "AddAcctNode", Acct: "w2", ID: "n1"}, {Op: "GetNodeBal", ID: "n1"},
			{Op: "GetAcctBal", Acct: "w1"}, {Op: "AddNodeBal", ID: "n1", Amount: "1"}, {Op: "GetAcctBal", Acct: "w2"},
			{Op: "Stats"}, {Op: "GetAcctNodes", Acct: "w1"}, {Op: "GetAcctNodes", Acct: "w2"}},
	}
}

// c12Lifecycles: identifiers are opaque strings to the store: the whole life of a node and of an
// account (register, credit, link, list, authorise, peer, statistics) must not depend on what
// characters their names contain -- separators of the driver's own key layout included
func c12Lifecycles() [][]*SOp {
	nodes := []string{"enode:n2", "::1", "trailing:", "a:b:c", "vip:node:n1", "n/1", "n%201", "n\x00", " n1", "N1", "nœud-1", strings.Repeat("ab", 150)}
	accts := []string{"", "w:1", "vip:balance:w1", "W1", "w1 ", "0xAbCdEf", "wœ"}
	var out [][]*SOp
	for k, n := range nodes {
		a := accts[k%len(accts)]
		t := nodes[(k+1)%len(nodes)]
		out = append(out, []*SOp{{Op: "SetNode", ID: n, Host: true, Kind: "geth"}, {Op: "AddNodeBal", ID: n, Amount: "7"},
			{Op: "AddAcctNode", Acct: a, ID: n}, {Op: "GetAcctNodes", Acct: a}, {Op: "IsAcctNode", Acct: a, ID: n}, {Op: "GetNodeBal", ID: n},
			{Op: "AddNodeBal", ID: n, Amount: "1"}, {Op: "GetAcctBal", Acct: a}, {Op: "SetNode", ID: t}, {Op: "UpdatePeers", ID: t, Peers: []string{n}},
			{Op: "NodePeers", ID: t}, {Op: "GetNode", ID: n}, {Op: "ActiveHosts", Kind: "geth", Limit: 5}, {Op: "Stats"},
			{Op: "AddAcctNode", Acct: accts[(k+3)%len(accts)], ID: n}, {Op: "GetAcctNodes", Acct: a}, {Op: "GetAcctNodes", Acct: accts[(k+3)%len(accts)]}, {Op: "GetNodeBal", ID: n}})
	}
	return out
}

func runC12(ctx *Ctx) {
	nseq := ctx.N(250, 6000)
	corpus := append(c12Corpus(), c12Lifecycles()...)
	type job struct {
		i   int
		ops []*SOp
	}
	jobs := make(chan job)
	var wg sync.WaitGroup
	for w := 0; w < 12; w++ {
		wg.Add(1)
		go func() {
			defer wg.Done()
			for j := range jobs {
				var projs [2][]string
				var cases [2]Case
				for drv := 0; drv < 2; drv++ {
					coq, p, done := runStoreSeq(drv, j.ops)
					projs[drv] = p
					cases[drv] = Case{I: 2*j.i + drv, Kind: "seq-" + driverNames[drv], Coq: coq,
						Desc: storeDesc{Driver: driverNames[drv], Ops: done}}
				}
				for k := range projs[0] {
					if projs[0][k] != projs[1][k] {
						m := fmt.Sprintf("c12-drivers-disagree: op %d (%s): memory %q, badger %q", k, j.ops[k].Op, projs[0][k], projs[1][k])
						cases[0].Monitor = append(cases[0].Monitor, m)
						break
					}
				}
				ctx.Emit(cases[0])
				ctx.Emit(cases[1])
			}
		}()
	}
	for c := 0; c < nseq+len(corpus); c++ {
		if !ctx.Want(2*c) && !ctx.Want(2*c+1) {
			continue
		}
		var ops []*SOp
		if c < len(corpus) {
			ops = corpus[c]
		} else {
			rng := ctx.Sub(c)
			n := 12 + rng.Intn(28)
			for k := 0; k < n; k++ {
				o := genSOp(rng, k, true)
				ops = append(ops, o)
				ctx.Count("op:" + o.Op)
			}
		}
		jobs <- job{c, ops}
	}
	close(jobs)
	wg.Wait()
}
