package main

import (
	"fmt"
	"sort"
	"strings"
	"sync"
	"time"
)

func init() { commands["c12"] = runC12 }

type storeDesc struct {
	Driver string `json:"driver"`
	Ops    []*SOp `json:"ops"`
}

// fixed scripted histories first (minimised disagreements kept as a corpus)
func c12Corpus() [][]*SOp {
	return [][]*SOp{
		{ // re-registering a node must not forget its tracked peers
			{Op: "SetNode", ID: "n1", Host: true}, {Op: "SetNode", ID: "n2"},
			{Op: "UpdatePeers", ID: "n2", Peers: []string{"n1"}}, {Op: "SetNode", ID: "n2"},
			{Op: "NodePeers", ID: "n2"}},
		{ // a wallet credited before any node is linked is not a trial balance
			{Op: "AddAcctBal", Acct: "w1", Amount: "5"}, {Op: "Stats"}, {Op: "GetAcctBal", Acct: "w1"}},
		{ // a node that reports itself is judged by the check-in it is making
			{Op: "SetNode", ID: "n1", AgeNs: 500e9}, {Op: "UpdatePeers", ID: "n1", Peers: []string{"n1"}},
			{Op: "NodePeers", ID: "n1"}},
		{ // trial credit migrates once; re-linking to another wallet moves only the link
			{Op: "SetNode", ID: "n1"}, {Op: "AddNodeBal", ID: "n1", Amount: "7"}, {Op: "AddAcctNode", Acct: "w1", ID: "n1"},
			{Op: "GetNodeBal", ID: "n1"}, {Op: "AddAcctNode", Acct: "w2", ID: "n1"}, {Op: "GetNodeBal", ID: "n1"},
			{Op: "GetAcctBal", Acct: "w1"}, {Op: "AddNodeBal", ID: "n1", Amount: "1"}, {Op: "GetAcctBal", Acct: "w2"},
			{Op: "Stats"}, {Op: "GetAcctNodes", Acct: "w1"}, {Op: "GetAcctNodes", Acct: "w2"}},
		{ // the only tracked peer stops checking in: the keep-alive that prunes it leaves an empty set
			{Op: "SetNode", ID: "n1", Host: true}, {Op: "SetNode", ID: "n2"},
			{Op: "UpdatePeers", ID: "n2", Peers: []string{"n1"}}, {Op: "NodePeers", ID: "n2"},
			{Op: "Advance", D: 150e9}, {Op: "UpdatePeers", ID: "n2", Peers: []string{"n1"}},
			{Op: "NodePeers", ID: "n2"}, {Op: "SetNode", ID: "n1", Host: true},
			{Op: "UpdatePeers", ID: "n2", Peers: []string{}}, {Op: "NodePeers", ID: "n2"}, {Op: "Stats"}},
		{ // a tracked peer stays listed between the node's own check-ins, however old its entry
			{Op: "SetNode", ID: "n1", Host: true}, {Op: "SetNode", ID: "n2"}, {Op: "Advance", D: 100e9},
			{Op: "UpdatePeers", ID: "n2", Peers: []string{"n1"}}, {Op: "SetNode", ID: "n1", Host: true},
			{Op: "Advance", D: 30e9}, {Op: "NodePeers", ID: "n2"}, {Op: "Advance", D: 100e9}, {Op: "NodePeers", ID: "n2"}},
		{ // statistics right after a link folds a trial balance into a wallet, with no balance write in between
			{Op: "SetNode", ID: "n1"}, {Op: "SetNode", ID: "n2"}, {Op: "AddNodeBal", ID: "n1", Amount: "5"}, {Op: "AddNodeBal", ID: "n2", Amount: "3"},
			{Op: "Stats"}, {Op: "AddAcctNode", Acct: "w1", ID: "n1"}, {Op: "Stats"}, {Op: "AddAcctNode", Acct: "w1", ID: "n2"}, {Op: "Stats"},
			{Op: "AddAcctNode", Acct: "w2", ID: "n1"}, {Op: "Stats"}},
		{ // peers of different make: a full host with address, kind and payout, and a light client with none of them
			{Op: "SetNode", ID: "n1", Host: true, Kind: "geth", URI: "enode://n1@10.0.0.1:30303", Payout: "w1", Block: 77}, {Op: "SetNode", ID: "n2"},
			{Op: "SetNode", ID: "n4", Kind: "parity"}, {Op: "SetNode", ID: "n3"}, {Op: "UpdatePeers", ID: "n3", Peers: []string{"n1", "n2", "n4"}},
			{Op: "NodePeers", ID: "n3"}, {Op: "Reopen"}, {Op: "NodePeers", ID: "n3"}, {Op: "UpdatePeers", ID: "n2", Peers: []string{"n4", "n1"}}, {Op: "NodePeers", ID: "n2"}},
		{ // a keep-alive that lists nobody any more: every stored entry ages out together
			{Op: "SetNode", ID: "n1", Host: true}, {Op: "SetNode", ID: "n3", Host: true}, {Op: "SetNode", ID: "n2"},
			{Op: "UpdatePeers", ID: "n2", Peers: []string{"n1", "n3"}}, {Op: "Advance", D: 121e9},
			{Op: "SetNode", ID: "n1", Host: true}, {Op: "SetNode", ID: "n3", Host: true},
			{Op: "UpdatePeers", ID: "n2", Peers: []string{}}, {Op: "NodePeers", ID: "n2"},
			{Op: "UpdatePeers", ID: "n2", Peers: []string{"n3"}}, {Op: "NodePeers", ID: "n2"}},
	}
}

// c12Lifecycles: identifiers are opaque strings to the store: the whole life of a node and of an
// account (register, credit, link, list, authorise, peer, statistics) must not depend on what
// characters their names contain -- separators of the driver's own key layout included
func c12Lifecycles() [][]*SOp {
	nodes := []string{"enode:n2", "::1", "trailing:", "a:b:c", "vip:node:n1", "n/1", "n%201", "n\x00", " n1", "N1", "nœud-1", strings.Repeat("ab", 150)}
	accts := []string{"", "w:1", "vip:balance:w1", "W1", "w1 ", "0xAbCdEf", "wœ"}
	var out [][]*SOp
	for k, n := range nodes {
		a := accts[k%len(accts)]
		t := nodes[(k+1)%len(nodes)]
		out = append(out, []*SOp{{Op: "SetNode", ID: n, Host: true, Kind: "geth"}, {Op: "AddNodeBal", ID: n, Amount: "7"},
			{Op: "AddAcctNode", Acct: a, ID: n}, {Op: "GetAcctNodes", Acct: a}, {Op: "IsAcctNode", Acct: a, ID: n}, {Op: "GetNodeBal", ID: n},
			{Op: "AddNodeBal", ID: n, Amount: "1"}, {Op: "GetAcctBal", Acct: a}, {Op: "SetNode", ID: t}, {Op: "UpdatePeers", ID: t, Peers: []string{n}},
			{Op: "NodePeers", ID: t}, {Op: "GetNode", ID: n}, {Op: "ActiveHosts", Kind: "geth", Limit: 5}, {Op: "Stats"},
			{Op: "AddAcctNode", Acct: accts[(k+3)%len(accts)], ID: n}, {Op: "GetAcctNodes", Acct: a}, {Op: "GetAcctNodes", Acct: accts[(k+3)%len(accts)]}, {Op: "GetNodeBal", ID: n}})
	}
	return out
}

func runC12(ctx *Ctx) {
	nseq := ctx.N(250, 6000)
	corpus := append(c12Corpus(), c12Lifecycles()...)
	type job struct {
		i   int
		ops []*SOp
	}
	jobs := make(chan job)
	var wg sync.WaitGroup
	for w := 0; w < 12; w++ {
		wg.Add(1)
		go func() {
			defer wg.Done()
			for j := range jobs {
				var projs [2][]string
				var cases [2]Case
				for drv := 0; drv < 2; drv++ {
					coq, p, done := runStoreSeq(drv, j.ops)
					projs[drv] = p
					cases[drv] = Case{I: 2*j.i + drv, Kind: "seq-" + driverNames[drv], Coq: coq,
						Desc: storeDesc{Driver: driverNames[drv], Ops: done}}
					for _, d := range done {
						if d.Bad != "" {
							cases[drv].Monitor = append(cases[drv].Monitor, d.Bad+" ("+driverNames[drv]+" driver)")
							break
						}
					}
				}
				for k := range projs[0] {
					if projs[0][k] != projs[1][k] {
						m := fmt.Sprintf("c12-drivers-disagree: op %d (%s): memory %q, badger %q", k, j.ops[k].Op, projs[0][k], projs[1][k])
						cases[0].Monitor = append(cases[0].Monitor, m)
						break
					}
				}
				ctx.Emit(cases[0])
				ctx.Emit(cases[1])
			}
		}()
	}
	for c := 0; c < nseq+len(corpus); c++ {
		if !ctx.Want(2*c) && !ctx.Want(2*c+1) {
			continue
		}
		var ops []*SOp
		if c < len(corpus) {
			ops = corpus[c]
		} else {
			rng := ctx.Sub(c)
			n := 12 + rng.Intn(28)
			for k := 0; k < n; k++ {
				o := genSOp(rng, k, true)
				ops = append(ops, o)
				ctx.Count("op:" + o.Op)
			}
		}
		jobs <- job{c, ops}
	}
	close(jobs)
	for drv := 0; drv < 2; drv++ {
		if i := 2*(nseq+len(corpus)+2) + drv; ctx.Want(i) {
			reRegisterRace(ctx, i, drv, "c12")
		}
	}
	if i := 2 * (nseq + len(corpus) + 1); ctx.Want(i) {
		wg.Add(1)
		go func() { defer wg.Done(); c12NonceWindow(ctx, i) }()
	}
	wg.Wait()
}

// c12NonceWindow: the persistent driver forgets nonce entries after a while, the in-memory one
// never does; for as long as a nonce is inside its freshness window both must refuse a repeat of
// it. The window is shortened through the hook; the repeats are placed at every quarter of the
// window's last two seconds (the entry's expiry is kept at whole seconds by the database).
func c12NonceWindow(ctx *Ctx, i int) {
	type ttlSetter interface{ VerifSetNonceExpire(time.Duration) }
	win := 2 * time.Second
	var mon []string
	var log []string
	var mu sync.Mutex
	var rw sync.WaitGroup
	for round, frac := range [][2]float64{{0.55, 0.7}, {0.85, 0.92}, {0.1, 0.2}} {
		round, frac := round, frac
		rw.Add(1)
		go func() {
			defer rw.Done()
			bdg := newStore(drvBdg)
			mem := newStore(drvMem)
			bdg.Store.(ttlSetter).VerifSetNonceExpire(win)
			if m, ok := mem.Store.(ttlSetter); ok {
				m.VerifSetNonceExpire(win)
			}
			alignFrac(frac[0], frac[1])
			id := fmt.Sprintf("window-%d", round)
			n := time.Now().Add(-time.Millisecond).UnixNano()
			deadline := time.Unix(0, n).Add(win)
			eb, em := bdg.CheckAndSaveNonce(id, n), mem.CheckAndSaveNonce(id, n)
			if (eb == nil) != (em == nil) {
				mu.Lock()
				mon = append(mon, fmt.Sprintf("c12-drivers-disagree: first use of a fresh nonce: memory %v, badger %v", em, eb))
				mu.Unlock()
			}
			for q := 7; q >= 1; q-- {
				at := deadline.Add(-time.Duration(q) * 250 * time.Millisecond)
				if at.After(deadline.Add(-60 * time.Millisecond)) {
					continue
				}
				time.Sleep(time.Until(at))
				t := time.Now()
				eb, em = bdg.CheckAndSaveNonce(id, n), mem.CheckAndSaveNonce(id, n)
				left := deadline.Sub(time.Now())
				mu.Lock()
				log = append(log, fmt.Sprintf("round %d: repeat %s before the end of the window: memory %v, badger %v", round, deadline.Sub(t).Round(time.Millisecond), em, eb))
				mu.Unlock()
				if left < 40*time.Millisecond {
					continue // the machine stalled: too close to the deadline to mean anything
				}
				if (eb == nil) != (em == nil) {
					mu.Lock()
					mon = append(mon, fmt.Sprintf("c12-drivers-disagree: a nonce accepted %s ago (window %s, so still fresh for %s) is presented again: memory answers %v, badger answers %v", t.Sub(time.Unix(0, n)).Round(time.Millisecond), win, left.Round(time.Millisecond), em, eb))
					mu.Unlock()
					break
				}
			}
			bdg.Destroy()
			mem.Destroy()
		}()
	}
	rw.Wait()
	sort.Strings(log)
	ctx.Emit(Case{I: i, Kind: "nonce-window-both-drivers", Desc: map[string]interface{}{"window_ns": int64(win), "log": log}, Monitor: mon})
}
