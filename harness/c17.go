package main

import (
	"bytes"
	"compress/gzip"
	"context"
	"encoding/json"
	"fmt"
	"io"
	"io/ioutil"
	"math/rand"
	"net"
	"net/http"
	"net/http/httptest"
	"strings"
	"sync"
	"time"

	"github.com/gobwas/ws"
	"github.com/vipnode/vipnode/v2/jsonrpc2"
	gobwasws "github.com/vipnode/vipnode/v2/jsonrpc2/ws/gobwas"
	gorillaws "github.com/vipnode/vipnode/v2/jsonrpc2/ws/gorilla"
)

func init() { commands["c17"] = runC17 }

// chunkReader delivers a byte stream in scripted read sizes.
type chunkReader struct {
	data  []byte
	sizes []int
	k     int
}

func (c *chunkReader) Read(p []byte) (int, error) {
	if len(c.data) == 0 {
		return 0, io.EOF
	}
	n := len(c.data)
	if c.k < len(c.sizes) {
		n = c.sizes[c.k]
		c.k++
	}
	if n > len(c.data) {
		n = len(c.data)
	}
	if n > len(p) {
		// the decoder's buffer is smaller than the delivery: the rest comes with the next read
		c.sizes = append(append(append([]int{}, c.sizes[:c.k]...), n-len(p)), c.sizes[c.k:]...)
		n = len(p)
	}
	if n == 0 {
		n = 1
	}
	copy(p, c.data[:n])
	c.data = c.data[n:]
	return n, nil
}

type recWriter struct {
	buf    bytes.Buffer
	writes int
}

func (w *recWriter) Write(p []byte) (int, error) { w.writes++; return w.buf.Write(p) }

type nopCloser struct{}

func (nopCloser) Close() error { return nil }

type rwcT struct {
	io.Reader
	io.Writer
	io.Closer
}

func genMessage(rng *rand.Rand, id int, big bool) *jsonrpc2.Message {
	var payload interface{}
	switch rng.Intn(6) {
	case 0:
		payload = []interface{}{}
	case 1:
		payload = []interface{}{"héllo wörld ☃   \n \" \\ {}[]", id}
	case 2:
		payload = []interface{}{map[string]interface{}{"a": []int{1, 2, 3}, "b": map[string]interface{}{"c": "}{]["}}}
	case 3:
		n := 1 + rng.Intn(60)
		if big {
			n = 1000 + rng.Intn(200000)
		}
		payload = []interface{}{strings.Repeat("x", n)}
	case 4:
		payload = []interface{}{id, true, nil, 1.5e300, "\x00\x01"}
	default:
		payload = []interface{}{fmt.Sprintf("token-%d", id)}
	}
	raw, _ := json.Marshal(payload)
	idRaw, _ := json.Marshal(id)
	if rng.Intn(2) == 0 {
		var m jsonrpc2.Message
		json.Unmarshal([]byte(fmt.Sprintf(`{"jsonrpc":%q,"id":%s,"method":"vipnode_echo","params":%s}`, jsonrpc2.Version, idRaw, raw)), &m)
		return &m
	}
	if rng.Intn(4) == 0 {
		return &jsonrpc2.Message{Response: &jsonrpc2.Response{Error: &jsonrpc2.ErrResponse{Code: -32000, Message: "boom ☃"}}, ID: idRaw, Version: jsonrpc2.Version}
	}
	return &jsonrpc2.Message{Response: &jsonrpc2.Response{Result: raw}, ID: idRaw, Version: jsonrpc2.Version}
}

func canon(m *jsonrpc2.Message) []byte {
	b, _ := json.Marshal(m)
	return b
}

func cByteList(b []byte) string {
	var sb strings.Builder
	sb.WriteString("(bz [")
	for i, x := range b {
		if i > 0 {
			sb.WriteByte(';')
		}
		fmt.Fprintf(&sb, "%d", x)
	}
	sb.WriteString("])")
	return sb.String()
}

func c17Stream(ctx *Ctx, i int, rng *rand.Rand, big bool) {
	nmsg := 1 + rng.Intn(6)
	w := &recWriter{}
	var wc jsonrpc2.Codec = jsonrpc2.IOCodec(rwcT{bytes.NewReader(nil), w, nopCloser{}})
	if i%10 == 9 || i%10 == 4 {
		wc = jsonrpc2.DebugCodec("writer", wc)
	}
	var written [][]byte
	var mon []string
	for k := 0; k < nmsg; k++ {
		m := genMessage(rng, i*100+k, big)
		asHanded := canon(m)
		before := w.writes
		if err := wc.WriteMessage(m); err != nil {
			fatal("write: %v", err)
		}
		if !bytes.Equal(asHanded, canon(m)) {
			mon = append(mon, "c17-message-altered-by-write: the message handed to WriteMessage is not the same message afterwards")
		}
		if w.writes-before != 1 {
			mon = append(mon, fmt.Sprintf("c17-multiple-writes: one message was written with %d Write calls (concurrent writers could interleave)", w.writes-before))
		}
		written = append(written, asHanded)
	}
	stream := append([]byte{}, w.buf.Bytes()...)
	// partition
	var sizes []int
	mode := rng.Intn(5)
	switch mode {
	case 0: // everything coalesced into one read
		sizes = []int{len(stream)}
	case 1: // one byte at a time
		if len(stream) > 4000 {
			mode = 2
		} else {
			for range stream {
				sizes = append(sizes, 1)
			}
		}
	case 3: // a single cut at a random point
		c := 1 + rng.Intn(len(stream))
		sizes = []int{c, len(stream) - c}
	case 4: // cut exactly at message boundaries plus one byte (value complete, newline late)
		off := 0
		for _, b := range written {
			sizes = append(sizes, len(b))
			off += len(b)
			sizes = append(sizes, 1)
		}
	}
	if mode == 2 { // random cuts
		left := len(stream)
		for left > 0 {
			n := 1 + rng.Intn(1+left/2+rng.Intn(40))
			if n > left {
				n = left
			}
			sizes = append(sizes, n)
			left -= n
		}
	}
	cr := &chunkReader{data: stream, sizes: append([]int{}, sizes...)}
	var rc jsonrpc2.Codec = jsonrpc2.IOCodec(rwcT{cr, io.Discard, nopCloser{}})
	if i%10 == 9 || i%10 == 4 {
		// with the logging wrapper the binaries put around a codec when asked for verbose output:
		// what it logs is its business, what it hands on is the message
		rc = jsonrpc2.DebugCodec("reader", rc)
	}
	var read [][]byte
	for {
		m, err := rc.ReadMessage()
		if err != nil {
			break
		}
		read = append(read, canon(m))
		if len(read) > nmsg+3 {
			break
		}
	}
	// monitor: sequence read = sequence written
	same := len(read) == len(written)
	for k := 0; same && k < len(read); k++ {
		same = bytes.Equal(read[k], written[k])
	}
	if !same {
		mon = append(mon, fmt.Sprintf("c17-stream-lost-or-altered: wrote %d messages (%d bytes) delivered in %d reads (partition mode %d), read back %d", len(written), len(stream), len(cr.sizes), mode, len(read)))
	}
	desc := map[string]interface{}{"messages": len(written), "bytes": len(stream), "reads": cr.sizes, "mode": mode, "read_back": len(read)}
	coq := ""
	if len(stream) <= 1500 {
		var ws, rs []string
		for _, b := range written {
			ws = append(ws, cByteList(b))
		}
		for _, b := range read {
			rs = append(rs, cByteList(b))
		}
		var ss []string
		for _, s := range cr.sizes {
			ss = append(ss, cNat(s))
		}
		coq = fmt.Sprintf("{| c17_written := %s; c17_chunks := %s; c17_read := %s |}", cList(ws), cList(ss), cList(rs))
	}
	ctx.Count(fmt.Sprintf("partition-mode:%d", mode))
	ctx.Emit(Case{I: i, Kind: "stream", Coq: coq, Desc: desc, Monitor: mon})
}

// rechunkProxy forwards a TCP connection in small random pieces with tiny delays.
func rechunkProxy(target string, seed int64) (addr string, closeFn func()) {
	ln, err := net.Listen("tcp", "127.0.0.1:0")
	if err != nil {
		fatal("listen: %v", err)
	}
	var wg sync.WaitGroup
	go func() {
		for {
			c, err := ln.Accept()
			if err != nil {
				return
			}
			up, err := net.Dial("tcp", target)
			if err != nil {
				c.Close()
				continue
			}
			pipe := func(dst, src net.Conn, s int64) {
				defer wg.Done()
				rng := rand.New(rand.NewSource(s))
				buf := make([]byte, 64*1024)
				var pend []byte
				for {
					n, err := src.Read(buf)
					pend = append(pend, buf[:n]...)
					// sometimes hold data back to coalesce with the next read
					if err == nil && rng.Intn(3) == 0 && len(pend) < 32*1024 {
						src.SetReadDeadline(time.Now().Add(2 * time.Millisecond))
						continue
					}
					src.SetReadDeadline(time.Time{})
					for len(pend) > 0 {
						k := 1 + rng.Intn(1+len(pend))
						if k > len(pend) {
							k = len(pend)
						}
						if _, werr := dst.Write(pend[:k]); werr != nil {
							return
						}
						pend = pend[k:]
					}
					if err != nil {
						if ne, ok := err.(net.Error); ok && ne.Timeout() {
							continue
						}
						dst.Close()
						return
					}
				}
			}
			wg.Add(2)
			go pipe(up, c, seed)
			go pipe(c, up, seed+1)
		}
	}()
	return ln.Addr().String(), func() { ln.Close() }
}

// c17WS: concurrent writers on one WebSocket connection through a re-chunking proxy.
func c17WS(ctx *Ctx, i int, rng *rand.Rand, lib string) { c17WSx(ctx, i, rng, lib, lib) }

// rawWSCodec is a WebSocket peer that fragments: every message goes out as several frames
// (first frame + continuation frames), as any peer is allowed to (RFC 6455 5.4).
type rawWSCodec struct {
	conn   net.Conn
	rng    *rand.Rand
	pings  bool
	binary bool // alternate between text and binary data messages (both carry JSON; RFC 6455 leaves the choice to the sender)
	n      int
}

func (c *rawWSCodec) ReadMessage() (*jsonrpc2.Message, error) { select {} }
func (c *rawWSCodec) RemoteAddr() string                      { return "raw" }
func (c *rawWSCodec) Close() error                            { return c.conn.Close() }
func (c *rawWSCodec) WriteMessage(m *jsonrpc2.Message) error {
	b, err := json.Marshal(m)
	if err != nil {
		return err
	}
	b = append(b, '\n')
	parts := 1 + c.rng.Intn(4)
	if len(b) > 3000 {
		parts += c.rng.Intn(6)
	}
	op := ws.OpText
	c.n++
	if c.binary && c.n%2 == 0 {
		op = ws.OpBinary
	}
	for k := 0; k < parts; k++ {
		n := len(b)
		if k < parts-1 {
			n = c.rng.Intn(len(b) + 1) // empty fragments are allowed too
		}
		f := ws.NewFrame(op, k == parts-1, append([]byte{}, b[:n]...))
		if err := ws.WriteFrame(c.conn, ws.MaskFrameInPlace(f)); err != nil {
			return err
		}
		b = b[n:]
		op = ws.OpContinuation
		if c.pings && k < parts-1 && c.rng.Intn(3) == 0 {
			if err := ws.WriteFrame(c.conn, ws.MaskFrameInPlace(ws.NewPingFrame([]byte("hb")))); err != nil {
				return err
			}
		}
	}
	return nil
}

// c17WSx: clientLib writes (gorilla, gobwas, or "raw"/"raw-pings": a fragmenting peer), serverLib reads.
func c17WSx(ctx *Ctx, i int, rng *rand.Rand, clientLib, lib string) {
	var mon []string
	received := make(chan *jsonrpc2.Message, 4096)
	var readErr error
	srv := httptest.NewServer(http.HandlerFunc(func(w http.ResponseWriter, r *http.Request) {
		var codec jsonrpc2.Codec
		var err error
		if lib == "gorilla" {
			codec, err = (&gorillaws.Upgrader{}).Upgrade(r, w, nil)
		} else {
			codec, err = (&gobwasws.Upgrader{Upgrader: ws.HTTPUpgrader{}}).Upgrade(r, w, nil)
		}
		if err != nil {
			return
		}
		defer codec.Close()
		for {
			m, err := codec.ReadMessage()
			if err != nil {
				readErr = err
				close(received)
				return
			}
			received <- m
		}
	}))
	defer srv.Close()
	paddr, closeProxy := rechunkProxy(strings.TrimPrefix(srv.URL, "http://"), int64(i))
	defer closeProxy()
	cctx, cancel := context.WithTimeout(context.Background(), 10*time.Second)
	defer cancel()
	var codec jsonrpc2.Codec
	var err error
	switch clientLib {
	case "gorilla":
		codec, err = gorillaws.WebSocketDial(cctx, "ws://"+paddr)
	case "gobwas":
		codec, err = gobwasws.WebSocketDial(cctx, "ws://"+paddr)
	default:
		var conn net.Conn
		conn, _, _, err = ws.Dial(cctx, "ws://"+paddr)
		codec = &rawWSCodec{conn: conn, rng: rand.New(rand.NewSource(int64(i))), pings: clientLib == "raw-pings", binary: clientLib == "raw-binary"}
	}
	if err != nil {
		fatal("ws dial (%s): %v", clientLib, err)
	}
	writers := 1
	if clientLib == "gorilla" { // the codec the shipped binaries use: writers may be concurrent
		writers = 2 + rng.Intn(7)
	}
	per := 5 + rng.Intn(20)
	huge := i%12 == 0 || i%12 == 7 // one gorilla-to-gorilla and one raw-to-gorilla case of every dozen
	sent := map[string][]byte{}
	var mu sync.Mutex
	var wg sync.WaitGroup
	for wr := 0; wr < writers; wr++ {
		wg.Add(1)
		go func(wr int) {
			defer wg.Done()
			r := rand.New(rand.NewSource(int64(i*1000 + wr)))
			for k := 0; k < per; k++ {
				m := genMessage(r, wr*100000+k, k%7 == 3)
				if huge && wr == 0 && k == 1 {
					// one very large message (a reply carrying thousands of records): the transport sets
					// no size; whatever its length it arrives whole, and so does everything after it
					hugeRaw, _ := json.Marshal([]interface{}{strings.Repeat("0123456789abcdef", 1100000)}) // ~16.8 MiB
					idRaw, _ := json.Marshal(wr*100000 + k)
					m = &jsonrpc2.Message{Response: &jsonrpc2.Response{Result: hugeRaw}, ID: idRaw, Version: jsonrpc2.Version}
				}
				mu.Lock()
				sent[string(m.ID)] = canon(m)
				mu.Unlock()
				if err := codec.WriteMessage(m); err != nil {
					mu.Lock()
					mon = append(mon, fmt.Sprintf("c17-ws-write-error: %v", err))
					mu.Unlock()
					return
				}
			}
		}(wr)
	}
	wg.Wait()
	got := map[string]int{}
	lastPer := map[int]int{}
	timeout := time.After(20 * time.Second)
	n := 0
	expect := writers * per
loop:
	for n < expect {
		select {
		case m, ok := <-received:
			if !ok {
				break loop
			}
			n++
			key := string(m.ID)
			got[key]++
			want, known := sent[key]
			if !known {
				mon = append(mon, fmt.Sprintf("c17-ws-unknown-message: received a message with id %s that was never sent", key))
			} else if !bytes.Equal(want, canon(m)) {
				mon = append(mon, fmt.Sprintf("c17-ws-altered: message %s arrived modified (bytes of concurrent writers interleaved?)", key))
			}
			var idn int
			json.Unmarshal(m.ID, &idn)
			wr, k := idn/100000, idn%100000
			if prev, ok := lastPer[wr]; ok && k <= prev {
				mon = append(mon, fmt.Sprintf("c17-ws-order: writer %d message %d arrived after %d", wr, k, prev))
			}
			lastPer[wr] = k
		case <-timeout:
			break loop
		}
	}
	// anything beyond what was sent?
	select {
	case m, ok := <-received:
		if ok {
			mon = append(mon, fmt.Sprintf("c17-ws-extra-message: an extra message %s arrived", string(m.ID)))
		}
	case <-time.After(30 * time.Millisecond):
	}
	codec.Close()
	for key := range sent {
		if got[key] != 1 {
			mon = append(mon, fmt.Sprintf("c17-ws-count: message %s arrived %d times", key, got[key]))
			break
		}
	}
	re := ""
	if readErr != nil && n < expect {
		re = readErr.Error()
	}
	kind := "ws-" + lib
	if clientLib != lib {
		kind = "ws-" + clientLib + "-to-" + lib
	}
	ctx.Emit(Case{I: i, Kind: kind, Desc: map[string]interface{}{"writers": writers, "per_writer": per, "received": n, "reader_error": re}, Monitor: mon})
}

// EchoService is served over HTTP.
type EchoService struct{}

func (EchoService) Echo(ctx context.Context, s string, n int) (map[string]interface{}, error) {
	return map[string]interface{}{"s": s, "n": n}, nil
}

func c17HTTP(ctx *Ctx, i int, rng *rand.Rand) {
	var mon []string
	hs := &jsonrpc2.HTTPServer{}
	if err := hs.Server.Register("vipnode_", &EchoService{}); err != nil {
		fatal("%v", err)
	}
	// every other case: the pool sits behind a front end that compresses replies for clients
	// that accept it (any reverse proxy or CDN does): the message must still arrive intact
	var handler http.Handler = hs
	compress := i%2 == 0
	if compress {
		handler = gzipFrontEnd(hs)
	}
	srv := httptest.NewServer(handler)
	defer srv.Close()
	paddr, closeProxy := rechunkProxy(strings.TrimPrefix(srv.URL, "http://"), int64(i))
	defer closeProxy()
	cli := &jsonrpc2.HTTPService{Endpoint: "http://" + paddr}
	calls := 10 + rng.Intn(20)
	for k := 0; k < calls; k++ {
		s := strings.Repeat("é☃x", rng.Intn(3000)) + fmt.Sprintf("#%d", k)
		var out struct {
			S string `json:"s"`
			N int    `json:"n"`
		}
		cctx, cancel := context.WithTimeout(context.Background(), 10*time.Second)
		var err error
		if k%3 == 2 {
			// the same request as a body of undeclared length (HTTP/1.1 chunked transfer coding,
			// what a streaming client or a proxy sends): the chunk boundaries are the sender's
			err = chunkedCall("http://"+paddr, rng, &out, "vipnode_echo", s, k)
		} else {
			err = cli.Call(cctx, &out, "vipnode_echo", s, k)
		}
		cancel()
		if err != nil {
			mon = append(mon, fmt.Sprintf("c17-http-error: call %d failed: %v", k, err))
			break
		}
		if out.S != s || out.N != k {
			mon = append(mon, fmt.Sprintf("c17-http-altered: call %d got a different payload back", k))
			break
		}
	}
	ctx.Emit(Case{I: i, Kind: "http", Desc: map[string]interface{}{"calls": calls, "compressing_front_end": compress}, Monitor: mon})
}

type gzipWriter struct {
	http.ResponseWriter
	zw *gzip.Writer
}

func (g gzipWriter) Write(b []byte) (int, error) { return g.zw.Write(b) }

// gzipFrontEnd compresses the reply when the request says the client accepts gzip.
func gzipFrontEnd(next http.Handler) http.Handler {
	return http.HandlerFunc(func(w http.ResponseWriter, r *http.Request) {
		if !strings.Contains(r.Header.Get("Accept-Encoding"), "gzip") {
			next.ServeHTTP(w, r)
			return
		}
		w.Header().Set("Content-Encoding", "gzip")
		w.Header().Add("Vary", "Accept-Encoding")
		zw := gzip.NewWriter(w)
		defer zw.Close()
		next.ServeHTTP(gzipWriter{w, zw}, r)
	})
}

// chunkedCall posts one request whose body is written in pieces of the sender's choosing with no
// Content-Length (Transfer-Encoding: chunked), and decodes the reply.
func chunkedCall(endpoint string, rng *rand.Rand, result interface{}, method string, params ...interface{}) error {
	msg, err := (&jsonrpc2.Client{}).Request(method, params...)
	if err != nil {
		return err
	}
	body, err := json.Marshal(msg)
	if err != nil {
		return err
	}
	pr, pw := io.Pipe()
	go func() {
		b := body
		for len(b) > 0 {
			n := 1 + rng.Intn(len(b))
			if rng.Intn(3) == 0 && n > 7 {
				n = 1 + rng.Intn(7)
			}
			pw.Write(b[:n])
			b = b[n:]
		}
		pw.Close()
	}()
	req, err := http.NewRequest("POST", endpoint, pr)
	if err != nil {
		return err
	}
	req.Header.Set("Content-Type", "application/json")
	resp, err := http.DefaultClient.Do(req)
	if err != nil {
		return err
	}
	defer resp.Body.Close()
	raw, err := ioutil.ReadAll(resp.Body)
	if err != nil {
		return err
	}
	if resp.StatusCode != 200 {
		return fmt.Errorf("chunked request answered %d: %s", resp.StatusCode, strings.TrimSpace(string(raw)))
	}
	var reply jsonrpc2.Message
	if err := json.Unmarshal(raw, &reply); err != nil {
		return fmt.Errorf("chunked request: reply does not parse: %v", err)
	}
	if reply.Response == nil {
		return fmt.Errorf("chunked request: reply is not a response: %s", raw)
	}
	return reply.Response.UnmarshalResult(result)
}

// c17SlowReader: the stream codec over a connection (net.Pipe: the fakecluster and ServePipe use
// it; TCP connections offer the same interface) whose reader stops reading in the middle of a
// message for longer than any timeout a writer might have, then resumes. Every message whose
// write was reported as done arrives once, intact, in order -- also the ones written after the
// stall; a write that was reported as failed may be missing, but it leaves no debris in front of
// the messages that follow it.
type prefixConn struct {
	io.Reader
	net.Conn
}

func (p prefixConn) Read(b []byte) (int, error) { return p.Reader.Read(b) }

func c17SlowReader(ctx *Ctx, i int, stall time.Duration) {
	rng := ctx.Sub(i)
	c1, c2 := net.Pipe()
	defer c1.Close()
	defer c2.Close()
	wc := jsonrpc2.IOCodec(c1)
	var msgs []*jsonrpc2.Message
	for k := 0; k < 5; k++ {
		msgs = append(msgs, genMessage(rng, k+1, false))
	}
	type wres struct {
		k    int
		err  error
		took time.Duration
	}
	results := make(chan wres, len(msgs))
	go func() {
		for k, m := range msgs {
			t0 := time.Now()
			err := wc.WriteMessage(m)
			results <- wres{k, err, time.Since(t0)}
		}
		close(results)
	}()
	// the reader takes a few bytes of the first message and then nothing for a while
	head := make([]byte, 1+rng.Intn(6))
	if _, err := io.ReadFull(c2, head); err != nil {
		fatal("slow reader: %v", err)
	}
	time.Sleep(stall)
	rc := jsonrpc2.IOCodec(prefixConn{io.MultiReader(bytes.NewReader(head), c2), c2})
	var got [][]byte
	var readErr string
	c2.SetReadDeadline(time.Now().Add(4 * time.Second))
	for len(got) < len(msgs) {
		m, err := rc.ReadMessage()
		if err != nil {
			readErr = err.Error()
			break
		}
		got = append(got, canon(m))
	}
	c1.Close()
	var mon []string
	var acked [][]byte
	var log []string
	for r := range results {
		log = append(log, fmt.Sprintf("message %d: write returned %v after %s", r.k+1, r.err, r.took.Round(time.Millisecond)))
		if r.err == nil {
			acked = append(acked, canon(msgs[r.k]))
		}
	}
	// the messages read must contain the acknowledged ones, in order, each once, and nothing that
	// was not written
	written := map[string]int{}
	for k, m := range msgs {
		written[string(canon(m))] = k + 1
	}
	pos := 0
	for _, g := range got {
		if written[string(g)] == 0 {
			mon = append(mon, fmt.Sprintf("c17-slow-reader: after a reader stall of %s in the middle of a message, the reader received %q, which nobody wrote", stall, string(g)))
			break
		}
		if pos < len(acked) && string(acked[pos]) == string(g) {
			pos++
		}
	}
	if len(mon) == 0 && pos < len(acked) {
		mon = append(mon, fmt.Sprintf("c17-slow-reader: the reader stopped for %s in the middle of the first message and then went on reading; %d writes were reported as done, %d of them were received intact (the reader ended with %q). Writes: %s", stall, len(acked), pos, readErr, strings.Join(log, "; ")))
	}
	// the same on the model: the messages whose write was reported as done, read in two pieces
	// (the few bytes before the pause, the rest after it)
	coq := ""
	total := 0
	for _, a := range acked {
		total += len(a) + 1
	}
	if total <= 1500 {
		var ws, rs []string
		for _, b := range acked {
			ws = append(ws, cByteList(b))
		}
		for _, b := range got {
			rs = append(rs, cByteList(b))
		}
		coq = fmt.Sprintf("{| c17_written := %s; c17_chunks := %s; c17_read := %s |}", cList(ws), cList([]string{cNat(len(head))}), cList(rs))
	}
	ctx.Emit(Case{I: i, Kind: "slow-reader", Coq: coq, Desc: map[string]interface{}{"stall_ms": stall.Milliseconds(), "writes": log, "received": len(got)}, Monitor: mon})
}

func runC17(ctx *Ctx) {
	n := ctx.N(300, 8000)
	var slow sync.WaitGroup
	for c, d := range []time.Duration{10500 * time.Millisecond, 1200 * time.Millisecond} {
		if ctx.Want(n + 900 + c) {
			slow.Add(1)
			go func(c int, d time.Duration) { defer slow.Done(); c17SlowReader(ctx, n+900+c, d) }(c, d)
		}
	}
	defer slow.Wait()
	forEachCase(ctx, n, func(i int, rng *rand.Rand) { c17Stream(ctx, i, rng, i%10 == 9) })
	extra := ctx.N(12, 120)
	for c := 0; c < extra; c++ {
		i := n + c
		if !ctx.Want(i) {
			continue
		}
		rng := ctx.Sub(i)
		switch c % 12 {
		case 0, 6:
			c17WS(ctx, i, rng, "gorilla")
		case 1:
			c17WS(ctx, i, rng, "gobwas")
		case 3:
			c17WSx(ctx, i, rng, "gorilla", "gobwas") // gorilla fragments what exceeds its write buffer
		case 4:
			c17WSx(ctx, i, rng, "raw-pings", "gobwas")
		case 7:
			c17WSx(ctx, i, rng, "raw-pings", "gorilla")
		case 2:
			c17WSx(ctx, i, rng, "gobwas", "gorilla") // gobwas sends binary data messages
		case 5:
			c17WSx(ctx, i, rng, "raw-binary", []string{"gorilla", "gobwas"}[rng.Intn(2)])
		default:
			c17HTTP(ctx, i, rng)
		}
	}
}
