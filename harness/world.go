package main

import (
	"context"
	"crypto/ecdsa"
	"fmt"
	"math/big"
	"math/rand"
	"net"
	"sort"
	"strings"
	"sync"
	"time"

	"github.com/ethereum/go-ethereum/crypto"
	"github.com/ethereum/go-ethereum/p2p/discv5"
	"github.com/vipnode/vipnode/v2/ethnode"
	"github.com/vipnode/vipnode/v2/jsonrpc2"
	"github.com/vipnode/vipnode/v2/pool"
	"github.com/vipnode/vipnode/v2/pool/balance"
	"github.com/vipnode/vipnode/v2/pool/payment"
	"github.com/vipnode/vipnode/v2/pool/store"
	"github.com/vipnode/vipnode/v2/request"
)

// ---------- deterministic keys ----------

type detReader struct{ r *rand.Rand }

func (d detReader) Read(p []byte) (int, error) {
	for i := range p {
		p[i] = byte(d.r.Intn(256))
	}
	return len(p), nil
}

var (
	keyMu    sync.Mutex
	keyCache = map[string]*ecdsa.PrivateKey{}
)

// keyFor returns a fixed secp256k1 key per logical name.
func keyFor(name string) *ecdsa.PrivateKey {
	name = strings.TrimSuffix(name, "~") // "w1~" is wallet w1 under another spelling: same key
	keyMu.Lock()
	defer keyMu.Unlock()
	if k, ok := keyCache[name]; ok {
		return k
	}
	h := int64(0)
	for _, c := range name {
		h = h*131 + int64(c)
	}
	for {
		k, err := ecdsa.GenerateKey(crypto.S256(), detReader{rand.New(rand.NewSource(h))})
		if err == nil {
			keyCache[name] = k
			return k
		}
		h++
	}
}

func nodeIDOf(name string) string { return discv5.PubkeyID(&keyFor(name).PublicKey).String() }
func walletOf(name string) string {
	if name == "" {
		return ""
	}
	addr := crypto.PubkeyToAddress(keyFor(name).PublicKey).Hex()
	if strings.HasSuffix(name, "~") {
		// the same wallet spelled in lower case: to the pool a different account string (accounts
		// are keyed by the string the request names), signed for by the same key
		return strings.ToLower(addr)
	}
	return addr
}

// ---------- deposit-aware balance store (stands for the contract proxy) ----------

type depositStore struct {
	store.AccountStore
	mu  sync.Mutex
	dep map[store.Account]*big.Int
}

func (d *depositStore) deposit(a store.Account) *big.Int {
	d.mu.Lock()
	defer d.mu.Unlock()
	if v, ok := d.dep[a]; ok {
		return new(big.Int).Set(v)
	}
	return new(big.Int)
}
func (d *depositStore) setDeposit(a store.Account, v *big.Int) {
	d.mu.Lock()
	defer d.mu.Unlock()
	d.dep[a] = new(big.Int).Set(v)
}
func (d *depositStore) GetNodeBalance(id store.NodeID) (store.Balance, error) {
	b, err := d.AccountStore.GetNodeBalance(id)
	if err != nil || len(b.Account) == 0 {
		return b, err
	}
	b.Deposit = *d.deposit(b.Account)
	return b, nil
}
func (d *depositStore) GetAccountBalance(a store.Account) (store.Balance, error) {
	b, err := d.AccountStore.GetAccountBalance(a)
	if err != nil {
		return b, err
	}
	if a != "" {
		b.Deposit = *d.deposit(a)
	}
	return b, nil
}

// ---------- fake host agents ----------

type hostCall struct {
	Host   string
	Method string
	Arg    string
	At     time.Time
}

// FakeAgent is the reverse-RPC service of a host (exported: jsonrpc2 requires it).
type FakeAgent struct {
	w    *world
	name string
	mu   sync.Mutex
	mode string // "ack", "err", "stall"
	conn int    // which connection of this host
}

func (a *FakeAgent) behave(ctx context.Context, method, arg string) error {
	a.mu.Lock()
	mode := a.mode
	a.mu.Unlock()
	// record on arrival, so that a stalling host still counts as called
	a.w.record(hostCall{fmt.Sprintf("%s#%d", a.name, a.conn), method, arg, time.Now()})
	if mode == "stall" {
		time.Sleep(a.w.stallFor)
		return nil
	}
	if mode == "err" {
		return fmt.Errorf("host %s refuses", a.name)
	}
	return nil
}
func (a *FakeAgent) Whitelist(ctx context.Context, nodeID string) error {
	return a.behave(ctx, "whitelist", nodeID)
}
func (a *FakeAgent) Disconnect(ctx context.Context, nodeID string) error {
	return a.behave(ctx, "disconnect", nodeID)
}

type addrCodec struct {
	jsonrpc2.Codec
	addr string
}

func (c addrCodec) RemoteAddr() string { return c.addr }

type hostConn struct {
	agent    *FakeAgent
	poolSide *jsonrpc2.Remote // what the pool sees (ctx service of requests arriving here)
	cliSide  *jsonrpc2.Remote // what the host uses to call the pool
	c1, c2   net.Conn
}

// ---------- the world ----------

type world struct {
	drv      int
	st       *openStore
	bstore   *depositStore
	pool     *pool.VipnodePool
	pay      *payment.PaymentService
	server   *jsonrpc2.Server
	t        *interner
	interval time.Duration
	price    *big.Int
	min      *big.Int
	mgr      interface {
		balance.Manager
		VerifSetClock(func() time.Time)
	}
	clockNow   time.Time
	clockReads []int64
	// checkIns: when each node last registered or sent a keep-alive that was accepted, by the
	// harness's own count (real time, moved back by every scripted passage of time)
	checkIns   map[string]time.Time
	useRealClk bool

	mu       sync.Mutex
	calls    []hostCall
	conns    map[string][]*hostConn // host name -> connections, latest last
	stallFor time.Duration

	settleOK  bool
	settleLog []settleCall
	// settleHook (optional) is called at the start of settlement call number n (from 0), outside
	// the lock; it may block, and decides whether that settlement succeeds
	settleHook    func(n int) bool
	settleN       int
	nonce         int64
	tr            *traceStore // non-nil when the store calls of the services are recorded
	updateCtxDone bool        // keep-alives arrive with a context that is already done (the sender hung up)
}

// traced runs f and returns the store calls the services made meanwhile (nil when not recording).
func (w *world) traced(f func()) []string {
	if w.tr == nil {
		f()
		return nil
	}
	w.tr.take()
	f()
	return w.tr.take()
}

type settleCall struct {
	Account string
	Amount  string
	NewBal  string
	OK      bool
}

func (w *world) record(c hostCall) {
	w.mu.Lock()
	w.calls = append(w.calls, c)
	w.mu.Unlock()
}
func (w *world) takeCalls() []hostCall {
	w.mu.Lock()
	defer w.mu.Unlock()
	c := w.calls
	w.calls = nil
	return c
}

type worldCfg struct {
	Drv        int
	Price      string // credit per interval
	IntervalNs int64
	Min        *string // nil = unset
	WMin       *string
	Fee        string
	FeeFresh   bool `json:"fee_returns_new_value,omitempty"` // the fee function returns the new total in a fresh value instead of changing its argument
	Settle     bool
	MaxHosts   int
	CtxDone    bool                          `json:"keepalives_arrive_with_done_context,omitempty"`
	wrap       func(store.Store) store.Store // optional interposer between the services and the driver
	trace      bool                          // record every store call the services make (C10 call traces)
}

func newWorld(cfg worldCfg) *world {
	w := &world{drv: cfg.Drv, st: newStore(cfg.Drv), t: newInterner(), conns: map[string][]*hostConn{}, settleOK: true,
		stallFor: 6 * time.Second}
	var base store.Store = w.st.Store
	if cfg.trace {
		w.tr = &traceStore{Store: w.st.Store, w: w}
		base = w.tr
	}
	w.bstore = &depositStore{AccountStore: base, dep: map[store.Account]*big.Int{}}
	w.price, _ = new(big.Int).SetString(cfg.Price, 10)
	w.interval = time.Duration(cfg.IntervalNs)
	m := balance.PayPerInterval(w.bstore, w.interval, w.price)
	if cfg.Min != nil {
		w.min, _ = new(big.Int).SetString(*cfg.Min, 10)
		m.MinBalance = w.min
	}
	m.VerifSetClock(func() time.Time {
		t := w.clockNow
		if w.useRealClk {
			// wall-clock reading only, so that the elapsed time is the difference of the
			// recorded UnixNano values (the in-memory driver keeps monotonic readings)
			t = time.Now().Round(0)
		}
		w.mu.Lock()
		w.clockReads = append(w.clockReads, t.UnixNano())
		w.mu.Unlock()
		return t
	})
	w.mgr = m
	if cfg.wrap != nil {
		w.pool = pool.New(cfg.wrap(base), m)
	} else {
		w.pool = pool.New(base, m)
	}
	w.pool.MaxRequestHosts = cfg.MaxHosts
	w.pay = &payment.PaymentService{NonceStore: base, AccountStore: base, BalanceStore: w.bstore}
	if cfg.WMin != nil {
		w.pay.WithdrawMin, _ = new(big.Int).SetString(*cfg.WMin, 10)
	}
	if cfg.Fee != "" && cfg.Fee != "0" {
		fee, _ := new(big.Int).SetString(cfg.Fee, 10)
		w.pay.WithdrawFee = func(a *big.Int) *big.Int { return a.Sub(a, fee) }
		if cfg.FeeFresh { // "returns the new total": both styles satisfy the documented signature
			w.pay.WithdrawFee = func(a *big.Int) *big.Int { return new(big.Int).Sub(a, fee) }
		}
	}
	if cfg.Settle {
		w.pay.Settle = func(account store.Account, amount *big.Int, newBalance *big.Int) (string, error) {
			w.mu.Lock()
			ok := w.settleOK
			n, hook := w.settleN, w.settleHook
			w.settleN++
			w.mu.Unlock()
			if hook != nil {
				ok = hook(n)
			}
			w.mu.Lock()
			w.settleLog = append(w.settleLog, settleCall{string(account), amount.String(), newBalance.String(), ok})
			w.mu.Unlock()
			if !ok {
				return "", fmt.Errorf("settlement failed")
			}
			// the contract replaces the on-chain balance by newBalance
			w.bstore.setDeposit(account, newBalance)
			return "0xtx", nil
		}
	}
	w.server = &jsonrpc2.Server{}
	if err := w.server.Register("vipnode_", w.pool, "connect", "disconnect", "ping", "update", "peer", "client", "host"); err != nil {
		fatal("register: %v", err)
	}
	if err := w.server.Register("pool_", w.pay); err != nil {
		fatal("register: %v", err)
	}
	w.nonce = time.Now().UnixNano()
	w.updateCtxDone = cfg.CtxDone
	return w
}

func (w *world) Close() {
	w.mu.Lock()
	for _, cs := range w.conns {
		for _, c := range cs {
			c.c1.Close()
			c.c2.Close()
		}
	}
	w.mu.Unlock()
	w.st.Destroy()
}

var nonceMu sync.Mutex

func (w *world) nextNonce() int64 {
	nonceMu.Lock()
	defer nonceMu.Unlock()
	n := time.Now().UnixNano()
	if n <= w.nonce {
		n = w.nonce + 1
	}
	w.nonce = n
	return n
}

// newConn opens a new bidirectional connection for a host; remoteAddr is what the pool will
// see as the connection's source address.
func (w *world) newConn(name, remoteAddr string) *hostConn {
	c1, c2 := net.Pipe()
	w.mu.Lock()
	idx := len(w.conns[name])
	w.mu.Unlock()
	ag := &FakeAgent{w: w, name: name, mode: "ack", conn: idx}
	srv := &jsonrpc2.Server{}
	if err := srv.Register("vipnode_", ag); err != nil {
		fatal("register agent: %v", err)
	}
	poolSide := &jsonrpc2.Remote{Codec: addrCodec{jsonrpc2.IOCodec(c1), remoteAddr}, Client: &jsonrpc2.Client{}, Server: w.server}
	cliSide := &jsonrpc2.Remote{Codec: jsonrpc2.IOCodec(c2), Client: &jsonrpc2.Client{}, Server: srv}
	go poolSide.Serve()
	go cliSide.Serve()
	hc := &hostConn{agent: ag, poolSide: poolSide, cliSide: cliSide, c1: c1, c2: c2}
	w.mu.Lock()
	w.conns[name] = append(w.conns[name], hc)
	w.mu.Unlock()
	return hc
}

func (w *world) lastConn(name string) *hostConn {
	w.mu.Lock()
	defer w.mu.Unlock()
	cs := w.conns[name]
	if len(cs) == 0 {
		return nil
	}
	return cs[len(cs)-1]
}

// closeConn closes connection idx of a host the way server.go does: the serve loop ends and
// the disconnect callback is invoked with that connection's Remote.
func (w *world) closeConn(name string, idx int) {
	w.mu.Lock()
	hc := w.conns[name][idx]
	w.mu.Unlock()
	hc.c1.Close()
	hc.c2.Close()
	w.pool.CloseRemote(hc.poolSide)
}

// ---------- errors ----------

type opErr struct {
	Class string // "", "verify", "low", "nohosts", "unregistered", "cfg", "belowmin", "settle", "disabled", "other"
	Text  string
	Bal   *big.Int
}

func classify(err error) opErr {
	if err == nil {
		return opErr{}
	}
	s := err.Error()
	switch e := err.(type) {
	case pool.VerifyFailedError:
		return opErr{Class: "verify", Text: s}
	case balance.LowBalanceError:
		return opErr{Class: "low", Text: s, Bal: e.CurrentBalance}
	case pool.NoHostNodesError:
		return opErr{Class: "nohosts", Text: s}
	case payment.WithdrawBalanceMinimumError:
		return opErr{Class: "belowmin", Text: s, Bal: e.Balance}
	case pool.RemoteHostErrors:
		return opErr{Class: "hosterrors", Text: s}
	}
	switch {
	case err == store.ErrUnregisteredNode || strings.Contains(s, "unregistered node"):
		return opErr{Class: "unregistered", Text: s}
	case err == payment.ErrWithdrawDisabled:
		return opErr{Class: "disabled", Text: s}
	case strings.Contains(s, "failed to verify signature"):
		return opErr{Class: "verify", Text: s}
	case strings.HasPrefix(s, "low balance error"):
		var cur, min big.Int
		fmt.Sscanf(s, "low balance error: Current balance (%s", &cur)
		// "(%d)" formatting: parse manually
		if i := strings.Index(s, "Current balance ("); i >= 0 {
			rest := s[i+len("Current balance ("):]
			if j := strings.Index(rest, ")"); j >= 0 {
				cur.SetString(rest[:j], 10)
			}
		}
		_ = min
		return opErr{Class: "low", Text: s, Bal: &cur}
	case strings.Contains(s, "no available host nodes") || strings.Contains(s, "no host nodes available"):
		return opErr{Class: "nohosts", Text: s}
	case strings.Contains(s, "Invalid interval settings"):
		return opErr{Class: "cfg", Text: s}
	case strings.Contains(s, "settlement failed"):
		return opErr{Class: "settle", Text: s}
	case strings.Contains(s, "failed to call"):
		return opErr{Class: "hosterrors", Text: s}
	}
	return opErr{Class: "other", Text: s}
}

// ---------- signed requests ----------

// signer alters exactly one component of an otherwise valid signed request.
type forge struct {
	Kind string // "", "method", "identity", "nonce+1", "nonce-1", "param", "sigflip", "sigflip-v", "otherkey", "empty", "short", "garbage", "style", "stale", "replay"
	Pos  int
}

func (w *world) sign(key *ecdsa.PrivateKey, method, id string, nonce int64, args ...interface{}) string {
	sig, err := request.Sign(key, method, id, nonce, args...)
	if err != nil {
		fatal("sign: %v", err)
	}
	return sig
}

// connect registers a node; hosts go through their latest connection so that the pool gets a
// reverse service and a source address.
func (w *world) connect(name string, host bool, kind string, payout string, uriOverride string) (*pool.ConnectResponse, error) {
	id := nodeIDOf(name)
	req := pool.ConnectRequest{VipnodeVersion: "verif", NodeInfo: ethnode.UserAgent{Kind: ethnode.ParseNodeKind(kind), IsFullNode: host},
		NodeURI: uriOverride, Payout: walletOf(payout)}
	nonce := w.nextNonce()
	sig := w.sign(keyFor(name), "vipnode_connect", id, nonce, req)
	if host {
		hc := w.lastConn(name)
		if hc == nil {
			hc = w.newConn(name, "10.0.0.1:5555")
		}
		var resp pool.ConnectResponse
		ctx, cancel := context.WithTimeout(context.Background(), 20*time.Second)
		defer cancel()
		err := hc.cliSide.Call(ctx, &resp, "vipnode_connect", sig, id, nonce, req)
		return &resp, err
	}
	return w.pool.Connect(context.Background(), sig, id, nonce, req)
}

// connectOn registers a host over a given connection.
func (w *world) connectOn(hc *hostConn, name string) error {
	id := nodeIDOf(name)
	req := pool.ConnectRequest{VipnodeVersion: "verif", NodeInfo: userAgentFor("geth", true), NodeURI: "enode://" + id + "@10.4.4.4:30303"}
	nonce := w.nextNonce()
	sig := w.sign(keyFor(name), "vipnode_connect", id, nonce, req)
	var resp pool.ConnectResponse
	ctx, cancel := context.WithTimeout(context.Background(), 5*time.Second)
	defer cancel()
	return hc.cliSide.Call(ctx, &resp, "vipnode_connect", sig, id, nonce, req)
}

// peerInfos renders peers the way local nodes report them: parity style (the id is the public
// key) or geth style (the id is a hash; the public key is only in the enode record, whose
// address part is whatever the node printed: plain, IPv6 with a zone, or garbage). The pool must
// identify the peer by its public key in every style.
func peerInfos(ids []string) []ethnode.PeerInfo {
	r := make([]ethnode.PeerInfo, len(ids))
	for i, id := range ids {
		r[i] = ethnode.PeerInfo{ID: id}
		if len(id) != 128 {
			continue
		}
		switch (i + len(ids)) % 4 {
		case 1:
			r[i].ID = "3f" + id[:62]
			r[i].Enode = "enode://" + id + "@10.1.2.3:30303"
		case 2:
			r[i].ID = "3f" + id[:62]
			r[i].Enode = "enode://" + id + "@[fe80::1%eth0]:30303"
		case 3:
			r[i].ID = "3f" + id[:62]
			r[i].Enode = "enode://" + id + "@not an address:zz?discport=0"
		}
	}
	return r
}

// updateCtx (optional) is the context keep-alives arrive with: a request whose sender has hung
// up already arrives with a context that is done
func (w *world) update(name string, peerNames []string, blk uint64) (*pool.UpdateResponse, error) {
	id := nodeIDOf(name)
	ids := make([]string, len(peerNames))
	for i, p := range peerNames {
		ids[i] = w.idOfName(p)
	}
	req := pool.UpdateRequest{PeerInfo: peerInfos(ids), BlockNumber: blk}
	nonce := w.nextNonce()
	sig := w.sign(keyFor(name), "vipnode_update", id, nonce, req)
	cctx := context.Background()
	if w.updateCtxDone {
		c2, cancel := context.WithCancel(cctx)
		cancel()
		cctx = c2
	}
	return w.pool.Update(cctx, sig, id, nonce, req)
}

// idOfName maps logical names to real node ids; "unknown" is an id the pool never saw.
func (w *world) idOfName(name string) string {
	if name == "" {
		return ""
	}
	return nodeIDOf(name)
}

func (w *world) addNode(wallet, node string) error {
	addr := walletOf(wallet)
	nonce := w.nextNonce()
	nid := w.idOfName(node)
	sig := w.sign(keyFor(wallet), "pool_addNode", addr, nonce, nid)
	return w.pay.AddNode(context.Background(), sig, addr, nonce, nid)
}

func (w *world) withdraw(wallet string) error {
	addr := walletOf(wallet)
	nonce := w.nextNonce()
	sig := w.sign(keyFor(wallet), "pool_withdraw", addr, nonce)
	return w.pay.Withdraw(context.Background(), sig, addr, nonce)
}

func userAgentFor(kind string, full bool) ethnode.UserAgent {
	return ethnode.UserAgent{Kind: ethnode.ParseNodeKind(kind), IsFullNode: full}
}

func (w *world) peer(name string, num int, kind string) (*pool.PeerResponse, error) {
	return w.peerCtx(context.Background(), name, num, kind)
}

func (w *world) peerCtx(ctx context.Context, name string, num int, kind string) (*pool.PeerResponse, error) {
	id := nodeIDOf(name)
	req := pool.PeerRequest{Num: num, Kind: kind}
	nonce := w.nextNonce()
	sig := w.sign(keyFor(name), "vipnode_peer", id, nonce, req)
	return w.pool.Peer(ctx, sig, id, nonce, req)
}

// ---------- observation helpers ----------

func (w *world) totalCredit() *big.Int {
	s, err := w.st.Stats()
	if err != nil {
		fatal("stats: %v", err)
	}
	return new(big.Int).Set(&s.TotalCredit)
}

// nameOf maps a real id back to its logical name.
func (w *world) nameOf(id string, universe []string) string {
	for _, n := range universe {
		if nodeIDOf(n) == id {
			return n
		}
	}
	return "?" + id
}

func sortedStrings(v []string) []string {
	r := append([]string{}, v...)
	sort.Strings(r)
	return r
}

// digest is a full rendering of the pool state reachable through the API (C06).
func (w *world) digest(nodes []string, wallets []string) string {
	var b strings.Builder
	s, _ := w.st.Stats()
	fmt.Fprintf(&b, "stats:%d,%d,%d,%d,%d,%s,%d;remotes:%d;", s.NumActiveHosts, s.NumTotalHosts, s.NumActiveClients,
		s.NumTotalClients, s.LatestBlockNumber, s.TotalCredit.String(), s.NumTrialBalances, w.pool.NumRemotes())
	for _, n := range nodes {
		id := store.NodeID(nodeIDOf(n))
		nd, err := w.st.GetNode(id)
		if err != nil {
			fmt.Fprintf(&b, "%s:none;", n)
			continue
		}
		peers, _ := w.st.NodePeers(id)
		var ps []string
		for _, p := range peers {
			ps = append(ps, w.nameOf(string(p.ID), nodes))
		}
		sort.Strings(ps)
		bal, _ := w.bstore.GetNodeBalance(id)
		fmt.Fprintf(&b, "%s:%s,%d,%s,%v,%s,%d,[%s],%s,%s,%s;", n, nd.URI, nd.LastSeen.UnixNano(), nd.Kind, nd.IsHost, nd.Payout,
			nd.BlockNumber, strings.Join(ps, ","), bal.Account, bal.Credit.String(), bal.Deposit.String())
	}
	for _, a := range wallets {
		acct := store.Account(walletOf(a))
		bal, _ := w.bstore.GetAccountBalance(acct)
		nodesOf, _ := w.st.GetAccountNodes(acct)
		var ns []string
		for _, n := range nodesOf {
			ns = append(ns, w.nameOf(string(n), nodes))
		}
		sort.Strings(ns)
		fmt.Fprintf(&b, "%s:%s,%s,[%s];", a, bal.Credit.String(), bal.Deposit.String(), strings.Join(ns, ","))
	}
	return b.String()
}
