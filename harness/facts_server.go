package main

import (
	"fmt"
	"go/ast"
	"strings"
)

// serverFacts: the WebSocket branch of the shipped server (root package server.go): once
// remote.Serve() has returned - for whatever reason - the disconnect hook (pool.CloseRemote) runs:
// no return statement lies between the two, and the hook call is guarded only by "a hook is set".
func serverFacts(ctx *Ctx, b *strings.Builder) {
	_, f := parseFile(ctx.Repo, "server.go")
	always := false
	for _, d := range f.Decls {
		fd, ok := d.(*ast.FuncDecl)
		if !ok || fd.Body == nil || fd.Name.Name != "ServeHTTP" {
			continue
		}
		ast.Inspect(fd.Body, func(n ast.Node) bool {
			cc, ok := n.(*ast.CaseClause)
			if !ok {
				return true
			}
			served := -1
			for i, st := range cc.Body {
				found := false
				ast.Inspect(st, func(x ast.Node) bool {
					if c, ok := x.(*ast.CallExpr); ok {
						if s, ok := c.Fun.(*ast.SelectorExpr); ok && s.Sel.Name == "Serve" {
							found = true
						}
					}
					return true
				})
				if found {
					served = i
					break
				}
			}
			if served < 0 {
				return true
			}
			// no return inside or after the Serve statement before the hook
			ok2 := true
			hook := false
			for _, st := range cc.Body[served:] {
				if is, isIf := st.(*ast.IfStmt); isIf && !hook {
					// if s.onDisconnect != nil { ... s.onDisconnect(remote) ... }
					if be, ok := is.Cond.(*ast.BinaryExpr); ok {
						if se, ok := be.X.(*ast.SelectorExpr); ok && se.Sel.Name == "onDisconnect" {
							ast.Inspect(is.Body, func(x ast.Node) bool {
								if c, ok := x.(*ast.CallExpr); ok {
									if s, ok := c.Fun.(*ast.SelectorExpr); ok && s.Sel.Name == "onDisconnect" {
										hook = true
									}
								}
								return true
							})
							if hook {
								break
							}
						}
					}
				}
				ast.Inspect(st, func(x ast.Node) bool {
					if _, isFn := x.(*ast.FuncLit); isFn {
						return false
					}
					if _, isRet := x.(*ast.ReturnStmt); isRet {
						ok2 = false
					}
					return true
				})
			}
			if hook && ok2 {
				always = true
			}
			return true
		})
	}
	b.WriteString("(* server.go: after remote.Serve() returns, the disconnect hook runs unconditionally *)\n")
	fmt.Fprintf(b, "Definition ws_disconnect_hook_always : bool := %v.\n\n", always)
}
