package main

import (
	"bufio"
	"encoding/json"
	"fmt"
	"math/big"
	"math/rand"
	"os"
	"sort"
	"strings"
	"sync"
)

// Case is one unit of correspondence: the inputs the implementation ran, what it
// answered (rendered as a Gallina term of the property's case type), and the verdicts of
// the implementation-side monitors (the property evaluated directly on the observations).
type Case struct {
	I       int         `json:"i"`
	Kind    string      `json:"kind"`
	Coq     string      `json:"coq,omitempty"` // Gallina term; empty = monitor-only case
	Desc    interface{} `json:"desc"`
	Monitor []string    `json:"monitor,omitempty"` // violated monitors: "<signature>: detail"
	Trivial bool        `json:"trivial,omitempty"`
}

type Ctx struct {
	Seed   int64
	Tier   string
	Only   int
	Repo   string
	Dir    string
	Script string
	Rng    *rand.Rand
	out    *bufio.Writer
	mu     sync.Mutex
	n      int
	Stats  map[string]int
}

func (c *Ctx) Thorough() bool { return c.Tier == "thorough" }

// N picks the case count by tier.
func (c *Ctx) N(quick, thorough int) int {
	if c.Thorough() {
		return thorough
	}
	return quick
}

// Sub returns an independent PRNG for case i, derived only from the seed, so a single
// case can be replayed with -only i.
func (c *Ctx) Sub(i int) *rand.Rand {
	return rand.New(rand.NewSource(c.Seed*1000003 + int64(i)*7919 + 17))
}

// Want says whether case i should run (replay support).
func (c *Ctx) Want(i int) bool { return c.Only < 0 || c.Only == i }

func (c *Ctx) Emit(cs Case) {
	c.mu.Lock()
	defer c.mu.Unlock()
	b, err := json.Marshal(cs)
	if err != nil {
		panic(err)
	}
	c.out.Write(b)
	c.out.WriteByte('\n')
	c.n++
	c.Stats["kind:"+cs.Kind]++
}

func (c *Ctx) Count(key string) {
	c.mu.Lock()
	c.Stats[key]++
	c.mu.Unlock()
}

func (c *Ctx) Close() {
	// trailer line with the input distribution
	b, _ := json.Marshal(map[string]interface{}{"stats": c.Stats, "cases": c.n})
	c.out.Write(b)
	c.out.WriteByte('\n')
	c.out.Flush()
}

// ---------- Gallina rendering ----------

func cZ(v int64) string      { return fmt.Sprintf("(%d)%%Z", v) }
func cBig(v *big.Int) string { return fmt.Sprintf("(%s)%%Z", v.String()) }
func cN(v int) string        { return fmt.Sprintf("%d%%N", v) }
func cNat(v int) string      { return fmt.Sprintf("%d%%nat", v) }
func cBool(b bool) string {
	if b {
		return "true"
	}
	return "false"
}
func cList(items []string) string { return "[" + strings.Join(items, "; ") + "]" }
func cNs(v []int) string {
	s := make([]string, len(v))
	for i, x := range v {
		s[i] = cN(x)
	}
	return cList(s)
}
func cBools(v []bool) string {
	s := make([]string, len(v))
	for i, x := range v {
		s[i] = cBool(x)
	}
	return cList(s)
}
func cOpt(s string, ok bool) string {
	if !ok {
		return "None"
	}
	return "(Some " + s + ")"
}

// cBytes renders a Go string as a list of byte values (list N).
func cBytes(s string) string {
	items := make([]string, len(s))
	for i := 0; i < len(s); i++ {
		items[i] = fmt.Sprintf("%d", s[i])
	}
	return "(bs [" + strings.Join(items, ";") + "])"
}

func sortedInts(v []int) []int {
	r := append([]int{}, v...)
	sort.Ints(r)
	return r
}

func fatal(format string, args ...interface{}) {
	fmt.Fprintf(os.Stderr, "vharness: "+format+"\n", args...)
	os.Exit(2)
}
