package main

import (
	"context"
	"errors"
	"fmt"
	"io/ioutil"
	"math/rand"
	"os"
	"os/exec"
	"runtime"
	"strings"
	"sync"
	"sync/atomic"
	"time"

	"github.com/ethereum/go-ethereum/crypto"
	"github.com/ethereum/go-ethereum/p2p/discv5"
	"github.com/vipnode/vipnode/v2/agent"
	"github.com/vipnode/vipnode/v2/ethnode"
	"github.com/vipnode/vipnode/v2/pool"
	"github.com/vipnode/vipnode/v2/pool/store"
)

func init() { commands["c20"] = runC20 }

// lifePool counts keep-alives and fails at scripted points.
type lifePool struct {
	mu          sync.Mutex
	connectFail bool
	updateFail  bool
	updates     int64
	gate        chan struct{} // when set, Connect announces itself on entered and waits for the gate
	entered     chan struct{}
	updateDelay time.Duration // how long the pool takes to answer a keep-alive
	failed      int64         // keep-alives refused so far
	logOn       bool          // record the begin and end of every keep-alive in evs
	evMu        sync.Mutex
	evs         []string
}

// logEv appends an event (in the notation of Inflight.v) to the pool's history.
func (p *lifePool) logEv(e string) {
	p.evMu.Lock()
	if p.logOn {
		p.evs = append(p.evs, e)
	}
	p.evMu.Unlock()
}

func (p *lifePool) Host(ctx context.Context, r pool.HostRequest) (*pool.HostResponse, error) {
	return &pool.HostResponse{}, nil
}
func (p *lifePool) Client(ctx context.Context, r pool.ClientRequest) (*pool.ClientResponse, error) {
	return &pool.ClientResponse{}, nil
}
func (p *lifePool) Connect(ctx context.Context, r pool.ConnectRequest) (*pool.ConnectResponse, error) {
	p.mu.Lock()
	gate, entered := p.gate, p.entered
	p.mu.Unlock()
	if gate != nil {
		entered <- struct{}{}
		select {
		case <-gate:
		case <-time.After(3 * time.Second):
		}
	}
	p.mu.Lock()
	defer p.mu.Unlock()
	if p.connectFail {
		return nil, errors.New("pool refuses the connection")
	}
	return &pool.ConnectResponse{PoolVersion: "fake"}, nil
}
func (p *lifePool) Update(ctx context.Context, r pool.UpdateRequest) (*pool.UpdateResponse, error) {
	p.logEv("EKB")
	atomic.AddInt64(&p.updates, 1)
	p.mu.Lock()
	delay := p.updateDelay
	p.mu.Unlock()
	if delay > 0 {
		time.Sleep(delay)
	}
	p.mu.Lock()
	defer p.mu.Unlock()
	if p.updateFail {
		atomic.AddInt64(&p.failed, 1)
		p.logEv("EKE false")
		return nil, errors.New("pool fails the keep-alive")
	}
	p.logEv("EKE true")
	return &pool.UpdateResponse{Balance: &store.Balance{}}, nil
}
func (p *lifePool) Peer(ctx context.Context, r pool.PeerRequest) (*pool.PeerResponse, error) {
	return &pool.PeerResponse{}, nil
}
func (p *lifePool) Withdraw(ctx context.Context) error { return nil }

const c20Interval = 25 * time.Millisecond

// measureLoops estimates the number of live keep-alive loops from the keep-alive rate.
func measureLoops(p *lifePool) (int, float64) {
	for try := 0; try < 4; try++ {
		start := atomic.LoadInt64(&p.updates)
		t0 := time.Now()
		time.Sleep(12 * c20Interval)
		n := atomic.LoadInt64(&p.updates) - start
		rate := float64(n) / (float64(time.Since(t0)) / float64(c20Interval))
		switch {
		case n == 0:
			// a loop that is gone sends nothing at all: confirm over a second window (a loop that is
			// merely slow on a loaded machine sends something)
			time.Sleep(12 * c20Interval)
			if atomic.LoadInt64(&p.updates) == start {
				return 0, 0
			}
		case rate > 0.6 && rate < 1.4:
			return 1, rate
		case rate > 1.65 && rate < 2.5:
			return 2, rate
		case rate >= 2.5:
			return 3, rate
		}
	}
	return -1, 0
}

type c20Op struct {
	Op   string  `json:"op"`
	Out  string  `json:"result"`
	Rate float64 `json:"keepalives_per_interval,omitempty"`
}

func c20Sequence(ctx *Ctx, i int, rng *rand.Rand) {
	node := &recNode{kind: ethnode.Geth, connFail: -1}
	lp := &lifePool{logOn: true}
	a := &agent.Agent{EthNode: node, UpdateInterval: c20Interval, NumHosts: 0}
	g0 := runtime.NumGoroutine()
	// harness-side mirror of the model state, only to know which operations are enabled
	started, loops, waitq := false, 0, 0
	endedBy := "" // how the run whose result is due ended: "failed keep-alive" or "stop"
	var ops []c20Op
	var items []string
	var mon []string
	emit := func(op, coqOp, out string, rate float64) {
		ops = append(ops, c20Op{op, out, rate})
		items = append(items, fmt.Sprintf("(%s, %s)", coqOp, out))
	}
	steps := 5 + rng.Intn(9)
	// directed prefix (every fourth sequence): runs ended by a failing keep-alive whose result
	// nobody collects, each followed by a restart
	script := []int{}
	if i%4 == 3 {
		script = []int{0, 6, 0, 6, 0, 9}
		steps += len(script)
	}
	for k := 0; k < steps; k++ {
		r := rng.Intn(10)
		scripted := k < len(script)
		if scripted {
			r = script[k]
		}
		switch {
		case r < 4: // start (possibly failing at the pool)
			oc := "SOk"
			lp.mu.Lock()
			lp.connectFail, lp.updateFail = false, false
			fail := rng.Intn(5)
			if scripted {
				fail = 4
			}
			switch fail {
			case 0:
				lp.connectFail, oc = true, "SFailConnect"
			case 1:
				lp.updateFail, oc = true, "SFailFirstUpdate"
			}
			lp.mu.Unlock()
			lp.logEv("EStartCall")
			err := a.Start(lp)
			lp.logEv(fmt.Sprintf("EStartRet %v", err == nil))
			lp.mu.Lock()
			lp.connectFail, lp.updateFail = false, false
			lp.mu.Unlock()
			out := "RStartOk"
			switch {
			case err == agent.ErrAlreadyStarted:
				out = "RAlreadyStarted"
			case err != nil:
				out = "RStartErr"
			}
			emit("start:"+oc, "LStart "+oc, out, 0)
			if err == agent.ErrAlreadyStarted && !started && loops == 0 {
				mon = append(mon, "c20-start-refused-while-stopped: Start was refused as already started although every loop has ended (through a failed keep-alive, or through Stop followed by a Wait that returned) and no keep-alives are being sent")
			}
			if err != agent.ErrAlreadyStarted {
				waitq = 0 // an accepted Start drops results of earlier runs that nobody collected
				endedBy = ""
			}
			if !started && oc == "SOk" && err == nil {
				started, loops = true, loops+1
			} else if err == nil {
				loops++ // a second loop is now running (the model will disagree)
			}
		case r < 6: // stop, only while something is running (Stop blocks otherwise)
			if loops == 0 {
				continue
			}
			done := make(chan struct{})
			lp.logEv("EStopCall")
			go func() { a.Stop(); lp.logEv("EStopRet"); close(done) }()
			select {
			case <-done:
				emit("stop", "LStop", "RStopped", 0)
				loops--
				started = false
				waitq++
				// Stop returns as soon as the loop has taken the signal; the agent may be started
				// again once Wait has returned (the property's wording), so wait right away
				res := make(chan error, 1)
				go func() { err := a.Wait(); lp.logEv("EWaitRet"); res <- err }()
				select {
				case err := <-res:
					if err == nil {
						emit("wait", "LWait", "(RWait WNil)", 0)
					} else {
						emit("wait", "LWait", "(RWait WErr)", 0)
						if endedBy == "" {
							mon = append(mon, fmt.Sprintf("c20-wait-spurious-error: the loop was stopped, yet Wait returned an error: %v", err))
						}
					}
					waitq--
				case <-time.After(2 * time.Second):
					emit("wait", "LWait", "RNone", 0)
					mon = append(mon, "c20-wait-blocked: Wait did not return within 2 s after Stop")
					waitq--
				}
			case <-time.After(2 * time.Second):
				emit("stop", "LStop", "RNone", 0)
				mon = append(mon, "c20-stop-blocked: Stop did not return within 2 s although a keep-alive loop should be running")
			}
		case r < 7: // the pool fails a keep-alive: the loop must end with that error
			if loops == 0 {
				continue
			}
			failedBefore := atomic.LoadInt64(&lp.failed)
			lp.mu.Lock()
			lp.updateFail = true
			lp.mu.Unlock()
			// until every live loop has had its keep-alive refused (a loaded machine may take longer
			// than a few intervals to run the tick)
			for t0 := time.Now(); atomic.LoadInt64(&lp.failed) < failedBefore+int64(loops) && time.Since(t0) < 3*time.Second; {
				time.Sleep(c20Interval / 2)
			}
			lp.mu.Lock()
			lp.updateFail = false
			lp.mu.Unlock()
			time.Sleep(2 * c20Interval) // the loop's goroutine winds down
			emit("pool-fails-keepalive", "LTickFail", "(RTick 1)", 0)
			waitq += loops
			loops = 0
			started = false
			endedBy = "failed keep-alive"
		case r < 8: // wait, only when a result is due
			if waitq == 0 {
				continue
			}
			res := make(chan error, 1)
			go func() { err := a.Wait(); lp.logEv("EWaitRet"); res <- err }()
			select {
			case err := <-res:
				if err == nil {
					emit("wait", "LWait", "(RWait WNil)", 0)
					if endedBy == "failed keep-alive" {
						mon = append(mon, "c20-wait-lost-error: the loop ended because the pool failed a keep-alive, yet Wait reported a clean stop (nil): the owner cannot tell a failure from a Stop")
					}
				} else {
					emit("wait", "LWait", "(RWait WErr)", 0)
				}
				endedBy = ""
				waitq--
			case <-time.After(2 * time.Second):
				emit("wait", "LWait", "RNone", 0)
				mon = append(mon, "c20-wait-blocked: Wait did not return within 2 s although the loop had ended")
				waitq--
			}
		default: // measure the cadence
			n, rate := measureLoops(lp)
			if n < 0 {
				continue
			}
			emit("measure", "LTick", fmt.Sprintf("(RTick %s)", cNat(n)), rate)
			if n >= 2 {
				mon = append(mon, fmt.Sprintf("c20-two-loops: %.2f keep-alives per interval: %d keep-alive loops are running", rate, n))
			}
			if n == 0 && started {
				mon = append(mon, fmt.Sprintf("c20-no-loop-after-start: the agent was started successfully and has not been stopped, yet no keep-alives are being sent (%.2f per interval)", rate))
			}
		}
	}
	// the history so far, keep-alive by keep-alive, for the finer lifecycle model
	lp.evMu.Lock()
	lp.logOn = false
	evs := append([]string{}, lp.evs...)
	lp.evMu.Unlock()
	// always finish with a measurement, then stop everything that runs
	if n, rate := measureLoops(lp); n >= 0 {
		emit("measure", "LTick", fmt.Sprintf("(RTick %s)", cNat(n)), rate)
		if n >= 2 {
			mon = append(mon, fmt.Sprintf("c20-two-loops: %.2f keep-alives per interval: %d keep-alive loops are running", rate, n))
		}
		if n == 0 && started {
			mon = append(mon, fmt.Sprintf("c20-no-loop-after-start: the agent was started successfully and has not been stopped, yet no keep-alives are being sent (%.2f per interval)", rate))
		}
		for j := 0; j < n; j++ {
			done := make(chan struct{})
			go func() { a.Stop(); close(done) }()
			select {
			case <-done:
			case <-time.After(time.Second):
			}
		}
	}
	time.Sleep(3 * c20Interval)
	if leaked := runtime.NumGoroutine() - g0; leaked > 3 && ctx.Only >= 0 {
		mon = append(mon, fmt.Sprintf("c20-goroutines-left: %d goroutines more than before the agent was created", leaked))
	}
	coq := fmt.Sprintf("C20Life {| c20_ops := %s; c20_intervals := []; c20_min := 0; c20_max := 0 |}", cList(items))
	ctx.Emit(Case{I: i, Kind: "lifecycle", Coq: coq, Desc: map[string]interface{}{"ops": ops}, Monitor: mon})
	if len(evs) <= 1500 && len(mon) == 0 {
		ctx.Emit(Case{I: 100000 + i, Kind: "lifecycle-events", Coq: "C20Trace " + cList(evs), Desc: map[string]interface{}{"ops": ops, "events": len(evs)}})
	}
}

// c20Overlap: several Start calls overlap (the pool is slow to answer the registration).  When
// they have all returned at most one may have succeeded, and exactly one keep-alive loop runs;
// one Stop ends it and Wait returns.
func c20Overlap(ctx *Ctx, i int, rng *rand.Rand) {
	node := &recNode{kind: ethnode.Geth, connFail: -1}
	lp := &lifePool{gate: make(chan struct{}), entered: make(chan struct{}, 8)}
	a := &agent.Agent{EthNode: node, UpdateInterval: c20Interval, NumHosts: 0}
	k := 2 + rng.Intn(3)
	results := make(chan error, k)
	for j := 0; j < k; j++ {
		go func() { results <- a.Start(lp) }()
		if j == 0 {
			select { // the first registration is in flight at the pool
			case <-lp.entered:
			case <-time.After(2 * time.Second):
			}
		} else {
			time.Sleep(10 * time.Millisecond)
		}
	}
	time.Sleep(50 * time.Millisecond)
	close(lp.gate)
	ok, refused, other := 0, 0, 0
	for j := 0; j < k; j++ {
		select {
		case err := <-results:
			switch {
			case err == nil:
				ok++
			case err == agent.ErrAlreadyStarted:
				refused++
			default:
				other++
			}
		case <-time.After(5 * time.Second):
			other++
		}
	}
	var mon []string
	if ok > 1 {
		mon = append(mon, fmt.Sprintf("c20-overlapping-starts-accepted: %d Start calls overlapped while the pool was answering the first registration; %d of them succeeded (at most one may; the others must be refused as already started)", k, ok))
	}
	n, rate := measureLoops(lp)
	if n >= 2 {
		mon = append(mon, fmt.Sprintf("c20-two-loops: after %d overlapping Start calls %.2f keep-alives are sent per interval: %d keep-alive loops are running", k, rate, n))
	}
	if ok >= 1 && n == 0 {
		mon = append(mon, fmt.Sprintf("c20-no-loop-after-start: a Start succeeded yet no keep-alives are being sent (%.2f per interval)", rate))
	}
	stopped := make(chan struct{})
	go func() { a.Stop(); a.Wait(); close(stopped) }()
	select {
	case <-stopped:
		if n2, rate2 := measureLoops(lp); n2 >= 1 {
			mon = append(mon, fmt.Sprintf("c20-loop-survives-stop: after Stop and Wait returned, %.2f keep-alives per interval are still being sent", rate2))
			for j := 0; j < n2; j++ { // clean up
				go a.Stop()
			}
		}
	case <-time.After(2 * time.Second):
		if ok >= 1 {
			mon = append(mon, "c20-stop-blocked: Stop/Wait did not return within 2 s although a Start had succeeded")
		}
	}
	ctx.Emit(Case{I: i, Kind: "overlapping-starts", Desc: map[string]interface{}{"starts": k, "succeeded": ok, "refused": refused, "other": other, "loops": n}, Monitor: mon})
}

// c20Storm: Stop races with several Start calls, many times over.  Between two Stops at most one
// Start may succeed (each success starts a keep-alive loop).
func c20Storm(ctx *Ctx, i int, rounds int) {
	node := &recNode{kind: ethnode.Geth, connFail: -1}
	lp := &lifePool{}
	a := &agent.Agent{EthNode: node, UpdateInterval: time.Hour, NumHosts: 0}
	var mon []string
	if err := a.Start(lp); err != nil {
		fatal("start: %v", err)
	}
	running := 1 // loops believed running
	worst := 0
	for r := 0; r < rounds && len(mon) == 0; r++ {
		var wg sync.WaitGroup
		var ok int32
		begin := make(chan struct{})
		for g := 0; g < 3; g++ {
			wg.Add(1)
			go func() {
				defer wg.Done()
				<-begin
				for k := 0; k < 40; k++ {
					if a.Start(lp) == nil {
						atomic.AddInt32(&ok, 1)
					}
				}
			}()
		}
		wg.Add(1)
		go func() {
			defer wg.Done()
			<-begin
			a.Stop()
		}()
		close(begin)
		wg.Wait()
		running = running - 1 + int(ok)
		if int(ok) > worst {
			worst = int(ok)
		}
		if ok > 1 {
			mon = append(mon, fmt.Sprintf("c20-two-loops: round %d: while one Stop was in progress %d Start calls succeeded: %d keep-alive loops are now running", r, ok, running))
		}
		// collect results so that nothing piles up, and make sure exactly one loop runs for the next round
		for {
			select {
			case <-lp.entered:
			default:
			}
			done := make(chan struct{})
			go func() { a.Wait(); close(done) }()
			select {
			case <-done:
				continue
			case <-time.After(2 * time.Millisecond):
			}
			break
		}
		if running == 0 {
			if err := a.Start(lp); err == nil {
				running = 1
			}
		}
	}
	for running > 0 {
		done := make(chan struct{})
		go func() { a.Stop(); close(done) }()
		select {
		case <-done:
		case <-time.After(200 * time.Millisecond):
		}
		running--
	}
	ctx.Emit(Case{I: i, Kind: "stop-start-storm", Desc: map[string]interface{}{"rounds": rounds, "most_starts_accepted_per_stop": worst}, Monitor: mon})
}

// c20CLI runs the built agent binary with update intervals around the bounds and observes
// whether it refuses them.
func c20CLI(ctx *Ctx, i int) {
	bin, cleanup := buildBinary(ctx.Repo)
	defer cleanup()
	dir, _ := ioutil.TempDir("", "vharness-cli")
	defer os.RemoveAll(dir)
	key := keyFor("cli-agent")
	keyFile := dir + "/nodekey"
	if err := crypto.SaveECDSA(keyFile, key); err != nil {
		fatal("%v", err)
	}
	id := discv5.PubkeyID(&key.PublicKey).String()
	minI, maxI := int64(0), int64(0)
	for k, v := range astConsts(ctx.Repo) {
		switch k {
		case "minUpdateInterval":
			minI = v
		case "maxUpdateInterval":
			maxI = v
		}
	}
	tries := []time.Duration{time.Second, time.Duration(minI), time.Duration(minI) + time.Millisecond, 30 * time.Second, 60 * time.Second,
		time.Duration(maxI) - 100*time.Millisecond, time.Duration(maxI), time.Duration(maxI) + time.Second, time.Hour}
	var items []string
	var obs []map[string]interface{}
	var mon []string
	var wg sync.WaitGroup
	var mu sync.Mutex
	results := make([]string, len(tries))
	for k, d := range tries {
		wg.Add(1)
		go func(k int, d time.Duration) {
			defer wg.Done()
			cctx, cancel := context.WithTimeout(context.Background(), 3*time.Second)
			defer cancel()
			cmd := exec.CommandContext(cctx, bin, "agent", "--rpc", "fakenode://"+id, "--nodekey", keyFile, "--update-interval", d.String(), "ws://127.0.0.1:1/")
			out, _ := cmd.CombinedOutput()
			mu.Lock()
			results[k] = string(out)
			mu.Unlock()
		}(k, d)
	}
	wg.Wait()
	for k, d := range tries {
		out := results[k]
		refused := strings.Contains(out, "update interval too large") || strings.Contains(out, "update interval too small")
		items = append(items, fmt.Sprintf("(%s, %s)", cZ(int64(d)), cBool(!refused)))
		obs = append(obs, map[string]interface{}{"interval": d.String(), "accepted": !refused})
		if !refused && int64(d) >= int64(store.ExpireInterval) {
			mon = append(mon, fmt.Sprintf("c20-interval-accepted: the command line accepted --update-interval %s, not shorter than the pool's expiry window %s", d, store.ExpireInterval))
		}
	}
	coq := fmt.Sprintf("C20Life {| c20_ops := []; c20_intervals := %s; c20_min := %s; c20_max := %s |}", cList(items), cZ(minI), cZ(maxI))
	ctx.Emit(Case{I: i, Kind: "command-line", Coq: coq, Desc: map[string]interface{}{"tries": obs, "min": minI, "max": maxI}, Monitor: mon})
}

// c20Cadence: the keep-alive period is the configured interval, also when the pool takes most of
// an interval to answer each keep-alive (a slow link, a busy pool): the command-line bound keeps
// a node active only if "every interval" means from tick to tick, not from answer to next send.
func c20Cadence(ctx *Ctx, i int) {
	const interval = 200 * time.Millisecond
	node := &recNode{kind: ethnode.Geth, connFail: -1}
	lp := &lifePool{}
	a := &agent.Agent{EthNode: node, UpdateInterval: interval, NumHosts: 0}
	var mon []string
	if err := a.Start(lp); err != nil {
		fatal("start: %v", err)
	}
	lp.mu.Lock()
	lp.updateDelay = interval * 9 / 10
	lp.mu.Unlock()
	start := atomic.LoadInt64(&lp.updates)
	t0 := time.Now()
	time.Sleep(16 * interval)
	sent := atomic.LoadInt64(&lp.updates) - start
	intervals := float64(time.Since(t0)) / float64(interval)
	lp.mu.Lock()
	lp.updateDelay = 0
	lp.mu.Unlock()
	a.Stop()
	a.Wait()
	// the same agent, reconfigured while stopped, started again: the new interval is the one in force
	const second = 40 * time.Millisecond
	a.UpdateInterval = second
	if err := a.Start(lp); err != nil {
		mon = append(mon, fmt.Sprintf("c20-restart-refused: after Stop and Wait the agent could not be started again: %v", err))
	} else {
		start2 := atomic.LoadInt64(&lp.updates)
		t1 := time.Now()
		time.Sleep(30 * second)
		sent2 := atomic.LoadInt64(&lp.updates) - start2
		iv2 := float64(time.Since(t1)) / float64(second)
		a.Stop()
		a.Wait()
		if float64(sent2) < 0.5*iv2 || float64(sent2) > 1.6*iv2 {
			mon = append(mon, fmt.Sprintf("c20-restart-interval: the agent ran with --update-interval %s, was stopped, reconfigured to %s and started again: %d keep-alives in %.1f intervals of %s: the configured interval is not the one in force", interval, second, sent2, iv2, second))
		}
	}
	if float64(sent) < 0.72*intervals {
		mon = append(mon, fmt.Sprintf("c20-keepalive-period: with --update-interval %s and a pool that answers each keep-alive after %s, %d keep-alives were sent in %.1f intervals: the period is the interval plus the time the pool takes, so an accepted interval close to the expiry window no longer keeps the node active", interval, interval*9/10, sent, intervals))
	}
	ctx.Emit(Case{I: i, Kind: "cadence-slow-pool", Desc: map[string]interface{}{"interval_ms": 200, "answer_after_ms": 180, "keepalives": sent, "intervals": intervals}, Monitor: mon})
}

// c20StopSlowKeepalive: Stop arrives while a keep-alive is in flight and the pool takes longer to
// answer it than any timeout the agent has (3 s here, through the hook). Once Stop has returned
// the agent is stopped: the keep-alive in flight may finish, none is sent after it, Wait returns,
// and the agent can be started again.
func c20StopSlowKeepalive(ctx *Ctx, i int) {
	const interval = 40 * time.Millisecond
	const slow = 3600 * time.Millisecond
	node := &recNode{kind: ethnode.Geth, connFail: -1}
	lp := &lifePool{logOn: true}
	a := &agent.Agent{EthNode: node, UpdateInterval: interval, NumHosts: 0}
	var mon []string
	lp.logEv("EStartCall")
	if err := a.Start(lp); err != nil {
		fatal("start: %v", err)
	}
	lp.logEv("EStartRet true")
	time.Sleep(3 * interval)
	lp.mu.Lock()
	lp.updateDelay = slow
	lp.mu.Unlock()
	before := atomic.LoadInt64(&lp.updates)
	for t := 0; t < 200 && atomic.LoadInt64(&lp.updates) == before; t++ {
		time.Sleep(5 * time.Millisecond)
	}
	// a keep-alive is in flight now and will be for 3.6 s (the ones after it are answered at once:
	// the loop may well send another before it takes the stop request)
	inFlight := atomic.LoadInt64(&lp.updates)
	time.Sleep(20 * time.Millisecond)
	lp.mu.Lock()
	lp.updateDelay = 0
	lp.mu.Unlock()
	t0 := time.Now()
	stopped := make(chan time.Duration, 1)
	lp.logEv("EStopCall")
	go func() { a.Stop(); lp.logEv("EStopRet"); stopped <- time.Since(t0) }()
	waited := make(chan error, 1)
	startWait := func() { go func() { err := a.Wait(); lp.logEv("EWaitRet"); waited <- err }() }
	var stopTook time.Duration
	select {
	case stopTook = <-stopped:
	case <-time.After(slow + 3*time.Second):
		mon = append(mon, fmt.Sprintf("c20-stop-slow-keepalive: Stop was called while a keep-alive was in flight (the pool answers it after %s); it has not returned %s later", slow, slow+3*time.Second))
	}
	lp.mu.Lock()
	lp.updateDelay = 0
	lp.mu.Unlock()
	if len(mon) == 0 {
		// from here on the agent counts as stopped (Wait is called only now, so that the order of
		// the two returns in the log is the order they happened in)
		startWait()
		remaining := slow - time.Since(t0)
		if remaining > 0 {
			time.Sleep(remaining)
		}
		time.Sleep(4 * interval)
		base := atomic.LoadInt64(&lp.updates)
		time.Sleep(12 * interval)
		after := atomic.LoadInt64(&lp.updates)
		waitOK := false
		select {
		case <-waited:
			waitOK = true
		case <-time.After(time.Second):
		}
		if after != base || !waitOK {
			mon = append(mon, fmt.Sprintf("c20-stop-slow-keepalive: Stop was called while a keep-alive was in flight (the pool answered it after %s) and returned after %s; afterwards %d more keep-alives were sent in %s and Wait returned=%v: the agent was told to stop and runs on", slow, stopTook.Round(time.Millisecond), after-base, 12*interval, waitOK))
			if !waitOK {
				// do not leave the loop running behind the other cases
				done := make(chan struct{})
				go func() { a.Stop(); close(done) }()
				select {
				case <-done:
				case <-time.After(2 * time.Second):
				}
			}
		} else {
			lp.logEv("EStartCall")
			if err := a.Start(lp); err != nil {
				lp.logEv("EStartRet false")
				mon = append(mon, fmt.Sprintf("c20-stop-slow-keepalive: after Stop (during a slow keep-alive) and Wait the agent cannot be started again: %v", err))
			} else {
				lp.logEv("EStartRet true")
				time.Sleep(3 * interval)
				lp.logEv("EStopCall")
				a.Stop()
				lp.logEv("EStopRet")
				a.Wait()
				lp.logEv("EWaitRet")
			}
		}
	}
	// the whole history, keep-alive by keep-alive, held against the lifecycle model
	lp.evMu.Lock()
	lp.logOn = false
	evs := append([]string{}, lp.evs...)
	lp.evMu.Unlock()
	coq := ""
	if len(evs) <= 600 {
		coq = "C20Trace " + cList(evs)
	}
	ctx.Emit(Case{I: i, Kind: "stop-during-slow-keepalive", Coq: coq, Desc: map[string]interface{}{"interval_ms": 40, "pool_answers_after_ms": slow.Milliseconds(), "agent_timeouts_ms": 3000, "keepalives_before_stop": inFlight, "stop_returned_after_ms": stopTook.Milliseconds()}, Monitor: mon})
}

// c20WaitBeforeStart: the owner of an agent waits for it before starting it (a supervisor
// goroutine spawned first, or a Wait left over from before a restart). Wait reports the end of
// the run that is started next: after Start and Stop (or a failed keep-alive) it returns.
func c20WaitBeforeStart(ctx *Ctx, i int) {
	node := &recNode{kind: ethnode.Geth, connFail: -1}
	lp := &lifePool{logOn: true}
	a := &agent.Agent{EthNode: node, UpdateInterval: c20Interval, NumHosts: 0}
	var mon, log []string
	round := func(what string, end func()) {
		res := make(chan error, 1)
		go func() { res <- a.Wait() }()
		time.Sleep(60 * time.Millisecond) // Wait is blocked now
		lp.logEv("EStartCall")
		if err := a.Start(lp); err != nil {
			lp.logEv("EStartRet false")
			mon = append(mon, fmt.Sprintf("c20-wait-before-start: %s: Start failed: %v", what, err))
			return
		}
		lp.logEv("EStartRet true")
		time.Sleep(3 * c20Interval)
		end()
		select {
		case err := <-res:
			lp.logEv("EWaitRet") // logged here, after the end of the run has been logged: the two returns race
			log = append(log, fmt.Sprintf("%s: Wait returned %v", what, err))
		case <-time.After(3 * time.Second):
			mon = append(mon, fmt.Sprintf("c20-wait-before-start: %s: Wait was called before Start; the run was started and has ended, Wait has not returned 3 s later", what))
			// unblock nothing: the goroutine is lost; further rounds would only repeat the finding
		}
	}
	round("first run, ended by Stop", func() { lp.logEv("EStopCall"); a.Stop(); lp.logEv("EStopRet") })
	if len(mon) == 0 {
		round("restart, ended by Stop", func() { lp.logEv("EStopCall"); a.Stop(); lp.logEv("EStopRet") })
	}
	if len(mon) == 0 {
		round("restart, ended by a failing keep-alive", func() {
			before := atomic.LoadInt64(&lp.failed)
			lp.mu.Lock()
			lp.updateFail = true
			lp.mu.Unlock()
			for t0 := time.Now(); atomic.LoadInt64(&lp.failed) == before && time.Since(t0) < 3*time.Second; {
				time.Sleep(c20Interval / 2)
			}
			lp.mu.Lock()
			lp.updateFail = false
			lp.mu.Unlock()
		})
	}
	lp.evMu.Lock()
	lp.logOn = false
	evs := append([]string{}, lp.evs...)
	lp.evMu.Unlock()
	coq := ""
	if len(mon) == 0 && len(evs) <= 1500 {
		coq = "C20Trace " + cList(evs)
	}
	ctx.Emit(Case{I: i, Kind: "wait-before-start", Coq: coq, Desc: map[string]interface{}{"rounds": log}, Monitor: mon})
}

func runC20(ctx *Ctx) {
	agent.VerifSetTimeouts(3*time.Second, 3*time.Second)
	var slowWG sync.WaitGroup
	if ctx.Want(900) {
		slowWG.Add(1)
		go func() { defer slowWG.Done(); c20StopSlowKeepalive(ctx, 900) }()
	}
	defer slowWG.Wait()
	n := ctx.N(24, 400)
	// lifecycle sequences are timing based: run a few at a time only
	var wg sync.WaitGroup
	sem := make(chan struct{}, 6)
	for c := 0; c < n; c++ {
		if !ctx.Want(c) && !ctx.Want(100000+c) {
			continue
		}
		wg.Add(1)
		sem <- struct{}{}
		go func(c int) {
			defer wg.Done()
			defer func() { <-sem }()
			c20Sequence(ctx, c, ctx.Sub(c))
		}(c)
	}
	wg.Wait()
	for c := 0; c < ctx.N(3, 30); c++ {
		if ctx.Want(n + 1 + c) {
			c20Overlap(ctx, n+1+c, ctx.Sub(n+1+c))
		}
	}
	if ctx.Want(n + 100) {
		c20Storm(ctx, n+100, ctx.N(400, 6000))
	}
	if ctx.Want(n + 101) {
		c20Cadence(ctx, n+101)
	}
	if ctx.Want(n + 102) {
		c20WaitBeforeStart(ctx, n+102)
	}
	if ctx.Want(n) {
		c20CLI(ctx, n)
	}
}
