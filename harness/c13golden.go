package main

import (
	"encoding/json"
	"fmt"
	"io/ioutil"
	"math/big"
	"os"
	"path/filepath"
	"sort"
	"strings"
	"time"

	"github.com/vipnode/vipnode/v2/pool/store"
	badgerstore "github.com/vipnode/vipnode/v2/pool/store/badger"
)

// C13, across versions of the binary: harness/golden/v2 is a database directory written by the
// driver of the pinned tree (format 2), with its contents as that driver read them back
// (golden.json). Every run copies it and opens the copy with the driver of the CURRENT tree:
// everything that was acknowledged then must still read the same now. A change of the on-disk
// layout that comes with a migration passes (Open migrates); one without loses data here.
// (`vharness c13golden -out <dir>` regenerates the fixture; it is committed, not rebuilt.)

type goldenDoc struct {
	Written  string            `json:"written_by"`
	Nodes    map[string]string `json:"nodes"`         // id -> "host=..,kind=..,payout=..,block=.."
	NodeBal  map[string]string `json:"node_balances"` // id -> "account/credit"
	AcctBal  map[string]string `json:"account_balances"`
	AcctNode map[string]string `json:"account_nodes"` // account -> sorted node ids
	Peers    map[string]string `json:"peers"`         // id -> sorted peer ids (read within the expiry window at write time)
	Nonce    map[string]int64  `json:"nonces"`        // identity -> accepted nonce (far in the future: never stale)
	Total    string            `json:"total_credit"`
	Trials   int               `json:"trial_balances"`
}

func goldenIDs() (nodes []string, wallets []string) {
	for k := 0; k < 6; k++ {
		nodes = append(nodes, nodeIDOf(fmt.Sprintf("g%d", k)))
	}
	// wallets as the payment service spells them (EIP-55 mixed case), and a lower-case one
	wallets = []string{walletOf("w1"), walletOf("w2"), "0x00000000000000000000000000000000000000aa"}
	return
}

func goldenRead(st store.Store, nodes, wallets []string) goldenDoc {
	d := goldenDoc{Nodes: map[string]string{}, NodeBal: map[string]string{}, AcctBal: map[string]string{}, AcctNode: map[string]string{}, Peers: map[string]string{}, Nonce: map[string]int64{}}
	for _, id := range nodes {
		n, err := st.GetNode(store.NodeID(id))
		if err != nil {
			d.Nodes[id] = "error: " + err.Error()
		} else {
			d.Nodes[id] = fmt.Sprintf("host=%v,kind=%s,payout=%s,block=%d,uri=%s", n.IsHost, n.Kind, n.Payout, n.BlockNumber, n.URI)
		}
		b, err := st.GetNodeBalance(store.NodeID(id))
		if err != nil {
			d.NodeBal[id] = "error: " + err.Error()
		} else {
			d.NodeBal[id] = string(b.Account) + "/" + b.Credit.String()
		}
	}
	for _, w := range wallets {
		b, err := st.GetAccountBalance(store.Account(w))
		if err != nil {
			d.AcctBal[w] = "error: " + err.Error()
		} else {
			d.AcctBal[w] = b.Credit.String()
		}
		ns, _ := st.GetAccountNodes(store.Account(w))
		var l []string
		for _, n := range ns {
			l = append(l, string(n))
		}
		sort.Strings(l)
		d.AcctNode[w] = fmt.Sprint(l)
	}
	if s, err := st.Stats(); err == nil {
		d.Total = s.TotalCredit.String()
		d.Trials = s.NumTrialBalances
	}
	return d
}

func runC13Golden(ctx *Ctx) {
	dir := ctx.Dir
	if dir == "" {
		fatal("c13golden: -dir <output directory> required")
	}
	os.RemoveAll(dir)
	os.MkdirAll(dir+"/db", 0755)
	st, err := retryOpen(badgerstore.Open, badgerOpts(dir+"/db"))
	if err != nil {
		fatal("open: %v", err)
	}
	nodes, wallets := goldenIDs()
	now := time.Now()
	for k, id := range nodes {
		n := store.Node{ID: store.NodeID(id), IsHost: k < 3, Kind: []string{"geth", "parity", ""}[k%3], LastSeen: now, BlockNumber: uint64(100 + k),
			URI: "enode://" + id + "@10.0.0.1:30303"}
		if k == 1 {
			n.Payout = store.Account(wallets[1])
		}
		if err := st.SetNode(n); err != nil {
			fatal("%v", err)
		}
		if err := st.AddNodeBalance(store.NodeID(id), big.NewInt(int64(1000*(k+1)))); err != nil {
			fatal("%v", err)
		}
	}
	st.AddAccountNode(store.Account(wallets[0]), store.NodeID(nodes[0])) // trial credit migrates
	st.AddAccountNode(store.Account(wallets[0]), store.NodeID(nodes[3]))
	st.AddAccountNode(store.Account(wallets[1]), store.NodeID(nodes[1]))
	st.AddAccountNode(store.Account(wallets[2]), store.NodeID(nodes[4]))
	huge, _ := new(big.Int).SetString("340282366920938463463374607431768211456", 10)
	st.AddAccountBalance(store.Account(wallets[0]), huge)
	st.AddAccountBalance(store.Account(wallets[1]), big.NewInt(-77))
	st.AddNodeBalance(store.NodeID(nodes[0]), big.NewInt(5))
	st.UpdateNodePeers(store.NodeID(nodes[3]), []string{nodes[0], nodes[1]}, 7)
	doc := goldenRead(st, nodes, wallets)
	doc.Written = "pinned tree, format 2"
	// nonces far in the future: accepted now, and a replay of them is a repeat for ever
	far := time.Date(2100, 1, 1, 0, 0, 0, 0, time.UTC).UnixNano()
	for k, id := range []string{nodes[0], wallets[0]} {
		n := far + int64(k)
		if err := st.CheckAndSaveNonce(id, n); err != nil {
			fatal("nonce: %v", err)
		}
		doc.Nonce[id] = n
	}
	if err := st.Close(); err != nil {
		fatal("close: %v", err)
	}
	raw, _ := json.MarshalIndent(doc, "", " ")
	if err := ioutil.WriteFile(dir+"/golden.json", raw, 0644); err != nil {
		fatal("%v", err)
	}
	fmt.Println("golden database written to", dir)
}

// harnessDir: the harness sources sit next to the build directory the binary runs from
func harnessDir() string {
	if d := os.Getenv("VERIF_HARNESS_DIR"); d != "" {
		return d
	}
	exe, err := os.Executable()
	if err != nil {
		fatal("%v", err)
	}
	return filepath.Join(filepath.Dir(exe), "..", "harness")
}

func copyDir(src, dst string) error {
	return filepath.Walk(src, func(p string, info os.FileInfo, err error) error {
		if err != nil {
			return err
		}
		rel, _ := filepath.Rel(src, p)
		if info.IsDir() {
			return os.MkdirAll(filepath.Join(dst, rel), 0755)
		}
		b, err := ioutil.ReadFile(p)
		if err != nil {
			return err
		}
		return ioutil.WriteFile(filepath.Join(dst, rel), b, 0644)
	})
}

func c13Golden(ctx *Ctx, i int) {
	var mon []string
	src := filepath.Join(harnessDir(), "golden", "v2")
	raw, err := ioutil.ReadFile(src + "/golden.json")
	if err != nil {
		fatal("golden fixture missing: %v", err)
	}
	var want goldenDoc
	if err := json.Unmarshal(raw, &want); err != nil {
		fatal("golden.json: %v", err)
	}
	tmp, _ := ioutil.TempDir("", "vharness-golden")
	defer os.RemoveAll(tmp)
	if err := copyDir(src+"/db", tmp); err != nil {
		fatal("copy: %v", err)
	}
	st, err := retryOpen(badgerstore.Open, badgerOpts(tmp))
	if err != nil {
		mon = append(mon, fmt.Sprintf("c13-golden-open: a database written by the pinned driver (format 2) is refused by the current one: %v", err))
		ctx.Emit(Case{I: i, Kind: "golden-database", Desc: map[string]interface{}{"fixture": "harness/golden/v2"}, Monitor: mon})
		return
	}
	defer func() { st.Close() }()
	// the identifiers are the fixture's own (keys are not reproducible across processes)
	var nodes, wallets []string
	for id := range want.Nodes {
		nodes = append(nodes, id)
	}
	for w := range want.AcctBal {
		wallets = append(wallets, w)
	}
	got := goldenRead(st, nodes, wallets)
	diff := func(what string, w, g map[string]string) {
		for k, v := range w {
			if g[k] != v && len(mon) < 6 {
				mon = append(mon, fmt.Sprintf("c13-golden-lost: %s of %s was acknowledged as %q by the driver that wrote the database; the current driver reads %q after opening it", what, k, v, g[k]))
			}
		}
	}
	diff("the node record", want.Nodes, got.Nodes)
	diff("the node balance", want.NodeBal, got.NodeBal)
	diff("the account balance", want.AcctBal, got.AcctBal)
	diff("the node list", want.AcctNode, got.AcctNode)
	if want.Total != got.Total || want.Trials != got.Trials {
		mon = append(mon, fmt.Sprintf("c13-golden-lost: statistics were total credit %s / %d trial balances, now %s / %d", want.Total, want.Trials, got.Total, got.Trials))
	}
	for id, n := range want.Nonce {
		if err := st.CheckAndSaveNonce(id, n); err == nil {
			mon = append(mon, fmt.Sprintf("c13-golden-nonce: nonce %d of %s had been accepted before the restart and is accepted again", n, id))
		}
		if err := st.CheckAndSaveNonce(id, n+10); err != nil {
			mon = append(mon, fmt.Sprintf("c13-golden-nonce: a higher nonce of %s is refused after the restart: %v", id, err))
		}
	}
	// the pool keeps running on the opened database: new links on wallets that already have some,
	// a trial balance folded in, a link moved -- what is acknowledged now joins what was there
	lists := map[string][]string{}
	bal := map[string]*big.Int{}
	for w, l := range want.AcctNode {
		lists[w] = strings.Fields(strings.Trim(l, "[]"))
		bal[w], _ = new(big.Int).SetString(want.AcctBal[w], 10)
	}
	var trial, linkedWallets []string
	for id, b := range want.NodeBal {
		if strings.HasPrefix(b, "/") {
			trial = append(trial, id)
		}
	}
	for w := range lists {
		linkedWallets = append(linkedWallets, w)
	}
	sort.Strings(trial)
	sort.Slice(linkedWallets, func(a, b int) bool { return len(lists[linkedWallets[a]]) > len(lists[linkedWallets[b]]) })
	steps := 0
	if len(trial) >= 2 && len(linkedWallets) >= 3 && bal[linkedWallets[0]] != nil {
		remove := func(l []string, x string) (out []string) {
			for _, y := range l {
				if y != x {
					out = append(out, y)
				}
			}
			return
		}
		link := func(w, id string) {
			steps++
			if err := st.AddAccountNode(store.Account(w), store.NodeID(id)); err != nil {
				mon = append(mon, fmt.Sprintf("c13-golden-link: linking node %s to wallet %s on the opened database failed: %v", shortID(id), w, err))
				return
			}
			if nb := want.NodeBal[id]; strings.HasPrefix(nb, "/") {
				c, _ := new(big.Int).SetString(nb[1:], 10)
				bal[w] = new(big.Int).Add(bal[w], c)
				want.NodeBal[id] = w + "/"
			}
			for o := range lists {
				lists[o] = remove(lists[o], id)
			}
			lists[w] = append(lists[w], id)
		}
		big3, one1, other := linkedWallets[0], linkedWallets[1], linkedWallets[2]
		link(big3, trial[0])
		link(one1, trial[1])
		if len(lists[other]) > 0 {
			link(one1, lists[other][0])
		}
		check := func(when string) {
			for w, l := range lists {
				ns, err := st.GetAccountNodes(store.Account(w))
				var g []string
				for _, n := range ns {
					g = append(g, string(n))
				}
				sort.Strings(g)
				wl := append([]string{}, l...)
				sort.Strings(wl)
				if err != nil || fmt.Sprint(g) != fmt.Sprint(wl) {
					var sg, sw []string
					for _, x := range g {
						sg = append(sg, shortID(x))
					}
					for _, x := range wl {
						sw = append(sw, shortID(x))
					}
					mon = append(mon, fmt.Sprintf("c13-golden-links: %s, wallet %s lists nodes %v (error %v); its links written before the upgrade plus the ones acknowledged since are %v", when, w, sg, err, sw))
				}
				for _, id := range l {
					if err := st.IsAccountNode(store.Account(w), store.NodeID(id)); err != nil {
						mon = append(mon, fmt.Sprintf("c13-golden-links: %s, node %s is not authorised for wallet %s any more: %v", when, shortID(id), w, err))
					}
				}
				if b, err := st.GetAccountBalance(store.Account(w)); err != nil || b.Credit.Cmp(bal[w]) != 0 {
					mon = append(mon, fmt.Sprintf("c13-golden-links: %s, wallet %s has credit %v (error %v), expected %s", when, w, b.Credit, err, bal[w]))
				}
			}
		}
		check("after linking on the opened database")
		if err := st.Close(); err == nil {
			if st2, err := retryOpen(badgerstore.Open, badgerOpts(tmp)); err == nil {
				st = st2
				check("after another restart")
			} else {
				mon = append(mon, fmt.Sprintf("c13-golden-open: the database does not open again after the new links: %v", err))
			}
		}
		if len(mon) > 8 {
			mon = mon[:8]
		}
	}
	ctx.Emit(Case{I: i, Kind: "golden-database", Desc: map[string]interface{}{"fixture": "harness/golden/v2", "nodes": len(want.Nodes), "wallets": len(want.AcctBal), "links_added": steps}, Monitor: mon})
}
