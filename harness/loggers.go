package main

import (
	"sync/atomic"

	"github.com/vipnode/vipnode/v2/agent"
	"github.com/vipnode/vipnode/v2/ethnode"
	"github.com/vipnode/vipnode/v2/jsonrpc2"
	"github.com/vipnode/vipnode/v2/pool"
	"github.com/vipnode/vipnode/v2/pool/payment"
)

// The shipped binaries give every package a real log writer (main.go); the packages' default is
// io.Discard, for which the log package skips formatting altogether.  What a log line does while
// it formats its arguments (String methods, helpers that build the text) happens in production and
// must happen here: every package logs into a sink that takes the bytes and counts them.
type logSink struct{}

var loggedBytes int64

func (logSink) Write(p []byte) (int, error) {
	atomic.AddInt64(&loggedBytes, int64(len(p)))
	return len(p), nil
}

func init() {
	pool.SetLogger(logSink{})
	agent.SetLogger(logSink{})
	payment.SetLogger(logSink{})
	ethnode.SetLogger(logSink{})
	jsonrpc2.SetLogger(logSink{})
}
