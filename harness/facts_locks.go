package main

import (
	"fmt"
	"go/ast"
	"strings"
)

// lockFacts: the shape of the keyed locks that serialise requests (pool/service.go lockUpdates and
// its use in Update; pool/payment/service.go withdrawMu and its use in Withdraw), as the Locks
// model assumes it.
func lockFacts(ctx *Ctx, b *strings.Builder) {
	_, svc := parseFile(ctx.Repo, "pool/service.go")
	// (1) entries of the per-node lock map are never removed
	deletes := 0
	ast.Inspect(svc, func(n ast.Node) bool {
		if c, ok := n.(*ast.CallExpr); ok {
			if id, ok := c.Fun.(*ast.Ident); ok && id.Name == "delete" && len(c.Args) == 2 {
				if s, ok := c.Args[0].(*ast.SelectorExpr); ok && s.Sel.Name == "updateLocks" {
					deletes++
				}
			}
		}
		return true
	})
	// (2) lockUpdates: looks the mutex up (creating it when absent) between p.mu.Lock and
	// p.mu.Unlock, locks it after the pool mutex is released, returns its Unlock
	// (3) Update: takes the lock (defer p.lockUpdates(id)()) before its first access to the store
	// or the balance manager (the signature/nonce check comes first: it is atomic by itself)
	shapeOK, updateOK := false, false
	for _, d := range svc.Decls {
		fd, ok := d.(*ast.FuncDecl)
		if !ok || fd.Body == nil {
			continue
		}
		typ, recv := recvName(fd)
		if typ != "VipnodePool" {
			continue
		}
		switch fd.Name.Name {
		case "lockUpdates":
			stage := 0 // 0: before p.mu.Lock, 1: inside, 2: after p.mu.Unlock, 3: after l.Lock
			var lockVar string
			good := true
			for _, st := range fd.Body.List {
				switch s := st.(type) {
				case *ast.ExprStmt:
					c, ok := s.X.(*ast.CallExpr)
					if !ok {
						continue
					}
					switch {
					case isSel(c.Fun, recv, "mu", "Lock") && stage == 0:
						stage = 1
					case isSel(c.Fun, recv, "mu", "Unlock") && stage == 1:
						stage = 2
					default:
						if se, ok := c.Fun.(*ast.SelectorExpr); ok && se.Sel.Name == "Lock" && stage == 2 {
							if id, ok := se.X.(*ast.Ident); ok {
								lockVar, stage = id.Name, 3
							}
						}
					}
				case *ast.ReturnStmt:
					if stage != 3 || len(s.Results) != 1 {
						good = false
						continue
					}
					se, ok := s.Results[0].(*ast.SelectorExpr)
					if !ok || se.Sel.Name != "Unlock" {
						good = false
						continue
					}
					if id, ok := se.X.(*ast.Ident); !ok || id.Name != lockVar {
						good = false
					}
				case *ast.DeferStmt:
					good = false // a deferred unlock of the pool mutex would hold it while waiting for the node's lock
				}
			}
			shapeOK = good && stage == 3
		case "Update":
			locked := false
			ok2 := true
			for _, st := range fd.Body.List {
				if ds, ok := st.(*ast.DeferStmt); ok && !locked {
					if inner, ok := ds.Call.Fun.(*ast.CallExpr); ok && isSel(inner.Fun, recv, "lockUpdates") {
						locked = true
						continue
					}
				}
				if !locked {
					// before the lock: nothing but the verification may touch the pool's state
					ast.Inspect(st, func(n ast.Node) bool {
						if s, ok := n.(*ast.SelectorExpr); ok {
							if id, ok := s.X.(*ast.Ident); ok && id.Name == recv && (s.Sel.Name == "Store" || s.Sel.Name == "BalanceManager") {
								ok2 = false
							}
						}
						return true
					})
				}
			}
			updateOK = locked && ok2
		}
	}
	// (4) Withdraw: one service-wide mutex (a plain field, not a map), taken with a deferred unlock
	// before the first access to the balance store
	_, pay := parseFile(ctx.Repo, "pool/payment/service.go")
	plainMutex := false
	ast.Inspect(pay, func(n ast.Node) bool {
		if f, ok := n.(*ast.Field); ok {
			for _, nm := range f.Names {
				if nm.Name == "withdrawMu" && isSel(f.Type, "sync", "Mutex") {
					plainMutex = true
				}
			}
		}
		return true
	})
	withdrawOK := false
	for _, d := range pay.Decls {
		fd, ok := d.(*ast.FuncDecl)
		if !ok || fd.Body == nil || fd.Name.Name != "Withdraw" {
			continue
		}
		typ, recv := recvName(fd)
		if typ != "PaymentService" {
			continue
		}
		locked, ok2 := false, true
		stmts := fd.Body.List
		for i, st := range stmts {
			if es, ok := st.(*ast.ExprStmt); ok && !locked {
				if c, ok := es.X.(*ast.CallExpr); ok && isSel(c.Fun, recv, "withdrawMu", "Lock") {
					if i+1 < len(stmts) {
						if ds, ok := stmts[i+1].(*ast.DeferStmt); ok && isSel(ds.Call.Fun, recv, "withdrawMu", "Unlock") {
							locked = true
						}
					}
					continue
				}
			}
			if !locked {
				ast.Inspect(st, func(n ast.Node) bool {
					if s, ok := n.(*ast.SelectorExpr); ok { // any use of the balance store
						if id, ok := s.X.(*ast.Ident); ok && id.Name == recv && s.Sel.Name == "BalanceStore" {
							ok2 = false
						}
					}
					if c, ok := n.(*ast.CallExpr); ok && isSel(c.Fun, recv, "Settle") { // a call of the settlement (a nil check is fine)
						ok2 = false
					}
					return true
				})
			}
		}
		withdrawOK = locked && ok2
	}
	b.WriteString("(* keyed locks: pool/service.go lockUpdates / Update, pool/payment/service.go withdrawMu / Withdraw *)\n")
	fmt.Fprintf(b, "Definition update_lock_map_deletes : Z := %d.\n", deletes)
	fmt.Fprintf(b, "Definition update_lock_lookup_shape : bool := %v.\n", shapeOK)
	fmt.Fprintf(b, "Definition update_takes_lock_first : bool := %v.\n", updateOK)
	fmt.Fprintf(b, "Definition withdraw_lock_is_one_mutex : bool := %v.\n", plainMutex)
	fmt.Fprintf(b, "Definition withdraw_takes_lock_first : bool := %v.\n\n", withdrawOK)
}
