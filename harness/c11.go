package main

import (
	"fmt"
	"sort"
	"strings"
	"sync"
	"time"

	"github.com/vipnode/vipnode/v2/pool/store"
)

func init() { commands["c11"] = runC11 }

// c11Monitor recomputes, from the LastSeen values the driver itself reports, which peers a
// keep-alive must declare invalid and which must stay tracked, and compares.
type c11Monitor struct {
	tracked map[string]map[string]int64 // node -> peer -> judged timestamp
	fails   []string
}

func (m *c11Monitor) advance(d int64) {
	for _, ps := range m.tracked {
		for p := range ps {
			ps[p] -= d
		}
	}
}

func runC11Seq(drv int, ops []*SOp) (string, []*SOp, []string) {
	st := newStore(drv)
	defer st.Destroy()
	t := newInterner()
	for _, s := range nodeAlphabet {
		t.id(s)
	}
	mon := &c11Monitor{tracked: map[string]map[string]int64{}}
	items := []string{}
	var done []*SOp
	X := int64(store.ExpireInterval)
	for k, o := range ops {
		c := *o
		// what the peers' own check-ins are, as the driver reports them, before the keep-alive
		seen := map[string]int64{}
		if c.Op == "UpdatePeers" {
			for _, p := range c.Peers {
				if n, err := st.GetNode(store.NodeID(p)); err == nil {
					seen[p] = n.LastSeen.UnixNano()
				}
			}
		}
		opCoq, obsCoq, proj := applySOp(st, t, &c)
		items = append(items, fmt.Sprintf("(%s, %s, %s)", cZ(c.Now), opCoq, obsCoq))
		done = append(done, &c)
		switch c.Op {
		case "Advance":
			mon.advance(c.D)
		case "UpdatePeers":
			if strings.HasPrefix(proj, "err:") {
				break
			}
			tr := mon.tracked[c.ID]
			if tr == nil {
				tr = map[string]int64{}
				mon.tracked[c.ID] = tr
			}
			for _, p := range c.Peers {
				if p == c.ID {
					tr[p] = c.Now // judged by the check-in being made
				} else if ts, ok := seen[p]; ok {
					tr[p] = ts
				}
			}
			var wantGone, wantKept []string
			for p, ts := range tr {
				if ts <= c.Now-X {
					wantGone = append(wantGone, p)
					delete(tr, p)
				} else {
					wantKept = append(wantKept, p)
				}
			}
			sort.Strings(wantGone)
			sort.Strings(wantKept)
			if got := strings.TrimPrefix(proj, "inactive:"); got != strings.Join(wantGone, ",") {
				mon.fails = append(mon.fails, fmt.Sprintf("c11-invalid-set: op %d keep-alive of %s declared [%s], expected [%s]", k, c.ID, got, strings.Join(wantGone, ",")))
			}
			peers, err := st.NodePeers(store.NodeID(c.ID))
			if err == nil {
				var got []string
				for _, p := range peers {
					got = append(got, string(p.ID))
				}
				sort.Strings(got)
				if strings.Join(got, ",") != strings.Join(wantKept, ",") {
					mon.fails = append(mon.fails, fmt.Sprintf("c11-active-set: op %d after keep-alive of %s tracks [%s], expected [%s]", k, c.ID, strings.Join(got, ","), strings.Join(wantKept, ",")))
				}
			}
		case "SetNode":
			// re-registration keeps the tracked peers (contract)
		}
	}
	coq := fmt.Sprintf("{| c12_X := %s; c12_E := %s; c12_ops := %s |}", cZ(X), cZ(int64(store.ExpireNonce)), cList(items))
	return coq, done, mon.fails
}

func runC11(ctx *Ctx) {
	for drv := 0; drv < 2; drv++ {
		if ctx.Want(990010 + drv) {
			c11Boundary(ctx, 990010+drv, drv)
		}
	}
	if ctx.Want(990000) {
		if ctx.Thorough() {
			done := make(chan struct{})
			go func() { defer close(done); c11NoLapse(ctx, 990000) }()
			defer func() { <-done }()
		} else {
			c11NoLapse(ctx, 990000)
		}
	}
	nseq := ctx.N(200, 5000)
	var wg sync.WaitGroup
	sem := make(chan struct{}, 12)
	gaps := []int64{20e9, 59e9, 61e9, 100e9, 119e9, 121e9, 240e9}
	for c := 0; c < nseq; c++ {
		if !ctx.Want(2*c) && !ctx.Want(2*c+1) {
			continue
		}
		rng := ctx.Sub(c)
		peers := []string{"n2", "n3", "n4"}
		if rng.Intn(2) == 0 {
			// ids are opaque: a node registered under an unusual spelling is reported, tracked and
			// expired under exactly that spelling
			peers = append(peers, []string{"N5", "0xn6", "0XN7", "n8 "}[rng.Intn(4)])
		}
		var ops []*SOp
		ops = append(ops, &SOp{Op: "SetNode", ID: "n1", Host: rng.Intn(4) == 0})
		for _, p := range peers {
			if rng.Intn(8) != 0 {
				ops = append(ops, &SOp{Op: "SetNode", ID: p, Host: true, AgeNs: []int64{0, 0, 50e9, 130e9}[rng.Intn(4)]})
			}
		}
		rounds := 3 + rng.Intn(6)
		for r := 0; r < rounds; r++ {
			for _, p := range peers {
				if rng.Intn(3) != 0 { // the peer itself checks in
					ops = append(ops, &SOp{Op: "UpdatePeers", ID: p, Peers: nil, Block: uint64(r)})
				}
			}
			if rng.Intn(6) == 0 { // late registration / reconnect of a peer or of the node
				ops = append(ops, &SOp{Op: "SetNode", ID: pick(rng, append(peers, "n1")), Host: true})
			}
			ops = append(ops, &SOp{Op: "Advance", D: gaps[rng.Intn(len(gaps))]})
			ctx.Count("gap")
			var rep []string
			for _, p := range peers {
				switch rng.Intn(5) {
				case 0: // not reported
				case 1:
					rep = append(rep, p, p)
				default:
					rep = append(rep, p)
				}
			}
			if rng.Intn(5) == 0 {
				rep = append(rep, "unknown")
			}
			if rng.Intn(6) == 0 {
				rep = append(rep, "n1")
			}
			rng.Shuffle(len(rep), func(i, j int) { rep[i], rep[j] = rep[j], rep[i] })
			ops = append(ops, &SOp{Op: "UpdatePeers", ID: "n1", Peers: rep, Block: uint64(r)})
			ops = append(ops, &SOp{Op: "NodePeers", ID: "n1"})
			if rng.Intn(3) == 0 {
				ops = append(ops, &SOp{Op: "Advance", D: gaps[rng.Intn(len(gaps))]})
			}
		}
		wg.Add(1)
		sem <- struct{}{}
		go func(c int, ops []*SOp) {
			defer wg.Done()
			defer func() { <-sem }()
			for drv := 0; drv < 2; drv++ {
				coq, done, fails := runC11Seq(drv, ops)
				ctx.Emit(Case{I: 2*c + drv, Kind: "keepalive-" + driverNames[drv], Coq: coq,
					Desc: storeDesc{Driver: driverNames[drv], Ops: done}, Monitor: fails})
			}
		}(c, ops)
	}
	wg.Wait()
	_ = time.Now
	// the pool's reply to a keep-alive: what it lists as active is what the store tracks after
	// the keep-alive, whatever the keep-alive itself reported (nothing, some, unknown ids)
	npool := ctx.N(40, 800)
	for c := 0; c < npool; c++ {
		i := 2*nseq + c
		if !ctx.Want(i) {
			continue
		}
		rng := ctx.Sub(i)
		drv := c % 2
		var ops []*POp
		for _, h := range []string{"h1", "h2", "h3"} {
			ops = append(ops, &POp{Op: "connect", Node: h, Host: true, Kind: "geth"})
		}
		ops = append(ops, &POp{Op: "connect", Node: "c1", Kind: "geth"})
		// in half of the histories another client is around and asks for hosts now and then, and a
		// host's registering connection may go away while the host keeps checking in
		others := rng.Intn(2) == 0
		if others {
			ops = append(ops, &POp{Op: "connect", Node: "c2", Kind: "geth"})
		}
		rounds := 4 + rng.Intn(8)
		for r := 0; r < rounds; r++ {
			var rep []string
			switch rng.Intn(4) {
			case 0: // an empty report
			case 1:
				rep = []string{[]string{"h1", "h2", "h3"}[rng.Intn(3)]}
			default:
				for _, h := range []string{"h1", "h2", "h3"} {
					if rng.Intn(3) != 0 {
						rep = append(rep, h)
					}
				}
			}
			for _, h := range []string{"h1", "h2", "h3"} {
				if rng.Intn(3) != 0 { // the host itself checks in
					ops = append(ops, &POp{Op: "update", Node: h, Block: uint64(r)})
				}
			}
			if others && rng.Intn(4) == 0 {
				ops = append(ops, &POp{Op: "hangup", Node: []string{"h1", "h2", "h3"}[rng.Intn(3)]})
			}
			if others && rng.Intn(2) == 0 {
				ops = append(ops, &POp{Op: "peer", Node: "c2", Num: 1 + rng.Intn(3), Kind: []string{"geth", ""}[rng.Intn(2)]})
			}
			ops = append(ops, &POp{Op: "update", Node: "c1", Peers: rep, Block: uint64(r), Elapsed: 1e9})
			if rng.Intn(3) == 0 {
				// the client comes back after a silence and registers again; a host that peers with it
				// reports it before its own next keep-alive
				ops = append(ops, &POp{Op: "advance", D: []int64{61e9, 130e9, 500e9}[rng.Intn(3)]}, &POp{Op: "connect", Node: "c1", Kind: "geth"},
					&POp{Op: "update", Node: "h1", Peers: []string{"c1"}, Block: uint64(r)})
			}
			ctx.Count(fmt.Sprintf("pool-report-size:%d", len(rep)))
			if rng.Intn(2) == 0 {
				ops = append(ops, &POp{Op: "advance", D: gaps[rng.Intn(len(gaps))]})
			}
		}
		_, mon, done := runPoolSeq(worldCfg{Drv: drv, Price: "1000", IntervalNs: 60e9, Settle: true}, ops)
		var mine []string
		for _, m := range mon {
			if strings.HasPrefix(m, "c11-") {
				mine = append(mine, m)
			}
		}
		ctx.Emit(Case{I: i, Kind: "pool-reply-" + driverNames[drv], Desc: poolDesc{worldCfg{Drv: drv}, done}, Monitor: mine})
	}
}
