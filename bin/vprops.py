"""Registry of properties for bin/vcheck: which Coq modules hold the model and the
correspondence predicate, which harness command exercises the implementation."""

COMMON_TRUSTED = [
    "Coq 8.16.1 kernel (coqc; coqchk -o in the thorough tier); vm_compute is used for computed obligations and for "
    "evaluating the model in the correspondence check; native_compute is not used",
    "no Axiom/Parameter/Admitted anywhere in coq/ (grep-checked by bin/audit); stdlib List/ZArith/NArith/Lia/Bool only "
    "unless stated",
    "the correspondence harness (harness/, Go, built with -tags verif against /repo) and this driver (bin/vcheck): "
    "they can make a check miss a change, never make a theorem true",
    "fact extractor (vharness facts: go/ast + reflection over /repo) regenerates coq/gen/Facts.v on every run",
    "modelled, not verified: Go runtime and standard library (encoding/json, net/url, math/big, sync, time, reflect), "
    "badger v2, gorilla/websocket, go-ethereum crypto",
]

HOOK_COMMITS = ["e10a9bd"]

# properties not claimed, with the reason (none: every property has an executable model)
NOT_APPLICABLE = {}

PROPS = {
    "C05": {
        "level_text": "Coq theorems over the executable nonce models for every history, identity and instant: "
                      "accept-iff, strictly increasing acceptances, at-most-once replay, isolation, refinement of the "
                      "TTL-based persistent driver to the high-water-mark model (any clock), at-most-one winner among "
                      "racing duplicates under optimistic transactions (any interleaving). Tied to the code by "
                      "in-kernel evaluation of the models on histories executed by both real drivers.",
        "level_note": "Trusted: Coq kernel; badger's TTL/visibility and conflict semantics as modelled; the memory "
                      "driver's mutex; the recorded clock standing for the driver's own time.Now() (nonces kept away "
                      "from window edges); harness and driver code.",
        "technique": "Coq proof (induction over histories / schedules) + vm_compute correspondence against both drivers",
        "harness": "c05",
        "imports": ["Base", "Nonce", "Check05"],
        "case_type": "c05_case",
        "check": "c05_check",
        "theories": ["theories/Base.v", "theories/Nonce.v", "theories/NonceProofs.v"],
        "check_theories": ["theories/Check05.v"],
        "rule": "generated nonce histories (1-3 identities, 4-13 submissions: fresh / equal / lower / stale / "
                "window-edge / future-dated / tiny), both drivers, reopen events on private badger directories, "
                "2-16 racing duplicates, two TTL-expiry scenarios on the real persistent driver with the window "
                "shortened to 2 s by the verif hook; a case is non-trivial unless flagged, distinct by its rendered term",
        "trusted": [
            "the clock value recorded immediately before each CheckAndSaveNonce call stands for the time.Now() read "
            "inside it (generated nonces stay >= 2 s away from the freshness boundary)",
            "badger: WithTTL(d) stores ExpiresAt = floor((now+d)/1s); an entry is invisible iff ExpiresAt <= floor(now/1s); "
            "a commit whose read key changed since its snapshot fails with ErrConflict",
        ],
        "assumptions": ["memory driver: every method body runs under the store mutex (C10 LockShape fact)"],
    },
    "C12": {
        "harness": "c12",
        "imports": ["Base", "Nonce", "Store", "Check12"],
        "case_type": "c12_case",
        "check": "c12_check",
        "mismatch_is_violation": True,
        "theories": ["theories/Base.v", "theories/Nonce.v", "theories/Store.v", "theories/StoreProofs.v"],
        "check_theories": ["theories/Check12.v"],
        "level_text": "The documented Store contract is an executable Gallina model (coq/theories/Store.v); Coq theorems "
                      "state, for every reachable state and operation, the contract facts the property names "
                      "(unregistered nodes are errors and change nothing, balances follow the wallet once linked with the "
                      "trial credit migrated exactly once, active-host queries honour flag/kind/recency/limit, "
                      "statistics equal the true counts and sums, the state invariant). Each driver is tied to that one "
                      "model on every run by in-kernel evaluation of the model on the operation sequences the real "
                      "memory and badger drivers executed; a disagreement is a concrete failing history.",
        "level_note": "Trusted: Coq kernel; the harness's rendering of observations; clock values read back from the "
                      "driver (UpdateNodePeers) or bracketed (other reads; stored timestamps are kept away from window "
                      "edges by construction). The two drivers are not themselves translated to Coq: their agreement "
                      "with the model is established by the correspondence on generated histories (bounded), the "
                      "contract facts by proof (unbounded).",
        "technique": "Coq proof over an executable contract model + vm_compute differential check of both drivers",
        "rule": "store-level operation sequences of 12-39 operations over 4 node ids, 3 wallets, the empty id and an "
                "unknown id, all 16 operations (incl. re-linking, negative and multi-word amounts, limits 0..5, time "
                "advances around the 120 s window, reopen), each executed on the real memory and badger drivers; "
                "distinct by rendered term",
        "trusted": ["ActiveHosts selections are compared by predicate (subset of eligible, no duplicates, exact length), "
                    "other id lists as multisets"],
    },
    "C11": {
        "harness": "c11",
        "imports": ["Base", "Nonce", "Store", "Check12"],
        "case_type": "c12_case",
        "check": "c12_check",
        "mismatch_is_violation": True,
        "theories": ["theories/Base.v", "theories/Nonce.v", "theories/Store.v", "theories/StoreProofs.v",
                     "theories/PeersProofs.v"],
        "check_theories": ["theories/Check12.v"],
        "level_text": "Coq theorems over the contract model's UpdateNodePeers for every state, report and instant: the "
                      "declared-invalid set is exactly the candidates whose judged timestamp is outside the window, the "
                      "kept set exactly the rest, live reported peers are never declared, unknown ids are never tracked "
                      "or declared (history invariant), duplicates/order irrelevant. Tied to both real drivers by "
                      "in-kernel evaluation of the model on keep-alive histories they executed, plus an independent "
                      "recomputation of the expected sets from the LastSeen values the driver reports.",
        "level_note": "Trusted: Coq kernel; the VerifShiftTime hook standing for elapsed wall-clock time (both shift "
                      "every stored timestamp; the model's Advance does the same); clock values read back from the driver.",
        "technique": "Coq proof (exact characterisation + history invariant) + vm_compute correspondence on both drivers",
        "rule": "keep-alive histories of a node and three peers (3-8 rounds; peers check in or not, gaps of "
                "20/59/61/100/119/121/240 s, reports with omissions, duplicates, the unknown id and the node itself, "
                "late registrations), both drivers; distinct by rendered term",
        "trusted": [],
    },
    "C13": {
        "harness": "c13",
        "imports": ["Base", "Nonce", "Store", "Check12", "Durable", "Check13"],
        "case_type": "c13_case",
        "check": "c13_check",
        "mismatch_is_violation": True,
        "theories": ["theories/Base.v", "theories/Nonce.v", "theories/Store.v", "theories/StoreProofs.v",
                     "theories/Durable.v", "theories/DurableProofs.v", "gen/Facts.v"],
        "check_theories": ["theories/Check12.v", "theories/Check13.v"],
        "level_text": "Coq theorems over a key-space-write model of the persistent driver: the writes each method issues, "
                      "applied in one transaction, are exactly the contract step; with one transaction per method "
                      "(a fact regenerated from badger.go on every run and checked by computation) a crash at any "
                      "point leaves the state before or after the operation, the invariant and the ledger total survive "
                      "(a trial balance is never both migrated and kept), acknowledged operations are read back after "
                      "any number of restarts/kills (induction over histories), migrations from formats 0 and 1 reach "
                      "format 2 without touching nodes, peers, links or balances, reopening a current database is the "
                      "identity, newer formats are refused. Tied to the code by reopen histories, SIGKILL of a child "
                      "process at random operations, synthetic old-format databases opened with the real Open, and "
                      "concurrent readers during multi-key commits.",
        "level_note": "Trusted: badger's atomic commit, recovery and snapshot reads (the model starts above them); the "
                      "AST-based transaction-shape extractor; SIGKILL of the process (not power loss) as the crash.",
        "technique": "Coq proof (refinement of write lists, induction over crash histories) + regenerated transaction-shape "
                     "facts + vm_compute correspondence with kill/reopen/migration runs of the real driver",
        "rule": "reopen histories (10-34 ops, reopen after a quarter of them), kill runs (child process killed as an "
                "operation starts or after its ack, random sub-ms delay), databases downgraded to format absent/0/1/2/3 "
                "then opened, reader storms during 300 trial-to-wallet migrations; distinct by rendered term",
        "trusted": [],
    },
}
