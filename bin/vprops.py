"""Registry of properties for bin/vcheck: which Coq modules hold the model and the
correspondence predicate, which harness command exercises the implementation."""

COMMON_TRUSTED = [
    "Coq 8.16.1 kernel (coqc; coqchk -o in the thorough tier); vm_compute is used for computed obligations and for "
    "evaluating the model in the correspondence check; native_compute is not used",
    "no Axiom/Parameter/Admitted anywhere in coq/ (grep-checked by bin/audit); stdlib List/ZArith/NArith/Lia/Bool only "
    "unless stated",
    "the correspondence harness (harness/, Go, built with -tags verif against /repo) and this driver (bin/vcheck): "
    "they can make a check miss a change, never make a theorem true",
    "fact extractor (vharness facts: go/ast + reflection over /repo) regenerates coq/gen/Facts.v on every run",
    "modelled, not verified: Go runtime and standard library (encoding/json, net/url, math/big, sync, time, reflect), "
    "badger v2, gorilla/websocket, go-ethereum crypto",
]

HOOK_COMMITS = ["e10a9bd"]

# properties not claimed, with the reason (none: every property has an executable model)
NOT_APPLICABLE = {}

PROPS = {
    "C05": {
        "level_text": "Coq theorems over the executable nonce models for every history, identity and instant: "
                      "accept-iff, strictly increasing acceptances, at-most-once replay, isolation, refinement of the "
                      "TTL-based persistent driver to the high-water-mark model (any clock), at-most-one winner among "
                      "racing duplicates under optimistic transactions (any interleaving). Tied to the code by "
                      "in-kernel evaluation of the models on histories executed by both real drivers.",
        "level_note": "Trusted: Coq kernel; badger's TTL/visibility and conflict semantics as modelled; the memory "
                      "driver's mutex; the recorded clock standing for the driver's own time.Now() (nonces kept away "
                      "from window edges); harness and driver code.",
        "technique": "Coq proof (induction over histories / schedules) + vm_compute correspondence against both drivers",
        "harness": "c05",
        "imports": ["Base", "Nonce", "Check05"],
        "case_type": "c05_case",
        "check": "c05_check",
        "theories": ["theories/Base.v", "theories/Nonce.v", "theories/NonceProofs.v"],
        "check_theories": ["theories/Check05.v"],
        "rule": "generated nonce histories (1-3 identities, 4-13 submissions: fresh / equal / lower / stale / "
                "window-edge / future-dated / tiny), both drivers, reopen events on private badger directories, "
                "2-16 racing duplicates, two TTL-expiry scenarios on the real persistent driver with the window "
                "shortened to 2 s by the verif hook; a case is non-trivial unless flagged, distinct by its rendered term",
        "trusted": [
            "the clock value recorded immediately before each CheckAndSaveNonce call stands for the time.Now() read "
            "inside it (generated nonces stay >= 2 s away from the freshness boundary)",
            "badger: WithTTL(d) stores ExpiresAt = floor((now+d)/1s); an entry is invisible iff ExpiresAt <= floor(now/1s); "
            "a commit whose read key changed since its snapshot fails with ErrConflict",
        ],
        "assumptions": ["memory driver: every method body runs under the store mutex (C10 LockShape fact)"],
    },
}
