"""Registry of properties for bin/vcheck: which Coq modules hold the model and the
correspondence predicate, which harness command exercises the implementation."""

COMMON_TRUSTED = [
    "Coq 8.16.1 kernel (coqc; coqchk -o in the thorough tier); vm_compute is used for computed obligations and for "
    "evaluating the model in the correspondence check; native_compute is not used",
    "no Axiom/Parameter/Admitted anywhere in coq/ (grep-checked by bin/audit); stdlib List/ZArith/NArith/Lia/Bool only "
    "unless stated",
    "the correspondence harness (harness/, Go, built with -tags verif against /repo) and this driver (bin/vcheck): "
    "they can make a check miss a change, never make a theorem true",
    "fact extractor (vharness facts: go/ast + reflection over /repo) regenerates coq/gen/Facts.v on every run",
    "modelled, not verified: Go runtime and standard library (encoding/json, net/url, math/big, sync, time, reflect), "
    "badger v2, gorilla/websocket, go-ethereum crypto",
]

PROPS = {
    "C05": {
        "harness": "c05",
        "imports": ["Base", "Nonce", "Check05"],
        "case_type": "c05_case",
        "check": "c05_check",
        "theories": ["theories/Base.v", "theories/Nonce.v", "theories/NonceProofs.v"],
        "check_theories": ["theories/Check05.v"],
        "rule": "generated nonce histories (1-3 identities, 4-13 submissions: fresh / equal / lower / stale / "
                "window-edge / future-dated / tiny), both drivers, reopen events on private badger directories, "
                "2-16 racing duplicates, two TTL-expiry scenarios on the real persistent driver with the window "
                "shortened to 2 s by the verif hook; a case is non-trivial unless flagged, distinct by its rendered term",
        "trusted": [
            "the clock value recorded immediately before each CheckAndSaveNonce call stands for the time.Now() read "
            "inside it (generated nonces stay >= 2 s away from the freshness boundary)",
            "badger: WithTTL(d) stores ExpiresAt = floor((now+d)/1s); an entry is invisible iff ExpiresAt <= floor(now/1s); "
            "a commit whose read key changed since its snapshot fails with ErrConflict",
        ],
        "assumptions": ["memory driver: every method body runs under the store mutex (C10 LockShape fact)"],
    },
}
