"""Registry of properties for bin/vcheck: which Coq modules hold the model and the
correspondence predicate, which harness command exercises the implementation."""

COMMON_TRUSTED = [
    "Coq 8.16.1 kernel (coqc; coqchk -o in the thorough tier); vm_compute is used for computed obligations and for "
    "evaluating the model in the correspondence check; native_compute is not used",
    "no Axiom/Parameter/Admitted anywhere in coq/ (grep-checked by bin/audit); stdlib List/ZArith/NArith/Lia/Bool only "
    "unless stated",
    "the correspondence harness (harness/, Go, built with -tags verif against /repo) and this driver (bin/vcheck): "
    "they can make a check miss a change, never make a theorem true",
    "fact extractor (vharness facts: go/ast + reflection over /repo) regenerates coq/gen/Facts.v on every run",
    "modelled, not verified: Go runtime and standard library (encoding/json, net/url, math/big, sync, time, reflect), "
    "badger v2, gorilla/websocket, go-ethereum crypto",
]

HOOK_COMMITS = ["e10a9bd"]

# properties not claimed, with the reason (none: every property has an executable model)
NOT_APPLICABLE = {}

PROPS = {
    "C05": {
        "level_text": "Coq theorems over the executable nonce models for every history, identity and instant: "
                      "accept-iff, strictly increasing acceptances, at-most-once replay, isolation, refinement of the "
                      "TTL-based persistent driver to the high-water-mark model (any clock), at-most-one winner among "
                      "racing duplicates under optimistic transactions (any interleaving). Tied to the code by "
                      "in-kernel evaluation of the models on histories executed by both real drivers.",
        "level_note": "Trusted: Coq kernel; badger's TTL/visibility and conflict semantics as modelled; the memory "
                      "driver's mutex; the recorded clock standing for the driver's own time.Now() (nonces kept away "
                      "from window edges); harness and driver code.",
        "technique": "Coq proof (induction over histories / schedules) + vm_compute correspondence against both drivers",
        "harness": "c05",
        "imports": ["Base", "Nonce", "Check05"],
        "case_type": "c05_case",
        "check": "c05_check",
        "theories": ["theories/Base.v", "theories/Nonce.v", "theories/NonceProofs.v"],
        "check_theories": ["theories/Check05.v"],
        "rule": "generated nonce histories (1-3 identities, 4-13 submissions: fresh / equal / lower / stale / "
                "window-edge / future-dated / tiny), both drivers, reopen events on private badger directories, "
                "2-16 racing duplicates, two TTL-expiry scenarios on the real persistent driver with the window "
                "shortened to 2 s by the verif hook; a case is non-trivial unless flagged, distinct by its rendered term",
        "trusted": [
            "the clock value recorded immediately before each CheckAndSaveNonce call stands for the time.Now() read "
            "inside it (generated nonces stay >= 2 s away from the freshness boundary)",
            "badger: WithTTL(d) stores ExpiresAt = floor((now+d)/1s); an entry is invisible iff ExpiresAt <= floor(now/1s); "
            "a commit whose read key changed since its snapshot fails with ErrConflict",
        ],
        "assumptions": ["memory driver: every method body runs under the store mutex (C10 LockShape fact)"],
    },
    "C12": {
        "harness": "c12",
        "imports": ["Base", "Nonce", "Store", "Check12"],
        "case_type": "c12_case",
        "check": "c12_check",
        "mismatch_is_violation": True,
        "theories": ["theories/Base.v", "theories/Nonce.v", "theories/Store.v", "theories/StoreProofs.v", "gen/Facts.v", "theories/Retry.v"],
        "check_theories": ["theories/Check12.v"],
        "level_text": "The documented Store contract is an executable Gallina model (coq/theories/Store.v); Coq theorems "
                      "state, for every reachable state and operation, the contract facts the property names "
                      "(unregistered nodes are errors and change nothing, balances follow the wallet once linked with the "
                      "trial credit migrated exactly once, active-host queries honour flag/kind/recency/limit, "
                      "statistics equal the true counts and sums, the state invariant). Each driver is tied to that one "
                      "model on every run by in-kernel evaluation of the model on the operation sequences the real "
                      "memory and badger drivers executed; a disagreement is a concrete failing history.",
        "level_note": "Trusted: Coq kernel; the harness's rendering of observations; clock values read back from the "
                      "driver (UpdateNodePeers) or bracketed (other reads; stored timestamps are kept away from window "
                      "edges by construction). The two drivers are not themselves translated to Coq: their agreement "
                      "with the model is established by the correspondence on generated histories (bounded), the "
                      "contract facts by proof (unbounded).",
        "technique": "Coq proof over an executable contract model + vm_compute differential check of both drivers",
        "rule": "store-level operation sequences of 12-39 operations over 4 node ids, 3 wallets, the empty id and an "
                "unknown id, all 16 operations (incl. re-linking, negative and multi-word amounts, limits 0..5, time "
                "advances around the 120 s window, reopen), each executed on the real memory and badger drivers; "
                "distinct by rendered term",
        "trusted": ["ActiveHosts selections are compared by predicate (subset of eligible, no duplicates, exact length), "
                    "other id lists as multisets"],
    },
    "C11": {
        "harness": "c11",
        "imports": ["Base", "Nonce", "Store", "Check12"],
        "case_type": "c12_case",
        "check": "c12_check",
        "mismatch_is_violation": True,
        "theories": ["theories/Base.v", "theories/Nonce.v", "theories/Store.v", "theories/StoreProofs.v",
                     "theories/PeersProofs.v", "theories/PeersFrame.v"],
        "check_theories": ["theories/Check12.v"],
        "level_text": "Coq theorems over the contract model's UpdateNodePeers for every state, report and instant: the "
                      "declared-invalid set is exactly the candidates whose judged timestamp is outside the window, the "
                      "kept set exactly the rest, live reported peers are never declared, unknown ids are never tracked "
                      "or declared (history invariant), duplicates/order irrelevant. Tied to both real drivers by "
                      "in-kernel evaluation of the model on keep-alive histories they executed, plus an independent "
                      "recomputation of the expected sets from the LastSeen values the driver reports.",
        "level_note": "Trusted: Coq kernel; the VerifShiftTime hook standing for elapsed wall-clock time (both shift "
                      "every stored timestamp; the model's Advance does the same); clock values read back from the driver.",
        "technique": "Coq proof (exact characterisation + history invariant) + vm_compute correspondence on both drivers",
        "rule": "keep-alive histories of a node and three peers (3-8 rounds; peers check in or not, gaps of "
                "20/59/61/100/119/121/240 s, reports with omissions, duplicates, the unknown id and the node itself, "
                "late registrations), both drivers; distinct by rendered term",
        "trusted": [],
    },
    "C13": {
        "harness": "c13",
        "imports": ["Base", "Nonce", "Store", "Check12", "Durable", "Check13"],
        "case_type": "c13_case",
        "check": "c13_check",
        "mismatch_is_violation": True,
        "theories": ["theories/Base.v", "theories/Nonce.v", "theories/Store.v", "theories/StoreProofs.v",
                     "theories/Durable.v", "theories/DurableProofs.v", "gen/Facts.v", "theories/Retry.v"],
        "check_theories": ["theories/Check12.v", "theories/Check13.v"],
        "level_text": "Coq theorems over a key-space-write model of the persistent driver: the writes each method issues, "
                      "applied in one transaction, are exactly the contract step; with one transaction per method "
                      "(a fact regenerated from badger.go on every run and checked by computation) a crash at any "
                      "point leaves the state before or after the operation, the invariant and the ledger total survive "
                      "(a trial balance is never both migrated and kept), acknowledged operations are read back after "
                      "any number of restarts/kills (induction over histories), migrations from formats 0 and 1 reach "
                      "format 2 without touching nodes, peers, links or balances, reopening a current database is the "
                      "identity, newer formats are refused. Tied to the code by reopen histories, SIGKILL of a child "
                      "process at random operations, synthetic old-format databases opened with the real Open, and "
                      "concurrent readers during multi-key commits.",
        "level_note": "Trusted: badger's atomic commit, recovery and snapshot reads (the model starts above them); the "
                      "AST-based transaction-shape extractor; SIGKILL of the process (not power loss) as the crash.",
        "technique": "Coq proof (refinement of write lists, induction over crash histories) + regenerated transaction-shape "
                     "facts + vm_compute correspondence with kill/reopen/migration runs of the real driver",
        "rule": "reopen histories (10-34 ops, reopen after a quarter of them), kill runs (child process killed as an "
                "operation starts or after its ack, random sub-ms delay), databases downgraded to format absent/0/1/2/3 "
                "then opened, reader storms during 300 trial-to-wallet migrations; distinct by rendered term",
        "trusted": [],
    },
    "C01": {
        "harness": "c01",
        "imports": ["Base", "Nonce", "Store", "Check12", "Pool", "CheckPool"],
        "case_type": "pool_case",
        "check": "pool_check",
        "diag": "pool_diag",
        "theories": ["theories/Base.v", "theories/Nonce.v", "theories/Store.v", "theories/StoreProofs.v", "theories/Pool.v", "theories/PoolProofs.v", "theories/BalanceProofs.v", "theories/Conc.v", "theories/ConcProofs.v"],
        "check_theories": ["theories/Check12.v", "theories/CheckPool.v"],
        "level_text": "Coq theorems over the executable pool model (connect, keep-alive with the balance manager, account "
                      "linking, deposits, withdrawals, refused requests) composed from contract-store steps: every "
                      "operation and every history leaves the ledger total unchanged except for the credit a successful "
                      "withdrawal settles, for every price/interval/minimum configuration (induction over histories); "
                      "and for every interleaving of the atomic store actions of any number of concurrent requests with "
                      "arbitrary clock values the total at quiescence is the initial total minus the settled credit "
                      "(induction over schedules with a per-thread ledger ghost). Tied to the code by in-kernel "
                      "evaluation of the model on pool histories executed by the real VipnodePool / payPerInterval / "
                      "PaymentService on both drivers (outcome, peer sets and Stats().TotalCredit after every step), "
                      "by fault injection at the BalanceStore interface and by free-running concurrent keep-alives.",
        "level_note": "Trusted: Coq kernel; each store call is atomic (memory: mutex, LockShape fact; badger: one "
                      "transaction retried on conflict, TxnShape fact + badger's commit); the deposit proxy is harness "
                      "code standing for the contract store; signatures are real (go-ethereum) but not modelled here.",
        "technique": "Coq proof (induction over histories and over schedules) + vm_compute correspondence on both drivers "
                     "+ fault injection + concurrent runs",
        "rule": "pool histories of 15-44 operations (3 hosts, 3 clients, 3 wallets; connect/reconnect, keep-alives with "
                "elapsed 0..2^62 ns and prices 1..10^40, account linking, deposits, withdrawals with failing "
                "settlements, time advances), configurations with minimum/fee/withdraw-minimum on/off, both drivers; "
                "4 fault-injection runs; 6 concurrent runs of 8 clients x 12 keep-alives; distinct by rendered term",
        "trusted": [],
    },
    "C02": {
        "harness": "c02",
        "imports": ["Base", "Nonce", "Store", "Check12", "Pool", "CheckPool"],
        "case_type": "pool_case",
        "check": "pool_check",
        "diag": "pool_diag",
        "theories": ["theories/Base.v", "theories/Nonce.v", "theories/Store.v", "theories/StoreProofs.v", "theories/Pool.v", "theories/PoolProofs.v", "theories/BalanceProofs.v", "theories/Conc.v", "theories/ConcProofs.v"],
        "check_theories": ["theories/Check12.v", "theories/CheckPool.v"],
        "level_text": "Coq theorems over the balance-manager model: a billing keep-alive performs exactly +unit per "
                      "active peer and -(k x unit) for the client with unit = floor(sat64(elapsed) x price / interval) "
                      "over unbounded integers; hosts, zero unit charge and misconfiguration move nothing; failures are "
                      "all-or-nothing; slicing a span into k keep-alives lowers the per-peer total by at most k-1 units "
                      "and never raises it; the billed time of a run is the span plus the gaps between the two clock "
                      "reads of each keep-alive (so 'no time charged twice' holds iff the reads coincide: refuted for "
                      "the code as it is, known finding D19). Tied to the code by in-kernel evaluation on keep-alive "
                      "histories of the real pool with the balance clock set by the verif hook, both drivers.",
        "level_note": "Trusted: Coq kernel; math/big Div by a positive divisor is floor division; time.Sub saturation as "
                      "modelled; the clock hook (VerifSetClock) and the read-back LastSeen give the exact clock values.",
        "technique": "Coq proof (trace characterisation, arithmetic bounds) + vm_compute correspondence on both drivers",
        "rule": "keep-alive histories (1-3 hosts, 1-3 clients, shared wallets, 0..n peers incl. non-hosts and the "
                "client itself, elapsed 0 / 1 ms / 30 s / 59.999999999 s / 60 s / 61 s / 5 min / 2^62 ns, prices 1 .. "
                "10^40 incl. 2^64+1, intervals 1 s / 1 min / 1 h), both drivers; 6 real-clock runs of 9 keep-alives; "
                "distinct by rendered term",
        "trusted": [],
    },
    "C03": {
        "harness": "c03",
        "imports": ["Base", "Nonce", "Store", "Check12", "Pool", "CheckPool"],
        "case_type": "pool_case",
        "check": "pool_check",
        "diag": "pool_diag",
        "theories": ["theories/Base.v", "theories/Nonce.v", "theories/Store.v", "theories/StoreProofs.v", "theories/Pool.v", "theories/PoolProofs.v", "theories/BalanceProofs.v", "theories/Conc.v", "theories/ConcProofs.v"],
        "check_theories": ["theories/Check12.v", "theories/CheckPool.v"],
        "level_text": "Coq theorems: at connect a light client is refused iff deposit + credit < minimum and the error "
                      "carries that balance, hosts and an unset minimum never; at a billing keep-alive the client is cut "
                      "off iff its spendable balance after that keep-alive's charge is below the minimum, the error "
                      "reports that balance, and the hosts asked to disconnect it are exactly its active peers with a "
                      "live connection. Tied to the code by in-kernel evaluation on histories that drive a balance "
                      "across the threshold (min-2 .. min+2) at connect and at keep-alives, both drivers, with the "
                      "vipnode_disconnect calls recorded by fake hosts.",
        "level_note": "Trusted: Coq kernel; the deposit proxy (harness) standing for the contract store; fake hosts over "
                      "net.Pipe Remotes.",
        "technique": "Coq proof (case analysis on the balance-manager model) + vm_compute correspondence on both drivers",
        "rule": "threshold histories: minimum in {unset,-5,0,1,1000,10^18}, deposit chosen so that the balance after a "
                "charge of k x 1..50 lands on min-2..min+2, linked and unlinked clients, hosts with and without a live "
                "connection; distinct by rendered term",
        "trusted": [],
    },
    "C07": {
        "harness": "c07",
        "imports": ["Base", "Nonce", "Store", "Check12", "Pool", "CheckPool", "Deposit", "Check07"],
        "case_type": "c07_any",
        "check": "c07_any_check",
        "diag": "c07_any_diag",
        "theories": ["theories/Base.v", "theories/Nonce.v", "theories/Store.v", "theories/StoreProofs.v", "theories/Pool.v", "theories/PoolProofs.v", "theories/BalanceProofs.v", "theories/Conc.v", "theories/ConcProofs.v", "theories/Locks.v", "theories/LocksProofs.v", "gen/Facts.v", "theories/Deposit.v", "theories/DepositProofs.v"],
        "check_theories": ["theories/Check12.v", "theories/CheckPool.v", "theories/Check07.v"],
        "level_text": "Coq theorems over the payment-service model: a withdrawal is executed iff settlement is enabled, "
                      "deposit + credit meets the minimum and the settlement succeeds; it pays exactly that balance minus "
                      "the fee; it leaves deposit + credit = 0; an immediate repeat pays none of the earnings again "
                      "(refused under a positive minimum); failed or refused requests change nothing; each success lowers "
                      "what the pool owes by paid + fee; racing withdrawals interleaved with any other requests remove "
                      "from the ledger exactly what each settled. Tied to the code by in-kernel evaluation on "
                      "accrual/withdrawal histories of the real PaymentService (settle handler recording amounts, "
                      "failing on scripted attempts), both drivers, and by racing withdrawals of one wallet. Racing withdrawals: the keyed-lock model (Locks.v) proves mutual exclusion for a lock whose map entry is never removed, for any number of racing requests and any schedule, refutes the entry-removing variant with a chain of three, and the shape of Withdraw's lock is a fact regenerated from the source; staged chains of 3-5 overlapping withdrawals are forced on the real service through a settlement gate. The production wiring is exercised as well: payment.ContractPayment as balance store and its OpSettle as settlement, over the real VipnodePool contract deployed on go-ethereum's simulated chain (deposits, timelocked deposits, fee styles, minimum, immediate repeats with the first settlement still pending), with paid amount, remaining deposit and remaining credit read from the chain and the ledger, and compared in-kernel with the deposit-cache model (Deposit.v: cache in front of the contract, pending settlements, Balance events at mining, pool restarts), for which Coq proves that no history pays a wallet more than it put in and earned and that an immediate repeat pays nothing, and refutes the event-only cache refresh of the pinned code (D29). Since rounds 8-9: the deposit-cache model also covers other accounts crowding the cache under no bound or any bound that drops what it cannot store (never overpaid, an immediate repeat pays nothing; a bound that keeps old entries is refuted), the many-accounts scenario is compared with it in-kernel, and the shipped pool binary is run with --contract.* against the simulated chain behind a JSON-RPC endpoint of the harness (pool_account, two signed pool_withdraw, ether received on-chain).",
        "level_note": "Trusted: Coq kernel; the settle handler and deposit proxy are harness code standing for the "
                      "contract (settlement sets the on-chain balance to the new balance 0); withdrawals are serialized "
                      "by the service mutex (Go sync.Mutex).",
        "technique": "Coq proof (specification lemmas, history/schedule induction) + vm_compute correspondence + races",
        "rule": "accrual and withdrawal histories (6-17 steps; accruals of 1..20000 around fee 2500 / minimum 5000 / "
                "minimum 100 / fee 10, deposits, settlement failing on a quarter of attempts, immediate repeats, "
                "settlement disabled in a tenth), both drivers; every tenth case 2-6 racing withdrawals of one wallet",
        "trusted": ["Locks model (keyed lock bookkeeping): sync.Mutex semantics and the Go scheduler are trusted; the lock facts are syntactic recognisers of the pinned shapes (harness/facts_locks.go)"],
    },
    "C04": {
        "harness": "c04",
        "imports": ["Base", "Nonce", "Auth", "Check04"],
        "case_type": "c04_case",
        "check": "c04_check",
        "diag": "c04_diag",
        "theories": ["theories/Base.v", "theories/Nonce.v", "theories/NonceProofs.v", "theories/Auth.v", "theories/AuthProofs.v"],
        "check_theories": ["theories/Check04.v"],
        "level_text": "Coq theorems over a symbolic model of request signing and of the verification step that guards every "
                      "signed endpoint: the step accepts only a signature made by the key of the named identity over "
                      "exactly the endpoint's own method name, that identity, that nonce and those parameters (or, for "
                      "vipnode_update, the deprecated parameter format); any altered component, any other key and any "
                      "malformed signature is refused; a correctly signed fresh request is accepted; any effect of a "
                      "guarded endpoint implies a valid signature; at the byte level the method name and the argument "
                      "array are uniquely recoverable from the signed string and node-style and wallet-style payloads "
                      "never coincide. The guarded model is tied to the real endpoints by sending them, with real "
                      "secp256k1/Keccak signatures, every alteration kind for each of the seven endpoints and comparing "
                      "accept/refuse and the absence of any effect with the model's decision.",
        "level_note": "Trusted: Coq kernel; cryptographic strength (unforgeability, hash collision resistance) is replaced "
                      "by the symbolic model; encoding/json renders distinct parameter values distinctly; the signature's "
                      "recovery byte is not part of the signed value (alterations target R and S); the model is guarded "
                      "by construction and its agreement with the code is established by the correspondence (bounded).",
        "technique": "Coq proof over a symbolic (Dolev-Yao style) signature model + vm_compute correspondence with real crypto",
        "rule": "per case 35 requests: each of the 7 endpoints x 5 requests (one valid, four drawn from: signed over "
                "another method / identity / nonce+-1 / changed parameter, other key, flipped R/S bit, empty, short, "
                "badly encoded, truncated signature, other signing style, stale nonce, replay, deprecated update "
                "format), both drivers; distinct by rendered term",
        "trusted": [],
    },
    "C06": {
        "harness": "c06",
        "imports": ["Base", "Nonce", "Auth", "Check04"],
        "case_type": "c04_case",
        "check": "c04_check",
        "diag": "c04_diag",
        "theories": ["theories/Base.v", "theories/Nonce.v", "theories/NonceProofs.v", "theories/Auth.v", "theories/AuthProofs.v"],
        "check_theories": ["theories/Check04.v"],
        "level_text": "Coq theorems: a request refused by the verification step — bad signature, wrong key, malformed "
                      "signature, stale or repeated nonce — leaves the pool state, the nonce table and the hosts "
                      "untouched for every guarded endpoint body, hence after a forged request carrying a larger nonce "
                      "the owner's request with a smaller fresh nonce is still accepted; the variant helper that saves "
                      "the nonce first is shown not to have this property (the model can express the failure). Tied to "
                      "the code by valid sessions with refused requests interleaved at random positions on the real pool "
                      "and payment services: full state digest (Stats, every node, its peers and balance, every wallet, "
                      "NumRemotes) and the calls seen by fake hosts before vs after, then the owner's follow-up request.",
        "level_note": "Trusted: as C04; the digest covers everything reachable through the store and pool APIs.",
        "technique": "Coq proof (nonce table unchanged on every refusal path) + vm_compute correspondence with real crypto",
        "rule": "sessions of 10-19 requests on a live pool (2 hosts, 2 clients, linked wallet with credit), half of "
                "them refused (12 refusal kinds), a garbage request with a nonce one minute ahead followed by the "
                "owner's ordinary request after half of the refusals, both drivers; distinct by rendered term",
        "trusted": [],
    },
    "C08": {
        "harness": "c08",
        "imports": ["Base", "Nonce", "Store", "ReqHosts", "Check08"],
        "case_type": "c08_case",
        "check": "c08_check",
        "mismatch_is_violation": True,
        "theories": ["theories/Base.v", "theories/Nonce.v", "theories/Store.v", "theories/StoreProofs.v",
                     "theories/ReqHosts.v", "theories/ReqHostsProofs.v", "gen/Facts.v", "theories/Agent.v", "theories/Compose.v", "theories/PeersFrame.v"],
        "check_theories": ["theories/Check08.v"],
        "level_text": "Coq theorems over the requestHosts model, for every store answer satisfying the ActiveHosts "
                      "contract, every registry and every assignment of whitelist outcomes: each returned host is an "
                      "active full-node host of the requested kind, not the requester, not already its peer, connected, "
                      "acknowledged and was sent the whitelist instruction; failed/timed-out hosts are left out; the "
                      "reply never exceeds the requested count nor the pool maximum and is empty for zero or negative "
                      "requests; an error is returned iff the reply would be empty; when every active host of the kind "
                      "is eligible and acknowledges the reply has exactly min(requested, supply) hosts; the legacy "
                      "default is the regenerated constant 3. Tied to the code by peer requests on generated "
                      "populations against the real pool with scripted fake hosts (ack / error / stall beyond the 5 s "
                      "timeout), checked in-kernel against the predicate form of those statements.",
        "level_note": "Trusted: Coq kernel; the store's selection among active hosts is an arbitrary input satisfying "
                      "the (proved-for-the-model, corresponded-for-the-drivers) ActiveHosts contract; fake hosts record "
                      "the whitelist call on arrival; ack-before-reply ordering holds by construction of the model "
                      "(the reply is a filter of acknowledged calls) and is observed through call records.",
        "technique": "Coq proof over an oracle-parameterised model + vm_compute predicate check on real pool runs",
        "rule": "populations of 0-6 hosts (kinds geth/parity, a fifth stale, a fifth with a closed connection, a quarter "
                "already peered, a tenth answering with an error, stalls in 4 extra cases), requester client/host/"
                "unregistered, counts -3,-1,0,1,2,supply,supply+2,3, maxima 0/1/3, kinds any/geth/parity, via "
                "vipnode_peer or the legacy vipnode_client; distinct by rendered term",
        "trusted": [],
    },
    "C09": {
        "harness": "c09",
        "imports": ["Base", "Nonce", "Store", "ReqHosts", "Check08"],
        "case_type": "c09_case",
        "check": "c09_check",
        "diag": "c09_diag",
        "mismatch_is_violation": True,
        "theories": ["theories/Base.v", "theories/ReqHosts.v", "theories/ReqHostsProofs.v", "gen/Facts.v", "theories/Agent.v", "theories/Compose.v", "theories/PeersFrame.v"],
        "check_theories": ["theories/Check08.v"],
        "level_text": "Coq theorems over the registry model for every history of registrations and closes (no "
                      "registration arrives on a closed connection): a host is instructable, and on exactly which "
                      "connection, iff the connection it most recently registered on is still open (simulation against "
                      "a latest-registration/closed-set specification, induction over the history); closing a "
                      "connection removes every host registered on it and nobody else, so closing a reconnected host's "
                      "old connection keeps the new registration; the registry holds one entry per distinct host "
                      "(NumRemotes); the pinned variant with a single reverse entry is refuted by a 3-event history. "
                      "Tied to the code by event sequences on the real pool (hosts registering over new or shared "
                      "net.Pipe Remotes, closes in any order incl. twice) with NumRemotes after every event and probe "
                      "peer requests showing which connection objects receive vipnode_whitelist.",
        "level_note": "Trusted: Coq kernel; registry reads/writes are atomic (pool mutex); a request already past its "
                      "registry lookup may still call a connection that closes meanwhile (the property speaks of requests "
                      "that start later); server.go's disconnect callback is exercised in-process via CloseRemote.",
        "technique": "Coq proof (simulation invariant, induction over histories) + vm_compute correspondence on the real pool",
        "rule": "sequences of 6-19 events over 3 hosts and up to ~10 connections: (re)connect on a new or an existing "
                "open connection (also another host's), close any connection (open, closed, old, new), probe request; "
                "distinct by rendered term",
        "trusted": [],
    },
    "C19": {
        "harness": "c19",
        "imports": ["Base", "NodeURI", "Check19"],
        "case_type": "c19_case",
        "check": "c19_check",
        "mismatch_is_violation": True,
        "theories": ["theories/Base.v", "theories/NodeURI.v", "theories/NodeURIProofs.v", "theories/Nonce.v", "theories/Store.v", "theories/StoreProofs.v", "theories/HandedOut.v"],
        "check_theories": ["theories/Check19.v"],
        "level_text": "Coq theorems over byte-string models of normalizeNodeURI and of net.JoinHostPort/SplitHostPort: the "
                      "stored address always carries the authenticated node id and an override naming another id is "
                      "refused; the host is the override's unless missing or unspecified (then the connection's source "
                      "host), the port the override's or 30303; the advertised host:port splits back to exactly that "
                      "host and port for every host without brackets and every port without ':' '[' ']' (IPv4, IPv6 "
                      "with or without zone, names); an undeterminable address is refused, never stored; joining with a "
                      "bare ':' is refuted for IPv6. Tied to the code by in-kernel evaluation on generated overrides x "
                      "source addresses through the verif-exported normalizeNodeURI and through vipnode_connect over "
                      "connections with scripted source addresses; the stored URI is parsed with the agent-side "
                      "ethnode.ParseNodeURI and net.SplitHostPort.",
        "level_note": "Trusted: Coq kernel; net/url parsing and rendering (the override reaches the model as the "
                      "Username/Hostname/Port the code itself extracts; URL.String escaping is exercised, not modelled).",
        "technique": "Coq proof over byte-string models + vm_compute correspondence through hook and public path",
        "rule": "overrides: absent, unparsable, schemes enode/http/ws, user absent/own id/other id/other name/id:password, "
                "hosts IPv4, name, IPv6 (plain, zone), [::], 0.0.0.0, empty, localhost, ports absent/30303/1234/0/65535, "
                "paths/queries/fragments; source addresses IPv4, IPv6, zone, name, empty; every 20th through "
                "vipnode_connect; distinct by rendered term",
        "trusted": [],
    },
    "C17": {
        "harness": "c17",
        "imports": ["Base", "Codec", "Check17"],
        "case_type": "c17_case",
        "check": "c17_check",
        "mismatch_is_violation": True,
        "theories": ["theories/Base.v", "theories/Codec.v", "theories/CodecProofs.v"],
        "check_theories": ["theories/Check17.v"],
        "level_text": "Coq theorems: for any self-delimiting framing (a value is complete exactly at its last byte) a "
                      "decoder that lives as long as the connection returns, for every way of cutting the byte stream "
                      "of a message sequence into reads, exactly those messages, once each, in order, with nothing left "
                      "over (induction over the reads with the invariant 'buffer ++ unread = encoding of the unread "
                      "messages'); the framing the stream codec writes (compact JSON + newline) satisfies the "
                      "hypotheses; a decoder created per ReadMessage is refuted by two coalesced messages; frame "
                      "codecs are one message per frame; writers holding the write lock for a whole message never "
                      "interleave bytes. Tied to the code by writing message sequences with the real jsonCodec, "
                      "re-chunking the bytes by scripted partitions (coalesced, byte-wise, random, single cut, "
                      "boundary+1) and reading them back with the real ReadMessage, compared in-kernel with the "
                      "model's decoding; gorilla (8 concurrent writers), gobwas and HTTP round trips run through a "
                      "re-chunking TCP proxy.",
        "level_note": "Trusted: Coq kernel; where a JSON value ends is encoding/json's decision (abstract scanner); one "
                      "Write per message on net.Conn is atomic with respect to other writers (checked: exactly one "
                      "Write call per message); websocket framing libraries.",
        "technique": "Coq proof (induction over chunkings for an abstract framing + concrete instance) + vm_compute "
                     "correspondence with the real stream codec + proxy runs for WebSocket/HTTP codecs",
        "rule": "sequences of 1-6 messages (requests, results, errors; empty / unicode+escapes / nested / 1-60 byte and, "
                "every tenth case, 1-200 KB strings / mixed scalars), five partition modes; streams up to 1500 bytes "
                "are also evaluated in Coq, longer ones by the monitor only; 3 gorilla, 3 gobwas, 3 HTTP proxy runs; "
                "distinct by rendered term / description",
        "trusted": [],
    },
    "C16": {
        "harness": "c16",
        "imports": ["Base", "Dispatch", "Check16"],
        "case_type": "c16_case",
        "check": "c16_check",
        "preamble": "From Coq Require Import String.\nOpen Scope string_scope.",
        "mismatch_is_violation": True,
        "timeout_quick": 900,
        "theories": ["theories/Base.v", "theories/Dispatch.v", "theories/DispatchProofs.v", "gen/Facts.v"],
        "check_theories": ["theories/Check16.v"],
        "level_text": "Coq theorems over the registry model: a service exposes exactly prefix + lower-cased-first-letter "
                      "names of its usable exported methods, restricted to the allow-list; unknown names (case variants, "
                      "unexported, helpers) are method-not-found; the method runs iff the name is registered and the "
                      "positional parameters are accepted; too many, too few (required), wrongly typed, absent or "
                      "non-array parameters are invalid-params and nothing runs. The production statement — the pool "
                      "binary serves exactly the ten documented calls, the agent exactly vipnode_whitelist — is a "
                      "computed obligation over facts regenerated on every run: the method sets of *VipnodePool, "
                      "*PaymentService, *PoolStatus, *Agent by Go reflection and the literal arguments of the Register "
                      "calls in pool.go / agent.go. Tied to the code by an instrumented receiver (invocation counter) "
                      "registered under random prefixes/allow-lists and probed with every name variant x arity 0..n+2 x "
                      "JSON kind per position, by the production receivers registered as pool.go does, and by the "
                      "built vipnode binary probed over HTTP with every method name of the three receivers.",
        "level_note": "Trusted: Coq kernel; encoding/json's acceptance of a JSON value for a Go kind as tabulated in "
                      "Dispatch.accepts (null is a no-op, numbers must fit, unknown object fields ignored); reflection-"
                      "based fact extractor; the WebSocket transport shares the same Server as HTTP (server.go).",
        "technique": "Coq proof + computed obligation over regenerated registry facts + vm_compute correspondence + binary probe",
        "rule": "12 registrations of the instrumented receiver (3 prefixes, 4 allow-list shapes), each probed with all "
                "rpc names and 6 case variants, helper/unexported names, absent/null/object/string params, arities "
                "0..n+2, 9 JSON kinds at every position; unsupported-return receiver; 3 production registrations; "
                "1 built binary probed with ~120 names",
        "trusted": [],
    },
    "C18": {
        "harness": "c18",
        "imports": ["Base", "Agent", "AgentProofs", "Check18"],
        "case_type": "c18_case",
        "check": "c18_check",
        "diag": "c18_diag",
        "theories": ["theories/Base.v", "theories/Agent.v", "theories/AgentProofs.v", "theories/Nonce.v", "theories/Store.v", "theories/ReqHosts.v", "theories/ReqHostsProofs.v", "theories/Compose.v"],
        "check_theories": ["theories/Check18.v"],
        "level_text": "Coq theorems over the model of one keep-alive round (a function from the node's peer list and the "
                      "pool's replies to the list of calls made): the peers un-trusted and disconnected are exactly the "
                      "pool-declared invalid ones plus, with strict peering, the local peers the pool does not list as "
                      "active under the same host (hosts compared, ports never), each gets both calls, nobody else; a "
                      "shortfall causes exactly one Peer request for target - |active| hosts of the node's own kind "
                      "(any kind for a full node) and none otherwise; every returned host is connected to; a failed "
                      "keep-alive makes no call on the node; all of it for every round of a multi-round history. Tied "
                      "to the code by running the real Agent (Start, then UpdatePeers) against a recording fake "
                      "EthNode and a scripted pool and comparing, in-kernel, the exact call sequence and result class "
                      "of every round with the model's. Since round 9 the round is also run through the real geth and parity drivers (ethnode.RemoteNode) against a node that speaks both RPC dialects over go-ethereum's in-process RPC: every returned host is connected to at the address the pool returned, every invalid peer is dropped under its id.",
        "level_note": "Trusted: Coq kernel; enode string parsing (net/url, ethnode.ParseNodeURI) reaches the model as "
                      "(parsed?, id, remote host) computed by the same library calls the agent makes.",
        "technique": "Coq proof over a call-log model + vm_compute correspondence against the real Agent",
        "rule": "1-4 rounds per case; 0-6 local peers (pubkey ids, hash id + enode, short enode, unparsable address; "
                "addresses IPv4/IPv6/loopback/unspecified/localhost/name/none, same host different port), pool "
                "active/invalid lists as ids, enode URIs with and without address, often echoing the local peers; "
                "strict on/off, targets 0-6, full/light node, geth/parity; pool update error, node error, failing "
                "drop calls, Peer reply ok/no-peers/failure, ConnectPeer failing at a position",
        "trusted": [],
    },
    "C20": {
        "harness": "c20",
        "imports": ["Base", "Life", "Inflight", "Check20"],
        "case_type": "c20_any",
        "check": "c20_any_check",
        "diag": "c20_any_diag",
        "timeout_quick": 900,
        "theories": ["theories/Base.v", "theories/Life.v", "theories/LifeProofs.v", "theories/Inflight.v", "theories/InflightProofs.v", "gen/Facts.v", "theories/Claim.v", "theories/ClaimProofs.v", "theories/Winddown.v"],
        "check_theories": ["theories/Check20.v"],
        "level_text": "Coq theorems over the lifecycle transition system (started flag, live loops, results queued for "
                      "Wait): for every sequence of starts (succeeding, failing at connect or at the first keep-alive), "
                      "stops, waits, ticks and pool failures at most one loop is alive and one is alive iff the agent "
                      "counts as started; a second start while running is refused and changes nothing; a failed start "
                      "leaves nothing running; stop ends the loop, Wait returns, a new start succeeds; a failed "
                      "keep-alive ends the loop with its error and allows a restart; each interval sends one keep-alive "
                      "per live loop; the variant without the flag (the pinned tree) runs two loops. The command-line "
                      "bound: any accepted interval is below ExpireInterval, computed from the regenerated constants "
                      "(maxUpdateInterval = ExpireInterval = 2 x KeepaliveInterval). A finer transition system (Inflight: "
                      "calls and returns of Start/Stop/Wait, begin and end of every keep-alive, keep-alives of any "
                      "duration) proves that after a Stop has returned no keep-alive begins until the next Start, that "
                      "Stop returns only with the loop idle and ended and the result queued, and refutes a Stop that "
                      "gives up while a keep-alive is in flight; the event histories logged by the harness (every "
                      "lifecycle sequence, and a Stop during a 3.6 s keep-alive) are checked in-kernel to be histories "
                      "of that system. PARTIAL: real timers (time.Tick) "
                      "and goroutine scheduling are runtime behaviour; the model proves the bookkeeping. Tied to the code "
                      "by scripted start/stop/wait/pool-failure sequences on the real Agent (25 ms interval) against a "
                      "counting fake pool, with the number of live loops estimated from the keep-alive rate, and by "
                      "running the built agent binary with --update-interval at 1s, 5s, 5.001s, 30s, 60s, 119.9s, "
                      "120s, 121s, 1h. Overlapping Start calls (Claim.v): test-and-set claim under the agent's mutex (fact regenerated from agent/agent.go), registration outside it: never more than one loop for any interleaving of any number of Start/Stop calls and registration failures; the split test/set shape is refuted. Uncollected results of earlier runs no longer matter: theorem for every number of such runs (D27).",
        "level_note": "Trusted: Coq kernel; the keep-alive rate measured over 12 intervals classifies 0/1/2/3 loops "
                      "(ambiguous measurements are repeated, then dropped); Stop/Wait are issued only when the model "
                      "says they are enabled (Stop blocks forever with no loop running, which the property does not cover).",
        "technique": "Coq proof (invariant over an LTS) + computed obligation over regenerated bounds + vm_compute "
                     "correspondence with the real Agent and the built binary",
        "rule": "24 sequences of 5-13 operations (start ok / failing at connect / failing at first update, stop, pool "
                "fails a keep-alive, wait, rate measurement), 6 at a time; 1 command-line case with 9 intervals",
        "trusted": ["Claim model: Start as claim / register / run steps; the Start shape facts are syntactic (harness/facts_claim.go)", "after fix fb90846 an accepted Start drops uncollected results of earlier runs; the Life model follows (LStart empties the queue)"],
    },
    "C14": {
        "harness": "c14",
        "imports": ["Base", "Routing", "Recycle", "Check14"],
        "case_type": "c14_any",
        "check": "c14_any_check",
        "timeout_quick": 900,
        "theories": ["theories/Base.v", "theories/Routing.v", "theories/RoutingProofs.v", "theories/Recycle.v", "theories/RecycleProofs.v"],
        "check_theories": ["theories/Check14.v"],
        "level_text": "Coq theorems over a labelled transition system of jsonrpc2.Remote's reply routing (pending table of "
                      "one-slot channels identified by id and generation, fresh request ids, the discard rule): for "
                      "every trace a call that returns a payload returns one routed for its own id (invariant by "
                      "induction over traces); with the repaired rule a reply for a waiting call reaches that call's "
                      "channel in every reachable state whatever the pending limit (invariant: a waiting call's entry "
                      "is in the table, marked, and survives every discard); the pinned rule is refuted by a 4-label "
                      "trace; the reading loop blocks only on a second unconsumed reply for one id; a waiting call can "
                      "always be cancelled and a late reply is never consumed by another call. PARTIAL: goroutine "
                      "scheduling is quantified over as interleavings of the modelled steps; real schedulers are "
                      "exercised. Tied to the code by executing generated traces (start / deliver / cancel, replies "
                      "before the call exists, random limits) on a real Remote through a harness-controlled codec and "
                      "comparing every call's final phase and the pending-table size in-kernel; plus two Remotes over a "
                      "reordering transport with 8-50 concurrent callers per side, nested call-backs of depth 0-4, "
                      "cancellations, and more calls in flight than the pending limit. Since round 9: a second transition system with reply channels as objects and Serve's lookup and send as separate steps (Recycle) proves own-reply for the code as it is (channels never handed to a second call) and refutes channel recycling, drained or not; the forced cancel/reply races on a real Remote are checked in-kernel to be histories of it with the observed results.",
        "level_note": "Trusted: Coq kernel; request ids are fresh (atomic counter; wrap-around after 2^31 calls per "
                      "connection is outside the model); the harness pauses 1.5 ms between labels so that each real "
                      "goroutine reaches the modelled step; Go channels and mutexes.",
        "technique": "Coq proof (trace invariants over an LTS) + vm_compute correspondence on scripted traces + stress runs",
        "rule": "150 scripted traces of 6-19 labels with pending limit 0 or 2-5 and discard 1-3; 7 free-running runs "
                "without limit (call-backs, cancellations), 3 with limit 8 / discard 3 and 26-46 slow calls in flight",
        "trusted": [],
    },
    "C15": {
        "harness": "c15",
        "imports": ["Base", "Dispatch", "Total", "Check15"],
        "case_type": "c15_case",
        "check": "c15_check",
        "timeout_quick": 900,
        "crash_is_violation": True,
        "theories": ["theories/Base.v", "theories/Dispatch.v", "theories/Total.v", "theories/TotalProofs.v", "gen/Facts.v", "theories/Wedge.v", "theories/WedgeProofs.v"],
        "check_theories": ["theories/Check15.v"],
        "level_text": "Coq theorems over a model of message handling with Go's nil dereference as an explicit Panic "
                      "outcome: for every message shape (request / reply / both / neither; id present or not; params "
                      "absent, not an array, any arity and JSON kinds) the reading side does not panic, every request "
                      "gets exactly one reply carrying its id with either a result or an error, stray messages are "
                      "routed by id or dropped, and a caller consuming any reply (without result and error, null, "
                      "error, wrong type) returns a value or an error; the unguarded consumer of the pinned tree is "
                      "refuted. The inventory of panic-capable expressions in the network-facing functions is "
                      "regenerated from the sources on every run and must equal the reviewed list (computed "
                      "obligation), so a new unguarded slice/index/assertion breaks the proof. PARTIAL: encoding/json's "
                      "lexer, HTTP and WebSocket framing are trusted libraries exercised only by the byte-stream cases. "
                      "Tied to the code by differential fuzzing of a child process serving the production registrations "
                      "over sockets (Remote.Serve: a panic in a handler goroutine kills it) and HTTP: type-directed "
                      "hostile requests for every documented method, unsolicited/odd replies, malformed byte streams, "
                      "hostile replies to the pool's own vipnode_whitelist calls, correctly signed requests with odd "
                      "contents; after hostile messages the same and a second connection must still answer a probe. No wedge: handlers sharing the pool mutex (Wedge.v): if no handler waits for a remote party while holding it - a fact regenerated from pool/service.go - then in every reachable state a handler that is not itself waiting performs its next step after finitely many steps of others, whatever replies are withheld for ever; waiting under the mutex is refuted (every schedule leaves the bystander stuck). Exercised by hosts that read the pool's calls and never answer.",
        "level_note": "Trusted: Coq kernel; the AST-based site extractor (syntactic: map indexes and len()-sized makes are "
                      "excluded); the reviewed justifications of the listed sites are by inspection, the signature and "
                      "EnodeID ones are also theorems (C04/C02); success and internal-error replies are one class in the "
                      "correspondence (the method bodies are not modelled here).",
        "technique": "Coq proof over a Panic-explicit message model + computed obligation over the regenerated panic-site "
                     "inventory + vm_compute correspondence on differential fuzzing of a subprocess",
        "rule": "6 child processes x 120 generated messages (4 over sockets, 2 over HTTP): 12 shape classes, params "
                "type-directed with odd strings/ids/numbers/objects and wrong kinds/arity; 15 malformed byte streams "
                "over socket and HTTP; 1 signed session: 8 hostile replies to the pool's call-backs, 8 correctly signed "
                "odd requests, an account query for a wallet-style node id",
        "trusted": ["Wedge model: handlers as step lists sharing one mutex; sync.Mutex, channels and the Go scheduler are trusted; pool_mutex_spans / pool_mutex_waits_inside are syntactic (harness/facts_spans.go: receives, sends, select, .Call, .Wait, .Sleep inside Lock...Unlock stretches of pool/service.go; code under `go` excluded)"],
    },
    "C10": {
        "harness": "c10",
        "imports": ["Base", "Snapshot", "Nonce", "Store", "Pool", "Conc", "Check10"],
        "case_type": "c10_any",
        "check": "c10_any_check",
        "timeout_quick": 1200,
        "theories": ["theories/Base.v", "theories/Store.v", "theories/StoreProofs.v", "theories/Pool.v", "theories/PoolProofs.v",
                     "theories/BalanceProofs.v", "theories/Conc.v", "theories/ConcProofs.v", "theories/SerialProofs.v",
                     "theories/Snapshot.v", "theories/SnapshotProofs.v", "theories/NonceProofs.v", "gen/Facts.v", "theories/Locks.v", "theories/LocksProofs.v", "gen/Facts.v", "theories/SerialFull.v", "theories/SoloPool.v", "theories/Mixed.v", "theories/Deposit.v", "theories/DepositProofs.v"],
        "check_theories": ["theories/Check10.v"],
        "level_text": "Four parts of different strength. (a) Store operations are atomic: computed obligations over "
                      "facts regenerated from the sources (every in-memory method takes the mutex, Lock then deferred "
                      "Unlock, before touching a field; every badger method is one transaction with no write outside "
                      "it). (b) No update is lost: Coq theorems that after any sequence of balance updates every "
                      "balance is its initial value plus the deltas addressed to its owner, that permuting the updates "
                      "changes no balance, that under every interleaving of whole requests the ledger total at "
                      "quiescence is the initial total minus settled credit, and that racing duplicate nonces have at "
                      "most one winner. (c) Full serialisability of keep-alives is refuted for the pool without a "
                      "per-node critical section (two overlapping keep-alives of one node bill the span twice: witness "
                      "by computation on the interleaving model); the repaired pool serialises the updates of each "
                      "node, and the witness schedule is forced on the real pool through a barrier store wrapper. "
                      "(d) Snapshots: Coq theorem that with fresh-cell updates a value handed out is never altered by "
                      "any later history (heap model), in-place updates refuted; tied to both drivers by keeping every "
                      "balance they return and re-reading it after later writes, compared in-kernel with the model. "
                      "PARTIAL: absence of data races is runtime behaviour no Gallina model exhibits; it is searched "
                      "for with the race detector on the concurrent workloads (memory/badger keep-alives, balance "
                      "updates, withdrawals, registry connect/close/peer, Remote calls). The per-node update lock: keyed-lock model (Locks.v) with mutual exclusion and progress theorems, the entry-removing variant refuted (and shown indistinguishable with only two requests), lock shape facts regenerated from pool/service.go; pool-level snapshot histories; chains of three overlapping keep-alives forced through a gate store. Serialisability proper (SerialFull.v): for any number of keep-alives of pairwise distinct nodes and any interleaving of their store actions that completes them, the final node records, peer sets, links and balances are those of a one-at-a-time execution in the order of the UpdatePeers actions (phase invariant + characterisation; each request alone = its UpdatePeers followed by its credits); SoloPool.v: a keep-alive program run alone ends in exactly the state Pool.pool_update computes, so the interleaved run agrees with the pool model applied one request at a time (keepalives_serialisable_pool). REFUTED for keep-alive x withdrawal (Mixed.v, known finding D28): a keep-alive credits each peer in a store action of its own, so a withdrawal of a wallet two credited hosts are paid into, run between the two credits, settles the first only - ledger and payout are the result of neither one-at-a-time order (nothing is lost); the witness schedule is forced on the real pool and payment service through a gate on the balance store and compared with both serial orders run on the same code. The request programs themselves are tied to the handlers by the call-trace correspondence: a recording store wrapper logs every store call the real Update/Connect/AddNode/Withdraw handlers make in random pool histories on both drivers, and the kernel compares each sequence (arguments included) with the calls the model program makes from the model state the history reached.",
        "level_note": "Trusted: Coq kernel; Go's sync.Mutex and memory model; badger's snapshot isolation and conflict "
                      "detection; the AST-based lock/transaction shape extractors; the race detector only sees the "
                      "schedules that happen to run.",
        "technique": "Coq proof (commutation of balance updates, schedule induction, heap model) + computed obligations over "
                     "regenerated lock/transaction facts + vm_compute correspondence for snapshots + forced interleaving "
                     "and race-detector runs on the real code",
        "rule": "120 snapshot histories (8-32 adds/gets over a trial node, a linked node and its wallet, multi-word "
                "amounts), both drivers; 60 call-trace pool histories (10-25 operations) on both drivers; per driver one forced same-node interleaving, one forced keep-alive/withdrawal interleaving with its two serial orders, and one 12x40 concurrent "
                "unit-credit run; one race-detector run of 10 concurrent workloads",
        "trusted": ["Locks model (keyed lock bookkeeping): sync.Mutex semantics and the Go scheduler are trusted; the lock facts are syntactic recognisers of the pinned shapes (harness/facts_locks.go)"],
    },
}
