(* Store.v — executable reference model of the documented Store contract
   (pool/store/store.go:119-190), which both drivers are tied to by the correspondence check.
   Where the documentation is silent the model follows the persistent driver (the production
   default): SetNode on a known id replaces the record and keeps its tracked peers; a keep-alive
   first records the node's own check-in and then judges the reported peers; AddAccountBalance
   names the entry after its wallet.  Clock reads are inputs.  No proofs in this file. *)
From VP Require Import Base Nonce.

Record node := {
  n_id : N; n_uri : N; n_seen : Z; n_kind : N; n_host : bool; n_payout : N; n_block : N
}.
Record balance := { b_acct : N; b_credit : Z }.   (* Deposit is never set by a driver *)
Definition bal0 : balance := {| b_acct := 0; b_credit := 0 |}.

Record stats := {
  st_active_hosts : nat; st_total_hosts : nat; st_active_clients : nat; st_total_clients : nat;
  st_latest_block : N; st_total_credit : Z; st_trials : nat
}.

Record sstate := {
  s_nodes : amap node;
  s_peers : amap (amap Z);   (* node -> peer -> the peer's LastSeen when last reported *)
  s_link  : amap N;          (* node -> wallet *)
  s_acct  : amap balance;    (* wallet -> balance *)
  s_trial : amap balance;    (* not-yet-linked node -> balance *)
  s_nonce : amap Z
}.
Definition s0 : sstate :=
  {| s_nodes := []; s_peers := []; s_link := []; s_acct := []; s_trial := []; s_nonce := [] |}.

Inductive err := EUnregistered | EMalformed | ENotAuthorized | EInvalidNonce | EOther.

Inductive sop :=
| CheckNonce (who : N) (n : Z)
| GetNode (i : N) | SetNode (nd : node)
| ActiveHosts (kind : N) (limit : Z)
| NodePeers (i : N)
| UpdatePeers (i : N) (reported : list N) (blk : N)
| GetNodeBal (i : N) | AddNodeBal (i : N) (d : Z)
| GetAcctBal (a : N) | AddAcctBal (a : N) (d : Z)
| AddAcctNode (a i : N) | IsAcctNode (a i : N) | GetAcctNodes (a : N)
| Stats
| Advance (d : Z)      (* harness-only: shift every stored timestamp back by d *)
| Reopen.              (* close and reopen the driver: identity on the contract state *)

Inductive sres :=
| ROk | RErr (e : err)
| RNode (nd : node)
| RNodes (l : list node)            (* order irrelevant; compared as sets of ids *)
| RHosts (eligible : list node) (limit : Z)  (* ActiveHosts: any [limit]-subset of [eligible] *)
| RIds (l : list N)
| RBal (b : balance)
| RStats (s : stats).

Definition registered (st : sstate) (i : N) : bool := amem i (s_nodes st).
Definition upd_nodes st v := {| s_nodes := v; s_peers := s_peers st; s_link := s_link st;
  s_acct := s_acct st; s_trial := s_trial st; s_nonce := s_nonce st |}.
Definition upd_peers st v := {| s_nodes := s_nodes st; s_peers := v; s_link := s_link st;
  s_acct := s_acct st; s_trial := s_trial st; s_nonce := s_nonce st |}.
Definition upd_link st v := {| s_nodes := s_nodes st; s_peers := s_peers st; s_link := v;
  s_acct := s_acct st; s_trial := s_trial st; s_nonce := s_nonce st |}.
Definition upd_acct st v := {| s_nodes := s_nodes st; s_peers := s_peers st; s_link := s_link st;
  s_acct := v; s_trial := s_trial st; s_nonce := s_nonce st |}.
Definition upd_trial st v := {| s_nodes := s_nodes st; s_peers := s_peers st; s_link := s_link st;
  s_acct := s_acct st; s_trial := v; s_nonce := s_nonce st |}.
Definition upd_nonce st v := {| s_nodes := s_nodes st; s_peers := s_peers st; s_link := s_link st;
  s_acct := s_acct st; s_trial := s_trial st; s_nonce := v |}.

Definition acct_bal (st : sstate) (a : N) : balance :=
  match aget a (s_acct st) with Some b => b | None => bal0 end.
Definition trial_bal (st : sstate) (i : N) : balance :=
  match aget i (s_trial st) with Some b => b | None => bal0 end.
Definition node_bal (st : sstate) (i : N) : balance :=
  match aget i (s_link st) with Some a => acct_bal st a | None => trial_bal st i end.
Definition add_credit (b : balance) (d : Z) : balance :=
  {| b_acct := b_acct b; b_credit := b_credit b + d |}.

(* "active": LastSeen.After(now - X) *)
Definition active (X now : Z) (nd : node) : bool := now - X <? n_seen nd.

Definition eligible_host (X now : Z) (kind : N) (nd : node) : bool :=
  n_host nd && (N.eqb kind 0 || N.eqb (n_kind nd) kind) && active X now nd.

Definition peers_of (st : sstate) (i : N) : amap Z :=
  match aget i (s_peers st) with Some p => p | None => [] end.

(* refresh the tracked timestamp of every reported peer that is registered *)
Fixpoint refresh (nodes : amap node) (reported : list N) (p : amap Z) : amap Z :=
  match reported with
  | [] => p
  | q :: rest =>
      match aget q nodes with
      | Some nd => refresh nodes rest (aset q (n_seen nd) p)
      | None => refresh nodes rest p
      end
  end.

Definition expired (X now ts : Z) : bool := negb (now - X <? ts).

Definition nodes_of (st : sstate) (ids : list N) : list node :=
  flat_map (fun i => match aget i (s_nodes st) with Some nd => [nd] | None => [] end) ids.

Definition sum_credit (m : amap balance) : Z := asum b_credit m.
Definition total (st : sstate) : Z := sum_credit (s_acct st) + sum_credit (s_trial st).

Definition count {A} (f : A -> bool) (l : list A) : nat := length (filter f l).

Definition mk_stats (X now : Z) (st : sstate) : stats :=
  let nds := map snd (s_nodes st) in
  {| st_active_hosts := count (fun nd => n_host nd && active X now nd) nds;
     st_total_hosts := count n_host nds;
     st_active_clients := count (fun nd => negb (n_host nd) && active X now nd) nds;
     st_total_clients := count (fun nd => negb (n_host nd)) nds;
     st_latest_block := fold_right (fun nd acc => N.max (n_block nd) acc) 0%N nds;
     st_total_credit := total st;
     st_trials := (count (fun kv => N.eqb (b_acct (snd kv)) 0) (s_acct st)
                   + count (fun kv => N.eqb (b_acct (snd kv)) 0) (s_trial st))%nat |}.

Definition shift_node (d : Z) (nd : node) : node :=
  {| n_id := n_id nd; n_uri := n_uri nd; n_seen := n_seen nd - d; n_kind := n_kind nd;
     n_host := n_host nd; n_payout := n_payout nd; n_block := n_block nd |}.

(* X = ExpireInterval, E = ExpireNonce; [now] is the clock value the operation reads *)
Definition sstep (X E now : Z) (st : sstate) (o : sop) : sstate * sres :=
  match o with
  | CheckNonce who n =>
      let '(m, ok) := nstep E (s_nonce st) {| nr_now := now; nr_id := who; nr_n := n |} in
      (upd_nonce st m, if ok then ROk else RErr EInvalidNonce)
  | GetNode i =>
      match aget i (s_nodes st) with Some nd => (st, RNode nd) | None => (st, RErr EUnregistered) end
  | SetNode nd =>
      if N.eqb (n_id nd) 0 then (st, RErr EMalformed)
      else (upd_nodes st (aset (n_id nd) nd (s_nodes st)), ROk)
  | ActiveHosts kind limit =>
      (st, RHosts (filter (eligible_host X now kind) (map snd (s_nodes st))) limit)
  | NodePeers i =>
      if registered st i then (st, RNodes (nodes_of st (akeys (peers_of st i))))
      else (st, RErr EUnregistered)
  | UpdatePeers i reported blk =>
      match aget i (s_nodes st) with
      | None => (st, RErr EUnregistered)
      | Some nd =>
          let nd' := {| n_id := n_id nd; n_uri := n_uri nd; n_seen := now; n_kind := n_kind nd;
                        n_host := n_host nd; n_payout := n_payout nd; n_block := blk |} in
          let nodes' := aset i nd' (s_nodes st) in
          let p := refresh nodes' reported (peers_of st i) in
          let gone := filter (fun kv => expired X now (snd kv)) p in
          let keep := filter (fun kv => negb (expired X now (snd kv))) p in
          (upd_peers (upd_nodes st nodes') (aset i keep (s_peers st)), RIds (map fst gone))
      end
  | GetNodeBal i =>
      if registered st i then (st, RBal (node_bal st i)) else (st, RErr EUnregistered)
  | AddNodeBal i d =>
      if registered st i then
        match aget i (s_link st) with
        | Some a => (upd_acct st (aset a (add_credit (acct_bal st a) d) (s_acct st)), ROk)
        | None => (upd_trial st (aset i (add_credit (trial_bal st i) d) (s_trial st)), ROk)
        end
      else (st, RErr EUnregistered)
  | GetAcctBal a => (st, RBal (acct_bal st a))
  | AddAcctBal a d =>
      (upd_acct st (aset a {| b_acct := a; b_credit := b_credit (acct_bal st a) + d |} (s_acct st)), ROk)
  | AddAcctNode a i =>
      if registered st i then
        let b := {| b_acct := a; b_credit := b_credit (acct_bal st a) + b_credit (trial_bal st i) |} in
        (upd_trial (upd_acct (upd_link st (aset i a (s_link st))) (aset a b (s_acct st)))
                   (adel i (s_trial st)), ROk)
      else (st, RErr EUnregistered)
  | IsAcctNode a i =>
      match aget i (s_link st) with
      | Some a' => if N.eqb a a' then (st, ROk) else (st, RErr ENotAuthorized)
      | None => (st, RErr ENotAuthorized)
      end
  | GetAcctNodes a =>
      (st, RIds (map fst (filter (fun kv => N.eqb (snd kv) a) (s_link st))))
  | Stats => (st, RStats (mk_stats X now st))
  | Advance d =>
      (upd_peers (upd_nodes st (map (fun kv => (fst kv, shift_node d (snd kv))) (s_nodes st)))
                 (map (fun kv => (fst kv, map (fun pt => (fst pt, snd pt - d)) (snd kv))) (s_peers st)),
       ROk)
  | Reopen => (st, ROk)
  end.

Fixpoint srun (X E : Z) (st : sstate) (ops : list (Z * sop)) : sstate :=
  match ops with
  | [] => st
  | (now, o) :: rest => srun X E (fst (sstep X E now st o)) rest
  end.
