(* Total.v — what a process does with any JSON-RPC message it reads (jsonrpc2/types.go,
   remote.go Serve/handleRequest/Call, server.go Handle, http.go), with Go's nil dereference
   made explicit as a [Panic] outcome.  encoding/json's lexer and the transports are trusted;
   the model starts from the decoded object's shape.  No proofs in this file. *)
From VP Require Import Base Dispatch.

(* the decoded message: encoding/json allocates the embedded *Request iff one of its keys
   ("method", "params") is present, the embedded *Response iff "result" or "error" is *)
Record msg := {
  m_has_method : bool; m_method_known : bool; m_params : params; m_has_params : bool;
  m_args : list kind;                   (* parameter kinds of the method, when known *)
  m_has_id : bool; m_id : N;
  m_has_result : bool; m_result_null : bool; m_result_fits : bool;  (* result unmarshals into the caller's type *)
  m_has_error : bool
}.

Definition request_part (m : msg) : bool := m_has_method m || m_has_params m.
Definition response_part (m : msg) : bool := m_has_result m || m_has_error m.

Inductive rcode := COk | CInvalidRequest | CMethodNotFound | CInvalidParams | CInternal.
Inductive outcome :=
| Reply (id_present : bool) (id : N) (code : rcode)   (* a response message is written *)
| Routed (id : N)                                      (* handed to the call waiting for that id *)
| Dropped
| Panic.

(* Server.Handle: [body_err] = the method itself returns an error *)
Definition handle_code (m : msg) (body_err : bool) : rcode :=
  if negb (request_part m) then CInvalidRequest
  else if negb (m_has_method m && m_method_known m) then CMethodNotFound
  else if negb (parse_ok (m_args m) (m_params m)) then CInvalidParams
  else if body_err then CInternal else COk.

(* Remote.Serve on one message read from the connection *)
Definition serve_step (m : msg) (body_err : bool) : outcome :=
  if request_part m then Reply (m_has_id m) (m_id m) (handle_code m body_err)
  else if m_has_id m then Routed (m_id m)
  else Dropped.

(* HTTPServer.ServeHTTP: every well-formed body is handled *)
Definition http_step (m : msg) (body_err : bool) : outcome :=
  Reply (m_has_id m) (m_id m) (handle_code m body_err).

(* what the caller does with the message routed to it (Remote.Call after receive).
   [guarded] = the response part is checked for nil before it is used (the repaired code) *)
Inductive cresult := CallValue | CallNoValue | CallError | CallPanic.
Definition call_consume (guarded : bool) (m : msg) : cresult :=
  if negb (response_part m) then (if guarded then CallError else CallPanic)
  else if m_has_error m then CallError
  else if negb (m_has_result m) || m_result_null m then CallNoValue
  else if m_result_fits m then CallValue else CallError.
