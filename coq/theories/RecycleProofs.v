From VP Require Import Base Recycle.

Lemma nget_in {V} k (v : V) m : nget k m = Some v -> In (k, v) m.
Proof.
  induction m as [|[k' v'] m IH]; cbn; [discriminate|].
  destruct (Nat.eqb k k') eqn:E; [apply Nat.eqb_eq in E; subst; intros [= ->]; now left|right; now apply IH].
Qed.

Lemma nget_ndel {V} k k' (m : list (nat * V)) : nget k' (ndel k m) = if Nat.eqb k' k then None else nget k' m.
Proof.
  induction m as [|[k0 v0] m IH]; cbn; [now destruct (Nat.eqb k' k)|].
  destruct (Nat.eqb k k0) eqn:E; cbn.
  - rewrite IH. apply Nat.eqb_eq in E; subst k0. destruct (Nat.eqb k' k); reflexivity.
  - rewrite IH. destruct (Nat.eqb k' k0) eqn:E'; [|reflexivity].
    apply Nat.eqb_eq in E'; subst k0. rewrite Nat.eqb_sym, E. reflexivity.
Qed.

Lemma nget_ndel_some {V} k k' (m : list (nat * V)) x : nget k' (ndel k m) = Some x -> nget k' m = Some x.
Proof. rewrite nget_ndel. destruct (Nat.eqb k' k); [discriminate|auto]. Qed.

(* the pinned code: no channel is ever handed to a second call *)
Record RInv (s : rcst) : Prop := {
  ri_free : rc_free s = [];
  ri_pending : forall c ch, aget c (rc_pending s) = Some ch -> nget ch (rc_owner s) = Some c;
  ri_bufs : forall ch i p, nget ch (rc_bufs s) = Some (i, p) -> nget ch (rc_owner s) = Some i /\ In (i, p) (rc_read s);
  ri_hold : forall ch i p, rc_hold s = Some (ch, i, p) -> nget ch (rc_owner s) = Some i /\ In (i, p) (rc_read s);
  ri_fresh : forall ch c, In (ch, c) (rc_owner s) -> (ch < rc_next s)%nat;
  ri_done : forall c p, aget c (rc_done s) = Some (RPayload p) -> In (c, p) (rc_read s)
}.

Lemma RInv_rc0 : RInv rc0.
Proof. constructor; cbn; intros; try discriminate; try contradiction; auto. Qed.

(* a channel that has an owner is not the next fresh one *)
Lemma owned_not_fresh s ch c : RInv s -> nget ch (rc_owner s) = Some c -> Nat.eqb ch (rc_next s) = false.
Proof.
  intros HI H. apply nget_in in H. apply (ri_fresh s HI) in H. apply Nat.eqb_neq. lia.
Qed.

Lemma RInv_step s e s' : RInv s -> rcstep PNoRecycle s e = Some s' -> RInv s'.
Proof.
  intros HI. destruct e as [c|i p| |c|c]; cbn [rcstep].
  - (* call *)
    destruct (aget c (rc_pending s)) eqn:Hp; [discriminate|]. destruct (aget c (rc_done s)) eqn:Hd; [discriminate|].
    unfold alloc. rewrite (ri_free s HI). intros [= <-].
    constructor; cbn [rc_free rc_pending rc_bufs rc_owner rc_hold rc_next rc_done rc_read].
    + reflexivity.
    + intros c' ch. rewrite aget_aset. destruct (N.eqb c' c) eqn:E.
      * apply N.eqb_eq in E; subst. intros [= <-]. cbn. now rewrite Nat.eqb_refl.
      * intros H. pose proof (ri_pending s HI _ _ H) as Ho. cbn. now rewrite (owned_not_fresh s ch c' HI Ho).
    + intros ch i p H. destruct (ri_bufs s HI _ _ _ H) as [Ho Hr]. split; [|exact Hr]. cbn. now rewrite (owned_not_fresh s ch i HI Ho).
    + intros ch i p H. destruct (ri_hold s HI _ _ _ H) as [Ho Hr]. split; [|exact Hr]. cbn. now rewrite (owned_not_fresh s ch i HI Ho).
    + intros ch c' [[= <- <-]|H]; [lia|]. apply (ri_fresh s HI) in H. lia.
    + exact (ri_done s HI).
  - (* lookup *)
    destruct (rc_hold s) eqn:Hh; [discriminate|].
    destruct (aget i (rc_pending s)) as [ch|] eqn:Hp; intros [= <-];
      constructor; cbn [rc_free rc_pending rc_bufs rc_owner rc_hold rc_next rc_done rc_read].
    + exact (ri_free s HI).
    + exact (ri_pending s HI).
    + intros ch' i' p' H. destruct (ri_bufs s HI _ _ _ H). split; [assumption|now right].
    + intros ch' i' p' [= <- <- <-]. split; [exact (ri_pending s HI _ _ Hp)|now left].
    + exact (ri_fresh s HI).
    + intros c' p' H. right. now apply (ri_done s HI).
    + exact (ri_free s HI).
    + intros c' ch H. pose proof (ri_pending s HI _ _ H) as Ho. cbn. now rewrite (owned_not_fresh s ch c' HI Ho).
    + intros ch' i' p' H. destruct (ri_bufs s HI _ _ _ H) as [Ho Hr]. split; [|now right]. cbn. now rewrite (owned_not_fresh s ch' i' HI Ho).
    + intros ch' i' p' [= <- <- <-]. split; [cbn; now rewrite Nat.eqb_refl|now left].
    + intros ch' c' [[= <- <-]|H]; [lia|]. apply (ri_fresh s HI) in H. lia.
    + intros c' p' H. right. now apply (ri_done s HI).
  - (* send *)
    destruct (rc_hold s) as [[[ch i] p]|] eqn:Hh; [|discriminate].
    destruct (nget ch (rc_bufs s)) eqn:Hb; [discriminate|]. intros [= <-].
    constructor; cbn [rc_free rc_pending rc_bufs rc_owner rc_hold rc_next rc_done rc_read].
    + exact (ri_free s HI).
    + exact (ri_pending s HI).
    + intros ch' i' p'. cbn. destruct (Nat.eqb ch' ch) eqn:E.
      * apply Nat.eqb_eq in E; subst. intros [= <- <-]. exact (ri_hold s HI _ _ _ Hh).
      * apply (ri_bufs s HI).
    + discriminate.
    + exact (ri_fresh s HI).
    + exact (ri_done s HI).
  - (* wake *)
    destruct (aget c (rc_pending s)) as [ch|] eqn:Hp; [|discriminate]. destruct (aget c (rc_done s)) eqn:Hd; [discriminate|].
    destruct (nget ch (rc_bufs s)) as [[i p]|] eqn:Hb; [|discriminate]. cbn [release]. intros [= <-].
    destruct (ri_bufs s HI _ _ _ Hb) as [Ho Hr]. pose proof (ri_pending s HI _ _ Hp) as Hoc.
    assert (i = c) by congruence. subst i.
    constructor; cbn [rc_free rc_pending rc_bufs rc_owner rc_hold rc_next rc_done rc_read].
    + exact (ri_free s HI).
    + intros c' ch'. rewrite aget_adel. destruct (N.eqb c' c); [discriminate|]. apply (ri_pending s HI).
    + intros ch' i' p' H. apply nget_ndel_some in H. now apply (ri_bufs s HI).
    + exact (ri_hold s HI).
    + exact (ri_fresh s HI).
    + intros c' p'. rewrite aget_aset. destruct (N.eqb c' c) eqn:E.
      * apply N.eqb_eq in E; subst. intros [= <-]. exact Hr.
      * apply (ri_done s HI).
  - (* cancel *)
    destruct (aget c (rc_pending s)) as [ch|] eqn:Hp; [|discriminate]. destruct (aget c (rc_done s)) eqn:Hd; [discriminate|].
    cbn [release]. intros [= <-].
    constructor; cbn [rc_free rc_pending rc_bufs rc_owner rc_hold rc_next rc_done rc_read].
    + exact (ri_free s HI).
    + intros c' ch'. rewrite aget_adel. destruct (N.eqb c' c); [discriminate|]. apply (ri_pending s HI).
    + exact (ri_bufs s HI).
    + exact (ri_hold s HI).
    + exact (ri_fresh s HI).
    + intros c' p'. rewrite aget_aset. destruct (N.eqb c' c) eqn:E; [discriminate|]. apply (ri_done s HI).
Qed.

Lemma RInv_run evs : forall s s', RInv s -> rcrun PNoRecycle s evs = Some s' -> RInv s'.
Proof.
  induction evs as [|e r IH]; cbn; intros s s' Hs H; [now inversion H; subst|].
  destruct (rcstep PNoRecycle s e) as [s1|] eqn:He; [|discriminate]. eapply IH; [|exact H]. eapply RInv_step; eauto.
Qed.

(* C14 with channels as objects and Serve's lookup and send as separate steps: however calls,
   replies read by Serve, its sends, wake-ups and cancellations interleave, a call that returns a
   payload returns one that Serve read under that call's own request id *)
Theorem own_reply_channels evs s c p :
  rcrun PNoRecycle rc0 evs = Some s -> aget c (rc_done s) = Some (RPayload p) -> In (c, p) (rc_read s).
Proof. intros Hr. apply (ri_done s (RInv_run evs rc0 s RInv_rc0 Hr)). Qed.

(* handing a finished call's channel to the next call breaks this — also when the channel is
   emptied first, because Serve may still hold the channel it looked up for the cancelled call *)
Theorem recycling_refuted :
  (* as it is: call 1's reply is routed, call 1 is cancelled, call 2 gets channel and reply *)
  let h1 := [VCall 1; VLookup 1 100; VSend; VCancel 1; VCall 2; VWake 2]%N in
  (exists s, rcrun PRecycleAsIs rc0 h1 = Some s /\ aget 2%N (rc_done s) = Some (RPayload 100%N) /\ ~ In (2, 100)%N (rc_read s)) /\
  rcrun PNoRecycle rc0 h1 = None /\
  (* emptied first: Serve has looked the channel up, the call is cancelled and its channel emptied
     and handed on, then Serve sends *)
  let h2 := [VCall 1; VLookup 1 100; VCancel 1; VCall 2; VSend; VWake 2]%N in
  (exists s, rcrun PRecycleDrained rc0 h2 = Some s /\ aget 2%N (rc_done s) = Some (RPayload 100%N) /\ ~ In (2, 100)%N (rc_read s)) /\
  rcrun PNoRecycle rc0 h2 = None.
Proof.
  cbv zeta. repeat split.
  - eexists. split; [vm_compute; reflexivity|]. split; [vm_compute; reflexivity|].
    vm_compute. intros [H|[]]. discriminate.
  - eexists. split; [vm_compute; reflexivity|]. split; [vm_compute; reflexivity|].
    vm_compute. intros [H|[]]. discriminate.
Qed.
