(* Check16.v — correspondence predicate for C16. *)
From Coq Require Import String Ascii.
From VP Require Import Base Dispatch.
Open Scope string_scope.

Record c16_probe := { pb_name : string; pb_params : params; pb_obs : hres; pb_ran : nat (* times the method body ran *) }.
Record c16_case := {
  c16_prefix : string; c16_methods : list gmethod; c16_allow : list string;
  c16_register_ok : bool;             (* did Register return nil *)
  c16_probes : list c16_probe
}.

Definition hres_eqb (a b : hres) : bool :=
  match a, b with HNotFound, HNotFound | HInvalidParams, HInvalidParams | HInvoked, HInvoked => true | _, _ => false end.

Definition c16_check (c : c16_case) : bool :=
  match register (c16_prefix c) (c16_methods c) (c16_allow c) with
  | None => negb (c16_register_ok c)
  | Some reg =>
      c16_register_ok c &&
      forallb (fun p => let r := handle reg (pb_name p) (pb_params p) in
                        hres_eqb r (pb_obs p) &&
                        Nat.eqb (pb_ran p) (match r with HInvoked => 1 | _ => 0 end)) (c16_probes c)
  end.
