(* Life.v — lifecycle of the agent's keep-alive loop (agent/agent.go Start/Stop/Wait/serveUpdates
   98-191) as a labelled transition system, and the update-interval bounds of the command line
   (agent.go 90-104).  Timers and goroutine scheduling are runtime behaviour; the model is the
   bookkeeping: the started flag, the number of live loops, the results queued for Wait.
   No proofs in this file. *)
From VP Require Import Base.

Inductive start_outcome := SOk | SFailConnect | SFailFirstUpdate.
Inductive wres := WNil | WErr.

Inductive lop :=
| LStart (o : start_outcome)
| LStop                      (* only issued while a loop is running: Stop blocks otherwise *)
| LTickFail                  (* the pool fails a keep-alive: the loop ends with that error *)
| LTick                      (* one interval elapses with a healthy pool *)
| LWait.                     (* only issued when a result is queued *)

Inductive lout := RStartOk | RAlreadyStarted | RStartErr | RStopped | RWait (r : wres) | RTick (keepalives : nat) | RNone.

Record lstate := { l_started : bool; l_loops : nat; l_waitq : list wres }.
Definition l0 : lstate := {| l_started := false; l_loops := 0; l_waitq := [] |}.

(* [sets_flag]: does Start record that the agent is running (the repaired code does; the pinned
   tree never did) *)
Definition lstep (sets_flag : bool) (s : lstate) (o : lop) : lstate * lout :=
  match o with
  | LStart oc =>
      if l_started s then (s, RAlreadyStarted)
      else
        (* an accepted Start drops the results of earlier runs that nobody collected (it drains the
           result channel right after claiming the agent, before it talks to the pool): Wait is
           about the run that starts here *)
        match oc with
        | SOk => ({| l_started := sets_flag; l_loops := S (l_loops s); l_waitq := [] |}, RStartOk)
        | _ => ({| l_started := l_started s; l_loops := l_loops s; l_waitq := [] |}, RStartErr)
        end
  | LStop =>
      match l_loops s with
      | O => (s, RNone)
      | S n => ({| l_started := false; l_loops := n; l_waitq := l_waitq s ++ [WNil] |}, RStopped)
      end
  | LTickFail =>
      match l_loops s with
      | O => (s, RNone)
      | S n => ({| l_started := false; l_loops := n; l_waitq := l_waitq s ++ [WErr] |}, RTick 1)
      end
  | LTick => (s, RTick (l_loops s))
  | LWait =>
      match l_waitq s with
      | [] => (s, RNone)
      | r :: rest => ({| l_started := l_started s; l_loops := l_loops s; l_waitq := rest |}, RWait r)
      end
  end.

Fixpoint lrun (f : bool) (s : lstate) (ops : list lop) : lstate :=
  match ops with [] => s | o :: r => lrun f (fst (lstep f s o)) r end.

(* command line: the update interval must lie strictly between the bounds *)
Definition interval_ok (mn mx d : Z) : bool := (mn <? d) && (d <? mx).
