(* Auth.v — symbolic model of request signing and of the verification step that guards every
   signed endpoint (request/request.go, request/node.go, request/address.go,
   pool/service.go verify, pool/payment/service.go verify).
   A signature is either [Sig k p] — produced by private key k over payload p — or [Garbage]
   (empty, short, wrongly encoded, bit-flipped: anything no key produced).  The public identity of
   key k is [pub k].  Cryptographic strength (unforgeability, collision resistance of Keccak256)
   is assumed, not modelled.  No proofs in this file. *)
From VP Require Import Base Nonce.

(* the signed payload: method ++ JSON([identity, nonce, params...]); wallet-style identities
   (at most 42 characters) additionally carry the EIP-191 prefix *)
Record payload := { pl_wallet_style : bool; pl_method : N; pl_id : N; pl_nonce : Z; pl_params : N }.

Definition payload_eqb (a b : payload) : bool :=
  Bool.eqb (pl_wallet_style a) (pl_wallet_style b) && N.eqb (pl_method a) (pl_method b) &&
  N.eqb (pl_id a) (pl_id b) && Z.eqb (pl_nonce a) (pl_nonce b) && N.eqb (pl_params a) (pl_params b).

Inductive sigv := Sig (k : N) (p : payload) | Garbage.

Section Verify.
  Variable pub : N -> N.             (* identity (node id / wallet address) of a key *)
  Variable wallet_style : N -> bool. (* len(identity) <= 42 *)

  (* request.Verify *)
  Definition sig_ok (s : sigv) (method id : N) (nonce : Z) (params : N) : bool :=
    match s with
    | Sig k p => N.eqb (pub k) id &&
                 payload_eqb p {| pl_wallet_style := wallet_style id; pl_method := method; pl_id := id;
                                  pl_nonce := nonce; pl_params := params |}
    | Garbage => false
    end.

  (* a signed request as sent: [rq_params_old] is the rendering of the deprecated update format
     (0 when the endpoint has none) *)
  Record sreq := {
    rq_method : N; rq_sig : sigv; rq_id : N; rq_nonce : Z; rq_params : N; rq_params_old : N; rq_now : Z
  }.

  (* the verification helper: signature first, nonce check-and-save only afterwards *)
  Definition verify_once (E : Z) (nonces : amap Z) (r : sreq) (params : N) : amap Z * bool :=
    if sig_ok (rq_sig r) (rq_method r) (rq_id r) (rq_nonce r) params
    then nstep E nonces {| nr_now := rq_now r; nr_id := rq_id r; nr_n := rq_nonce r |}
    else (nonces, false).

  (* endpoints with a deprecated second format (vipnode_update) try it when the first fails *)
  Definition verify_req (E : Z) (nonces : amap Z) (r : sreq) : amap Z * bool :=
    let '(n1, ok1) := verify_once E nonces r (rq_params r) in
    if ok1 then (n1, true)
    else if N.eqb (rq_params_old r) 0 then (n1, false)
    else verify_once E n1 r (rq_params_old r).

  (* the variant that saves the nonce before checking the signature (what the payment service
     did on the pinned tree): kept to show the model can express the failure *)
  Definition verify_nonce_first (E : Z) (nonces : amap Z) (r : sreq) : amap Z * bool :=
    let '(n1, fresh) := nstep E nonces {| nr_now := rq_now r; nr_id := rq_id r; nr_n := rq_nonce r |} in
    if fresh then (n1, sig_ok (rq_sig r) (rq_method r) (rq_id r) (rq_nonce r) (rq_params r))
    else (n1, false).

  (* a guarded endpoint: any state S, any body; the body runs only after verification *)
  Section Endpoint.
    Context {S C : Type}.
    Variable body : S -> sreq -> S * list C.   (* effect on pool state and calls to hosts *)

    Definition endpoint_step (E : Z) (st : S * amap Z) (r : sreq) : (S * amap Z) * list C * bool :=
      let '(n', ok) := verify_req E (snd st) r in
      if ok then let '(s', calls) := body (fst st) r in ((s', n'), calls, true)
      else (st, [], false).
  End Endpoint.
End Verify.

(* ---------- byte-level payload assembly: method ++ json, json starting with '[' ---------- *)
Definition bytes := list N.
Definition lbracket : N := 91.
Definition assemble (method json : bytes) : bytes := method ++ json.
Definition eip191 (msg : bytes) (declen : bytes) : bytes := 25%N :: declen ++ msg.  (* "\x19Ethereum Signed Message:\n" abbreviated to its first byte *)
