(* Check05.v — correspondence predicate for C05: the model's decisions on a history that the
   implementation executed must equal the decisions the implementation took. *)
From VP Require Import Base Nonce.

Record c05_case := {
  c5_driver : N;              (* 0 = memory, 1 = badger *)
  c5_E : Z;                   (* freshness window in force (ns) *)
  c5_reqs : list nreq;        (* sequential submissions with the clock read before each *)
  c5_obs : list bool;         (* accepted? as observed *)
  c5_dup : option (nreq * nat * nat)  (* then k racing copies of one request: (req, k, accepted) *)
}.

Definition c05_model (c : c05_case) : list bool * nat :=
  let seq := if N.eqb (c5_driver c) 0 then nrun (c5_E c) [] (c5_reqs c)
             else brun ttl_cover_nonce (c5_E c) [] (c5_reqs c) in
  let st := nfinal (c5_E c) [] (c5_reqs c) in
  (seq, match c5_dup c with
        | None => 0%nat
        | Some (r, _, _) => if snd (nstep (c5_E c) st r) then 1%nat else 0%nat
        end).

Definition c05_check (c : c05_case) : bool :=
  let '(seq, d) := c05_model c in
  list_eqb Bool.eqb seq (c5_obs c) &&
  match c5_dup c with None => true | Some (_, _, acc) => Nat.eqb acc d end.
