(* Inflight.v — the agent's lifecycle at a finer grain than Life.v: a keep-alive takes time.
   Events as an observer sees them (agent/agent.go Start, Stop, Wait, serveUpdates): calls and
   returns of Start, Stop and Wait, and the begin and end of every keep-alive the pool receives.
   The loop looks at the stop channel only between keep-alives (its select), so a Stop that
   arrives while a keep-alive is in flight waits for it; nothing bounds a keep-alive
   (UpdatePeers runs with context.Background()).  [gives_up]: the variant in which Stop stops
   waiting after a while and returns with the loop still running.  No proofs in this file. *)
From VP Require Import Base.

Inductive iev :=
| EStartCall | EStartRet (ok : bool)
| EKB | EKE (ok : bool)               (* a keep-alive reaches the pool / is answered *)
| EStopCall | EStopRet
| EWaitRet.

Record ist := {
  i_started : bool;      (* the started flag *)
  i_starting : bool;     (* a Start call is between claiming the agent and returning *)
  i_start_ok : bool;     (* ... and nothing has failed in it so far *)
  i_loop : bool;         (* the keep-alive loop is running *)
  i_busy : bool;         (* a keep-alive is in flight *)
  i_stops : nat;         (* Stop calls that have not returned *)
  i_results : nat        (* results queued for Wait *)
}.
Definition i0 : ist := {| i_started := false; i_starting := false; i_start_ok := false; i_loop := false; i_busy := false; i_stops := 0; i_results := 0 |}.

(* None: the event cannot happen in this state *)
Definition istep (gives_up : bool) (s : ist) (e : iev) : option ist :=
  match e with
  | EStartCall =>
      if i_starting s then None            (* one starter at a time in the histories observed *)
      else if i_started s then
        Some {| i_started := true; i_starting := true; i_start_ok := false; i_loop := i_loop s; i_busy := i_busy s; i_stops := i_stops s; i_results := i_results s |}
      else (* claims the agent, drops uncollected results of earlier runs *)
        Some {| i_started := true; i_starting := true; i_start_ok := true; i_loop := i_loop s; i_busy := i_busy s; i_stops := i_stops s; i_results := 0 |}
  | EStartRet ok =>
      if i_starting s then
        if Bool.eqb ok (i_start_ok s) then
          if ok then Some {| i_started := true; i_starting := false; i_start_ok := false; i_loop := true; i_busy := i_busy s; i_stops := i_stops s; i_results := i_results s |}
          else (* refused (already started: nothing changes) or failed (the claim is given back) *)
            Some {| i_started := i_loop s; i_starting := false; i_start_ok := false; i_loop := i_loop s; i_busy := i_busy s; i_stops := i_stops s; i_results := i_results s |}
        else if ok then None
        else (* a start that was fine so far may still fail without a keep-alive (connect refused) *)
          Some {| i_started := i_loop s; i_starting := false; i_start_ok := false; i_loop := i_loop s; i_busy := i_busy s; i_stops := i_stops s; i_results := i_results s |}
      else None
  | EKB =>
      if i_busy s then None
      else if i_loop s || (i_starting s && i_start_ok s) then
        Some {| i_started := i_started s; i_starting := i_starting s; i_start_ok := i_start_ok s; i_loop := i_loop s; i_busy := true; i_stops := i_stops s; i_results := i_results s |}
      else None
  | EKE ok =>
      if i_busy s then
        if i_loop s then
          if ok then Some {| i_started := i_started s; i_starting := i_starting s; i_start_ok := i_start_ok s; i_loop := true; i_busy := false; i_stops := i_stops s; i_results := i_results s |}
          else (* the loop ends with the error: flag cleared, result queued *)
            Some {| i_started := false; i_starting := i_starting s; i_start_ok := i_start_ok s; i_loop := false; i_busy := false; i_stops := i_stops s; i_results := S (i_results s) |}
        else (* the first keep-alive, made by Start itself *)
          Some {| i_started := i_started s; i_starting := i_starting s; i_start_ok := i_start_ok s && ok; i_loop := false; i_busy := false; i_stops := i_stops s; i_results := i_results s |}
      else None
  | EStopCall =>
      Some {| i_started := i_started s; i_starting := i_starting s; i_start_ok := i_start_ok s; i_loop := i_loop s; i_busy := i_busy s; i_stops := S (i_stops s); i_results := i_results s |}
  | EStopRet =>
      match i_stops s with
      | O => None
      | S n =>
          if i_loop s && negb (i_busy s) then   (* the loop took the request in its select and ends *)
            Some {| i_started := false; i_starting := i_starting s; i_start_ok := i_start_ok s; i_loop := false; i_busy := false; i_stops := n; i_results := S (i_results s) |}
          else if gives_up then                  (* Stop returns with nothing stopped *)
            Some {| i_started := i_started s; i_starting := i_starting s; i_start_ok := i_start_ok s; i_loop := i_loop s; i_busy := i_busy s; i_stops := n; i_results := i_results s |}
          else None
      end
  | EWaitRet =>
      match i_results s with
      | O => None
      | S n => Some {| i_started := i_started s; i_starting := i_starting s; i_start_ok := i_start_ok s; i_loop := i_loop s; i_busy := i_busy s; i_stops := i_stops s; i_results := n |}
      end
  end.

Fixpoint irun (g : bool) (s : ist) (evs : list iev) : option ist :=
  match evs with
  | [] => Some s
  | e :: r => match istep g s e with Some s' => irun g s' r | None => None end
  end.
(* position of the first event that cannot happen *)
Fixpoint ifail (g : bool) (s : ist) (evs : list iev) (k : nat) : option nat :=
  match evs with
  | [] => None
  | e :: r => match istep g s e with Some s' => ifail g s' r (S k) | None => Some k end
  end.
