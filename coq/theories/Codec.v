(* Codec.v — message framing over a byte stream (jsonrpc2/codecs.go), over frames
   (the jsonrpc2/ws codecs) and writers sharing a connection.  What vipnode's code decides is the
   decoder's lifetime (one per connection keeps the bytes it read ahead; one per ReadMessage
   drops them) and that a message is written with one Write; where a JSON value ends is
   encoding/json's business and enters as the abstract scanner [scan].  No proofs here. *)
From VP Require Import Base.

Definition bytes := list N.

Section Stream.
  Variable msg : Type.
  Variable enc : msg -> bytes.
  Variable scan : bytes -> option (msg * bytes).  (* one complete value at the front, and the rest *)

  (* drain: decode as many complete messages as the buffer holds *)
  Fixpoint drain (fuel : nat) (buf : bytes) : list msg * bytes :=
    match fuel with
    | O => ([], buf)
    | S f => match scan buf with
             | None => ([], buf)
             | Some (m, rest) => let '(ms, r) := drain f rest in (m :: ms, r)
             end
    end.

  (* one decoder per connection: the buffer persists across reads *)
  Fixpoint decode_stream (buf : bytes) (chunks : list bytes) : list msg * bytes :=
    match chunks with
    | [] => ([], buf)
    | c :: rest =>
        let '(ms, b) := drain (S (length (buf ++ c))) (buf ++ c) in
        let '(ms', b') := decode_stream b rest in
        (ms ++ ms', b')
    end.

  (* one decoder per ReadMessage (the pinned tree): each call starts with an empty buffer, reads
     chunks until a value is complete, returns it and drops whatever else it had read *)
  Fixpoint read_one_fresh (buf : bytes) (chunks : list bytes) : option msg * list bytes :=
    match chunks with
    | [] => (None, [])
    | c :: rest => match scan (buf ++ c) with
                   | Some (m, _) => (Some m, rest)           (* read-ahead dropped *)
                   | None => read_one_fresh (buf ++ c) rest
                   end
    end.
  Fixpoint decode_fresh (fuel : nat) (chunks : list bytes) : list msg :=
    match fuel with
    | O => []
    | S f => match read_one_fresh [] chunks with
             | (Some m, rest) => m :: decode_fresh f rest
             | (None, _) => []
             end
    end.
End Stream.

(* ---------- a concrete framing: what jsonCodec writes ----------
   json.Encoder emits compact JSON (no raw newline inside: strings escape it) followed by '\n' *)
Definition nl : N := 10.
Definition enc_line (m : bytes) : bytes := m ++ [nl].
Fixpoint scan_line_aux (acc : bytes) (b : bytes) : option (bytes * bytes) :=
  match b with
  | [] => None
  | x :: r => if N.eqb x nl then Some (rev acc, r) else scan_line_aux (x :: acc) r
  end.
Definition scan_line (b : bytes) : option (bytes * bytes) := scan_line_aux [] b.

(* ---------- frames (WebSocket codecs): one message per frame ---------- *)
Definition write_frames {M} (ms : list M) : list M := ms.
Definition read_frames {M} (fs : list M) : list M := fs.

(* ---------- writers sharing a connection ----------
   a schedule picks which writer emits next; with a write lock a writer emits its whole message,
   without one a single byte *)
Fixpoint emit_locked (ws : list bytes) (sched : list nat) : bytes :=
  match sched with
  | [] => []
  | t :: rest => nth t ws [] ++ emit_locked ws rest
  end.

(* ---------- writes that may fail ----------
   A write is reported to its caller as done or as failed.  [sent] is how many bytes of the
   message a failed write had put on the wire before it gave up: 0 for a write that fails before
   it starts (or on a connection that is then dead for good); more than 0 when a deadline cuts a
   write short on a connection that stays in use. *)
Record write := { w_msg : bytes; w_done : bool; w_sent : nat }.
Definition wire_of_write (w : write) : bytes :=
  if w_done w then enc_line (w_msg w) else firstn (w_sent w) (enc_line (w_msg w)).
Definition wire (ws : list write) : bytes := concat (map wire_of_write ws).
Definition reported_done (ws : list write) : list bytes := map w_msg (filter w_done ws).
(* all-or-nothing writer: a failed write leaves nothing behind *)
Definition clean_failures (ws : list write) : Prop := Forall (fun w => w_done w = false -> w_sent w = O) ws.
