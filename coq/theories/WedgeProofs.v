(* WedgeProofs.v — no wedge: while handlers never wait for a remote party with the pool mutex
   held, a peer that withholds its replies cannot stop any other handler. *)
From VP Require Import Base Wedge.

Lemma nth_set_nth_same {A} (l : list A) n x : (n < length l)%nat -> nth_error (set_nth n x l) n = Some x.
Proof. revert n; induction l as [|y r IH]; intros [|n] H; cbn in *; try lia; auto. apply IH. lia. Qed.
Lemma nth_set_nth_other {A} (l : list A) n m x : n <> m -> nth_error (set_nth n x l) m = nth_error l m.
Proof. revert n m; induction l as [|y r IH]; intros [|n] [|m] H; cbn; auto; try congruence. Qed.
Lemma set_nth_length {A} (l : list A) n x : length (set_nth n x l) = length l.
Proof. revert n; induction l as [|y r IH]; intros [|n]; cbn; auto. Qed.
Lemma nth_error_lt {A} (l : list A) n x : nth_error l n = Some x -> (n < length l)%nat.
Proof. intros H. apply nth_error_Some. congruence. Qed.

(* the holder (if any) is inside a well-formed critical section, everybody else is outside one *)
Definition WInv (s : wst) : Prop :=
  forall t p, nth_error (w_thr s) t = Some p ->
    wf (match w_holder s with Some h => Nat.eqb h t | None => false end) p = true.

Lemma WInv_step s t s' : WInv s -> wstep s t = Some s' -> WInv s'.
Proof.
  intros Hinv Hs. unfold wstep in Hs.
  destruct (nth_error (w_thr s) t) as [[|o p]|] eqn:Ht; try discriminate.
  pose proof (nth_error_lt _ _ _ Ht) as Hlt. pose proof (Hinv t _ Ht) as Hwf.
  destruct o.
  - (* acquire *)
    destruct (w_holder s) as [h|] eqn:Hh; [discriminate|]. injection Hs as <-.
    intros t' p' Hn. cbn in *. destruct (Nat.eqb_spec t t') as [<-|Hne].
    + rewrite nth_set_nth_same in Hn by assumption. injection Hn as <-. exact Hwf.
    + rewrite nth_set_nth_other in Hn by assumption. specialize (Hinv t' p' Hn). rewrite Hh in Hinv. exact Hinv.
  - (* release *)
    destruct (w_holder s) as [h|] eqn:Hh; [|discriminate].
    destruct (Nat.eqb_spec h t) as [->|Hne]; [|discriminate]. injection Hs as <-.
    intros t' p' Hn. cbn in *.
    destruct (Nat.eq_dec t t') as [<-|Hne].
    + rewrite nth_set_nth_same in Hn by assumption. injection Hn as <-. exact Hwf.
    + rewrite nth_set_nth_other in Hn by assumption. specialize (Hinv t' p' Hn). rewrite Hh in Hinv.
      destruct (Nat.eqb_spec t t'); [contradiction|exact Hinv].
  - (* work *)
    injection Hs as <-. intros t' p' Hn. cbn in *. destruct (Nat.eq_dec t t') as [<-|Hne].
    + rewrite nth_set_nth_same in Hn by assumption. injection Hn as <-. exact Hwf.
    + rewrite nth_set_nth_other in Hn by assumption. apply (Hinv t' p' Hn).
  - discriminate.
Qed.

Lemma WInv_run sch : forall s, WInv s -> WInv (wrun s sch).
Proof.
  induction sch as [|t r IH]; intros s H; cbn; auto.
  destruct (wstep s t) eqn:Hs; [apply IH; eapply WInv_step; eauto|auto].
Qed.

(* the holder finishes its critical section on its own: some number of its own steps releases
   the mutex, leaving every other thread as it was *)
Lemma holder_releases : forall p s h,
  w_holder s = Some h -> nth_error (w_thr s) h = Some p -> wf true p = true ->
  exists n, w_holder (wrun s (repeat h n)) = None /\
            forall t, t <> h -> nth_error (w_thr (wrun s (repeat h n))) t = nth_error (w_thr s) t.
Proof.
  induction p as [|o p IH]; intros s h Hh Hn Hwf; [discriminate|].
  pose proof (nth_error_lt _ _ _ Hn) as Hlt.
  destruct o; cbn in Hwf; try discriminate.
  - (* release now *)
    exists 1%nat. cbn. unfold wstep. rewrite Hn, Hh, Nat.eqb_refl. cbn. split; [reflexivity|].
    intros t Hne. apply nth_set_nth_other. congruence.
  - (* work, then go on *)
    set (s1 := {| w_holder := w_holder s; w_thr := set_nth h p (w_thr s) |}).
    destruct (IH s1 h) as [n [Hrel Hoth]]; [exact Hh|cbn; now apply nth_set_nth_same|exact Hwf|].
    assert (Hstep : wstep s h = Some s1) by (unfold wstep; rewrite Hn; reflexivity).
    exists (S n). cbn [repeat wrun]. rewrite Hstep. split; [exact Hrel|].
    intros t Hne. rewrite (Hoth t Hne). cbn. apply nth_set_nth_other. congruence.
Qed.

(* the mutex is only ever held by one of the threads *)
Lemma holder_is_thread sch : forall s0,
  (forall h, w_holder s0 = Some h -> nth_error (w_thr s0) h <> None) ->
  forall h, w_holder (wrun s0 sch) = Some h -> nth_error (w_thr (wrun s0 sch)) h <> None.
Proof.
  induction sch as [|x r IH]; intros s0 H0 h; cbn; [apply H0|].
  destruct (wstep s0 x) as [s1|] eqn:Hs; [|apply IH; exact H0]. apply IH. clear IH h.
  intros h Hh. unfold wstep in Hs. destruct (nth_error (w_thr s0) x) as [[|o q]|] eqn:Hx; try discriminate.
  pose proof (nth_error_lt _ _ _ Hx) as Hltx.
  destruct o; try discriminate.
  - destruct (w_holder s0); [discriminate|]. injection Hs as <-. cbn in *. injection Hh as <-.
    rewrite nth_set_nth_same by assumption. discriminate.
  - destruct (w_holder s0) as [h0|]; [|discriminate]. destruct (Nat.eqb h0 x); [|discriminate].
    injection Hs as <-. cbn in Hh. discriminate.
  - injection Hs as <-. cbn in *. specialize (H0 h Hh). intros Hn. apply H0.
    apply nth_error_None in Hn. rewrite set_nth_length in Hn. now apply nth_error_None.
Qed.

(* no wedge: in every reachable state of well-formed handlers, a handler that is not itself
   waiting for a remote party (and has not finished) gets to perform its next step after a
   finite number of steps of others — whatever replies are withheld, for ever *)
Theorem no_wedge thr sch t :
  Forall (fun p => wf false p = true) thr ->
  let s := wrun {| w_holder := None; w_thr := thr |} sch in
  finished_thr s t = false -> next_is_wait s t = false ->
  exists sch2 s', wstep (wrun s sch2) t = Some s' /\ steps_left s' t = pred (steps_left s t).
Proof.
  intros Hwf s Hfin Hnw.
  assert (Hinv : WInv s).
  { apply WInv_run. intros t' p' Hn. cbn. apply nth_error_In in Hn. rewrite Forall_forall in Hwf. now apply Hwf. }
  unfold finished_thr in Hfin. unfold next_is_wait in Hnw. unfold steps_left.
  destruct (nth_error (w_thr s) t) as [[|o p]|] eqn:Ht; try discriminate.
  pose proof (nth_error_lt _ _ _ Ht) as Hlt. pose proof (Hinv t _ Ht) as Hwft.
  assert (Hdirect : forall s0, nth_error (w_thr s0) t = Some (o :: p) ->
            (o = WAcq -> w_holder s0 = None) -> (o = WRel -> w_holder s0 = Some t) ->
            exists s', wstep s0 t = Some s' /\ nth_error (w_thr s') t = Some p).
  { intros s0 Hn0 Ha Hr. pose proof (nth_error_lt _ _ _ Hn0) as Hlt0. unfold wstep. rewrite Hn0. destruct o.
    - rewrite (Ha eq_refl). eexists. split; [reflexivity|]. cbn. now apply nth_set_nth_same.
    - rewrite (Hr eq_refl), Nat.eqb_refl. eexists. split; [reflexivity|]. cbn. now apply nth_set_nth_same.
    - eexists. split; [reflexivity|]. cbn. now apply nth_set_nth_same.
    - discriminate. }
  destruct o; try discriminate.
  - (* wants the mutex *)
    destruct (w_holder s) as [h|] eqn:Hh.
    + (* somebody holds it: that handler is inside a well-formed critical section *)
      cbn in Hwft. destruct (Nat.eqb_spec h t) as [->|Hne]; [discriminate|].
      destruct (nth_error (w_thr s) h) as [ph|] eqn:Hnh.
      * pose proof (Hinv h ph Hnh) as Hwfh. rewrite Hh, Nat.eqb_refl in Hwfh.
        destruct (holder_releases ph s h Hh Hnh Hwfh) as [n [Hrel Hoth]].
        destruct (Hdirect (wrun s (repeat h n))) as [s' [Hs' Hn']]; try discriminate.
        -- rewrite (Hoth t) by congruence. exact Ht.
        -- intros _. exact Hrel.
        -- exists (repeat h n), s'. split; [exact Hs'|]. rewrite Hn'. reflexivity.
      * (* the holder is always one of the threads *)
        exfalso. apply (holder_is_thread sch {| w_holder := None; w_thr := thr |}) with (h := h); auto.
        cbn. intros; discriminate.
    + destruct (Hdirect s) as [s' [Hs' Hn']]; try discriminate; auto.
      exists [], s'. cbn. split; [exact Hs'|]. rewrite Hn'. reflexivity.
  - (* releases: it is the holder *)
    cbn in Hwft. destruct (w_holder s) as [h|] eqn:Hh; [|discriminate].
    destruct (Nat.eqb_spec h t) as [->|]; [|discriminate].
    destruct (Hdirect s) as [s' [Hs' Hn']]; try discriminate; auto.
    exists [], s'. cbn. split; [exact Hs'|]. rewrite Hn'. reflexivity.
  - (* local work *)
    destruct (Hdirect s) as [s' [Hs' Hn']]; try discriminate; auto.
    exists [], s'. cbn. split; [exact Hs'|]. rewrite Hn'. reflexivity.
Qed.

(* the discipline is necessary: a handler that waits for a remote party while holding the mutex
   (a deferred unlock in disconnectPeers, say) wedges every other handler for as long as the peer
   withholds its reply: no schedule whatsoever lets the bystander take its next step *)
Definition wedged_threads : list (list wop) := [[WAcq; WWait; WRel]; [WAcq; WWork; WRel]].
Theorem waiting_under_the_mutex_wedges : forall sch,
  let s := wrun {| w_holder := None; w_thr := wedged_threads |} (0%nat :: sch) in
  wstep s 1%nat = None /\ next_is_wait s 1%nat = false /\ finished_thr s 1%nat = false.
Proof.
  intros sch.
  assert (H : forall sch s, s = {| w_holder := Some 0%nat; w_thr := [[WWait; WRel]; [WAcq; WWork; WRel]] |} ->
            wrun s sch = s).
  { induction sch0 as [|x r IH]; intros s0 ->; cbn; auto.
    destruct x as [|[|x]]; cbn; try (apply IH; reflexivity).
    destruct x; cbn; apply IH; reflexivity. }
  cbn. rewrite (H sch _ eq_refl). cbn. auto.
Qed.

(* non-vacuity: the shapes of the pool's handlers — a keep-alive (per-node lock lookup under the
   mutex, then store work), a peer request (candidates looked up under the mutex, then the
   whitelist replies awaited without it), the low-balance disconnect (calls launched under the
   mutex, replies awaited without it), the disconnect hook — satisfy the discipline *)
Example pool_handler_shapes_wf :
  Forall (fun p => wf false p = true)
    [[WAcq; WWork; WRel; WWork; WWork]; [WWork; WAcq; WWork; WRel; WWait; WWork];
     [WAcq; WWork; WRel; WWait; WWait]; [WAcq; WWork; WRel]].
Proof. repeat constructor. Qed.
