(* BalanceProofs.v — the balance manager (C02, C03) and withdrawals (C07). *)
From VP Require Import Base Nonce Store StoreProofs Pool PoolProofs.

(* ---------- what a keep-alive does to the store: a list of AddNodeBalance calls ---------- *)
Fixpoint apply_adds (cfg : pcfg) (st : sstate) (adds : list (N * Z)) : sstate :=
  match adds with
  | [] => st
  | (q, d) :: rest => apply_adds cfg (fst (sstep (p_X cfg) (p_E cfg) 0 st (AddNodeBal q d))) rest
  end.

Definition all_registered (st : sstate) (l : list N) : Prop := forall q, In q l -> registered st q = true.

Lemma credit_peers_trace cfg peers c : forall st,
  all_registered st peers ->
  fst (credit_peers cfg st peers c) = apply_adds cfg st (map (fun q => (q, c)) peers) /\
  snd (credit_peers cfg st peers c) = Z.of_nat (length peers) * c.
Proof.
  induction peers as [|q rest IH]; intros st Hall; cbn [credit_peers map apply_adds length].
  - split; auto; lia.
  - pose proof (add_node_bal_res (p_X cfg) (p_E cfg) 0 st q c) as Hr.
    rewrite (Hall q (or_introl eq_refl)) in Hr.
    assert (Hall' : all_registered (fst (sstep (p_X cfg) (p_E cfg) 0 st (AddNodeBal q c))) rest).
    { intros x Hx. apply registered_mono. apply Hall. now right. }
    destruct (sstep (p_X cfg) (p_E cfg) 0 st (AddNodeBal q c)) as [st1 r]. cbn [fst snd] in *. subst r.
    destruct (IH st1 Hall') as [H1 H2].
    destruct (credit_peers cfg st1 rest c) as [st2 tot]. cbn [fst snd] in *.
    split; auto. rewrite H2. lia.
Qed.

Lemma apply_adds_app cfg st a b : apply_adds cfg st (a ++ b) = apply_adds cfg (apply_adds cfg st a) b.
Proof. revert st. induction a as [|[q d] a IH]; intros st; cbn [apply_adds app]; auto. Qed.

Lemma apply_adds_registered cfg adds : forall st j,
  registered st j = true -> registered (apply_adds cfg st adds) j = true.
Proof.
  induction adds as [|[q d] rest IH]; intros st j H; cbn [apply_adds]; auto. apply IH. now apply registered_mono.
Qed.

Definition billable (cfg : pcfg) (nd : node) (now_b : Z) : bool :=
  negb (n_host nd) && negb ((p_interval cfg <=? 0) || (p_price cfg =? 0)) &&
  negb (interval_credit cfg now_b (n_seen nd) =? 0).

(* C02: an accepted or cut-off keep-alive of a light client credits every active peer the unit
   charge and debits the client exactly the sum — as store calls, nothing else *)
Theorem on_update_trace cfg dep now_b st nd peers :
  billable cfg nd now_b = true -> registered st (n_id nd) = true -> all_registered st peers ->
  let c := interval_credit cfg now_b (n_seen nd) in
  fst (on_update cfg dep now_b st nd peers) =
  apply_adds cfg st (map (fun q => (q, c)) peers ++ [(n_id nd, - (Z.of_nat (length peers) * c))]).
Proof.
  intros Hb Hreg Hall. cbv zeta. set (c := interval_credit cfg now_b (n_seen nd)).
  unfold billable in Hb. unfold on_update.
  apply andb_true_iff in Hb as [Hb H3]. apply andb_true_iff in Hb as [H1 H2].
  apply negb_true_iff in H1, H2, H3. rewrite H1, H2. fold c. fold c in H3. rewrite H3.
  destruct (credit_peers_trace cfg peers c st Hall) as [Ht Htot].
  destruct (credit_peers cfg st peers c) as [st1 tot]. cbn [fst snd] in *. subst st1 tot.
  rewrite apply_adds_app. cbn [apply_adds].
  pose proof (add_node_bal_res (p_X cfg) (p_E cfg) 0 (apply_adds cfg st (map (fun q => (q, c)) peers))
                (n_id nd) (- (Z.of_nat (length peers) * c))) as Hr.
  rewrite (apply_adds_registered _ _ _ _ Hreg) in Hr.
  destruct (sstep _ _ 0 _ (AddNodeBal (n_id nd) _)) as [st2 r]. cbn [fst snd] in *. subst r.
  destruct (get_bal cfg dep st2 (n_id nd)); cbn [fst]; auto.
  destruct (p_min cfg); [destruct (_ <? _)|]; cbn [fst]; auto.
Qed.

(* a full node's keep-alive, a zero unit charge or a misconfiguration moves nothing *)
Theorem on_update_noop cfg dep now_b st nd peers :
  billable cfg nd now_b = false -> fst (on_update cfg dep now_b st nd peers) = st.
Proof.
  unfold billable, on_update. intros Hb.
  destruct (n_host nd); cbn; auto.
  destruct ((p_interval cfg <=? 0) || (p_price cfg =? 0)); cbn; auto.
  cbn in Hb. apply negb_false_iff in Hb. now rewrite Hb.
Qed.

(* all-or-nothing: whatever OnUpdate returns, the store is untouched or charged in full *)
Theorem on_update_all_or_nothing cfg dep now_b st nd peers :
  registered st (n_id nd) = true -> all_registered st peers ->
  fst (on_update cfg dep now_b st nd peers) = st \/
  fst (on_update cfg dep now_b st nd peers) =
  apply_adds cfg st (map (fun q => (q, interval_credit cfg now_b (n_seen nd))) peers ++
                     [(n_id nd, - (Z.of_nat (length peers) * interval_credit cfg now_b (n_seen nd)))]).
Proof.
  intros Hreg Hall. destruct (billable cfg nd now_b) eqn:Hb.
  - right. now apply on_update_trace.
  - left. now apply on_update_noop.
Qed.

(* ---------- slicing invariance (pure arithmetic) ---------- *)
Definition charge (p I e : Z) : Z := e * p / I.

Lemma floor_add_bounds a b I : 0 < I -> 0 <= (a + b) / I - a / I - b / I <= 1.
Proof.
  intros HI.
  pose proof (Z.div_mod a I ltac:(lia)). pose proof (Z.mod_pos_bound a I HI).
  pose proof (Z.div_mod b I ltac:(lia)). pose proof (Z.mod_pos_bound b I HI).
  pose proof (Z.div_mod (a + b) I ltac:(lia)). pose proof (Z.mod_pos_bound (a + b) I HI).
  nia.
Qed.

Fixpoint zsum (l : list Z) : Z := match l with [] => 0 | x :: r => x + zsum r end.

(* cutting one span into k >= 1 keep-alives changes the total charge per peer by less than one
   smallest unit per keep-alive, and never upwards *)
Theorem slicing_bound p I es :
  0 < I -> es <> [] ->
  0 <= charge p I (zsum es) - zsum (map (charge p I) es) <= Z.of_nat (length es) - 1.
Proof.
  intros HI. induction es as [|e rest IH]; [congruence|]. intros _.
  destruct rest as [|e2 rest'].
  - cbn. unfold charge. replace (e + 0) with e by lia. lia.
  - specialize (IH ltac:(discriminate)).
    change (zsum (e :: e2 :: rest')) with (e + zsum (e2 :: rest')).
    change (zsum (map (charge p I) (e :: e2 :: rest'))) with (charge p I e + zsum (map (charge p I) (e2 :: rest'))).
    change (length (e :: e2 :: rest')) with (S (length (e2 :: rest'))).
    unfold charge in *.
    pose proof (floor_add_bounds (e * p) (zsum (e2 :: rest') * p) I HI) as Hb.
    replace ((e + zsum (e2 :: rest')) * p) with (e * p + zsum (e2 :: rest') * p) by lia.
    lia.
Qed.

(* ---------- which stretch of time a run of keep-alives bills ----------
   keep-alive k bills [last_k, nowb_k]; the store then records last_{k+1} = nows_k.  *)
Fixpoint billed (last : Z) (clocks : list (Z * Z)) : Z :=   (* (nows, nowb) per keep-alive *)
  match clocks with
  | [] => 0
  | (nows, nowb) :: rest => (nowb - last) + billed nows rest
  end.
Fixpoint final_nowb (last : Z) (clocks : list (Z * Z)) : Z :=
  match clocks with [] => last | [(_, nowb)] => nowb | _ :: rest => final_nowb last rest end.
Fixpoint overlap (clocks : list (Z * Z)) : Z :=
  match clocks with
  | [] => 0
  | [_] => 0
  | (nows, nowb) :: rest => (nowb - nows) + overlap rest
  end.

Lemma final_nowb_indep l : forall a b, l <> [] -> final_nowb a l = final_nowb b l.
Proof.
  induction l as [|[s x] rest IH]; [congruence|]. intros a b _.
  destruct rest as [|y rest']; [reflexivity|].
  change (final_nowb a ((s, x) :: y :: rest')) with (final_nowb a (y :: rest')).
  change (final_nowb b ((s, x) :: y :: rest')) with (final_nowb b (y :: rest')).
  apply IH. discriminate.
Qed.

Theorem billed_decomposition clocks : forall last,
  clocks <> [] -> billed last clocks = (final_nowb last clocks - last) + overlap clocks.
Proof.
  induction clocks as [|[s b] rest IH]; [congruence|]. intros last _.
  destruct rest as [|[s2 b2] rest'].
  - cbn. lia.
  - specialize (IH s ltac:(discriminate)).
    change (billed last ((s, b) :: (s2, b2) :: rest')) with ((b - last) + billed s ((s2, b2) :: rest')).
    change (final_nowb last ((s, b) :: (s2, b2) :: rest')) with (final_nowb last ((s2, b2) :: rest')).
    change (overlap ((s, b) :: (s2, b2) :: rest')) with ((b - s) + overlap ((s2, b2) :: rest')).
    rewrite IH.
    rewrite (final_nowb_indep ((s2, b2) :: rest') s last) by discriminate.
    lia.
Qed.

(* when both clock reads of a keep-alive coincide no stretch of time is billed twice *)
Corollary no_double_charge_partial clocks last :
  clocks <> [] -> (forall s b, In (s, b) clocks -> s = b) ->
  billed last clocks = final_nowb last clocks - last.
Proof.
  intros Hne Heq. rewrite billed_decomposition by assumption.
  assert (overlap clocks = 0); [|lia].
  clear Hne. induction clocks as [|[s b] rest IH]; auto.
  destruct rest as [|x rest']; auto.
  change (overlap ((s, b) :: x :: rest')) with ((b - s) + overlap (x :: rest')).
  rewrite IH by (intros; apply Heq; now right).
  rewrite (Heq s b (or_introl eq_refl)). lia.
Qed.

(* the pinned code reads the clock twice (store first): the gap is billed by two consecutive
   keep-alives — a concrete run bills 130 time units for a span of 120 *)
Theorem double_charge_refuted :
  billed 0 [(50, 55); (100, 105); (120, 120)] = 130 /\ final_nowb 0 [(50, 55); (100, 105); (120, 120)] - 0 = 120.
Proof. vm_compute. auto. Qed.

(* ---------- peer ids taken from the reported peer infos (ethnode/rpc.go EnodeID) ---------- *)
Definition enode_id (id enode : list N) : list N :=
  if (length enode <=? 136)%nat then id else firstn 128 (skipn 8 enode).

Theorem enode_id_in_bounds id enode :
  (136 < length enode)%nat -> length (enode_id id enode) = 128%nat.
Proof.
  intros H. unfold enode_id. replace (length enode <=? 136)%nat with false
    by (symmetry; apply Nat.leb_gt; lia).
  rewrite firstn_length, skipn_length. lia.
Qed.

(* ---------- minimum balance (C03) ---------- *)
Theorem on_client_spec cfg dep st nd :
  registered st (n_id nd) = true ->
  on_client cfg dep st nd =
  match p_min cfg with
  | None => POk
  | Some m => if n_host nd then POk
              else if spendable dep (node_bal st (n_id nd)) <? m
                   then PLow (spendable dep (node_bal st (n_id nd))) else POk
  end.
Proof.
  intros Hreg. unfold on_client, get_bal, spendable. rewrite Hreg. reflexivity.
Qed.

Theorem on_client_hosts_never cfg dep st nd : n_host nd = true -> on_client cfg dep st nd = POk.
Proof. intros H. unfold on_client. rewrite H. now destruct (p_min cfg). Qed.

Theorem on_client_unset cfg dep st nd : p_min cfg = None -> on_client cfg dep st nd = POk.
Proof. intros H. unfold on_client. now rewrite H. Qed.

(* cut-off at a billing keep-alive: exactly when the spendable balance after the charge is
   below the minimum, and the error carries that balance *)
Theorem on_update_cutoff cfg dep now_b st nd peers :
  billable cfg nd now_b = true -> registered st (n_id nd) = true ->
  let st' := fst (on_update cfg dep now_b st nd peers) in
  let sp := spendable dep (node_bal st' (n_id nd)) in
  snd (on_update cfg dep now_b st nd peers) =
  match p_min cfg with
  | Some m => if sp <? m then PLow sp
              else PBal (b_acct (node_bal st' (n_id nd))) (b_credit (node_bal st' (n_id nd)))
                        (dep_of dep (b_acct (node_bal st' (n_id nd))))
  | None => PBal (b_acct (node_bal st' (n_id nd))) (b_credit (node_bal st' (n_id nd)))
                 (dep_of dep (b_acct (node_bal st' (n_id nd))))
  end.
Proof.
  unfold billable. intros Hb Hreg. unfold on_update.
  apply andb_true_iff in Hb as [Hb H3]. apply andb_true_iff in Hb as [H1 H2].
  apply negb_true_iff in H1, H2, H3. rewrite H1, H2, H3.
  destruct (credit_peers cfg st peers _) as [st1 tot] eqn:Hc.
  assert (Hreg1 : registered st1 (n_id nd) = true).
  { replace st1 with (fst (credit_peers cfg st peers (interval_credit cfg now_b (n_seen nd)))) by now rewrite Hc.
    clear Hc. revert st Hreg. induction peers as [|q rest IH]; intros st Hreg; cbn [credit_peers]; auto.
    pose proof (registered_mono (p_X cfg) (p_E cfg) 0 st (AddNodeBal q (interval_credit cfg now_b (n_seen nd))) _ Hreg) as Hm.
    destruct (sstep _ _ 0 st (AddNodeBal q _)) as [sa ra]. cbn [fst] in Hm.
    specialize (IH sa Hm). destruct (credit_peers cfg sa rest _) as [sb tb]. cbn [fst] in *. exact IH. }
  pose proof (add_node_bal_res (p_X cfg) (p_E cfg) 0 st1 (n_id nd) (- tot)) as Hr. rewrite Hreg1 in Hr.
  pose proof (registered_mono (p_X cfg) (p_E cfg) 0 st1 (AddNodeBal (n_id nd) (- tot)) _ Hreg1) as Hreg2.
  destruct (sstep _ _ 0 st1 (AddNodeBal (n_id nd) (- tot))) as [st2 r]. cbn [fst snd] in *. subst r.
  unfold get_bal, spendable. rewrite Hreg2.
  destruct (p_min cfg) as [m|]; cbn [fst snd]; auto.
  rewrite (Z.add_comm (dep_of dep _)). destruct (_ <? m) eqn:Hlt; cbn [fst snd].
  - rewrite Z.add_comm. rewrite Z.add_comm in Hlt. now rewrite Hlt.
  - rewrite Z.add_comm in Hlt. now rewrite Hlt.
Qed.

(* the hosts asked to disconnect the client: exactly its active peers with a live connection *)
Theorem cutoff_calls cfg dep conn now_s now_b st i reported blk before :
  aget i (s_nodes st) = Some before ->
  let u := snd (pool_update cfg dep conn now_s now_b st i reported blk) in
  uo_disconnect u = match uo_res u with
                    | PLow _ => filter (fun q => memb q conn) (uo_active u)
                    | _ => []
                    end.
Proof.
  intros Hb. unfold pool_update. rewrite Hb.
  destruct (sstep _ _ now_s st (UpdatePeers i reported blk)) as [st1 r1].
  destruct (on_update cfg dep now_b st1 before (akeys (peers_of st1 i))) as [st2 res]. cbn.
  destruct res; reflexivity.
Qed.

(* ---------- withdrawals (C07) ---------- *)
Definition wtot (dep : deposits) (st : sstate) (w : N) : Z := dep_of dep w + b_credit (acct_bal st w).
Definition meets_min (cfg : pcfg) (t : Z) : bool :=
  match p_wmin cfg with Some m => negb (t <? m) | None => true end.

Theorem withdraw_spec cfg dep st w ok :
  pay_withdraw cfg dep st w ok =
  if negb (p_settle_enabled cfg) then (st, dep, PDisabled)
  else if negb (meets_min cfg (wtot dep st w)) then (st, dep, PBelowMin (wtot dep st w))
  else if ok then (fst (sstep (p_X cfg) (p_E cfg) 0 st (AddAcctBal w (- b_credit (acct_bal st w)))),
                   aset w 0 dep, PPaid (wtot dep st w - p_fee cfg))
  else (st, dep, PSettleFailed).
Proof.
  unfold pay_withdraw, meets_min, wtot. destruct (negb (p_settle_enabled cfg)); auto.
  destruct (p_wmin cfg) as [m|]; cbn; auto. destruct (_ <? m); cbn; auto.
Qed.

(* executed iff enabled, the balance meets the minimum and the settlement goes through;
   pays exactly balance - fee; otherwise nothing is paid and nothing changes *)
Theorem withdraw_exec_iff cfg dep st w ok :
  let '(st', dep', r) := pay_withdraw cfg dep st w ok in
  (exists a, r = PPaid a) <->
  p_settle_enabled cfg = true /\ meets_min cfg (wtot dep st w) = true /\ ok = true.
Proof.
  rewrite withdraw_spec. destruct (p_settle_enabled cfg); cbn.
  - destruct (meets_min cfg (wtot dep st w)); cbn.
    + destruct ok; split; intros H; try (destruct H as [a Ha]; discriminate); try tauto; eauto.
      destruct H as (_ & _ & H); discriminate.
    + split; [intros [a Ha]; discriminate|intros (_ & H & _); discriminate].
  - split; [intros [a Ha]; discriminate|intros (H & _); discriminate].
Qed.

Theorem withdraw_amount cfg dep st w ok st' dep' a :
  pay_withdraw cfg dep st w ok = (st', dep', PPaid a) -> a = wtot dep st w - p_fee cfg.
Proof.
  rewrite withdraw_spec. destruct (negb (p_settle_enabled cfg)); [intros [=]|].
  destruct (negb (meets_min cfg _)); [intros [=]|]. destruct ok; intros [=]; auto.
Qed.

Theorem withdraw_fail_safe cfg dep st w ok st' dep' r :
  pay_withdraw cfg dep st w ok = (st', dep', r) -> (forall a, r <> PPaid a) -> st' = st /\ dep' = dep.
Proof.
  rewrite withdraw_spec. destruct (negb (p_settle_enabled cfg)); [intros [= <- <- <-]; auto|].
  destruct (negb (meets_min cfg _)); [intros [= <- <- <-]; auto|].
  destruct ok; intros [= <- <- <-]; auto. intros H. exfalso. eapply H. reflexivity.
Qed.

Lemma dep_of_aset dep w v x : dep_of (aset w v dep) x = if N.eqb x 0 then 0 else if N.eqb x w then v else dep_of dep x.
Proof. unfold dep_of. destruct (N.eqb x 0); auto. rewrite aget_aset. destruct (N.eqb x w); auto. Qed.

(* after a successful withdrawal the wallet has nothing further to withdraw *)
Theorem withdraw_drains cfg dep st w ok st' dep' a :
  pay_withdraw cfg dep st w ok = (st', dep', PPaid a) -> wtot dep' st' w = 0.
Proof.
  rewrite withdraw_spec. destruct (negb (p_settle_enabled cfg)); [intros [=]|].
  destruct (negb (meets_min cfg _)); [intros [=]|]. destruct ok; intros [= <- <- <-].
  unfold wtot. rewrite dep_of_aset. cbn [sstep fst]. unfold acct_bal at 1. cbn. rewrite aget_aset_same. cbn.
  destruct (N.eqb w 0); [|rewrite N.eqb_refl]; lia.
Qed.

(* repeating the withdrawal at once pays none of the earnings again: it is refused whenever a
   positive minimum is set, and otherwise pays 0 - fee *)
Theorem withdraw_repeat cfg dep st w ok st' dep' a ok2 :
  pay_withdraw cfg dep st w ok = (st', dep', PPaid a) ->
  let '(_, _, r2) := pay_withdraw cfg dep' st' w ok2 in
  (forall a2, r2 = PPaid a2 -> a2 + p_fee cfg = 0) /\
  (forall m, p_wmin cfg = Some m -> 0 < m -> r2 = PBelowMin 0).
Proof.
  intros H. pose proof (withdraw_drains _ _ _ _ _ _ _ _ H) as Hz.
  assert (Hen : p_settle_enabled cfg = true).
  { rewrite withdraw_spec in H. destruct (p_settle_enabled cfg); auto. cbn in H. discriminate. }
  rewrite withdraw_spec. rewrite Hen. cbn [negb]. rewrite Hz. unfold meets_min.
  destruct (p_wmin cfg) as [m|].
  - destruct (0 <? m) eqn:Hm; cbn.
    + split; [intros a2 [=]|intros m' [= <-] _; reflexivity].
    + destruct ok2; split; try (intros a2 [= <-]; lia); try (intros a2 [=]);
        intros m' [= <-] Hpos; apply Z.ltb_ge in Hm; lia.
  - cbn. destruct ok2; split; try (intros a2 [= <-]; lia); try (intros a2 [=]); intros m' [=].
Qed.

(* cumulative: what the pool owes (ledger total + deposits of the wallets it knows) goes down
   by exactly paid + fee at each successful withdrawal *)
Theorem withdraw_owed cfg dep st w ok st' dep' a :
  Good st -> pay_withdraw cfg dep st w ok = (st', dep', PPaid a) ->
  total st' + dep_of dep' w = total st + dep_of dep w - (a + p_fee cfg).
Proof.
  intros HG H. pose proof (withdraw_amount _ _ _ _ _ _ _ _ H) as Ha.
  pose proof (withdraw_drains _ _ _ _ _ _ _ _ H) as Hz.
  pose proof (pay_withdraw_total cfg dep st w ok HG) as Ht. rewrite H in Ht. destruct Ht as [_ Ht].
  cbn [settled_of] in Ht. unfold wtot in *.
  assert (Hd : dep_of dep' w = 0).
  { rewrite withdraw_spec in H. destruct (negb (p_settle_enabled cfg)); [discriminate|].
    destruct (negb (meets_min cfg _)); [discriminate|]. destruct ok; [|discriminate].
    injection H as _ <- _. rewrite dep_of_aset. destruct (N.eqb w 0); auto. now rewrite N.eqb_refl. }
  lia.
Qed.
