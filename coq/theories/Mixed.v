(* Mixed.v — a keep-alive is not atomic with respect to a withdrawal (C10, refutation).
   A keep-alive credits each active peer in a store action of its own.  When two of the hosts it
   credits are paid into ONE wallet, a withdrawal of that wallet that runs between the two credits
   settles the first credit only.  The resulting ledger (and the amount paid out) is the result of
   neither one-at-a-time order of the two requests, although nothing is lost: paid + left is the
   same in all three runs. *)
From VP Require Import Base Nonce Store StoreProofs Pool Conc SerialProofs.

Definition mx_store : sstate :=
  srun 120 900 s0 [(0, SetNode (sx_node 1%N true)); (0, SetNode (sx_node 2%N true)); (0, SetNode (sx_node 3%N false));
                   (0, AddAcctNode 9%N 1%N); (0, AddAcctNode 9%N 2%N);
                   (1, UpdatePeers 3%N [1%N; 2%N] 0%N)].
(* the client's keep-alive 60 s later, and the wallet's withdrawal (settlement succeeds) *)
Definition mx_threads : list prog := [update_prog sx_cfg 3%N [1%N; 2%N] 0%N 61; withdraw_prog 9%N (fun _ => true)].

(* (credit left on the wallet, credit the withdrawal settled, the client's balance) *)
Definition mx_outcome (sch : list (nat * Z)) : Z * Z * Z :=
  let c := run_sched 120 900 {| c_st := mx_store; c_thr := mx_threads |} sch in
  (b_credit (acct_bal (c_st c) 9%N), zsuml (map settled_of_prog (c_thr c)), b_credit (node_bal (c_st c) 3%N)).
Definition mx_complete (sch : list (nat * Z)) : bool :=
  forallb finished (c_thr (run_sched 120 900 {| c_st := mx_store; c_thr := mx_threads |} sch)).

Definition mx_keepalive_first := sched_of [0; 0; 0; 0; 0; 0; 0; 1; 1]%nat 61.
Definition mx_withdraw_first := sched_of [1; 1; 0; 0; 0; 0; 0; 0; 0]%nat 61.
(* GetNode, UpdatePeers, NodePeers, first credit | the withdrawal | second credit, debit, read-back *)
Definition mx_between := sched_of [0; 0; 0; 0; 1; 1; 0; 0; 0]%nat 61.

Theorem keepalive_withdraw_not_serialisable :
  mx_complete mx_keepalive_first = true /\ mx_complete mx_withdraw_first = true /\ mx_complete mx_between = true /\
  mx_outcome mx_keepalive_first = (0, 2000, -2000) /\
  mx_outcome mx_withdraw_first = (2000, 0, -2000) /\
  mx_outcome mx_between = (1000, 1000, -2000).
Proof. vm_compute. repeat split; reflexivity. Qed.
