(* Check17.v — correspondence predicate for the stream codec: the messages the real codec read
   back from a re-chunked byte stream must be the ones the model decodes. *)
From VP Require Import Base Codec.

Definition bz (l : list Z) : bytes := map Z.to_N l.

Record c17_case := {
  c17_written : list bytes;   (* compact JSON of each message written, in order *)
  c17_chunks : list nat;      (* sizes of the reads the transport delivered *)
  c17_read : list bytes       (* compact JSON of each message the codec returned *)
}.

Fixpoint chunkify (sizes : list nat) (s : bytes) : list bytes :=
  match sizes with
  | [] => match s with [] => [] | _ => [s] end
  | n :: rest => firstn n s :: chunkify rest (skipn n s)
  end.

Fixpoint bytes_eqb (a b : bytes) : bool :=
  match a, b with
  | [], [] => true
  | x :: a', y :: b' => N.eqb x y && bytes_eqb a' b'
  | _, _ => false
  end.

Definition c17_check (c : c17_case) : bool :=
  let stream := concat (map enc_line (c17_written c)) in
  let '(ms, leftover) := decode_stream bytes scan_line [] (chunkify (c17_chunks c) stream) in
  list_eqb bytes_eqb ms (c17_read c) && match leftover with [] => true | _ => false end.
