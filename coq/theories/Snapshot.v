(* Snapshot.v — values handed out by the in-memory store (store.Balance holds big.Int by value:
   copies of the struct share the digit array).  A value is a reference into a cell heap; the
   store updates a balance either by allocating a fresh cell (new(big.Int).Add) or by writing the
   existing cell in place (x.Add(x, y) on a copy that shares x's digits).  No proofs here. *)
From VP Require Import Base.

Definition ref := nat.
Definition heap := list Z.                       (* cell contents, indexed by reference *)

Inductive wmode := Fresh | InPlace.

Record mstore := { ms_heap : heap; ms_bal : amap ref }.   (* owner -> the cell its balance lives in *)
Definition ms0 : mstore := {| ms_heap := []; ms_bal := [] |}.

Definition read (h : heap) (r : ref) : Z := nth r h 0.
Fixpoint write (h : heap) (r : ref) (v : Z) : heap :=
  match h, r with
  | [], _ => []
  | _ :: t, O => v :: t
  | x :: t, S r' => x :: write t r' v
  end.

Inductive mop := MAdd (o : N) (d : Z) | MGet (o : N).

(* returns the new store and, for MGet, the reference handed to the caller *)
Definition mstep (w : wmode) (s : mstore) (o : mop) : mstore * option ref :=
  match o with
  | MGet k => (s, aget k (ms_bal s))
  | MAdd k d =>
      match aget k (ms_bal s), w with
      | Some r, InPlace => ({| ms_heap := write (ms_heap s) r (read (ms_heap s) r + d); ms_bal := ms_bal s |}, None)
      | Some r, Fresh =>
          ({| ms_heap := ms_heap s ++ [read (ms_heap s) r + d]; ms_bal := aset k (length (ms_heap s)) (ms_bal s) |}, None)
      | None, _ =>
          ({| ms_heap := ms_heap s ++ [d]; ms_bal := aset k (length (ms_heap s)) (ms_bal s) |}, None)
      end
  end.

Fixpoint mrun (w : wmode) (s : mstore) (ops : list mop) : mstore :=
  match ops with [] => s | o :: r => mrun w (fst (mstep w s o)) r end.
