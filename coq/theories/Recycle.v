(* Recycle.v — reply channels of jsonrpc2.Remote as objects (remote.go Serve/Call/receive,
   pending.go), with Serve's two steps kept apart: it looks the channel of a reply's id up under
   the lock and sends into it after releasing the lock.  The pinned code allocates a channel per
   call and never uses it for another call; [policy] describes what a cancelled or finished call
   does with its channel instead: nothing (the pinned code), put it on a free list as it is, or
   empty it first and put it on the free list.  No proofs in this file. *)
From VP Require Import Base.

Inductive rpolicy := PNoRecycle | PRecycleAsIs | PRecycleDrained.
Inductive rres := RPayload (p : N) | RCtx.

Record rcst := {
  rc_pending : amap nat;                 (* request id -> channel *)
  rc_bufs : list (nat * (N * N));        (* channel -> the one buffered reply (id it was sent under, payload) *)
  rc_free : list nat;                    (* channels waiting to be used again *)
  rc_next : nat;                         (* next fresh channel *)
  rc_owner : list (nat * N);             (* ghost: the call each channel was last handed to *)
  rc_hold : option (nat * N * N);        (* Serve between lookup and send: channel, id, payload *)
  rc_done : amap rres;                   (* finished calls *)
  rc_read : list (N * N)                 (* ghost: every reply Serve has read, (id, payload) *)
}.
Definition rc0 : rcst := {| rc_pending := []; rc_bufs := []; rc_free := []; rc_next := 0; rc_owner := [];
                            rc_hold := None; rc_done := []; rc_read := [] |}.

Inductive rcev :=
| VCall (c : N)                (* a call with request id c registers its channel and waits *)
| VLookup (i p : N)            (* Serve reads a reply (id i, payload p) and looks its channel up *)
| VSend                        (* Serve sends what it holds into the channel it looked up *)
| VWake (c : N)                (* the call takes the reply from its channel *)
| VCancel (c : N).             (* the call's context ends first *)

Fixpoint nget {V} (k : nat) (m : list (nat * V)) : option V :=
  match m with [] => None | (k', v) :: r => if Nat.eqb k k' then Some v else nget k r end.
Fixpoint ndel {V} (k : nat) (m : list (nat * V)) : list (nat * V) :=
  match m with [] => [] | (k', v) :: r => if Nat.eqb k k' then ndel k r else (k', v) :: ndel k r end.

(* a channel for a new call: the most recently freed one, or a fresh one *)
Definition alloc (s : rcst) : nat * list nat * nat :=
  match rc_free s with
  | ch :: rest => (ch, rest, rc_next s)
  | [] => (rc_next s, [], S (rc_next s))
  end.

(* what a call does with its channel when it is done with it *)
Definition release (pol : rpolicy) (ch : nat) (bufs : list (nat * (N * N))) (free : list nat) : list (nat * (N * N)) * list nat :=
  match pol with
  | PNoRecycle => (bufs, free)
  | PRecycleAsIs => (bufs, ch :: free)
  | PRecycleDrained => (ndel ch bufs, ch :: free)
  end.

Definition rcstep (pol : rpolicy) (s : rcst) (e : rcev) : option rcst :=
  match e with
  | VCall c =>
      match aget c (rc_pending s), aget c (rc_done s) with
      | None, None =>
          let '(ch, free', next') := alloc s in
          Some {| rc_pending := aset c ch (rc_pending s); rc_bufs := rc_bufs s; rc_free := free'; rc_next := next';
                  rc_owner := (ch, c) :: rc_owner s; rc_hold := rc_hold s; rc_done := rc_done s; rc_read := rc_read s |}
      | _, _ => None                      (* request ids are fresh *)
      end
  | VLookup i p =>
      match rc_hold s with
      | Some _ => None
      | None =>
          match aget i (rc_pending s) with
          | Some ch => Some {| rc_pending := rc_pending s; rc_bufs := rc_bufs s; rc_free := rc_free s; rc_next := rc_next s;
                               rc_owner := rc_owner s; rc_hold := Some (ch, i, p); rc_done := rc_done s; rc_read := (i, p) :: rc_read s |}
          | None => (* nobody waits for it: an orphan channel of its own, never handed to a call *)
              Some {| rc_pending := rc_pending s; rc_bufs := rc_bufs s; rc_free := rc_free s; rc_next := S (rc_next s);
                      rc_owner := (rc_next s, i) :: rc_owner s; rc_hold := Some (rc_next s, i, p); rc_done := rc_done s; rc_read := (i, p) :: rc_read s |}
          end
      end
  | VSend =>
      match rc_hold s with
      | Some (ch, i, p) =>
          match nget ch (rc_bufs s) with
          | Some _ => None                 (* the channel is full: Serve blocks *)
          | None => Some {| rc_pending := rc_pending s; rc_bufs := (ch, (i, p)) :: rc_bufs s; rc_free := rc_free s; rc_next := rc_next s;
                            rc_owner := rc_owner s; rc_hold := None; rc_done := rc_done s; rc_read := rc_read s |}
          end
      | None => None
      end
  | VWake c =>
      match aget c (rc_pending s), aget c (rc_done s) with
      | Some ch, None =>
          match nget ch (rc_bufs s) with
          | Some (_, p) =>
              let '(bufs', free') := release pol ch (ndel ch (rc_bufs s)) (rc_free s) in
              Some {| rc_pending := adel c (rc_pending s); rc_bufs := bufs'; rc_free := free'; rc_next := rc_next s;
                      rc_owner := rc_owner s; rc_hold := rc_hold s; rc_done := aset c (RPayload p) (rc_done s); rc_read := rc_read s |}
          | None => None
          end
      | _, _ => None
      end
  | VCancel c =>
      match aget c (rc_pending s), aget c (rc_done s) with
      | Some ch, None =>
          let '(bufs', free') := release pol ch (rc_bufs s) (rc_free s) in
          Some {| rc_pending := adel c (rc_pending s); rc_bufs := bufs'; rc_free := free'; rc_next := rc_next s;
                  rc_owner := rc_owner s; rc_hold := rc_hold s; rc_done := aset c RCtx (rc_done s); rc_read := rc_read s |}
      | _, _ => None
      end
  end.

Fixpoint rcrun (pol : rpolicy) (s : rcst) (evs : list rcev) : option rcst :=
  match evs with
  | [] => Some s
  | e :: r => match rcstep pol s e with Some s' => rcrun pol s' r | None => None end
  end.
