(* LifeProofs.v — theorems for C20. *)
From VP Require Import Base Life.

Definition LInv (s : lstate) : Prop := l_loops s = (if l_started s then 1 else 0)%nat.

Lemma LInv_l0 : LInv l0. Proof. reflexivity. Qed.

Lemma LInv_step s o : LInv s -> LInv (fst (lstep true s o)).
Proof.
  unfold LInv. intros H. destruct s as [st lp wq]. cbn in *. destruct o as [oc| | | |]; cbn.
  - destruct st; cbn; auto. destruct oc; cbn; auto; try congruence.
  - destruct lp as [|n]; cbn; auto. destruct st; [injection H as ->; reflexivity|discriminate].
  - destruct lp as [|n]; cbn; auto. destruct st; [injection H as ->; reflexivity|discriminate].
  - exact H.
  - destruct wq; cbn; exact H.
Qed.

(* exactly one periodic loop: for every sequence of starts, stops, waits, ticks and pool failures
   at most one loop is alive, and one is alive iff the agent counts as started *)
Theorem one_loop ops : LInv (lrun true l0 ops) /\ (l_loops (lrun true l0 ops) <= 1)%nat.
Proof.
  assert (H : forall s, LInv s -> LInv (lrun true s ops)).
  { induction ops as [|o r IH]; intros s Hs; cbn; auto. apply IH. now apply LInv_step. }
  specialize (H l0 LInv_l0). split; auto. rewrite H. destruct (l_started _); lia.
Qed.

(* starting again while running is refused and changes nothing *)
Theorem double_start s oc : LInv s -> l_started s = true -> lstep true s (LStart oc) = (s, RAlreadyStarted).
Proof. intros _ H. cbn. now rewrite H. Qed.

(* a start that fails at the pool leaves nothing running *)
Theorem failed_start s oc : oc <> SOk -> l_started s = false ->
  fst (lstep true s (LStart oc)) = s /\ snd (lstep true s (LStart oc)) = RStartErr.
Proof. intros Hoc Hs. cbn. rewrite Hs. destruct oc; [congruence| |]; auto. Qed.

(* stopping ends the loop, so that waiting returns, after which it can be started again *)
Theorem stop_wait_restart s :
  LInv s -> l_started s = true -> l_waitq s = [] ->
  let s1 := fst (lstep true s LStop) in
  let '(s2, w) := lstep true s1 LWait in
  l_loops s1 = 0%nat /\ w = RWait WNil /\ snd (lstep true s2 (LStart SOk)) = RStartOk /\
  l_loops (fst (lstep true s2 (LStart SOk))) = 1%nat.
Proof.
  unfold LInv. intros H Hs Hq. cbn. rewrite Hs in H. rewrite H, Hq. cbn. auto.
Qed.

(* a pool failure at a keep-alive ends the loop: Wait returns the error, and the agent can be
   started again *)
Theorem failed_keepalive_restart s :
  LInv s -> l_started s = true -> l_waitq s = [] ->
  let s1 := fst (lstep true s LTickFail) in
  let '(s2, w) := lstep true s1 LWait in
  l_loops s1 = 0%nat /\ w = RWait WErr /\ snd (lstep true s2 (LStart SOk)) = RStartOk.
Proof.
  unfold LInv. intros H Hs Hq. cbn. rewrite Hs in H. rewrite H, Hq. cbn. auto.
Qed.

(* cadence: while running, each interval sends exactly one keep-alive *)
Theorem cadence ops :
  let s := lrun true l0 ops in
  snd (lstep true s LTick) = RTick (if l_started s then 1 else 0)%nat.
Proof. cbn. destruct (one_loop ops) as [H _]. unfold LInv in H. now rewrite H. Qed.

(* without the flag (the pinned tree) a second Start runs a second loop *)
Theorem no_flag_refuted :
  l_loops (lrun false l0 [LStart SOk; LStart SOk]) = 2%nat /\
  snd (lstep false (lrun false l0 [LStart SOk]) (LStart SOk)) = RStartOk /\
  snd (lstep true (lrun true l0 [LStart SOk]) (LStart SOk)) = RAlreadyStarted.
Proof. vm_compute. auto. Qed.

(* the command line accepts an interval only if it is shorter than the expiry window *)
Theorem interval_below_expiry mn mx d : interval_ok mn mx d = true -> d < mx.
Proof. unfold interval_ok. intros H. apply andb_true_iff in H as [_ H]. now apply Z.ltb_lt. Qed.
