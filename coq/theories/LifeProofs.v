(* LifeProofs.v — theorems for C20. *)
From VP Require Import Base Life.

(* one loop iff started; and while a loop runs no result of an earlier run is waiting to be
   collected (an accepted Start drops them) *)
Definition LInv (s : lstate) : Prop :=
  l_loops s = (if l_started s then 1 else 0)%nat /\ (l_started s = true -> l_waitq s = []).

Lemma LInv_l0 : LInv l0. Proof. split; [reflexivity|discriminate]. Qed.

Lemma LInv_step s o : LInv s -> LInv (fst (lstep true s o)).
Proof.
  unfold LInv. intros [H Hq]. destruct s as [st lp wq]. cbn in *. destruct o as [oc| | | |]; cbn.
  - destruct st; cbn; auto. destruct oc; cbn; auto; split; auto; congruence.
  - destruct lp as [|n]; cbn; auto. destruct st; [injection H as ->; split; [reflexivity|discriminate]|discriminate].
  - destruct lp as [|n]; cbn; auto. destruct st; [injection H as ->; split; [reflexivity|discriminate]|discriminate].
  - auto.
  - destruct wq; cbn; auto. split; auto. intros Hs. specialize (Hq Hs). discriminate.
Qed.

(* exactly one periodic loop: for every sequence of starts, stops, waits, ticks and pool failures
   at most one loop is alive, and one is alive iff the agent counts as started *)
Theorem one_loop ops : LInv (lrun true l0 ops) /\ (l_loops (lrun true l0 ops) <= 1)%nat.
Proof.
  assert (H : forall s, LInv s -> LInv (lrun true s ops)).
  { induction ops as [|o r IH]; intros s Hs; cbn; auto. apply IH. now apply LInv_step. }
  specialize (H l0 LInv_l0). split; auto. destruct H as [H _]. rewrite H. destruct (l_started _); lia.
Qed.

(* starting again while running is refused and changes nothing *)
Theorem double_start s oc : LInv s -> l_started s = true -> lstep true s (LStart oc) = (s, RAlreadyStarted).
Proof. intros _ H. cbn. now rewrite H. Qed.

(* a start that fails at the pool leaves nothing running: no loop, not started, and the next
   start is judged like the first *)
Theorem failed_start s oc : oc <> SOk -> l_started s = false ->
  let s1 := fst (lstep true s (LStart oc)) in
  l_loops s1 = l_loops s /\ l_started s1 = false /\ snd (lstep true s (LStart oc)) = RStartErr /\
  snd (lstep true s1 (LStart SOk)) = RStartOk.
Proof.
  intros Hoc Hs. destruct s as [st lp wq]. cbn in Hs. subst st.
  destruct oc; [congruence| |]; cbn; auto.
Qed.

(* stopping ends the loop, so that waiting returns, after which it can be started again *)
Theorem stop_wait_restart s :
  LInv s -> l_started s = true ->
  let s1 := fst (lstep true s LStop) in
  let '(s2, w) := lstep true s1 LWait in
  l_loops s1 = 0%nat /\ w = RWait WNil /\ snd (lstep true s2 (LStart SOk)) = RStartOk /\
  l_loops (fst (lstep true s2 (LStart SOk))) = 1%nat.
Proof.
  unfold LInv. intros [H Hq0] Hs. pose proof (Hq0 Hs) as Hq. cbn. rewrite Hs in H. rewrite H, Hq. cbn. auto.
Qed.

(* a pool failure at a keep-alive ends the loop: Wait returns the error, and the agent can be
   started again *)
Theorem failed_keepalive_restart s :
  LInv s -> l_started s = true ->
  let s1 := fst (lstep true s LTickFail) in
  let '(s2, w) := lstep true s1 LWait in
  l_loops s1 = 0%nat /\ w = RWait WErr /\ snd (lstep true s2 (LStart SOk)) = RStartOk.
Proof.
  unfold LInv. intros [H Hq0] Hs. pose proof (Hq0 Hs) as Hq. cbn. rewrite Hs in H. rewrite H, Hq. cbn. auto.
Qed.

(* cadence: while running, each interval sends exactly one keep-alive *)
Theorem cadence ops :
  let s := lrun true l0 ops in
  snd (lstep true s LTick) = RTick (if l_started s then 1 else 0)%nat.
Proof. cbn. destruct (one_loop ops) as [[H _] _]. now rewrite H. Qed.

(* without the flag (the pinned tree) a second Start runs a second loop *)
Theorem no_flag_refuted :
  l_loops (lrun false l0 [LStart SOk; LStart SOk]) = 2%nat /\
  snd (lstep false (lrun false l0 [LStart SOk]) (LStart SOk)) = RStartOk /\
  snd (lstep true (lrun true l0 [LStart SOk]) (LStart SOk)) = RAlreadyStarted.
Proof. vm_compute. auto. Qed.

(* the command line accepts an interval only if it is shorter than the expiry window *)
Theorem interval_below_expiry mn mx d : interval_ok mn mx d = true -> d < mx.
Proof. unfold interval_ok. intros H. apply andb_true_iff in H as [_ H]. now apply Z.ltb_lt. Qed.

(* the case the hypothesis "no uncollected result" used to hide: runs that ended on a failing
   keep-alive and were never waited for, then Stop, Wait, Start — for every number of such runs,
   Wait returns the result of the run that was stopped and the agent starts again *)
Fixpoint failed_runs (n : nat) : list lop :=
  match n with O => [] | S k => LStart SOk :: LTickFail :: failed_runs k end.
Theorem restart_after_uncollected_failures n :
  let s := lrun true l0 (failed_runs n ++ [LStart SOk]) in
  let s1 := fst (lstep true s LStop) in
  let '(s2, w) := lstep true s1 LWait in
  l_started s = true /\ w = RWait WNil /\ snd (lstep true s2 (LStart SOk)) = RStartOk.
Proof.
  assert (Hgen : forall n s0, l_started s0 = false -> l_loops s0 = 0%nat ->
            let s := lrun true s0 (failed_runs n ++ [LStart SOk]) in
            l_started s = true /\ l_loops s = 1%nat /\ l_waitq s = []).
  { induction n0 as [|k IH]; intros s0 Hs Hl; destruct s0 as [st lp wq]; cbn in Hs, Hl; subst st lp; cbn.
    - auto.
    - apply IH; reflexivity. }
  destruct (Hgen n l0 eq_refl eq_refl) as (Hs & Hl & Hq). cbn zeta.
  set (s := lrun true l0 (failed_runs n ++ [LStart SOk])) in *.
  cbn. rewrite Hl, Hq. cbn. auto.
Qed.
