(* Check15.v — correspondence predicate for C15: what the serving process answered to a message
   of a given shape must be what the model's Serve step (or HTTP step) yields. *)
From VP Require Import Base Dispatch Total.

Inductive oobs := ONoReply | OReply (id_ok : bool) (code : rcode).

Record c15_case := { c15_http : bool; c15_msgs : list (msg * oobs) }.

(* the method body's own verdict is not modelled: success and internal error are one class *)
Definition code_class (c : rcode) : nat :=
  match c with COk | CInternal => 0 | CInvalidRequest => 1 | CMethodNotFound => 2 | CInvalidParams => 3 end.

Definition c15_one (http : bool) (mo : msg * oobs) : bool :=
  let '(m, o) := mo in
  match (if http then http_step m false else serve_step m false), o with
  | Reply _ _ code, OReply id_ok code' => id_ok && Nat.eqb (code_class code) (code_class code')
  | Routed _, ONoReply | Dropped, ONoReply => true
  | _, _ => false
  end.

Definition c15_check (c : c15_case) : bool := forallb (c15_one (c15_http c)) (c15_msgs c).
