(* SerialProofs.v — serialisability of concurrent requests (C10): what holds (the ledger part:
   balances are sums of acknowledged deltas, which commute) and what does not (two overlapping
   keep-alives of one node). *)
From Coq Require Import Permutation.
From VP Require Import Base Nonce Store StoreProofs Pool PoolProofs BalanceProofs Conc ConcProofs.

Definition same_owner (st : sstate) (i j : N) : bool :=
  match aget i (s_link st), aget j (s_link st) with
  | Some a, Some b => N.eqb a b
  | None, None => N.eqb i j
  | _, _ => false
  end.

Lemma add_node_bal_effect cfg st i d :
  registered st i = true ->
  let st' := fst (sstep (p_X cfg) (p_E cfg) 0 st (AddNodeBal i d)) in
  s_link st' = s_link st /\ s_nodes st' = s_nodes st /\
  forall j, b_credit (node_bal st' j) = b_credit (node_bal st j) + (if same_owner st i j then d else 0).
Proof.
  intros Hr. cbn [sstep]. rewrite Hr. unfold same_owner, node_bal.
  destruct (aget i (s_link st)) as [a|] eqn:Hi; cbn [fst upd_acct upd_trial s_link s_nodes s_acct s_trial].
  - split; auto. split; auto. intros j.
    destruct (aget j (s_link st)) as [b|].
    + unfold acct_bal at 1. cbn [s_acct upd_acct]. rewrite aget_aset. rewrite (N.eqb_sym a b).
      destruct (N.eqb_spec b a) as [->|]; cbn; [|unfold acct_bal; lia]. lia.
    + unfold trial_bal. cbn. lia.
  - split; auto. split; auto. intros j.
    destruct (aget j (s_link st)) as [b|].
    + unfold acct_bal. cbn. lia.
    + unfold trial_bal at 1. cbn [s_trial upd_trial]. rewrite aget_aset. rewrite (N.eqb_sym i j).
      destruct (N.eqb_spec j i) as [->|]; cbn; [|unfold trial_bal; lia]. lia.
Qed.

Fixpoint delta_sum (st : sstate) (adds : list (N * Z)) (j : N) : Z :=
  match adds with
  | [] => 0
  | (i, d) :: rest => (if same_owner st i j then d else 0) + delta_sum st rest j
  end.

Lemma same_owner_links st st' i j : s_link st' = s_link st -> same_owner st' i j = same_owner st i j.
Proof. intros H. unfold same_owner. now rewrite H. Qed.

(* no update is lost: after any sequence of balance updates, every balance is its initial value
   plus the sum of the deltas addressed to its owner *)
Theorem balances_are_sums cfg adds : forall st,
  (forall i d, In (i, d) adds -> registered st i = true) ->
  forall j, b_credit (node_bal (apply_adds cfg st adds) j) = b_credit (node_bal st j) + delta_sum st adds j.
Proof.
  induction adds as [|[i d] rest IH]; intros st Hreg j; cbn [apply_adds delta_sum]; [lia|].
  destruct (add_node_bal_effect cfg st i d (Hreg i d (or_introl eq_refl))) as (Hl & Hn & He).
  set (st1 := fst (sstep (p_X cfg) (p_E cfg) 0 st (AddNodeBal i d))) in *.
  rewrite IH.
  - rewrite He. assert (Hds : delta_sum st1 rest j = delta_sum st rest j).
    { clear - Hl. induction rest as [|[i' d'] r IHr]; cbn; auto. now rewrite IHr, (same_owner_links st st1). }
    rewrite Hds. lia.
  - intros i' d' Hin. unfold registered. rewrite Hn. apply (Hreg i' d'). now right.
Qed.

Lemma delta_sum_perm st a b j : Permutation a b -> delta_sum st a j = delta_sum st b j.
Proof.
  induction 1 as [|[i d] l l' _ IH|[i d] [i' d'] l|l l' l'' _ IH1 _ IH2]; cbn; try lia.
Qed.

(* hence the order in which concurrent requests' balance updates are applied does not matter:
   every interleaving yields the balances of every serial order *)
Theorem balance_updates_commute cfg st a b :
  Permutation a b -> (forall i d, In (i, d) a -> registered st i = true) ->
  forall j, b_credit (node_bal (apply_adds cfg st a) j) = b_credit (node_bal (apply_adds cfg st b) j).
Proof.
  intros Hp Hreg j. rewrite !balances_are_sums; auto.
  - now rewrite (delta_sum_perm st a b j Hp).
  - intros i d Hin. apply (Hreg i d). eapply Permutation_in; [apply Permutation_sym|]; eauto.
Qed.

(* ---------- the full statement is false of the code: two overlapping keep-alives of ONE node ----------
   both read the same LastSeen before either records its check-in, so both bill the whole span *)
Definition sx_cfg : pcfg := {| p_X := 120; p_E := 900; p_price := 1000; p_interval := 60;
  p_min := None; p_wmin := None; p_fee := 0; p_settle_enabled := true |}.
Definition sx_node i h := {| n_id := i; n_uri := 0; n_seen := 0; n_kind := 0; n_host := h; n_payout := 0; n_block := 0 |}.
Definition sx_store : sstate :=
  srun 120 900 s0 [(0, SetNode (sx_node 1%N true)); (0, SetNode (sx_node 2%N false)); (1, UpdatePeers 2%N [1%N] 0%N)].
Definition sx_threads : list prog := [update_prog sx_cfg 2%N [1%N] 0%N 61; update_prog sx_cfg 2%N [1%N] 0%N 62].
Definition sx_host_credit (sch : list (nat * Z)) : Z :=
  b_credit (node_bal (c_st (run_sched 120 900 {| c_st := sx_store; c_thr := sx_threads |} sch)) 1%N).
Definition sched_of (order : list nat) (t : Z) : list (nat * Z) := map (fun k => (k, t)) order.

Theorem serialisable_refuted :
  (* thread 0 entirely, then thread 1 — and the other way round *)
  sx_host_credit (sched_of [0; 0; 0; 0; 0; 0; 1; 1; 1; 1; 1; 1]%nat 61) = 1016 /\
  sx_host_credit (sched_of [1; 1; 1; 1; 1; 1; 0; 0; 0; 0; 0; 0]%nat 61) = 1016 /\
  (* both read the node before either updates it *)
  sx_host_credit (sched_of [0; 1; 0; 1; 0; 1; 0; 1; 0; 1; 0; 1]%nat 61) = 2016.
Proof. vm_compute. auto. Qed.
