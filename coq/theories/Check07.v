(* Check07.v — C07's correspondence: pool-level histories (CheckPool) and, for the production
   wiring, the deposit-cache model against the real ContractPayment on the simulated chain: the
   same operations, the total the wallet received on-chain, what is left on the contract and on
   the ledger once everything is mined. *)
From VP Require Import Base Nonce Store Check12 Pool CheckPool Deposit.

Record contract_case := {
  cc_cfg : dcfg;
  cc_ops : list dop;
  cc_received : Z;      (* ether the wallet received over the whole history *)
  cc_left_chain : Z;    (* deposit on the contract at the end *)
  cc_left_credit : Z    (* credit on the ledger at the end *)
}.

Fixpoint zsum (l : list Z) : Z := match l with [] => 0 | x :: r => x + zsum r end.

Definition contract_check (c : contract_case) : bool :=
  let s := drun (cc_cfg c) d0 (cc_ops c) in
  Z.eqb (zsum (dpaid (cc_cfg c) d0 (cc_ops c))) (cc_received c) &&
  Z.eqb (d_chain s) (cc_left_chain c) && Z.eqb (d_credit s) (cc_left_credit c) &&
  match d_pending s with [] => true | _ => false end.

Inductive c07_any := C7Pool (c : pool_case) | C7Contract (c : contract_case).
Definition c07_any_check (c : c07_any) : bool :=
  match c with C7Pool p => pool_check p | C7Contract k => contract_check k end.
Definition c07_any_diag (c : c07_any) : Z :=
  match c with C7Pool p => pool_diag p | C7Contract _ => -2 end.
