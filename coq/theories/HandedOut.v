(* HandedOut.v — what the store hands out as a host is that node's own record: every node is kept
   under its own id, so an entry of an ActiveHosts answer (the candidates of a peer request, hence
   what a client is handed) is the record registered for the id it carries — its address is the
   address normalised at that node's own registration (NodeURI.v), not another node's. *)
From VP Require Import Base Nonce Store StoreProofs.

Definition KeyInv (st : sstate) : Prop := forall k nd, In (k, nd) (s_nodes st) -> n_id nd = k.

Lemma in_aset {V} (k : N) (v : V) m k' v' : In (k', v') (aset k v m) -> (k' = k /\ v' = v) \/ In (k', v') m.
Proof.
  induction m as [|[k0 v0] m IH]; cbn.
  - intros [[= <- <-]|[]]. now left.
  - destruct (N.eqb k k0) eqn:E; cbn.
    + intros [[= <- <-]|H]; [now left|right; now right].
    + intros [[= <- <-]|H]; [right; now left|]. destruct (IH H) as [?|?]; [now left|right; now right].
Qed.

Lemma KeyInv_s0 : KeyInv s0.
Proof. intros k nd []. Qed.

Lemma KeyInv_step X E now st o : KeyInv st -> KeyInv (fst (sstep X E now st o)).
Proof.
  intros HK. destruct o; cbn [sstep]; try exact HK.
  - destruct (nstep E (s_nonce st) _) as [m ok]. exact HK.
  - destruct (aget i (s_nodes st)); exact HK.
  - destruct (N.eqb (n_id nd) 0); [exact HK|]. intros k nd' Hin. cbn in Hin.
    apply in_aset in Hin as [[-> ->]|Hin]; [reflexivity|now apply HK].
  - destruct (registered st i); exact HK.
  - destruct (aget i (s_nodes st)) as [nd|] eqn:Hg; [|exact HK].
    intros k nd' Hin. cbn in Hin. apply in_aset in Hin as [[-> ->]|Hin]; [|now apply HK].
    cbn. apply HK. now apply aget_in.
  - destruct (registered st i); exact HK.
  - destruct (registered st i); [|exact HK]. destruct (aget i (s_link st)); exact HK.
  - destruct (registered st i); exact HK.
  - destruct (aget i (s_link st)) as [a'|]; [destruct (N.eqb a a')|]; exact HK.
  - intros k nd' Hin. cbn in Hin. apply in_map_iff in Hin as [[k0 nd0] [[= <- <-] Hin]]. cbn. now apply HK.
Qed.

Lemma KeyInv_run X E ops : forall st, KeyInv st -> KeyInv (srun X E st ops).
Proof. induction ops as [|[now o] r IH]; intros st H; [exact H|]. cbn. apply IH. now apply KeyInv_step. Qed.

Lemma aget_of_in_nodup {V} (k : N) (v : V) m : NoDup (akeys m) -> In (k, v) m -> aget k m = Some v.
Proof.
  induction m as [|[k0 v0] m IH]; cbn; [intros _ []|].
  intros Hnd [[= -> ->]|Hin]; [now rewrite N.eqb_refl|].
  inversion Hnd as [|? ? Hni Hnd']; subst.
  destruct (N.eqb k k0) eqn:E; [|now apply IH].
  apply N.eqb_eq in E; subst. exfalso. apply Hni. unfold akeys. apply in_map_iff. now exists (k0, v).
Qed.

(* every entry of every ActiveHosts answer, in every reachable state, is the record the store
   holds for the id the entry carries: an active host of the asked kind, under its own identity *)
Theorem hosts_handed_out_are_own_records X E ops now kind limit elig lim nd :
  let st := srun X E s0 ops in
  snd (sstep X E now st (ActiveHosts kind limit)) = RHosts elig lim -> In nd elig ->
  aget (n_id nd) (s_nodes st) = Some nd /\ eligible_host X now kind nd = true.
Proof.
  cbn zeta. cbn [sstep snd]. intros [= <- _] Hin.
  apply filter_In in Hin as [Hin He]. split; [|exact He].
  apply in_map_iff in Hin as [[k nd0] [Heq Hin]]. cbn in Heq. subst nd0.
  pose proof (KeyInv_run X E ops s0 KeyInv_s0 k nd Hin) as Hk. subst k.
  apply aget_of_in_nodup; [|exact Hin].
  pose proof (Inv_run X E ops s0 Inv_s0) as HI. unfold Inv in HI. tauto.
Qed.
