(* SerialFull.v — keep-alives of pairwise distinct nodes are serialisable (C10).
   Any interleaving of the store actions of the requests' programs (Conc.update_prog) that runs
   them all to completion leaves the node records, the peer sets and the account links of the
   serial execution in the order in which the requests performed their UpdatePeers action, and
   the same balances.  (Requests of ONE node are kept apart by the per-node lock: Locks.v; without
   it the statement is false: SerialProofs.serialisable_refuted.) *)
From Coq Require Import Permutation.
From VP Require Import Base Nonce Store StoreProofs Pool PoolProofs BalanceProofs Conc ConcProofs SerialProofs.

Record ureq := { u_id : N; u_rep : list N; u_blk : N; u_nowb : Z }.
Definition uprog (cfg : pcfg) (u : ureq) : prog := update_prog cfg (u_id u) (u_rep u) (u_blk u) (u_nowb u).

(* ---------- what each kind of action touches ---------- *)
Definition np_eq (a b : sstate) : Prop := s_nodes a = s_nodes b /\ s_peers a = s_peers b.
Definition bal_eq (a b : sstate) : Prop := s_link a = s_link b /\ s_acct a = s_acct b /\ s_trial a = s_trial b.

Lemma getnode_same X E now st i : fst (sstep X E now st (GetNode i)) = st.
Proof. cbn. destruct (aget i (s_nodes st)); reflexivity. Qed.
Lemma nodepeers_same X E now st i : fst (sstep X E now st (NodePeers i)) = st.
Proof. cbn. destruct (registered st i); reflexivity. Qed.
Lemma getnodebal_same X E now st i : fst (sstep X E now st (GetNodeBal i)) = st.
Proof. cbn. destruct (registered st i); reflexivity. Qed.
Lemma addnodebal_np X E now st i d : np_eq (fst (sstep X E now st (AddNodeBal i d))) st /\
  s_link (fst (sstep X E now st (AddNodeBal i d))) = s_link st /\ s_nonce (fst (sstep X E now st (AddNodeBal i d))) = s_nonce st.
Proof.
  cbn. destruct (registered st i); [|repeat split].
  destruct (aget i (s_link st)); repeat split.
Qed.
Lemma updatepeers_bal X E now st i rep blk : bal_eq (fst (sstep X E now st (UpdatePeers i rep blk))) st /\
  s_nonce (fst (sstep X E now st (UpdatePeers i rep blk))) = s_nonce st.
Proof. cbn. destruct (aget i (s_nodes st)); repeat split. Qed.

(* ---------- the balance phase of a keep-alive, as the list of credits still to be applied ---------- *)
Inductive tail : list (N * Z) -> prog -> Prop :=
| TDone : tail [] (Done 0)
| TRead i k adds : (forall r, tail adds (k r)) -> tail adds (Call (GetNodeBal i) k)
| TAdd i d adds k : tail adds (k ROk) -> tail ((i, d) :: adds) (Call (AddNodeBal i d) k).

Definition adds_of (cfg : pcfg) (nowb : Z) (b0 : node) (act : list N) : list (N * Z) :=
  if billable cfg b0 nowb then
    let c := interval_credit cfg nowb (n_seen b0) in
    map (fun q => (q, c)) act ++ [(n_id b0, - (Z.of_nat (length act) * c))]
  else [].

Lemma tail_read_back i : tail [] (read_back i).
Proof. unfold read_back. constructor. intros r. constructor. Qed.

Lemma tail_credit_prog c K (final : Z -> list (N * Z)) : forall peers tot,
  (forall t, tail (final t) (K t)) ->
  tail (map (fun q => (q, c)) peers ++ final (tot + Z.of_nat (length peers) * c)) (credit_prog peers c tot K).
Proof.
  induction peers as [|q rest IH]; intros tot HK; cbn [credit_prog map app length].
  - replace (tot + Z.of_nat 0 * c) with tot by lia. apply HK.
  - constructor. replace (tot + Z.of_nat (S (length rest)) * c) with ((tot + c) + Z.of_nat (length rest) * c) by lia.
    apply IH. exact HK.
Qed.

(* the balance manager's part of a keep-alive applies exactly [adds_of] (when every credited peer
   and the node itself are registered, every credit is acknowledged) *)
Lemma tail_on_update_prog cfg nowb b0 act :
  tail (adds_of cfg nowb b0 act) (on_update_prog cfg nowb b0 act).
Proof.
  unfold adds_of, on_update_prog, billable.
  destruct (n_host b0); cbn [negb andb]; [apply tail_read_back|].
  destruct ((p_interval cfg <=? 0) || (p_price cfg =? 0)); cbn [negb andb]; [constructor|].
  destruct (interval_credit cfg nowb (n_seen b0) =? 0) eqn:Hc; cbn [negb]; [apply tail_read_back|].
  set (c := interval_credit cfg nowb (n_seen b0)).
  apply (tail_credit_prog c _ (fun t => [(n_id b0, - t)]) act 0).
  intros t. constructor. apply tail_read_back.
Qed.

(* ---------- the effect of a schedule, as a function of the order of the UpdatePeers actions ---------- *)
Definition act_of (st : sstate) (i : N) : list N := map n_id (nodes_of st (akeys (peers_of st i))).
Definition up_op (u : ureq) : sop := UpdatePeers (u_id u) (u_rep u) (u_blk u).

Fixpoint up_run (X E : Z) (st : sstate) (us : list ureq) (order : list (nat * Z)) : sstate :=
  match order with
  | [] => st
  | (t, now) :: r =>
      match nth_error us t with
      | Some u => up_run X E (fst (sstep X E now st (up_op u))) us r
      | None => up_run X E st us r
      end
  end.

Definition full_adds (X E : Z) (cfg : pcfg) (st : sstate) (u : ureq) (now : Z) : list (N * Z) :=
  match aget (u_id u) (s_nodes st) with
  | Some b0 => adds_of cfg (u_nowb u) b0 (act_of (fst (sstep X E now st (up_op u))) (u_id u))
  | None => []
  end.

Fixpoint adds_run (X E : Z) (cfg : pcfg) (st : sstate) (us : list ureq) (order : list (nat * Z)) : list (N * Z) :=
  match order with
  | [] => []
  | (t, now) :: r =>
      match nth_error us t with
      | Some u => full_adds X E cfg st u now ++ adds_run X E cfg (fst (sstep X E now st (up_op u))) us r
      | None => adds_run X E cfg st us r
      end
  end.

Lemma up_run_app X E us o1 : forall st o2, up_run X E st us (o1 ++ o2) = up_run X E (up_run X E st us o1) us o2.
Proof.
  induction o1 as [|[t now] r IH]; intros st o2; cbn [app up_run]; auto.
  destruct (nth_error us t); apply IH.
Qed.
Lemma adds_run_app X E cfg us o1 : forall st o2,
  adds_run X E cfg st us (o1 ++ o2) = adds_run X E cfg st us o1 ++ adds_run X E cfg (up_run X E st us o1) us o2.
Proof.
  induction o1 as [|[t now] r IH]; intros st o2; cbn [app up_run adds_run]; auto.
  destruct (nth_error us t); [rewrite IH, app_assoc; reflexivity|apply IH].
Qed.

(* UpdatePeers and what follows it read the node records and peer sets only *)
Lemma up_np X E now a b u : np_eq a b -> np_eq (fst (sstep X E now a (up_op u))) (fst (sstep X E now b (up_op u))).
Proof.
  intros [Hn Hp]. unfold up_op. cbn [sstep]. rewrite Hn. destruct (aget (u_id u) (s_nodes b)); cbn [fst]; [|split; assumption].
  unfold peers_of. rewrite Hp. split; cbn; rewrite ?Hn, ?Hp; reflexivity.
Qed.
Lemma act_of_np a b i : np_eq a b -> act_of a i = act_of b i.
Proof. intros [Hn Hp]. unfold act_of, nodes_of, peers_of. now rewrite Hn, Hp. Qed.
Lemma full_adds_np X E cfg a b u now : np_eq a b -> full_adds X E cfg a u now = full_adds X E cfg b u now.
Proof.
  intros H. unfold full_adds. destruct H as [Hn Hp]. rewrite Hn.
  destruct (aget (u_id u) (s_nodes b)); auto. f_equal. apply act_of_np. apply up_np. split; assumption.
Qed.
Lemma up_run_np X E us order : forall a b, np_eq a b -> np_eq (up_run X E a us order) (up_run X E b us order).
Proof.
  induction order as [|[t now] r IH]; intros a b H; cbn [up_run]; auto.
  destruct (nth_error us t); auto. apply IH. now apply up_np.
Qed.
Lemma adds_run_np X E cfg us order : forall a b, np_eq a b -> adds_run X E cfg a us order = adds_run X E cfg b us order.
Proof.
  induction order as [|[t now] r IH]; intros a b H; cbn [adds_run]; auto.
  destruct (nth_error us t); auto. rewrite (full_adds_np X E cfg a b u now H). f_equal. apply IH. now apply up_np.
Qed.

(* ---------- residual programs of a keep-alive ---------- *)
Definition cont (p : prog) (r : sres) : prog := match p with Call _ k => k r | Done s => Done s end.
Definition r1 (cfg : pcfg) (u : ureq) (b0 : node) : prog := cont (uprog cfg u) (RNode b0).
Definition r2 (cfg : pcfg) (u : ureq) (b0 : node) : prog := cont (r1 cfg u b0) (RIds []).

Lemma uprog_shape cfg u : exists k, uprog cfg u = Call (GetNode (u_id u)) k.
Proof. unfold uprog, update_prog. eexists. reflexivity. Qed.
Lemma r1_shape cfg u b0 : exists k, r1 cfg u b0 = Call (up_op u) k /\ forall g, k (RIds g) = r2 cfg u b0.
Proof. unfold r1, r2, uprog, update_prog, cont, up_op. eexists. split; reflexivity. Qed.
Lemma r2_shape cfg u b0 : exists k, r2 cfg u b0 = Call (NodePeers (u_id u)) k /\
  forall act, k (RNodes act) = on_update_prog cfg (u_nowb u) b0 (map n_id act).
Proof. unfold r2, r1, uprog, update_prog, cont. eexists. split; reflexivity. Qed.

(* ---------- facts about one thread that the actions of the others preserve ---------- *)
Lemma act_of_change st st' i j nd nd' :
  s_nodes st' = aset j nd' (s_nodes st) -> aget j (s_nodes st) = Some nd -> n_id nd' = n_id nd ->
  peers_of st' i = peers_of st i -> act_of st' i = act_of st i.
Proof.
  intros Hn Hj Hid Hp. unfold act_of. rewrite Hp. unfold nodes_of. rewrite Hn.
  induction (akeys (peers_of st i)) as [|q r IH]; cbn [flat_map]; auto.
  rewrite !map_app, IH. f_equal. rewrite aget_aset.
  destruct (N.eqb_spec q j) as [->|]; [rewrite Hj; cbn; now rewrite Hid|reflexivity].
Qed.

Lemma up_other X E now st u i :
  u_id u <> i ->
  let st' := fst (sstep X E now st (up_op u)) in
  aget i (s_nodes st') = aget i (s_nodes st) /\ peers_of st' i = peers_of st i /\ act_of st' i = act_of st i.
Proof.
  intros Hne. unfold up_op. cbn [sstep].
  destruct (aget (u_id u) (s_nodes st)) as [nd|] eqn:Hj; cbn [fst]; [|auto].
  assert (Hp : forall N' P', peers_of (upd_peers (upd_nodes st N') (aset (u_id u) P' (s_peers st))) i = peers_of st i).
  { intros N' P'. unfold peers_of. cbn. rewrite aget_aset_other; auto. }
  split; [|split].
  - cbn. rewrite aget_aset_other; auto.
  - apply Hp.
  - eapply act_of_change; [cbn; reflexivity|exact Hj|reflexivity|apply Hp].
Qed.

Lemma act_registered st i q : NodeKeys st -> In q (act_of st i) -> registered st q = true.
Proof.
  intros HK. unfold act_of, nodes_of. rewrite in_map_iff. intros [nd [Hid Hin]].
  apply in_flat_map in Hin. destruct Hin as [k [_ Hk]].
  destruct (aget k (s_nodes st)) as [nd'|] eqn:Hg; [|contradiction]. destruct Hk as [<-|[]].
  rewrite (HK k nd' Hg) in Hid. subst q. unfold registered, amem. now rewrite Hg.
Qed.

Lemma add_bal_effect X E now st i d :
  registered st i = true ->
  let st' := fst (sstep X E now st (AddNodeBal i d)) in
  forall j, b_credit (node_bal st' j) = b_credit (node_bal st j) + (if same_owner st i j then d else 0).
Proof.
  intros Hr. cbn [sstep]. rewrite Hr. unfold same_owner, node_bal.
  destruct (aget i (s_link st)) as [a|] eqn:Hi; cbn [fst upd_acct upd_trial s_link s_nodes s_acct s_trial]; intros j.
  - destruct (aget j (s_link st)) as [b|].
    + unfold acct_bal at 1. cbn [s_acct upd_acct]. rewrite aget_aset. rewrite (N.eqb_sym a b).
      destruct (N.eqb_spec b a) as [->|]; cbn; [|unfold acct_bal; lia]. lia.
    + unfold trial_bal. cbn. lia.
  - destruct (aget j (s_link st)) as [b|].
    + unfold acct_bal. cbn. lia.
    + unfold trial_bal at 1. cbn [s_trial upd_trial]. rewrite aget_aset. rewrite (N.eqb_sym i j).
      destruct (N.eqb_spec j i) as [->|]; cbn; [|unfold trial_bal; lia]. lia.
Qed.

(* ---------- the invariant of an arbitrary interleaving ---------- *)
Inductive phase :=
| PhStart
| PhRead (b0 : node)
| PhUpdated (b0 : node) (full : list (N * Z))
| PhBal (todo : list (N * Z)).

Definition pending (ph : phase) : list (N * Z) :=
  match ph with PhUpdated _ full => full | PhBal todo => todo | _ => [] end.

Definition tinv (cfg : pcfg) (st : sstate) (order : list (nat * Z)) (t : nat) (u : ureq) (ph : phase) (p : prog) : Prop :=
  match ph with
  | PhStart => p = uprog cfg u /\ ~ In t (map fst order)
  | PhRead b0 => p = r1 cfg u b0 /\ ~ In t (map fst order) /\ aget (u_id u) (s_nodes st) = Some b0
  | PhUpdated b0 full => p = r2 cfg u b0 /\ In t (map fst order) /\ full = adds_of cfg (u_nowb u) b0 (act_of st (u_id u)) /\
                         n_id b0 = u_id u
  | PhBal todo => tail todo p /\ In t (map fst order)
  end.

Definition all_reg (st : sstate) (l : list (N * Z)) : Prop := forall q d, In (q, d) l -> registered st q = true.

Record INV (cfg : pcfg) (X E : Z) (st0 : sstate) (us : list ureq) (c : conf)
           (order : list (nat * Z)) (applied : list (N * Z)) (phs : list phase) : Prop := {
  i_keys : NodeKeys (c_st c);
  i_reg : forall u, In u us -> registered (c_st c) (u_id u) = true;
  i_np : np_eq (c_st c) (up_run X E st0 us order);
  i_link : s_link (c_st c) = s_link st0;
  i_bal : forall j, b_credit (node_bal (c_st c) j) = b_credit (node_bal st0 j) + delta_sum st0 applied j;
  i_nodup : NoDup (map fst order);
  i_valid : forall t now, In (t, now) order -> (t < length us)%nat;
  i_len1 : length phs = length us;
  i_len2 : length (c_thr c) = length us;
  i_thr : forall t u ph p, nth_error us t = Some u -> nth_error phs t = Some ph -> nth_error (c_thr c) t = Some p ->
          tinv cfg (c_st c) order t u ph p;
  i_pend_reg : forall ph, In ph phs -> all_reg (c_st c) (pending ph);
  i_perm : Permutation (applied ++ concat (map pending phs)) (adds_run X E cfg st0 us order)
}.

Lemma nth_upd_nth_same {A} (l : list A) n x : (n < length l)%nat -> nth_error (upd_nth n x l) n = Some x.
Proof. revert n; induction l as [|y r IH]; intros [|n] H; cbn in *; try lia; auto. apply IH. lia. Qed.
Lemma nth_upd_nth_other {A} (l : list A) n m x : n <> m -> nth_error (upd_nth n x l) m = nth_error l m.
Proof. revert n m; induction l as [|y r IH]; intros [|n] [|m] H; cbn; auto; congruence. Qed.
Lemma upd_nth_length {A} (l : list A) n x : length (upd_nth n x l) = length l.
Proof. revert n; induction l as [|y r IH]; intros [|n]; cbn; auto. Qed.

(* replacing the phase of one thread changes the pending credits by that thread's share only *)
Lemma pending_split phs : forall t ph, nth_error phs t = Some ph ->
  exists rest, Permutation (concat (map pending phs)) (pending ph ++ rest) /\
               forall ph', Permutation (concat (map pending (upd_nth t ph' phs))) (pending ph' ++ rest).
Proof.
  induction phs as [|p0 r IH]; intros [|t] ph H; cbn in H; try discriminate.
  - injection H as ->. exists (concat (map pending r)). split; cbn; [reflexivity|intros; reflexivity].
  - destruct (IH t ph H) as [rest [H1 H2]]. exists (pending p0 ++ rest). split.
    + cbn. rewrite H1. rewrite !app_assoc. apply Permutation_app_tail. apply Permutation_app_comm.
    + intros ph'. cbn. rewrite (H2 ph'). rewrite !app_assoc. apply Permutation_app_tail. apply Permutation_app_comm.
Qed.

Lemma node_bal_bal_eq a b j : bal_eq a b -> node_bal a j = node_bal b j.
Proof. intros (Hl & Ha & Ht). unfold node_bal, acct_bal, trial_bal. now rewrite Hl, Ha, Ht. Qed.
Lemma delta_sum_app st a b j : delta_sum st (a ++ b) j = delta_sum st a j + delta_sum st b j.
Proof. induction a as [|[i d] r IH]; cbn; [lia|rewrite IH; lia]. Qed.

Lemma tinv_np cfg st st' order t u ph p : np_eq st' st -> tinv cfg st order t u ph p -> tinv cfg st' order t u ph p.
Proof.
  intros Hnp. destruct ph; cbn; auto.
  - intros (H1 & H2 & H3). destruct Hnp as [Hn _]. rewrite Hn. auto.
  - intros (H1 & H2 & H3 & H4). rewrite (act_of_np st' st _ Hnp). auto.
Qed.

Lemma all_reg_mono X E now st o l : all_reg st l -> all_reg (fst (sstep X E now st o)) l.
Proof. intros H q d Hin. apply registered_mono. eapply H; eauto. Qed.

Lemma adds_of_reg cfg nowb b0 st i : NodeKeys st -> n_id b0 = i -> registered st i = true ->
  all_reg st (adds_of cfg nowb b0 (act_of st i)).
Proof.
  intros HK Hid Hr q d. unfold adds_of. destruct (billable cfg b0 nowb); [|intros []].
  rewrite in_app_iff, in_map_iff. intros [[q' [[= <- <-] Hin]]|[[= <- <-]|[]]].
  - eapply act_registered; eauto.
  - now rewrite Hid.
Qed.

Lemma NoDup_app_single {A} (l : list A) x : NoDup l -> ~ In x l -> NoDup (l ++ [x]).
Proof.
  induction l as [|y r IH]; intros Hnd Hnin; cbn; [constructor; [tauto|constructor]|].
  inversion Hnd; subst. constructor.
  - rewrite in_app_iff. cbn. intros [H|[H|[]]]; [auto|subst; apply Hnin; now left].
  - apply IH; auto. intros H. apply Hnin. now right.
Qed.

Section Step.
  Variables (cfg : pcfg) (X E : Z) (st0 : sstate) (us : list ureq).
  Hypothesis Hdistinct : NoDup (map u_id us).

  Lemma ids_distinct t t' u u' : nth_error us t = Some u -> nth_error us t' = Some u' -> t <> t' -> u_id u <> u_id u'.
  Proof.
    intros H1 H2 Hne Heq. apply Hne.
    assert (G : forall (l : list ureq) a b x y, NoDup (map u_id l) -> nth_error l a = Some x -> nth_error l b = Some y -> u_id x = u_id y -> a = b).
    { clear. induction l as [|z r IH]; intros [|a] [|b] x y Hnd Ha Hb He; cbn in *; try discriminate; auto.
      - injection Ha as ->. inversion Hnd as [|? ? Hn _]; subst. exfalso. apply Hn. rewrite He. apply in_map. eapply nth_error_In; eauto.
      - injection Hb as ->. inversion Hnd as [|? ? Hn _]; subst. exfalso. apply Hn. rewrite <- He. apply in_map. eapply nth_error_In; eauto.
      - f_equal. inversion Hnd; subst. eapply IH; eauto. }
    eapply G; eauto.
  Qed.

  (* the thread is unchanged: nothing to do *)
  Lemma INV_idle c order applied phs : INV cfg X E st0 us c order applied phs -> INV cfg X E st0 us c order applied phs.
  Proof. auto. Qed.

  (* a step that leaves the store unchanged and only advances thread t from phase ph to ph' with the same pending credits *)
  Lemma INV_pure c order applied phs t u ph ph' p' :
    INV cfg X E st0 us c order applied phs ->
    nth_error us t = Some u -> nth_error phs t = Some ph ->
    pending ph' = pending ph ->
    tinv cfg (c_st c) order t u ph' p' ->
    INV cfg X E st0 us {| c_st := c_st c; c_thr := upd_nth t p' (c_thr c) |} order applied (upd_nth t ph' phs).
  Proof.
    intros I Hu Hph Hpend Ht'.
    assert (Hlt : (t < length us)%nat) by (apply nth_error_Some; congruence).
    destruct I. constructor; cbn [c_st c_thr]; auto.
    - now rewrite upd_nth_length.
    - now rewrite upd_nth_length.
    - intros t1 u1 ph1 p1 Hu1 Hph1 Hp1. destruct (Nat.eq_dec t t1) as [<-|Hne].
      + rewrite nth_upd_nth_same in Hph1 by lia. rewrite nth_upd_nth_same in Hp1 by lia.
        injection Hph1 as <-. injection Hp1 as <-. rewrite Hu in Hu1. injection Hu1 as <-. exact Ht'.
      + rewrite nth_upd_nth_other in Hph1 by auto. rewrite nth_upd_nth_other in Hp1 by auto. eapply i_thr0; eauto.
    - intros ph1 Hin. apply In_nth_error in Hin. destruct Hin as [t1 Ht1].
      destruct (Nat.eq_dec t t1) as [<-|Hne].
      + rewrite nth_upd_nth_same in Ht1 by lia. injection Ht1 as <-. rewrite Hpend. apply i_pend_reg0. eapply nth_error_In; eauto.
      + rewrite nth_upd_nth_other in Ht1 by auto. apply i_pend_reg0. eapply nth_error_In; eauto.
    - destruct (pending_split phs t ph Hph) as [rest [H1 H2]]. rewrite (H2 ph'), Hpend, <- H1. exact i_perm0.
  Qed.

  (* thread t performs its UpdatePeers action *)
  Lemma INV_update c order applied phs t u b0 now :
    INV cfg X E st0 us c order applied phs ->
    nth_error us t = Some u -> nth_error phs t = Some (PhRead b0) ->
    nth_error (c_thr c) t = Some (r1 cfg u b0) ->
    let st' := fst (sstep X E now (c_st c) (up_op u)) in
    INV cfg X E st0 us {| c_st := st'; c_thr := upd_nth t (r2 cfg u b0) (c_thr c) |}
        (order ++ [(t, now)]) applied
        (upd_nth t (PhUpdated b0 (adds_of cfg (u_nowb u) b0 (act_of st' (u_id u)))) phs).
  Proof.
    intros I Hu Hph Hp st'.
    assert (Hlt : (t < length us)%nat) by (apply nth_error_Some; congruence).
    pose proof (i_thr _ _ _ _ _ _ _ _ _ I t u (PhRead b0) _ Hu Hph Hp) as (_ & Hnin & Hb0).
    pose proof (i_keys _ _ _ _ _ _ _ _ _ I) as HK.
    assert (HK' : NodeKeys st') by (apply NodeKeys_step; exact HK).
    assert (Hidb : n_id b0 = u_id u) by (apply (HK _ _ Hb0)).
    destruct (updatepeers_bal X E now (c_st c) (u_id u) (u_rep u) (u_blk u)) as [Hbal _]. fold (up_op u) in Hbal. fold st' in Hbal.
    destruct I. constructor; cbn [c_st c_thr]; auto.
    - intros u1 Hin. apply registered_mono. auto.
    - rewrite up_run_app. cbn [up_run]. rewrite Hu. apply up_np. exact i_np0.
    - destruct Hbal as (Hl & _). now rewrite Hl.
    - intros j. rewrite (node_bal_bal_eq st' (c_st c) j Hbal). apply i_bal0.
    - rewrite map_app. cbn. apply NoDup_app_single; auto.
    - intros t1 now1 Hin. apply in_app_iff in Hin. destruct Hin as [Hin|[[= <- <-]|[]]]; eauto.
    - now rewrite upd_nth_length.
    - now rewrite upd_nth_length.
    - intros t1 u1 ph1 p1 Hu1 Hph1 Hp1. destruct (Nat.eq_dec t t1) as [<-|Hne].
      + rewrite nth_upd_nth_same in Hph1 by lia. rewrite nth_upd_nth_same in Hp1 by lia.
        injection Hph1 as <-. injection Hp1 as <-. rewrite Hu in Hu1. injection Hu1 as <-.
        cbn. repeat split; auto. rewrite map_app, in_app_iff. right. now left.
      + rewrite nth_upd_nth_other in Hph1 by auto. rewrite nth_upd_nth_other in Hp1 by auto.
        pose proof (i_thr0 t1 u1 ph1 p1 Hu1 Hph1 Hp1) as Ht1.
        pose proof (ids_distinct t t1 u u1 Hu Hu1 Hne) as Hids.
        destruct (up_other X E now (c_st c) u (u_id u1) Hids) as (Ha & _ & Hact). fold st' in Ha, Hact.
        destruct ph1; cbn in *.
        * destruct Ht1 as [H1 H2]. split; auto. rewrite map_app, in_app_iff. cbn. intros [H|[H|[]]]; [auto|congruence].
        * destruct Ht1 as (H1 & H2 & H3). repeat split; auto.
          -- rewrite map_app, in_app_iff. cbn. intros [H|[H|[]]]; [auto|congruence].
          -- now rewrite Ha.
        * destruct Ht1 as (H1 & H2 & H3 & H4). repeat split; auto.
          -- rewrite map_app, in_app_iff. now left.
          -- now rewrite Hact.
        * destruct Ht1 as (H1 & H2). split; auto. rewrite map_app, in_app_iff. now left.
    - intros ph1 Hin. apply In_nth_error in Hin. destruct Hin as [t1 Ht1].
      destruct (Nat.eq_dec t t1) as [<-|Hne].
      + rewrite nth_upd_nth_same in Ht1 by lia. injection Ht1 as <-. cbn [pending].
        apply adds_of_reg; auto. apply registered_mono. apply i_reg0. eapply nth_error_In; eauto.
      + rewrite nth_upd_nth_other in Ht1 by auto. apply all_reg_mono. apply i_pend_reg0. eapply nth_error_In; eauto.
    - rewrite adds_run_app. cbn [adds_run]. rewrite Hu, app_nil_r.
      assert (Hfull : full_adds X E cfg (up_run X E st0 us order) u now = adds_of cfg (u_nowb u) b0 (act_of st' (u_id u))).
      { rewrite <- (full_adds_np X E cfg (c_st c) _ u now i_np0). unfold full_adds. now rewrite Hb0. }
      rewrite Hfull.
      destruct (pending_split phs t (PhRead b0) Hph) as [rest [H1 H2]]. rewrite (H2 (PhUpdated b0 _)). cbn [pending] in *.
      rewrite <- i_perm0, H1. cbn [app]. rewrite (Permutation_app_comm (adds_of _ _ _ _)), app_assoc. reflexivity.
  Qed.

  (* thread t applies its next credit *)
  Lemma INV_add c order applied phs t u q d adds p' now :
    INV cfg X E st0 us c order applied phs ->
    nth_error us t = Some u -> nth_error phs t = Some (PhBal ((q, d) :: adds)) ->
    In t (map fst order) -> tail adds p' ->
    let st' := fst (sstep X E now (c_st c) (AddNodeBal q d)) in
    INV cfg X E st0 us {| c_st := st'; c_thr := upd_nth t p' (c_thr c) |} order (applied ++ [(q, d)]) (upd_nth t (PhBal adds) phs).
  Proof.
    intros I Hu Hph Hin Htail st'.
    assert (Hlt : (t < length us)%nat) by (apply nth_error_Some; congruence).
    destruct (addnodebal_np X E now (c_st c) q d) as (Hnp & Hl & _). fold st' in Hnp, Hl.
    assert (Hq : registered (c_st c) q = true).
    { apply (i_pend_reg _ _ _ _ _ _ _ _ _ I (PhBal ((q, d) :: adds))) with (d := d); [eapply nth_error_In; eauto|now left]. }
    pose proof (add_bal_effect X E now (c_st c) q d Hq) as Heff. fold st' in Heff.
    destruct I. constructor; cbn [c_st c_thr]; auto.
    - apply NodeKeys_step. exact i_keys0.
    - intros u1 Hin1. apply registered_mono. auto.
    - destruct Hnp as [Hn Hp]. destruct i_np0 as [Hn0 Hp0]. split; congruence.
    - congruence.
    - intros j. rewrite Heff, i_bal0, delta_sum_app. cbn [delta_sum].
      rewrite (same_owner_links st0 (c_st c)) by auto. lia.
    - now rewrite upd_nth_length.
    - now rewrite upd_nth_length.
    - intros t1 u1 ph1 p1 Hu1 Hph1 Hp1. destruct (Nat.eq_dec t t1) as [<-|Hne].
      + rewrite nth_upd_nth_same in Hph1 by lia. rewrite nth_upd_nth_same in Hp1 by lia.
        injection Hph1 as <-. injection Hp1 as <-. cbn. split; auto.
      + rewrite nth_upd_nth_other in Hph1 by auto. rewrite nth_upd_nth_other in Hp1 by auto.
        apply (tinv_np cfg (c_st c) st'); [exact Hnp|]. eapply i_thr0; eauto.
    - intros ph1 Hin1. apply In_nth_error in Hin1. destruct Hin1 as [t1 Ht1].
      destruct (Nat.eq_dec t t1) as [<-|Hne].
      + rewrite nth_upd_nth_same in Ht1 by lia. injection Ht1 as <-. cbn [pending].
        intros q1 d1 Hin1. apply registered_mono.
        apply (i_pend_reg0 (PhBal ((q, d) :: adds))) with (d := d1); [eapply nth_error_In; eauto|now right].
      + rewrite nth_upd_nth_other in Ht1 by auto. apply all_reg_mono. apply i_pend_reg0. eapply nth_error_In; eauto.
    - destruct (pending_split phs t _ Hph) as [rest [H1 H2]]. rewrite (H2 (PhBal adds)). cbn [pending] in *.
      rewrite <- i_perm0, H1. rewrite <- !app_assoc. apply Permutation_app_head. cbn. reflexivity.
  Qed.

  Lemma up_result now st u b0 : aget (u_id u) (s_nodes st) = Some b0 -> exists g, snd (sstep X E now st (up_op u)) = RIds g.
  Proof. intros H. unfold up_op. cbn [sstep]. rewrite H. eexists. reflexivity. Qed.

  Lemma sched_step_eq c t now o k :
    nth_error (c_thr c) t = Some (Call o k) ->
    sched_step X E c (t, now) = {| c_st := fst (sstep X E now (c_st c) o); c_thr := upd_nth t (k (snd (sstep X E now (c_st c) o))) (c_thr c) |}.
  Proof. intros H. unfold sched_step. rewrite H. destruct (sstep X E now (c_st c) o); reflexivity. Qed.

  Lemma conf_eta c : c = {| c_st := c_st c; c_thr := c_thr c |}.
  Proof. destruct c; reflexivity. Qed.

  (* one scheduled action keeps the invariant; the order grows by at most one entry *)
  Lemma INV_step c order applied phs ev :
    INV cfg X E st0 us c order applied phs ->
    exists order' applied' phs', INV cfg X E st0 us (sched_step X E c ev) order' applied' phs'.
  Proof.
    intros I. destruct ev as [t now].
    destruct (nth_error (c_thr c) t) as [[s|o k]|] eqn:Hp.
    - exists order, applied, phs. unfold sched_step. now rewrite Hp.
    - rewrite (sched_step_eq c t now o k Hp).
      assert (Hlt : (t < length us)%nat).
      { rewrite <- (i_len2 _ _ _ _ _ _ _ _ _ I). apply nth_error_Some. congruence. }
      destruct (nth_error us t) as [u|] eqn:Hu; [|apply nth_error_None in Hu; lia].
      destruct (nth_error phs t) as [ph|] eqn:Hph; [|apply nth_error_None in Hph; rewrite (i_len1 _ _ _ _ _ _ _ _ _ I) in Hph; lia].
      pose proof (i_thr _ _ _ _ _ _ _ _ _ I t u ph _ Hu Hph Hp) as Ht.
      pose proof (i_reg _ _ _ _ _ _ _ _ _ I u (nth_error_In _ _ Hu)) as Hreg.
      destruct ph as [|b0|b0 full|todo]; cbn [tinv] in Ht.
      + (* GetNode *)
        destruct Ht as [Hprog Hnin]. destruct (uprog_shape cfg u) as [k0 Hk0]. rewrite Hk0 in Hprog.
        injection Hprog as -> ->.
        unfold registered, amem in Hreg. destruct (aget (u_id u) (s_nodes (c_st c))) as [b0|] eqn:Hb0; [|discriminate].
        assert (Hs : sstep X E now (c_st c) (GetNode (u_id u)) = (c_st c, RNode b0)) by (cbn; now rewrite Hb0).
        rewrite Hs. cbn [fst snd].
        exists order, applied, (upd_nth t (PhRead b0) phs).
        replace (k0 (RNode b0)) with (r1 cfg u b0) by (unfold r1, cont; now rewrite Hk0).
        apply (INV_pure c order applied phs t u PhStart (PhRead b0)); auto. cbn. auto.
      + (* UpdatePeers *)
        destruct Ht as (Hprog & Hnin & Hb0). destruct (r1_shape cfg u b0) as [k1 [Hk1 Hk1r]]. rewrite Hk1 in Hprog.
        injection Hprog as -> ->. destruct (up_result now (c_st c) u b0 Hb0) as [g Hg]. rewrite Hg, Hk1r.
        eexists. eexists. eexists. apply (INV_update c order applied phs t u b0 now); auto. now rewrite Hp, Hk1.
      + (* NodePeers *)
        destruct Ht as (Hprog & Hin & Hfull & Hid). destruct (r2_shape cfg u b0) as [k2 [Hk2 Hk2r]]. rewrite Hk2 in Hprog.
        injection Hprog as -> ->.
        assert (Hs : sstep X E now (c_st c) (NodePeers (u_id u)) = (c_st c, RNodes (nodes_of (c_st c) (akeys (peers_of (c_st c) (u_id u)))))) by (cbn; now rewrite Hreg).
        rewrite Hs. cbn [fst snd]. rewrite Hk2r.
        exists order, applied, (upd_nth t (PhBal full) phs).
        apply (INV_pure c order applied phs t u (PhUpdated b0 full) (PhBal full)); auto.
        cbn. split; auto. rewrite Hfull. apply tail_on_update_prog.
      + (* the balance phase *)
        destruct Ht as [Htail Hin]. inversion Htail as [|i0 k' adds Hk'|i0 d adds k' Hk']; subst.
        * rewrite getnodebal_same.
          exists order, applied, (upd_nth t (PhBal todo) phs).
          apply (INV_pure c order applied phs t u (PhBal todo) (PhBal todo)); auto. cbn. split; auto.
        * assert (Hq : registered (c_st c) i0 = true).
          { apply (i_pend_reg _ _ _ _ _ _ _ _ _ I (PhBal ((i0, d) :: adds))) with (d := d); [eapply nth_error_In; eauto|now left]. }
          rewrite add_node_bal_res, Hq.
          eexists. eexists. eexists. apply (INV_add c order applied phs t u i0 d adds (k ROk) now); auto.
    - exists order, applied, phs. unfold sched_step. now rewrite Hp.
  Qed.

  Lemma INV_run sch : forall c order applied phs,
    INV cfg X E st0 us c order applied phs ->
    exists order' applied' phs', INV cfg X E st0 us (run_sched X E c sch) order' applied' phs'.
  Proof.
    induction sch as [|ev r IH]; intros c order applied phs I; cbn [run_sched fold_left]; [eauto|].
    destruct (INV_step c order applied phs ev I) as (o1 & a1 & p1 & I1). apply (IH _ _ _ _ I1).
  Qed.

  Lemma INV_init :
    NodeKeys st0 -> (forall u, In u us -> registered st0 (u_id u) = true) ->
    INV cfg X E st0 us {| c_st := st0; c_thr := map (uprog cfg) us |} [] [] (map (fun _ => PhStart) us).
  Proof.
    intros HK Hreg. constructor; cbn [c_st c_thr up_run adds_run map]; auto.
    - split; reflexivity.
    - intros j. cbn. lia.
    - constructor.
    - intros t now [].
    - now rewrite map_length.
    - now rewrite map_length.
    - intros t u ph p Hu Hph Hp. rewrite nth_error_map in Hph, Hp. rewrite Hu in Hph, Hp. cbn in Hph, Hp.
      injection Hph as <-. injection Hp as <-. cbn. auto.
    - intros ph Hin. apply in_map_iff in Hin. destruct Hin as [u [<- _]]. intros q d [].
    - cbn. assert (G : forall l : list ureq, concat (map pending (map (fun _ => PhStart) l)) = []).
      { induction l as [|u r IH]; cbn; auto. }
      rewrite G. constructor.
  Qed.

  (* a complete run is determined by the order of the UpdatePeers actions *)
  Theorem complete_characterisation sch :
    NodeKeys st0 -> (forall u, In u us -> registered st0 (u_id u) = true) ->
    let c' := run_sched X E {| c_st := st0; c_thr := map (uprog cfg) us |} sch in
    forallb finished (c_thr c') = true ->
    exists order,
      Permutation (map fst order) (seq 0 (length us)) /\
      np_eq (c_st c') (up_run X E st0 us order) /\
      s_link (c_st c') = s_link st0 /\
      forall j, b_credit (node_bal (c_st c') j) = b_credit (node_bal st0 j) + delta_sum st0 (adds_run X E cfg st0 us order) j.
  Proof.
    intros HK Hreg c' Hfin.
    destruct (INV_run sch _ _ _ _ (INV_init HK Hreg)) as (order & applied & phs & I). fold c' in I.
    exists order.
    (* every thread has finished: it is past its UpdatePeers and owes no credit *)
    assert (Hall : forall t ph, nth_error phs t = Some ph -> ph = PhBal [] /\ In t (map fst order)).
    { intros t ph Hph.
      assert (Hlt : (t < length us)%nat) by (rewrite <- (i_len1 _ _ _ _ _ _ _ _ _ I); apply nth_error_Some; congruence).
      destruct (nth_error us t) as [u|] eqn:Hu; [|apply nth_error_None in Hu; lia].
      destruct (nth_error (c_thr c') t) as [p|] eqn:Hp; [|apply nth_error_None in Hp; rewrite (i_len2 _ _ _ _ _ _ _ _ _ I) in Hp; lia].
      pose proof (i_thr _ _ _ _ _ _ _ _ _ I t u ph p Hu Hph Hp) as Ht.
      assert (Hd : finished p = true) by (rewrite forallb_forall in Hfin; apply Hfin; eapply nth_error_In; eauto).
      destruct p as [s|o k]; [|discriminate].
      destruct ph as [|b0|b0 full|todo]; cbn [tinv] in Ht.
      - destruct Ht as [Hprog _]. destruct (uprog_shape cfg u) as [k0 Hk0]. rewrite Hk0 in Hprog. discriminate.
      - destruct Ht as [Hprog _]. destruct (r1_shape cfg u b0) as [k1 [Hk1 _]]. rewrite Hk1 in Hprog. discriminate.
      - destruct Ht as [Hprog _]. destruct (r2_shape cfg u b0) as [k2 [Hk2 _]]. rewrite Hk2 in Hprog. discriminate.
      - destruct Ht as [Htail Hin]. inversion Htail; subst. auto. }
    assert (Hpend : concat (map pending phs) = []).
    { assert (G : forall l, (forall ph, In ph l -> ph = PhBal []) -> concat (map pending l) = []).
      { induction l as [|a r IH]; intros H; cbn; auto. rewrite (H a (or_introl eq_refl)). cbn. apply IH. intros; apply H; now right. }
      apply G. intros ph Hin. apply In_nth_error in Hin. destruct Hin as [t Ht]. apply (Hall t ph Ht). }
    split; [|split; [|split]].
    - apply NoDup_Permutation; [apply (i_nodup _ _ _ _ _ _ _ _ _ I)|apply seq_NoDup|].
      intros t. rewrite in_seq. split.
      + intros Hin. apply in_map_iff in Hin. destruct Hin as [[t' now] [<- Hin]]. cbn.
        pose proof (i_valid _ _ _ _ _ _ _ _ _ I t' now Hin). lia.
      + intros [_ Hlt]. cbn in Hlt. rewrite <- (i_len1 _ _ _ _ _ _ _ _ _ I) in Hlt.
        destruct (nth_error phs t) as [ph|] eqn:Hph; [|apply nth_error_None in Hph; lia].
        apply (Hall t ph Hph).
    - apply (i_np _ _ _ _ _ _ _ _ _ I).
    - apply (i_link _ _ _ _ _ _ _ _ _ I).
    - intros j. rewrite (i_bal _ _ _ _ _ _ _ _ _ I j). f_equal. apply delta_sum_perm.
      pose proof (i_perm _ _ _ _ _ _ _ _ _ I) as Hp. rewrite Hpend, app_nil_r in Hp. exact Hp.
  Qed.
End Step.

(* ---------- one request run alone ---------- *)
Lemma delta_sum_links a b l j : s_link a = s_link b -> delta_sum a l j = delta_sum b l j.
Proof. intros H. induction l as [|[i d] r IH]; cbn; auto. now rewrite IH, (same_owner_links b a) by auto. Qed.

Lemma solo_step X E st p now o k :
  p = Call o k ->
  sched_step X E {| c_st := st; c_thr := [p] |} (0%nat, now) =
  {| c_st := fst (sstep X E now st o); c_thr := [k (snd (sstep X E now st o))] |}.
Proof. intros ->. unfold sched_step. cbn. destruct (sstep X E now st o); reflexivity. Qed.

Lemma tail_run X E now : forall todo p, tail todo p -> forall st, all_reg st todo ->
  exists k, let c1 := run_sched X E {| c_st := st; c_thr := [p] |} (repeat (0%nat, now) k) in
    forallb finished (c_thr c1) = true /\ np_eq (c_st c1) st /\ s_link (c_st c1) = s_link st /\
    forall j, b_credit (node_bal (c_st c1) j) = b_credit (node_bal st j) + delta_sum st todo j.
Proof.
  induction 1 as [|i k adds Hk IH|i d adds k Hk IH]; intros st Hreg.
  - exists 0%nat. cbn. repeat split; auto. intros j. lia.
  - destruct (IH (snd (sstep X E now st (GetNodeBal i))) st Hreg) as [n Hn].
    exists (S n). cbn [repeat run_sched fold_left]. change (fold_left (sched_step X E) ?l ?c) with (run_sched X E c l).
    rewrite (solo_step X E st _ now (GetNodeBal i) k eq_refl), getnodebal_same. exact Hn.
  - assert (Hq : registered st i = true) by (apply (Hreg i d); now left).
    set (st1 := fst (sstep X E now st (AddNodeBal i d))).
    assert (Hreg1 : all_reg st1 adds).
    { intros q1 d1 Hin. apply registered_mono. apply (Hreg q1 d1). now right. }
    destruct (IH st1 Hreg1) as [n (Hf & Hnp & Hl & Hb)].
    exists (S n). cbn [repeat run_sched fold_left]. change (fold_left (sched_step X E) ?l ?c) with (run_sched X E c l).
    rewrite (solo_step X E st _ now (AddNodeBal i d) k eq_refl). fold st1. rewrite add_node_bal_res, Hq.
    destruct (addnodebal_np X E now st i d) as (Hnp1 & Hl1 & _). fold st1 in Hnp1, Hl1.
    split; [exact Hf|]. split; [|split].
    + destruct Hnp as [A B]. destruct Hnp1 as [A1 B1]. split; congruence.
    + congruence.
    + intros j. rewrite Hb. pose proof (add_bal_effect X E now st i d Hq j) as He. fold st1 in He. rewrite He.
      cbn [delta_sum]. rewrite (delta_sum_links st1 st adds j Hl1). lia.
Qed.

(* a keep-alive run alone, every action reading the clock value [now]: it completes, and its
   effect is its UpdatePeers action followed by its credits *)
Theorem solo_run X E cfg now st u :
  NodeKeys st -> registered st (u_id u) = true ->
  exists k, let c1 := run_sched X E {| c_st := st; c_thr := [uprog cfg u] |} (repeat (0%nat, now) k) in
    forallb finished (c_thr c1) = true /\
    np_eq (c_st c1) (fst (sstep X E now st (up_op u))) /\ s_link (c_st c1) = s_link st /\
    forall j, b_credit (node_bal (c_st c1) j) = b_credit (node_bal st j) + delta_sum st (full_adds X E cfg st u now) j.
Proof.
  intros HK Hreg.
  unfold registered, amem in Hreg. destruct (aget (u_id u) (s_nodes st)) as [b0|] eqn:Hb0; [|discriminate].
  destruct (uprog_shape cfg u) as [k0 Hk0]. destruct (r1_shape cfg u b0) as [k1 [Hk1 Hk1r]]. destruct (r2_shape cfg u b0) as [k2 [Hk2 Hk2r]].
  set (st1 := fst (sstep X E now st (up_op u))).
  assert (HK1 : NodeKeys st1) by (apply NodeKeys_step; exact HK).
  assert (Hreg1 : registered st1 (u_id u) = true) by (apply registered_mono; unfold registered, amem; now rewrite Hb0).
  assert (Hidb : n_id b0 = u_id u) by (apply (HK _ _ Hb0)).
  pose proof (tail_on_update_prog cfg (u_nowb u) b0 (act_of st1 (u_id u))) as Htail.
  destruct (tail_run X E now _ _ Htail st1 (adds_of_reg cfg (u_nowb u) b0 st1 (u_id u) HK1 Hidb Hreg1)) as [n (Hf & Hnp & Hl & Hb)].
  exists (S (S (S n))). cbn [repeat run_sched fold_left]. change (fold_left (sched_step X E) ?l ?c) with (run_sched X E c l).
  rewrite (solo_step X E st _ now _ k0 Hk0).
  assert (Hs0 : sstep X E now st (GetNode (u_id u)) = (st, RNode b0)) by (cbn; now rewrite Hb0).
  rewrite Hs0. cbn [fst snd].
  replace (k0 (RNode b0)) with (r1 cfg u b0) by (unfold r1, cont; now rewrite Hk0).
  rewrite (solo_step X E st _ now _ k1 Hk1). fold st1.
  destruct (up_result X E now st u b0 Hb0) as [g Hg]. rewrite Hg, Hk1r.
  rewrite (solo_step X E st1 _ now _ k2 Hk2).
  assert (Hs2 : sstep X E now st1 (NodePeers (u_id u)) = (st1, RNodes (nodes_of st1 (akeys (peers_of st1 (u_id u)))))) by (cbn; now rewrite Hreg1).
  rewrite Hs2. cbn [fst snd]. rewrite Hk2r. fold (act_of st1 (u_id u)).
  split; [exact Hf|]. split; [exact Hnp|]. split.
  - rewrite Hl. destruct (updatepeers_bal X E now st (u_id u) (u_rep u) (u_blk u)) as [(A & _) _]. exact A.
  - intros j. rewrite Hb.
    destruct (updatepeers_bal X E now st (u_id u) (u_rep u) (u_blk u)) as [Hbal _]. fold (up_op u) in Hbal. fold st1 in Hbal.
    rewrite (node_bal_bal_eq st1 st j Hbal). f_equal.
    unfold full_adds. rewrite Hb0. fold st1. apply delta_sum_links. destruct Hbal as (A & _). exact A.
Qed.

(* ---------- one-at-a-time execution, and the theorem ---------- *)
Inductive ser_exec (X E : Z) (cfg : pcfg) (us : list ureq) : sstate -> list (nat * Z) -> sstate -> Prop :=
| SE_nil st : ser_exec X E cfg us st [] st
| SE_cons st t now u k order st' :
    nth_error us t = Some u ->
    forallb finished (c_thr (run_sched X E {| c_st := st; c_thr := [uprog cfg u] |} (repeat (0%nat, now) k))) = true ->
    ser_exec X E cfg us (c_st (run_sched X E {| c_st := st; c_thr := [uprog cfg u] |} (repeat (0%nat, now) k))) order st' ->
    ser_exec X E cfg us st ((t, now) :: order) st'.

Lemma ser_exec_exists X E cfg us : forall order st,
  NodeKeys st -> (forall u, In u us -> registered st (u_id u) = true) ->
  (forall t now, In (t, now) order -> (t < length us)%nat) ->
  exists st', ser_exec X E cfg us st order st' /\
    np_eq st' (up_run X E st us order) /\ s_link st' = s_link st /\
    forall j, b_credit (node_bal st' j) = b_credit (node_bal st j) + delta_sum st (adds_run X E cfg st us order) j.
Proof.
  induction order as [|[t now] r IH]; intros st HK Hreg Hval.
  - exists st. split; [constructor|]. split; [split; reflexivity|]. split; auto. intros j. cbn. lia.
  - assert (Hlt : (t < length us)%nat) by (apply (Hval t now); now left).
    destruct (nth_error us t) as [u|] eqn:Hu; [|apply nth_error_None in Hu; lia].
    destruct (solo_run X E cfg now st u HK (Hreg u (nth_error_In _ _ Hu))) as [k (Hf & Hnp & Hl & Hb)].
    set (c1 := run_sched X E {| c_st := st; c_thr := [uprog cfg u] |} (repeat (0%nat, now) k)) in *.
    assert (HK1 : NodeKeys (c_st c1)).
    { intros i nd Hg. destruct Hnp as [Hn _]. rewrite Hn in Hg.
      apply (NodeKeys_step X E now st (up_op u) HK i nd Hg). }
    assert (Hreg1 : forall u1, In u1 us -> registered (c_st c1) (u_id u1) = true).
    { intros u1 Hin. unfold registered. destruct Hnp as [Hn _]. rewrite Hn. apply (registered_mono X E now st (up_op u)). auto. }
    destruct (IH (c_st c1) HK1 Hreg1) as [st' (Hse & Hnp' & Hl' & Hb')].
    { intros t1 now1 Hin. apply (Hval t1 now1). now right. }
    exists st'. split; [econstructor; eauto|]. cbn [up_run adds_run]. rewrite Hu. split; [|split].
    + destruct Hnp' as [A B]. pose proof (up_run_np X E us r _ _ Hnp) as [A1 B1]. split; congruence.
    + congruence.
    + intros j. rewrite Hb', Hb, delta_sum_app.
      rewrite (delta_sum_links (c_st c1) st _ j Hl).
      rewrite (adds_run_np X E cfg us r _ _ Hnp). lia.
Qed.

(* C10: any interleaving of the keep-alives of pairwise distinct nodes that runs them all to
   completion leaves the store a one-at-a-time execution leaves — in the order in which the
   requests performed their UpdatePeers action, each with the clock value that action read *)
Theorem keepalives_serialisable cfg X E st0 us sch :
  NoDup (map u_id us) -> NodeKeys st0 -> (forall u, In u us -> registered st0 (u_id u) = true) ->
  let c' := run_sched X E {| c_st := st0; c_thr := map (uprog cfg) us |} sch in
  forallb finished (c_thr c') = true ->
  exists order st_ser,
    Permutation (map fst order) (seq 0 (length us)) /\
    ser_exec X E cfg us st0 order st_ser /\
    s_nodes st_ser = s_nodes (c_st c') /\ s_peers st_ser = s_peers (c_st c') /\ s_link st_ser = s_link (c_st c') /\
    forall j, b_credit (node_bal st_ser j) = b_credit (node_bal (c_st c') j).
Proof.
  intros Hnd HK Hreg c' Hfin.
  destruct (complete_characterisation cfg X E st0 us Hnd sch HK Hreg Hfin) as (order & Hperm & Hnp & Hl & Hb). fold c' in Hnp, Hl, Hb.
  destruct (ser_exec_exists X E cfg us order st0 HK Hreg) as [st_ser (Hse & Hnp' & Hl' & Hb')].
  { intros t now Hin. assert (In t (map fst order)) by (apply in_map_iff; exists (t, now); auto).
    eapply Permutation_in in H; [|exact Hperm]. apply in_seq in H. lia. }
  exists order, st_ser. split; [exact Hperm|]. split; [exact Hse|].
  destruct Hnp as [A B]. destruct Hnp' as [A' B']. split; [congruence|]. split; [congruence|]. split; [congruence|].
  intros j. rewrite Hb', Hb. reflexivity.
Qed.

(* non-vacuity: two clients of one host, six interleaved actions each *)
Example keepalives_serialisable_example :
  let cfg := sx_cfg in
  let us := [{| u_id := 2; u_rep := [1%N]; u_blk := 0; u_nowb := 61 |}; {| u_id := 3; u_rep := [1%N]; u_blk := 0; u_nowb := 62 |}]%N in
  let st := srun 120 900 s0 [(0, SetNode (sx_node 1%N true)); (0, SetNode (sx_node 2%N false)); (0, SetNode (sx_node 3%N false));
                             (0, UpdatePeers 2%N [1%N] 0%N); (0, UpdatePeers 3%N [1%N] 0%N)] in
  let c' := run_sched 120 900 {| c_st := st; c_thr := map (uprog cfg) us |} (sched_of [0; 1; 0; 1; 0; 1; 0; 1; 0; 1; 0; 1]%nat 61) in
  forallb finished (c_thr c') = true /\ NoDup (map u_id us) /\
  b_credit (node_bal (c_st c') 1%N) = 2049 /\ b_credit (node_bal (c_st c') 2%N) = -1016.
Proof. vm_compute. repeat split; try reflexivity. repeat constructor; cbn; intuition discriminate. Qed.
