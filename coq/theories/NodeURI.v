(* NodeURI.v — normalizeNodeURI (pool/nodeuri.go) and the default host taken from the
   connection (pool/service.go connect), on byte strings.  net/url parsing of the override is an
   input (trusted library): the override arrives as its parsed components.  JoinHostPort /
   SplitHostPort follow package net.  No proofs in this file. *)
From VP Require Import Base.

Definition str := list N.
Definition colon : N := 58.  Definition lbr : N := 91.  Definition rbr : N := 93.  Definition pct : N := 37.

Fixpoint str_eqb (a b : str) : bool :=
  match a, b with
  | [], [] => true
  | x :: a', y :: b' => N.eqb x y && str_eqb a' b'
  | _, _ => false
  end.

Definition has (c : N) (s : str) : bool := existsb (N.eqb c) s.

Fixpoint index_of (c : N) (s : str) : option nat :=
  match s with
  | [] => None
  | x :: r => if N.eqb x c then Some O else option_map S (index_of c r)
  end.
Fixpoint last_index_of (c : N) (s : str) : option nat :=
  match s with
  | [] => None
  | x :: r => match last_index_of c r with
              | Some i => Some (S i)
              | None => if N.eqb x c then Some O else None
              end
  end.

(* net.JoinHostPort *)
Definition join_host_port (host port : str) : str :=
  if has colon host || has pct host then lbr :: host ++ rbr :: colon :: port
  else host ++ colon :: port.

(* net.SplitHostPort *)
Definition split_host_port (hp : str) : option (str * str) :=
  match last_index_of colon hp with
  | None => None                                   (* missing port *)
  | Some i =>
      match hp with
      | [] => None
      | c0 :: _ =>
          if N.eqb c0 lbr then
            match index_of rbr hp with
            | None => None                         (* missing ']' *)
            | Some e =>
                if Nat.eqb (S e) i then
                  let host := firstn (e - 1) (skipn 1 hp) in
                  let port := skipn (S i) hp in
                  if has lbr (skipn 1 hp) || has rbr (skipn (S e) hp) then None
                  else Some (host, port)
                else None                          (* missing port / too many colons *)
            end
          else
            let host := firstn i hp in
            let port := skipn (S i) hp in
            if has colon host then None            (* too many colons *)
            else if has lbr hp || has rbr hp then None
            else Some (host, port)
      end
  end.

(* the parsed override: url.Parse failed, or (Username, Hostname, Port) *)
Inductive override :=
| NoOverride
| BadOverride
| Parsed (user host port : str).

Definition unspecified (h : str) : bool :=
  str_eqb h [58; 58]%N (* "::" *) || str_eqb h [48; 46; 48; 46; 48; 46; 48]%N (* "0.0.0.0" *).

Definition default_port : str := [51; 48; 51; 48; 51]%N.   (* "30303" *)

Inductive nres := NOk (id host port : str) | NErr.

Definition pick_host (h dh : str) : str := match h with [] => dh | _ => if unspecified h then dh else h end.
Definition pick_port (p : str) : str := match p with [] => default_port | _ => p end.
Definition foreign_user (user node_id : str) : bool :=
  match user with [] => false | _ => negb (str_eqb user node_id) end.

Definition normalize (ov : override) (node_id default_host : str) : nres :=
  match ov with
  | BadOverride => NErr
  | NoOverride => match default_host with [] => NErr | _ => NOk node_id default_host default_port end
  | Parsed user h p =>
      if foreign_user user node_id then NErr
      else match pick_host h default_host with
           | [] => NErr
           | host => NOk node_id host (pick_port p)
           end
  end.

(* the host:port part of the stored URI *)
Definition hostport_of (r : nres) : option str :=
  match r with NOk _ h p => Some (join_host_port h p) | NErr => None end.
