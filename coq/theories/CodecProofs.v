(* CodecProofs.v — theorems for C17. *)
From VP Require Import Base Codec.

Section StreamProofs.
  Variable msg : Type.
  Variable enc : msg -> bytes.
  Variable scan : bytes -> option (msg * bytes).
  (* what a self-delimiting framing gives: a value is complete exactly at its last byte *)
  Variable valid : msg -> Prop.       (* the messages the writer can produce *)
  Hypothesis scan_complete : forall m rest, valid m -> scan (enc m ++ rest) = Some (m, rest).
  Hypothesis scan_partial : forall m p q, valid m -> enc m = p ++ q -> q <> [] -> scan p = None.
  Hypothesis scan_nil : scan [] = None.
  Hypothesis enc_nonempty : forall m, enc m <> [].

  Notation drain := (drain msg scan).
  Notation decode_stream := (decode_stream msg scan).

  Definition stream_of (ms : list msg) : bytes := concat (map enc ms).

  Lemma enc_len_pos m : (0 < length (enc m))%nat.
  Proof. pose proof (enc_nonempty m). destruct (enc m); [congruence|cbn; lia]. Qed.

  (* two prefixes of one list: one extends the other *)
  Lemma prefix_cases {A} (a b c d : list A) :
    a ++ b = c ++ d -> (exists x, c = a ++ x /\ b = x ++ d) \/ (exists x, x <> [] /\ a = c ++ x /\ d = x ++ b).
  Proof.
    revert c. induction a as [|x a IH]; intros c H; cbn in *.
    - left. exists c. auto.
    - destruct c as [|y c]; cbn in *.
      + right. exists (x :: a). split; [discriminate|]. auto.
      + injection H as -> H. destruct (IH c H) as [[z [-> ->]]|[z [Hz [-> ->]]]].
        * left. exists z. auto.
        * right. exists z. auto.
  Qed.

  (* draining a buffer that is a prefix of a well-formed stream yields exactly the complete
     messages it contains and keeps the incomplete tail *)
  Lemma drain_wellformed ms : Forall valid ms -> forall fuel buf future,
    buf ++ future = stream_of ms -> (length buf < fuel)%nat ->
    exists done todo, ms = done ++ todo /\ fst (drain fuel buf) = done /\
      snd (drain fuel buf) ++ future = stream_of todo /\
      (todo = [] \/ exists m t, todo = m :: t /\ exists q, q <> [] /\ enc m = snd (drain fuel buf) ++ q).
  Proof.
    intros Hv. induction Hv as [|m ms Hm Hv IH]; intros fuel buf future Heq Hf.
    - cbn in Heq. apply app_eq_nil in Heq as [-> ->].
      exists [], []. destruct fuel; [lia|]. cbn [Codec.drain]. rewrite scan_nil. cbn. auto.
    - cbn [stream_of map concat] in Heq. fold (stream_of ms) in Heq.
      destruct (prefix_cases _ _ _ _ Heq) as [[x [Hx Hfut]]|[x [Hx [Hbuf Hrest]]]].
      + (* the buffer ends inside (or exactly at the end of) enc m *)
        destruct x as [|x0 x'].
        * (* buffer holds all of enc m *)
          rewrite app_nil_r in Hx. subst buf. cbn in Hfut. subst future.
          destruct fuel; [lia|]. cbn [Codec.drain].
          replace (enc m) with (enc m ++ []) by apply app_nil_r. rewrite scan_complete by assumption.
          destruct (IH fuel [] (stream_of ms) eq_refl) as (done & todo & Hms & Hd & Hs & Ht).
          { pose proof (enc_len_pos m). cbn. lia. }
          destruct (drain fuel []) as [ds r]. cbn [fst snd] in *.
          exists (m :: done), todo. subst. repeat split; auto.
        * (* incomplete: enc m = buf ++ x0 :: x' *)
          exists [], (m :: ms). destruct fuel; [lia|]. cbn [Codec.drain].
          rewrite (scan_partial m buf (x0 :: x') Hm Hx) by discriminate. cbn [fst snd app].
          split; [reflexivity|]. split; [reflexivity|]. split; [exact Heq|].
          right. exists m, ms. split; auto. exists (x0 :: x'). split; [discriminate|auto].
      + (* the buffer holds enc m and more *)
        subst buf. destruct fuel; [lia|]. cbn [Codec.drain]. rewrite scan_complete by assumption.
        destruct (IH fuel x future) as (done & todo & Hms & Hd & Hs & Ht).
        { now symmetry. }
        { rewrite app_length in Hf. pose proof (enc_len_pos m). lia. }
        destruct (drain fuel x) as [ds r]. cbn [fst snd] in *.
        exists (m :: done), todo. subst. repeat split; auto.
  Qed.

  (* C17, stream codec with one decoder per connection: however the byte stream of a message
     sequence is cut into reads, exactly those messages come out, once each, in order, and
     nothing is left over *)
  Theorem stream_exactly_once chunks : forall ms buf,
    Forall valid ms ->
    buf ++ concat chunks = stream_of ms ->
    (ms = [] \/ exists m t q, ms = m :: t /\ q <> [] /\ enc m = buf ++ q) ->
    decode_stream buf chunks = (ms, []).
  Proof.
    induction chunks as [|c rest IH]; intros ms buf Hv Heq Hinc.
    - cbn in *. rewrite app_nil_r in Heq. subst buf.
      destruct Hinc as [->|(m & t & q & -> & Hq & He)]; [reflexivity|].
      exfalso. cbn [stream_of map concat] in He.
      assert (length (enc m) = length ((enc m ++ concat (map enc t)) ++ q)) by now rewrite <- He.
      rewrite !app_length in H. destruct q; [congruence|]. cbn in H. lia.
    - cbn [Codec.decode_stream concat] in *.
      destruct (drain_wellformed ms Hv (S (length (buf ++ c))) (buf ++ c) (concat rest)) as (done & todo & Hms & Hd & Hs & Ht).
      { now rewrite <- app_assoc. } { lia. }
      destruct (drain (S (length (buf ++ c))) (buf ++ c)) as [ds b]. cbn [fst snd] in *. subst ds.
      assert (Hvt : Forall valid todo) by (subst ms; apply Forall_app in Hv; tauto).
      rewrite (IH todo b Hvt Hs).
      + now subst.
      + destruct Ht as [->|(m & t & -> & q & Hq & He)]; [now left|]. right. exists m, t, q. auto.
  Qed.

  Corollary stream_exactly_once_init chunks ms :
    Forall valid ms -> concat chunks = stream_of ms -> decode_stream [] chunks = (ms, []).
  Proof.
    intros Hv H. apply stream_exactly_once; auto.
    destruct ms as [|m t]; [now left|]. right. exists m, t, (enc m). repeat split; auto.
  Qed.
End StreamProofs.

(* ---------- the newline instance satisfies the hypotheses (they are not vacuous) ---------- *)
Definition no_nl (m : bytes) : Prop := ~ In nl m.

Lemma scan_line_aux_spec acc m rest :
  no_nl m -> scan_line_aux acc (m ++ nl :: rest) = Some (rev acc ++ m, rest).
Proof.
  revert acc. induction m as [|x m IH]; intros acc Hn; cbn.
  - now rewrite app_nil_r.
  - destruct (N.eqb_spec x nl) as [->|Hne]; [exfalso; apply Hn; now left|].
    rewrite IH by (intros H; apply Hn; now right). cbn. now rewrite <- app_assoc.
Qed.

Lemma scan_line_aux_none acc p : no_nl p -> scan_line_aux acc p = None.
Proof.
  revert acc. induction p as [|x p IH]; intros acc Hn; cbn; auto.
  destruct (N.eqb_spec x nl) as [->|Hne]; [exfalso; apply Hn; now left|].
  apply IH. intros H. apply Hn. now right.
Qed.

Theorem line_scan_complete m rest : no_nl m -> scan_line (enc_line m ++ rest) = Some (m, rest).
Proof.
  intros Hn. unfold scan_line, enc_line. rewrite <- app_assoc. cbn. now rewrite scan_line_aux_spec.
Qed.

Lemma snoc_prefix {A} (m : list A) a : forall p q, m ++ [a] = p ++ q -> q <> [] -> exists x, m = p ++ x.
Proof.
  induction m as [|c m IH]; intros p q He Hq.
  - destruct p as [|b p]; [exists []; reflexivity|]. cbn in He. injection He as _ He.
    symmetry in He. apply app_eq_nil in He as [_ ->]. congruence.
  - destruct p as [|b p]; [eexists; reflexivity|]. cbn in He. injection He as -> He.
    destruct (IH p q He Hq) as [x ->]. exists x. reflexivity.
Qed.

Theorem line_scan_partial m p q : no_nl m -> enc_line m = p ++ q -> q <> [] -> scan_line p = None.
Proof.
  intros Hn He Hq. unfold scan_line. apply scan_line_aux_none.
  destruct (snoc_prefix m nl p q He Hq) as [x ->].
  intros Hin. apply Hn. apply in_or_app. now left.
Qed.

(* the stream theorem instantiated: newline-terminated compact JSON, any chunking *)
Theorem line_stream_exactly_once chunks ms :
  Forall no_nl ms -> concat chunks = concat (map enc_line ms) ->
  decode_stream bytes scan_line [] chunks = (ms, []).
Proof.
  apply (stream_exactly_once_init bytes enc_line scan_line no_nl).
  - intros m rest Hm. now apply line_scan_complete.
  - intros m p q Hm. now apply line_scan_partial.
  - reflexivity.
  - intros m. unfold enc_line. destruct m; discriminate.
Qed.

(* ---------- the per-message decoder of the pinned tree loses coalesced messages ---------- *)
Theorem per_message_decoder_refuted :
  let m1 := [123; 125]%N in let m2 := [123; 49; 125]%N in
  let chunk := enc_line m1 ++ enc_line m2 in
  decode_fresh bytes scan_line 5 [chunk] = [m1] /\
  decode_stream bytes scan_line [] [chunk] = ([m1; m2], []).
Proof. vm_compute. auto. Qed.

(* ---------- frames and locked writers ---------- *)
Theorem frames_exactly_once {M} (ms : list M) : read_frames (write_frames ms) = ms.
Proof. reflexivity. Qed.

(* writers that hold the write lock for a whole message never interleave bytes: the stream is
   the concatenation of whole messages in schedule order, so the reader gets each of them intact *)
Theorem locked_writers_never_interleave (ws : list bytes) sched :
  emit_locked ws sched = concat (map (fun t => nth t ws []) sched).
Proof. induction sched as [|t r IH]; cbn; auto. now rewrite IH. Qed.

(* ---------- failed writes ---------- *)
Lemma wire_clean ws : clean_failures ws -> wire ws = concat (map enc_line (reported_done ws)).
Proof.
  unfold wire, reported_done, clean_failures. induction ws as [|w r IH]; intros H; [reflexivity|].
  inversion H as [|? ? Hw Hr]; subst. cbn [map concat filter]. rewrite (IH Hr).
  unfold wire_of_write. destruct (w_done w) eqn:Hd; cbn [map concat]; [reflexivity|].
  rewrite (Hw eq_refl). reflexivity.
Qed.

(* when failed writes leave nothing on the wire, the reader gets exactly the messages whose write
   was reported as done, each once, intact, in the order written — however the bytes are chunked
   and wherever the reader pauses *)
Theorem done_writes_delivered chunks ws :
  clean_failures ws -> Forall no_nl (map w_msg ws) -> concat chunks = wire ws ->
  decode_stream bytes scan_line [] chunks = (reported_done ws, []).
Proof.
  intros Hc Hn Hw. apply line_stream_exactly_once.
  - unfold reported_done. rewrite Forall_forall in *. intros m Hm.
    apply in_map_iff in Hm as [w [<- Hin]]. apply filter_In in Hin as [Hin _].
    apply Hn. apply in_map_iff. now exists w.
  - now rewrite Hw, wire_clean.
Qed.

(* a write cut short by a deadline on a connection that stays in use: its debris is glued to the
   front of the next message; the write that was reported as done is never delivered, and what is
   delivered is something nobody wrote *)
Theorem partial_write_then_continue_refuted :
  let m1 := [123; 34; 97; 34; 58; 49; 125]%N in            (* {"a":1} *)
  let m2 := [123; 34; 98; 34; 58; 50; 125]%N in            (* {"b":2} *)
  let ws := [{| w_msg := m1; w_done := false; w_sent := 3 |}; {| w_msg := m2; w_done := true; w_sent := 0 |}] in
  reported_done ws = [m2] /\
  decode_stream bytes scan_line [] [wire ws] = ([[123; 34; 97] ++ m2]%N, []) /\
  let ws' := [{| w_msg := m1; w_done := false; w_sent := 0 |}; {| w_msg := m2; w_done := true; w_sent := 0 |}] in
  decode_stream bytes scan_line [] [wire ws'] = ([m2], []).
Proof. vm_compute. auto. Qed.
