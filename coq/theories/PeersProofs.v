(* PeersProofs.v — peer expiry (C11): corollaries of [update_peers_exact] and the history
   invariant "only registered ids are ever tracked". *)
From VP Require Import Base Nonce Store StoreProofs.

Definition PeersReg (st : sstate) : Prop :=
  forall i q, amem q (peers_of st i) = true -> registered st q = true.

Lemma PeersReg_s0 : PeersReg s0.
Proof. intros i q. unfold peers_of, s0, amem; cbn. discriminate. Qed.

Lemma amem_filter_in {V} (f : N * V -> bool) m q : amem q (filter f m) = true -> amem q m = true.
Proof.
  unfold amem. induction m as [|[k v] m IH]; cbn; auto.
  destruct (f (k, v)); cbn; destruct (N.eqb q k); auto.
Qed.

Lemma amem_refresh nodes rep : forall p q,
  amem q (refresh nodes rep p) = true -> amem q p = true \/ amem q nodes = true.
Proof.
  intros p q. unfold amem. rewrite aget_refresh.
  destruct (memb q rep); auto. destruct (aget q nodes); auto.
Qed.

Lemma amem_map_vals {V W} (g : V -> W) (m : amap V) q :
  amem q (map (fun kv => (fst kv, g (snd kv))) m) = amem q m.
Proof.
  unfold amem. induction m as [|[k v] m IH]; cbn; auto. destruct (N.eqb q k); auto.
Qed.

Theorem PeersReg_step X E now st o : PeersReg st -> PeersReg (fst (sstep X E now st o)).
Proof.
  intros H i q Hq.
  assert (Hmono := registered_mono X E now st o q).
  destruct o; cbn [sstep] in *;
    try (apply Hmono; apply (H i q); exact Hq).
  - destruct (nstep E (s_nonce st) _); apply Hmono, (H i q), Hq.
  - destruct (aget i0 (s_nodes st)); apply Hmono, (H i q), Hq.
  - destruct (N.eqb (n_id nd) 0); apply Hmono, (H i q), Hq.
  - destruct (registered st i0); apply Hmono, (H i q), Hq.
  - destruct (aget i0 (s_nodes st)) as [nd|] eqn:Hnd; [|apply Hmono, (H i q), Hq].
    cbn [fst] in *. unfold peers_of in Hq. cbn [s_peers upd_peers upd_nodes] in Hq.
    rewrite aget_aset in Hq. destruct (N.eqb i i0).
    + apply amem_filter_in in Hq. apply amem_refresh in Hq as [Hq|Hq].
      * apply Hmono. apply (H i0 q). exact Hq.
      * unfold registered. cbn. exact Hq.
    + apply Hmono. apply (H i q). exact Hq.
  - destruct (registered st i0); apply Hmono, (H i q), Hq.
  - destruct (registered st i0); [|apply Hmono, (H i q), Hq].
    destruct (aget i0 (s_link st)); apply Hmono, (H i q), Hq.
  - destruct (registered st i0); apply Hmono, (H i q), Hq.
  - destruct (aget i0 (s_link st)) as [a'|]; [destruct (N.eqb a a')|]; apply Hmono, (H i q), Hq.
  - cbn [fst] in *. apply Hmono. apply (H i q).
    unfold peers_of in *. cbn [s_peers upd_peers upd_nodes] in Hq.
    induction (s_peers st) as [|[k v] m IH]; cbn in *; auto.
    destruct (N.eqb i k); auto.
    now rewrite (amem_map_vals (fun t => t - d)) in Hq.
Qed.

Theorem PeersReg_run X E ops : forall st, PeersReg st -> PeersReg (srun X E st ops).
Proof.
  induction ops as [|[now o] ops IH]; cbn; auto. intros st H. apply IH. now apply PeersReg_step.
Qed.

Section Step.
  Variables (X E now : Z) (st : sstate) (i : N) (reported : list N) (blk : N) (nd : node).
  Hypothesis HI : Inv st.
  Hypothesis Hnd : aget i (s_nodes st) = Some nd.
  Let st' := fst (sstep X E now st (UpdatePeers i reported blk)).
  Let gone := match snd (sstep X E now st (UpdatePeers i reported blk)) with RIds l => l | _ => [] end.

  Lemma gone_spec q :
    In q gone <-> exists ts, judged_ts st i now reported q = Some ts /\ ts <= now - X.
  Proof.
    destruct (update_peers_exact X E now st i reported blk nd HI Hnd) as [g [Heq [Hg _]]].
    unfold gone. rewrite Heq. cbn. apply Hg.
  Qed.
  Lemma kept_spec q :
    amem q (peers_of st' i) = true <-> exists ts, judged_ts st i now reported q = Some ts /\ now - X < ts.
  Proof.
    destruct (update_peers_exact X E now st i reported blk nd HI Hnd) as [g [Heq [_ [Hk _]]]]. apply Hk.
  Qed.

  (* a reported peer whose own last check-in is inside the window is kept, never declared *)
  Theorem live_peer_kept q ndq :
    In q reported -> q <> i -> aget q (s_nodes st) = Some ndq -> now - X < n_seen ndq ->
    ~ In q gone /\ amem q (peers_of st' i) = true.
  Proof.
    intros Hin Hne Hq Hlive.
    assert (Hj : judged_ts st i now reported q = Some (n_seen ndq)).
    { unfold judged_ts. rewrite (proj2 (memb_In q reported) Hin).
      destruct (N.eqb_spec q i); [contradiction|]. now rewrite Hq. }
    split.
    - rewrite gone_spec, Hj. intros [ts [[= <-] Hle]]. lia.
    - rewrite kept_spec, Hj. eauto.
  Qed.

  (* an id the pool does not know and does not track is neither tracked nor declared *)
  Theorem unknown_ignored q :
    aget q (s_nodes st) = None -> amem q (peers_of st i) = false ->
    ~ In q gone /\ amem q (peers_of st' i) = false.
  Proof.
    intros Hq Htr.
    assert (Hne : q <> i) by (intros ->; congruence).
    assert (Hj : judged_ts st i now reported q = None).
    { unfold judged_ts, amem in *. destruct (N.eqb_spec q i); [contradiction|]. rewrite Hq.
      destruct (aget q (peers_of st i)); [discriminate|]. now destruct (memb q reported). }
    split.
    - rewrite gone_spec, Hj. intros [ts [[=] _]].
    - destruct (amem q (peers_of st' i)) eqn:Hm; auto.
      apply kept_spec in Hm as [ts [Hts _]]. congruence.
  Qed.

  (* every tracked peer is either declared or kept, never both *)
  Theorem tracked_partition q :
    amem q (peers_of st i) = true -> (In q gone \/ amem q (peers_of st' i) = true) /\
    ~ (In q gone /\ amem q (peers_of st' i) = true).
  Proof.
    intros Htr. rewrite gone_spec, kept_spec.
    assert (exists ts, judged_ts st i now reported q = Some ts) as [ts Hts].
    { unfold judged_ts, amem, registered, amem in *.
      destruct (memb q reported); [|destruct (aget q (peers_of st i)); eauto; discriminate].
      destruct (N.eqb q i); [rewrite Hnd; eauto|].
      destruct (aget q (s_nodes st)); eauto. destruct (aget q (peers_of st i)); eauto; discriminate. }
    split.
    - destruct (Z.le_gt_cases ts (now - X)); [left|right]; eauto.
    - intros [[t1 [H1 Hle]] [t2 [H2 Hlt]]]. rewrite Hts in *. injection H1 as <-. injection H2 as <-. lia.
  Qed.
End Step.

(* duplicates and order of the report are irrelevant *)
Theorem report_as_set st i now r1 r2 q :
  (forall x, In x r1 <-> In x r2) -> judged_ts st i now r1 q = judged_ts st i now r2 q.
Proof.
  intros H. unfold judged_ts.
  replace (memb q r2) with (memb q r1); auto.
  destruct (memb q r1) eqn:H1; symmetry.
  - apply memb_In, H, memb_In, H1.
  - destruct (memb q r2) eqn:H2; auto. apply memb_In, H, memb_In in H2. congruence.
Qed.
