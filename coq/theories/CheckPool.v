(* CheckPool.v — correspondence predicate for pool-level histories (C01, C02, C03, C06, C07):
   run [pstep] on the operations the real pool / payment service executed and compare every
   outcome, the peer sets, the disconnect instructions and the ledger total after each step. *)
From VP Require Import Base Nonce Store Check12 Pool.

Inductive pobs :=
| ObRes (r : pres) (total : Z)
| ObUpdate (r : pres) (invalid active disconnect : list N) (total : Z).

Definition pres_eqb (a b : pres) : bool :=
  match a, b with
  | PBal x c d, PBal x' c' d' => N.eqb x x' && Z.eqb c c' && Z.eqb d d'
  | PLow c, PLow c' => Z.eqb c c'
  | PCfgErr, PCfgErr => true
  | PStoreErr e, PStoreErr e' => err_eqb e e'
  | POk, POk => true
  | PPaid x, PPaid y => Z.eqb x y
  | PBelowMin x, PBelowMin y => Z.eqb x y
  | PSettleFailed, PSettleFailed => true
  | PDisabled, PDisabled => true
  | _, _ => false
  end.

Definition pout_match (total_after : Z) (o : pout) (ob : pobs) : bool :=
  match o, ob with
  | OutRes r, ObRes r' t => pres_eqb r r' && Z.eqb total_after t
  | OutUpdate u, ObUpdate r' inv act disc t =>
      pres_eqb (uo_res u) r' && Z.eqb total_after t &&
      match uo_res u with
      | PStoreErr _ => true       (* the request failed before any set was computed *)
      | PLow _ | PCfgErr =>       (* an error reply carries no peer lists; the store and the hosts still show them *)
          ids_eqb (uo_active u) act && ids_eqb (uo_disconnect u) disc
      | _ => ids_eqb (uo_invalid u) inv && ids_eqb (uo_active u) act && ids_eqb (uo_disconnect u) disc
      end
  | _, _ => false
  end.

Record pool_case := { pc_cfg : pcfg; pc_ops : list (pop * pobs) }.

Fixpoint pfirst_diff (cfg : pcfg) (s : pstate) (ops : list (pop * pobs)) (k : nat) : option nat :=
  match ops with
  | [] => None
  | (o, ob) :: rest =>
      let '(s', out) := pstep cfg s o in
      if pout_match (total (ps_store s')) out ob then pfirst_diff cfg s' rest (S k) else Some k
  end.

Definition pool_check (c : pool_case) : bool :=
  match pfirst_diff (pc_cfg c) ps0 (pc_ops c) 0 with None => true | Some _ => false end.
Definition pool_diag (c : pool_case) : Z :=
  match pfirst_diff (pc_cfg c) ps0 (pc_ops c) 0 with None => -1 | Some k => Z.of_nat k end.
