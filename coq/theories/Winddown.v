(* Winddown.v — the started flag around the END of a keep-alive loop (agent/agent.go Start's
   goroutine, serveUpdates): a loop that takes a stop request clears the flag itself and returns;
   a loop whose keep-alive fails returns the error without touching the flag.  The goroutine
   that runs the loop then winds down: it clears the flag for a failed loop, and — [twice], the
   shape between the D12 and the D30 repairs — also for a stopped one, a second time.  Between a
   loop's end and its goroutine's wind-down anything may happen, in particular a Start. *)
From VP Require Import Base.

Record wst := { w_started : bool; w_loops : nat; w_wind_stop : nat; w_wind_fail : nat }.
Definition wst0 : wst := {| w_started := false; w_loops := 0; w_wind_stop := 0; w_wind_fail := 0 |}.

Inductive wop :=
| WStart          (* a Start that is accepted iff the flag is clear; its loop runs *)
| WStop           (* a running loop takes a stop request: clears the flag, returns *)
| WFail           (* a running loop's keep-alive fails: returns the error *)
| WWoundStop      (* the goroutine of a stopped loop winds down *)
| WWoundFail.     (* the goroutine of a failed loop winds down: clears the flag *)

Definition wstep (twice : bool) (s : wst) (o : wop) : wst :=
  match o with
  | WStart => if w_started s then s
              else {| w_started := true; w_loops := S (w_loops s); w_wind_stop := w_wind_stop s; w_wind_fail := w_wind_fail s |}
  | WStop => match w_loops s with
             | S n => {| w_started := false; w_loops := n; w_wind_stop := S (w_wind_stop s); w_wind_fail := w_wind_fail s |}
             | O => s
             end
  | WFail => match w_loops s with
             | S n => {| w_started := w_started s; w_loops := n; w_wind_stop := w_wind_stop s; w_wind_fail := S (w_wind_fail s) |}
             | O => s
             end
  | WWoundStop => match w_wind_stop s with
                  | S n => {| w_started := if twice then false else w_started s; w_loops := w_loops s; w_wind_stop := n; w_wind_fail := w_wind_fail s |}
                  | O => s
                  end
  | WWoundFail => match w_wind_fail s with
                  | S n => {| w_started := false; w_loops := w_loops s; w_wind_stop := w_wind_stop s; w_wind_fail := n |}
                  | O => s
                  end
  end.
Definition wrun (twice : bool) (s : wst) (ops : list wop) : wst := fold_left (wstep twice) ops s.

(* the flag is set exactly while a loop runs or a failed loop has not wound down *)
Definition WInv (s : wst) : Prop :=
  (w_loops s + w_wind_fail s <= 1)%nat /\ (w_started s = true <-> (w_loops s + w_wind_fail s = 1)%nat).

Lemma WInv_0 : WInv wst0.
Proof. split; cbn; [lia|]. split; [discriminate|lia]. Qed.

Lemma WInv_step s o : WInv s -> WInv (wstep false s o).
Proof.
  unfold WInv. intros [Hle Hiff]. destruct o; cbn [wstep].
  - destruct (w_started s) eqn:E; [split; [exact Hle|rewrite E; exact Hiff]|].
    assert (H0 : (w_loops s + w_wind_fail s = 0)%nat).
    { destruct (Nat.eq_dec (w_loops s + w_wind_fail s) 1) as [H1|H1]; [apply Hiff in H1; congruence|lia]. }
    cbn. split; [lia|]. split; [lia|reflexivity].
  - destruct (w_loops s) as [|n] eqn:E; [rewrite E; split; [exact Hle|exact Hiff]|].
    cbn in *. split; [lia|]. split; [discriminate|lia].
  - destruct (w_loops s) as [|n] eqn:E; [rewrite E; split; [exact Hle|exact Hiff]|].
    cbn in *. split; [lia|]. rewrite Hiff. lia.
  - destruct (w_wind_stop s) as [|n] eqn:E; cbn; split; assumption.
  - destruct (w_wind_fail s) as [|n] eqn:E; [rewrite E; split; [exact Hle|exact Hiff]|].
    cbn in *. split; [lia|]. split; [discriminate|lia].
Qed.

(* clearing the flag once per ended loop: never two loops, whatever the interleaving of starts,
   stops, failing keep-alives and the goroutines' wind-downs; and the agent can be started again
   exactly when nothing runs and no failed loop is still winding down *)
Theorem one_loop_through_winddown ops :
  let s := wrun false wst0 ops in (w_loops s <= 1)%nat /\ (w_started s = false <-> (w_loops s + w_wind_fail s = 0)%nat).
Proof.
  cbn zeta. assert (H : forall s, WInv s -> WInv (wrun false s ops)).
  { induction ops as [|o r IH]; intros s Hs; [exact Hs|]. cbn. apply IH. now apply WInv_step. }
  destruct (H wst0 WInv_0) as [Hle Hiff]. split; [lia|].
  destruct (w_started (wrun false wst0 ops)) eqn:E.
  - split; [discriminate|]. intros H0. apply proj1 in Hiff. specialize (Hiff eq_refl). lia.
  - split; [|reflexivity]. intros _.
    destruct (Nat.eq_dec (w_loops (wrun false wst0 ops) + w_wind_fail (wrun false wst0 ops)) 1) as [H1|H1]; [apply Hiff in H1; congruence|lia].
Qed.

(* the second clear: a Start between a stopped loop's own clear and its goroutine's wind-down is
   followed by another accepted Start: two loops (D30) *)
Theorem double_clear_refuted :
  w_loops (wrun true wst0 [WStart; WStop; WStart; WWoundStop; WStart]) = 2%nat /\
  w_loops (wrun false wst0 [WStart; WStop; WStart; WWoundStop; WStart]) = 1%nat.
Proof. vm_compute. auto. Qed.
