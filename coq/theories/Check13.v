(* Check13.v — correspondence predicate for C13: acknowledged prefix, optional in-flight
   operation cut by a kill, optional format downgrade before the restart, then probes of the
   recovered state. *)
From VP Require Import Base Nonce Store Check12 Durable.

Record c13_case := {
  c13_X : Z; c13_E : Z; c13_latest : Z;
  c13_acked : list (Z * sop * ores);     (* acknowledged operations with their observed results *)
  c13_inflight : option (Z * sop);       (* operation the process was killed in, if any *)
  c13_downgrade : option Z;              (* format version written before the restart *)
  c13_open_ok : bool;                    (* did the real Open succeed *)
  c13_probes : list (Z * sop * ores)     (* reads of the recovered state *)
}.

Fixpoint run_acked (X E : Z) (st : sstate) (ops : list (Z * sop * ores)) : option sstate :=
  match ops with
  | [] => Some st
  | (now, o, obs) :: rest =>
      let '(st', r) := sstep X E now st o in
      if res_match r obs then run_acked X E st' rest else None
  end.

Definition probes_ok (X E : Z) (st : sstate) (ps : list (Z * sop * ores)) : bool :=
  match first_diff X E st ps 0 with None => true | Some _ => false end.

Definition c13_check (c : c13_case) : bool :=
  match run_acked (c13_X c) (c13_E c) s0 (c13_acked c) with
  | None => false
  | Some st =>
      let cands := st :: match c13_inflight c with
                         | Some (now, o) => [fst (sstep (c13_X c) (c13_E c) now st o)]
                         | None => []
                         end in
      existsb (fun s =>
        let v := match c13_downgrade c with Some v => v | None => c13_latest c end in
        match migrate (c13_latest c) {| d_ver := v; d_st := s |} with
        | None => negb (c13_open_ok c)
        | Some d => c13_open_ok c && Z.eqb (d_ver d) (c13_latest c) &&
                    probes_ok (c13_X c) (c13_E c) (d_st d) (c13_probes c)
        end) cands
  end.
