(* Durable.v — the persistent driver at the level of its key-space writes (C13).
   The six maps of the contract state are exactly the six key spaces
   vip:node | vip:peers | vip:account | vip:balance | vip:trial | vip:nonce, plus vip:version.
   [writes_of] lists the Set/Delete calls a method issues (pool/store/badger/badger.go), in
   program order, as a function of what it read; a transaction applies its writes atomically
   (badger's commit — trusted); a crash between transactions keeps the committed prefix. *)
From VP Require Import Base Nonce Store.

Record dstate := { d_ver : Z; d_st : sstate }.

Inductive write :=
| WNode (nd : node)               (* vip:node:<id> *)
| WPeers (i : N) (p : amap Z)     (* vip:peers:<id> *)
| WLink (i a : N)                 (* vip:account:<node> := wallet *)
| WAcct (a : N) (b : balance)     (* vip:balance:<wallet> *)
| WTrial (i : N) (b : balance)    (* vip:trial:<node> *)
| WDelTrial (i : N)
| WNonce (i : N) (n : Z)          (* vip:nonce:<id> (TTL handled in Nonce.v) *)
| WDelNonces                      (* migration 1->2 *)
| WVersion (v : Z).

Definition apply_write (d : dstate) (w : write) : dstate :=
  let st := d_st d in
  match w with
  | WNode nd => {| d_ver := d_ver d; d_st := upd_nodes st (aset (n_id nd) nd (s_nodes st)) |}
  | WPeers i p => {| d_ver := d_ver d; d_st := upd_peers st (aset i p (s_peers st)) |}
  | WLink i a => {| d_ver := d_ver d; d_st := upd_link st (aset i a (s_link st)) |}
  | WAcct a b => {| d_ver := d_ver d; d_st := upd_acct st (aset a b (s_acct st)) |}
  | WTrial i b => {| d_ver := d_ver d; d_st := upd_trial st (aset i b (s_trial st)) |}
  | WDelTrial i => {| d_ver := d_ver d; d_st := upd_trial st (adel i (s_trial st)) |}
  | WNonce i n => {| d_ver := d_ver d; d_st := upd_nonce st (aset i n (s_nonce st)) |}
  | WDelNonces => {| d_ver := d_ver d; d_st := upd_nonce st [] |}
  | WVersion v => {| d_ver := v; d_st := st |}
  end.

Definition apply_writes (d : dstate) (ws : list write) : dstate := fold_left apply_write ws d.

(* the writes each method issues, given the state its reads see *)
Definition writes_of (X E now : Z) (st : sstate) (o : sop) : list write :=
  match o with
  | CheckNonce who n =>
      if snd (nstep E (s_nonce st) {| nr_now := now; nr_id := who; nr_n := n |}) then [WNonce who n] else []
  | SetNode nd => if N.eqb (n_id nd) 0 then [] else [WNode nd]
  | UpdatePeers i reported blk =>
      match aget i (s_nodes st) with
      | None => []
      | Some nd =>
          let nd' := {| n_id := n_id nd; n_uri := n_uri nd; n_seen := now; n_kind := n_kind nd;
                        n_host := n_host nd; n_payout := n_payout nd; n_block := blk |} in
          let nodes' := aset i nd' (s_nodes st) in
          let p := refresh nodes' reported (peers_of st i) in
          [WNode nd'; WPeers i (filter (fun kv => negb (expired X now (snd kv))) p)]
      end
  | AddNodeBal i d =>
      if registered st i then
        match aget i (s_link st) with
        | Some a => [WAcct a (add_credit (acct_bal st a) d)]
        | None => [WTrial i (add_credit (trial_bal st i) d)]
        end
      else []
  | AddAcctBal a d => [WAcct a {| b_acct := a; b_credit := b_credit (acct_bal st a) + d |}]
  | AddAcctNode a i =>
      if registered st i then
        [WLink i a;
         WAcct a {| b_acct := a; b_credit := b_credit (acct_bal st a) + b_credit (trial_bal st i) |};
         WDelTrial i]
      else []
  | _ => []
  end.

(* operations that are performed by the driver's own transactions (not the harness hooks) *)
Definition driver_op (o : sop) : bool :=
  match o with Advance _ | Reopen => false | _ => true end.

(* possible durable states when the process dies while [ws] is being carried out by [ntx]
   transactions: with one transaction, all or nothing; otherwise (the split is unknown) any
   prefix of the writes may have been committed *)
Fixpoint prefixes {A} (l : list A) : list (list A) :=
  match l with [] => [[]] | x :: l' => [] :: map (cons x) (prefixes l') end.

Definition crash_states (ntx : nat) (d : dstate) (ws : list write) : list dstate :=
  match ntx with
  | 0%nat => [d]
  | 1%nat => [d; apply_writes d ws]
  | _ => map (apply_writes d) (prefixes ws)
  end.

(* ---------- format migrations (migration.go, versions.go) ---------- *)
Definition migrate_step (v : Z) : option (list write) :=
  if v =? 0 then Some [WVersion 1]
  else if v =? 1 then Some [WDelNonces; WVersion 2]
  else None.

(* Migrate: one update transaction running the steps from the stored version up to [latest];
   None = refused (database newer than supported, or a step that does not bump the version) *)
Fixpoint migrate_from (fuel : nat) (latest : Z) (d : dstate) : option dstate :=
  if d_ver d =? latest then Some d
  else if latest <? d_ver d then None
  else if d_ver d <? 0 then None
  else match fuel with
       | O => None
       | S f =>
           match migrate_step (d_ver d) with
           | None => None
           | Some ws =>
               let d' := apply_writes d ws in
               if d_ver d' <=? d_ver d then None else migrate_from f latest d'
           end
       end.
Definition migrate (latest : Z) (d : dstate) : option dstate := migrate_from (Z.to_nat latest) latest d.
