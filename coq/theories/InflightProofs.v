From VP Require Import Base Inflight.

(* a running loop excludes a start in progress that holds the claim, and a keep-alive in flight
   belongs to the loop or to such a start *)
Definition IInv (s : ist) : Prop :=
  (i_loop s = true -> i_starting s && i_start_ok s = false) /\
  (i_loop s = true -> i_started s = true) /\
  (i_starting s && i_start_ok s = true -> i_started s = true).

Lemma IInv_i0 : IInv i0.
Proof. repeat split; cbn; congruence. Qed.

Ltac ifin := unfold IInv; cbn; repeat split; intros; auto; try congruence; try discriminate;
  repeat match goal with H : true = true -> _ |- _ => specialize (H eq_refl) end; try congruence.

Lemma IInv_step s e s' : IInv s -> istep false s e = Some s' -> IInv s'.
Proof.
  intros (H1 & H2 & H3). destruct e as [|ok| |ok| | |]; cbn [istep].
  - destruct (i_starting s) eqn:Hst; [discriminate|]. destruct (i_started s) eqn:Hsd; intros [= <-]; ifin.
    match goal with Hl : i_loop s = true |- _ => discriminate (H2 Hl) end.
  - destruct (i_starting s) eqn:Hst; [|discriminate].
    destruct (Bool.eqb ok (i_start_ok s)) eqn:He.
    + destruct ok; intros [= <-]; ifin.
    + destruct ok; [discriminate|]. intros [= <-]; ifin.
  - destruct (i_busy s); [discriminate|]. destruct (i_loop s || _); [|discriminate].
    intros [= <-]; ifin.
  - destruct (i_busy s); [|discriminate]. destruct (i_loop s) eqn:Hl.
    + destruct ok; intros [= <-]; ifin.
    + intros [= <-]; ifin.
      match goal with Hs : _ && (_ && _) = true |- _ =>
        apply andb_true_iff in Hs as [Hs1 Hs2]; apply andb_true_iff in Hs2 as [Hs2 _]; apply H3; now rewrite Hs1, Hs2 end.
  - intros [= <-]; ifin.
  - destruct (i_stops s) as [|n]; [discriminate|].
    destruct (i_loop s && negb (i_busy s)) eqn:Hc; [|discriminate].
    apply andb_true_iff in Hc as [Hl _].
    intros [= <-]; ifin.
    match goal with H : _ && _ = true |- _ => rewrite (H1 Hl) in H; discriminate end.
  - destruct (i_results s) as [|n]; [discriminate|].
    intros [= <-]; ifin.
Qed.

Lemma IInv_run evs : forall s s', IInv s -> irun false s evs = Some s' -> IInv s'.
Proof.
  induction evs as [|e r IH]; cbn; intros s s' Hs H; [now inversion H; subst|].
  destruct (istep false s e) as [s1|] eqn:He; [|discriminate]. eapply IH; [|exact H]. eapply IInv_step; eauto.
Qed.

(* a state in which nothing can send a keep-alive: no loop, no start holding the claim *)
Definition quiet (s : ist) : bool := negb (i_loop s) && negb (i_starting s && i_start_ok s).

Lemma stop_ret_quiet s s' : IInv s -> istep false s EStopRet = Some s' -> quiet s' = true /\ i_results s' = S (i_results s) /\ i_started s' = false.
Proof.
  intros (H1 & _ & _). cbn [istep]. destruct (i_stops s) as [|n]; [discriminate|].
  destruct (i_loop s && negb (i_busy s)) eqn:Hc; [|discriminate].
  apply andb_true_iff in Hc as [Hl _]. intros [= <-]. unfold quiet; cbn. rewrite (H1 Hl). auto.
Qed.

Lemma quiet_preserved s e s' : quiet s = true -> istep false s e = Some s' -> e <> EStartCall -> quiet s' = true /\ e <> EKB.
Proof.
  unfold quiet. intros Hq. apply andb_true_iff in Hq as [Hl Hs]. apply negb_true_iff in Hl. apply negb_true_iff in Hs.
  destruct e as [|ok| |ok| | |]; cbn [istep]; intros H Hne; try congruence.
  - destruct (i_starting s) eqn:Hst; [|discriminate]. cbn in Hs.
    rewrite Hs in H. destruct ok; cbn in H; [discriminate|]. inversion H; subst; cbn. rewrite Hl. split; [reflexivity|discriminate].
  - destruct (i_busy s); [discriminate|]. rewrite Hl, Hs in H. discriminate.
  - destruct (i_busy s); [|discriminate]. rewrite Hl in H. inversion H; subst; cbn.
    split; [|discriminate]. destruct (i_starting s); cbn in *; [rewrite Hs|]; reflexivity.
  - inversion H; subst; cbn. rewrite Hl, Hs. split; [reflexivity|discriminate].
  - destruct (i_stops s); [discriminate|]. rewrite Hl in H. cbn in H. discriminate.
  - destruct (i_results s); [discriminate|]. inversion H; subst; cbn. rewrite Hl, Hs. split; [reflexivity|discriminate].
Qed.

Lemma iev_eq_start e : e = EStartCall \/ e <> EStartCall.
Proof. destruct e; (now left) || (right; discriminate). Qed.

(* C20, at the grain of single keep-alives: in every history the agent can produce, once a Stop
   has returned no keep-alive begins until Start is called again — however long the keep-alive
   that was in flight took, and whatever else (more Stop calls, Waits) happens in between *)
Theorem no_keepalive_after_stop_returns pre mid post :
  irun false i0 (pre ++ EStopRet :: mid ++ EKB :: post) <> None -> In EStartCall mid.
Proof.
  intros Hrun.
  destruct (irun false i0 (pre ++ EStopRet :: mid ++ EKB :: post)) as [sf|] eqn:E; [clear Hrun|congruence].
  assert (Hsplit : forall evs1 evs2 s sf, irun false s (evs1 ++ evs2) = Some sf -> exists sm, irun false s evs1 = Some sm /\ irun false sm evs2 = Some sf).
  { induction evs1 as [|e r IH]; cbn; intros evs2 s sf0 H; [eauto|].
    destruct (istep false s e) as [s1|]; [|discriminate]. now apply IH. }
  apply Hsplit in E as (s1 & Hpre & E). cbn [irun] in E.
  destruct (istep false s1 EStopRet) as [s2|] eqn:Hst; [|discriminate].
  pose proof (IInv_run pre i0 s1 IInv_i0 Hpre) as HI1.
  destruct (stop_ret_quiet s1 s2 HI1 Hst) as (Hq & _ & _).
  clear Hpre Hst HI1 s1 pre.
  revert s2 Hq E. induction mid as [|e r IH]; intros s2 Hq E.
  - cbn [app irun] in E. destruct (istep false s2 EKB) as [s3|] eqn:Hk; [|discriminate].
    destruct (quiet_preserved s2 EKB s3 Hq Hk) as [_ Hne]; [discriminate|]. congruence.
  - cbn [app irun] in E. destruct (istep false s2 e) as [s3|] eqn:He; [|discriminate].
    destruct (iev_eq_start e) as [-> | Hne]; [now left|].
    right. apply (IH s3); [|exact E]. now destruct (quiet_preserved s2 e s3 Hq He Hne).
Qed.

(* the run that Stop ended can be collected: when Stop returns a result is queued for Wait and
   the agent no longer counts as started (so that it can be started again) *)
Theorem stop_return_ends_the_run pre s s' :
  irun false i0 pre = Some s -> istep false s EStopRet = Some s' ->
  i_loop s = true /\ i_busy s = false /\ i_loop s' = false /\ i_started s' = false /\ i_results s' = S (i_results s) /\
  istep false s' EWaitRet <> None /\
  (i_starting s' = false -> exists s'', istep false s' EStartCall = Some s'' /\ i_start_ok s'' = true).
Proof.
  intros Hpre Hst. pose proof (IInv_run pre i0 s IInv_i0 Hpre) as HI.
  destruct (stop_ret_quiet s s' HI Hst) as (Hq & Hr & Hsd).
  unfold quiet in Hq. apply andb_true_iff in Hq as [Hl Hs]. apply negb_true_iff in Hl. apply negb_true_iff in Hs.
  cbn [istep] in Hst. destruct (i_stops s) as [|n]; [discriminate|].
  destruct (i_loop s && negb (i_busy s)) eqn:Hc; [|discriminate].
  apply andb_true_iff in Hc as [Hl0 Hb]. apply negb_true_iff in Hb.
  repeat split; auto.
  - cbn [istep]. rewrite Hr. discriminate.
  - intros Hns. cbn [istep]. rewrite Hns, Hsd. eexists; split; [reflexivity|reflexivity].
Qed.

(* a Stop that gives up after a while (returns while the keep-alive in flight has not been
   answered) leaves the loop running: keep-alives go on after Stop has returned. The history is
   possible with the variant and impossible without it. *)
Theorem stop_that_gives_up_refuted :
  let h := [EStartCall; EKB; EKE true; EStartRet true; EKB; EStopCall; EStopRet; EKE true; EKB; EKE true] in
  irun true i0 h <> None /\ ifail false i0 h 0 = Some 6%nat /\
  let h' := [EStartCall; EKB; EKE true; EStartRet true; EKB; EStopCall; EKE true; EKB; EKE true; EStopRet; EWaitRet; EStartCall] in
  irun false i0 h' <> None.
Proof. vm_compute. repeat split; discriminate. Qed.
