(* LocksProofs.v — mutual exclusion of the keyed lock (C10: the per-node update lock; C07: the
   withdraw lock), and the refutation of the variant that removes the map entry on release. *)
From VP Require Import Base Locks.

Lemma mem_nat_in m l : mem_nat m l = true <-> In m l.
Proof.
  induction l as [|x r IH]; cbn; [split; [discriminate|tauto]|].
  rewrite Bool.orb_true_iff, IH, Nat.eqb_eq. tauto.
Qed.
Lemma remove_nat_in m l x : NoDup l -> In x (remove_nat m l) -> x <> m /\ In x l.
Proof.
  induction l as [|y r IH]; cbn; [tauto|]. intros Hnd. inversion Hnd as [|? ? Hny Hr]; subst.
  destruct (Nat.eqb_spec y m) as [->|Hne].
  - intros Hin. split; [intros ->; contradiction|now right].
  - intros [<-|Hin]; [split; [exact Hne|now left]|]. destruct (IH Hr Hin). split; [assumption|now right].
Qed.
Lemma remove_nat_nodup m l : NoDup l -> NoDup (remove_nat m l).
Proof.
  induction l as [|y r IH]; cbn; [constructor|]. intros Hnd. inversion Hnd as [|? ? Hny Hr]; subst.
  destruct (Nat.eqb_spec y m); [assumption|]. constructor; [|auto].
  intros Hin. apply Hny. now apply (remove_nat_in m r y Hr).
Qed.

Lemma phase_of_set s' s t p : l_thr s' = aset t p (l_thr s) ->
  forall t', phase_of s' t' = if N.eqb t' t then p else phase_of s t'.
Proof. intros H t'. unfold phase_of. rewrite H, aget_aset. destruct (N.eqb t' t); reflexivity. Qed.

(* every reference handed out is the key's one mutex; the locked mutexes are exactly those some
   thread holds, without duplicates; two threads inside the critical section are one thread *)
Definition LInv (s : lst) : Prop :=
  (forall t m, phase_of s t = TRef m \/ phase_of s t = THold m -> l_entry s = Some m) /\
  NoDup (l_held s) /\
  (forall m, In m (l_held s) <-> exists t, phase_of s t = THold m) /\
  (forall t1 t2 m1 m2, phase_of s t1 = THold m1 -> phase_of s t2 = THold m2 -> t1 = t2).

Lemma LInv_0 : LInv lst0.
Proof.
  unfold LInv, phase_of; cbn. repeat split; try (intros; discriminate); try constructor.
  - intros t m [H|H]; discriminate.
  - tauto.
  - intros [t H]. discriminate.
Qed.

(* a thread that was not holding changes to a phase that is not holding either: the held
   mutexes, their holders and the uniqueness of the holder are untouched *)
Lemma LInv_nonholding s s' t p :
  LInv s -> l_held s' = l_held s -> l_thr s' = aset t p (l_thr s) ->
  (forall m, phase_of s t <> THold m) -> (forall m, p <> THold m) ->
  NoDup (l_held s') /\
  (forall m, In m (l_held s') <-> exists t0, phase_of s' t0 = THold m) /\
  (forall t1 t2 m1 m2, phase_of s' t1 = THold m1 -> phase_of s' t2 = THold m2 -> t1 = t2).
Proof.
  intros (Href & Hnd & Hheld & Hex) Hh Hthr Hold Hnew. pose proof (phase_of_set s' s t p Hthr) as Hph.
  rewrite Hh. split; [exact Hnd|]. split.
  - intros m. rewrite Hheld. split; intros [t0 Ht0]; exists t0.
    + rewrite Hph. destruct (N.eqb_spec t0 t) as [E|_]; [subst t0; exfalso; eapply Hold; exact Ht0|exact Ht0].
    + rewrite Hph in Ht0. destruct (N.eqb_spec t0 t) as [E|_]; [exfalso; eapply Hnew; exact Ht0|exact Ht0].
  - intros t1 t2 m1 m2. rewrite (Hph t1), (Hph t2).
    destruct (N.eqb_spec t1 t) as [E1|_]; [intros H; exfalso; eapply Hnew; exact H|].
    destruct (N.eqb_spec t2 t) as [E2|_]; [intros _ H; exfalso; eapply Hnew; exact H|]. apply Hex.
Qed.

Lemma LInv_step s o s' : LInv s -> lstep false s o = Some s' -> LInv s'.
Proof.
  intros Hinv Hs. pose proof Hinv as (Href & Hnd & Hheld & Hex). destruct o as [t|t|t]; cbn in Hs.
  - (* lookup: the thread was idle *)
    destruct (phase_of s t) eqn:Hp; try discriminate.
    destruct (l_entry s) as [m|] eqn:He; injection Hs as <-.
    + set (s1 := {| l_entry := Some m; l_next := l_next s; l_held := l_held s; l_thr := aset t (TRef m) (l_thr s) |}).
      pose proof (phase_of_set s1 s t (TRef m) eq_refl) as Hph. split.
      * intros t' m'. rewrite Hph. cbn [l_entry s1].
        destruct (N.eqb_spec t' t) as [E|_].
        -- intros [[= <-]|[=]]. reflexivity.
        -- apply Href.
      * apply (LInv_nonholding s s1 t (TRef m) Hinv); try reflexivity; intros; congruence.
    + set (s1 := {| l_entry := Some (l_next s); l_next := S (l_next s); l_held := l_held s; l_thr := aset t (TRef (l_next s)) (l_thr s) |}).
      pose proof (phase_of_set s1 s t (TRef (l_next s)) eq_refl) as Hph. split.
      * intros t' m'. rewrite Hph. cbn [l_entry s1].
        destruct (N.eqb_spec t' t) as [E|_].
        -- intros [[= <-]|[=]]. reflexivity.
        -- intros H. specialize (Href t' m' H). congruence.
      * apply (LInv_nonholding s s1 t (TRef (l_next s)) Hinv); try reflexivity; intros; congruence.
  - (* lock: the mutex was free *)
    destruct (phase_of s t) as [|m|m|] eqn:Hp; try discriminate.
    destruct (mem_nat m (l_held s)) eqn:Hm; [discriminate|]. injection Hs as <-.
    assert (Hnin : ~ In m (l_held s)) by (rewrite <- mem_nat_in; congruence).
    assert (Hent : l_entry s = Some m) by (apply (Href t m); now left).
    assert (Hnone : forall t' m', phase_of s t' = THold m' -> False).
    { intros t' m' H. assert (l_entry s = Some m') by (apply (Href t' m'); now right).
      assert (m' = m) by congruence. subst. apply Hnin, Hheld. eauto. }
    set (s1 := {| l_entry := l_entry s; l_next := l_next s; l_held := m :: l_held s; l_thr := aset t (THold m) (l_thr s) |}).
    pose proof (phase_of_set s1 s t (THold m) eq_refl) as Hph.
    unfold LInv. repeat split.
    + intros t' m'. rewrite Hph. destruct (N.eqb_spec t' t) as [E|_].
      * intros [[=]|[= <-]]. exact Hent.
      * apply Href.
    + constructor; assumption.
    + intros [<-|Hin].
      * exists t. now rewrite Hph, N.eqb_refl.
      * apply Hheld in Hin. destruct Hin as [t' Ht']. exfalso. eapply Hnone; eauto.
    + intros [t' Ht']. rewrite Hph in Ht'. destruct (N.eqb_spec t' t) as [E|_].
      * injection Ht' as <-. now left.
      * exfalso. eapply Hnone; eauto.
    + intros t1 t2 m1 m2. rewrite (Hph t1), (Hph t2).
      destruct (N.eqb_spec t1 t) as [E1|_]; destruct (N.eqb_spec t2 t) as [E2|_]; try congruence.
      * intros _ H2. exfalso. eapply Hnone; eauto.
      * intros H1 _. exfalso. eapply Hnone; eauto.
      * apply Hex.
  - (* unlock *)
    destruct (phase_of s t) as [|m|m|] eqn:Hp; try discriminate. injection Hs as <-.
    assert (Honly : forall t' m', phase_of s t' = THold m' -> t' = t) by (intros t' m' H; eapply Hex; eauto).
    set (s1 := {| l_entry := l_entry s; l_next := l_next s; l_held := remove_nat m (l_held s); l_thr := aset t TDone (l_thr s) |}).
    pose proof (phase_of_set s1 s t TDone eq_refl) as Hph.
    unfold LInv. repeat split.
    + intros t' m'. rewrite Hph. destruct (N.eqb_spec t' t) as [E|_]; [intros [[=]|[=]]|apply Href].
    + now apply remove_nat_nodup.
    + intros Hin. exfalso. destruct (remove_nat_in m (l_held s) m0 Hnd Hin) as [Hne Hin'].
      apply Hheld in Hin'. destruct Hin' as [t' Ht']. assert (t' = t) by (eapply Honly; eauto). subst.
      congruence.
    + intros [t' Ht']. rewrite Hph in Ht'. destruct (N.eqb_spec t' t) as [E|Hne]; [discriminate|].
      exfalso. apply Hne. eapply Honly; eauto.
    + intros t1 t2 m1 m2. rewrite (Hph t1), (Hph t2).
      destruct (N.eqb_spec t1 t) as [E1|_]; [discriminate|].
      destruct (N.eqb_spec t2 t) as [E2|_]; [discriminate|]. apply Hex.
Qed.

Lemma LInv_run ops : forall s, LInv s -> LInv (lrun false s ops).
Proof.
  induction ops as [|o r IH]; intros s H; cbn; auto.
  destruct (lstep false s o) eqn:Hs; [apply IH; eapply LInv_step; eauto|auto].
Qed.

(* mutual exclusion: whatever the requests for a key do, in whatever order their steps are
   scheduled (any number of requests, any interleaving of lookups, lock acquisitions and
   releases), two requests are never inside the critical section together *)
Theorem keyed_lock_mutual_exclusion ops t1 t2 :
  holding (lrun false lst0 ops) t1 = true -> holding (lrun false lst0 ops) t2 = true -> t1 = t2.
Proof.
  destruct (LInv_run ops lst0 LInv_0) as (_ & _ & _ & Hex). unfold holding.
  destruct (phase_of (lrun false lst0 ops) t1) eqn:H1; try discriminate.
  destruct (phase_of (lrun false lst0 ops) t2) eqn:H2; try discriminate. intros _ _. eapply Hex; eauto.
Qed.

(* progress: a request that has looked the lock up can take it as soon as nobody holds it *)
Theorem keyed_lock_progress ops t m :
  let s := lrun false lst0 ops in
  phase_of s t = TRef m -> (forall t', holding s t' = false) ->
  exists s', lstep false s (SLock t) = Some s' /\ holding s' t = true.
Proof.
  intros s Hp Hfree. destruct (LInv_run ops lst0 LInv_0) as (_ & _ & Hheld & _). fold s in Hheld.
  cbn. rewrite Hp. destruct (mem_nat m (l_held s)) eqn:Hm.
  - apply mem_nat_in, Hheld in Hm. destruct Hm as [t' Ht']. specialize (Hfree t'). unfold holding in Hfree.
    rewrite Ht' in Hfree. discriminate.
  - eexists. split; [reflexivity|]. unfold holding, phase_of. cbn. now rewrite aget_aset_same.
Qed.

(* the variant that removes the map entry when the lock is released is refuted by a chain of
   three requests: B has looked the mutex up while A holds it; A releases it and removes the
   entry; B locks the orphaned mutex; C finds no entry, creates a fresh mutex and locks it: B and
   C are in the critical section together.  (Two requests never show it.)  This is the schedule
   the staged harnesses force on the real pool (c10 scheduled-chain, c07 staged-race). *)
Definition chain3 : list lop :=
  [SLookup 1; SLock 1; SLookup 2; SUnlock 1; SLock 2; SLookup 3; SLock 3]%N.
Theorem deleting_variant_refuted :
  holders (lrun true lst0 chain3) = [2; 3]%N /\ holders (lrun false lst0 chain3) = [2]%N.
Proof. vm_compute. auto. Qed.

(* with only two requests the deleting variant is indistinguishable: every schedule of two
   requests (all 7-step schedules over the six steps of two requests) keeps them apart *)
Definition two_req_steps : list lop := [SLookup 1; SLock 1; SUnlock 1; SLookup 2; SLock 2; SUnlock 2]%N.
Fixpoint schedules (n : nat) : list (list lop) :=
  match n with
  | O => [[]]
  | S n' => flat_map (fun o => map (cons o) (schedules n')) two_req_steps
  end.
Fixpoint prefixes_ok (del : bool) (s : lst) (ops : list lop) : bool :=
  (length (holders s) <=? 1)%nat &&
  match ops with
  | [] => true
  | o :: r => match lstep del s o with
              | Some s' => prefixes_ok del s' r
              | None => prefixes_ok del s r
              end
  end.
Theorem deleting_variant_two_requests_ok :
  forallb (prefixes_ok true lst0) (schedules 7) = true.
Proof. vm_compute. reflexivity. Qed.
