(* RoutingProofs.v — theorems for C14. *)
From VP Require Import Base Routing.

(* ------------------------------------------------------------------ own reply *)
Definition OwnInv (s : rst) : Prop :=
  (forall i g p, In (i, g, p) (r_bufs s) -> In (i, p) (r_delivered s)) /\
  (forall c p, aget c (r_calls s) = Some (PDone (CPayload p)) -> In (c, p) (r_delivered s)).

Lemma buf_get_in i g b p : buf_get i g b = Some p -> In (i, g, p) b.
Proof.
  induction b as [|[[i' g'] q] r IH]; cbn; [discriminate|].
  destruct (N.eqb_spec i i'); destruct (Nat.eqb_spec g g'); cbn; intros H; try (right; auto; fail).
  injection H as ->. subst. now left.
Qed.
Lemma buf_del_sub i g b x : In x (buf_del i g b) -> In x b.
Proof.
  induction b as [|[[i' g'] q] r IH]; cbn; auto.
  destruct (N.eqb i i' && Nat.eqb g g'); cbn; intuition.
Qed.

Lemma OwnInv_reg f lim d s c s' : OwnInv s -> reg_step f lim d s c = Some s' -> OwnInv s'.
Proof.
  intros [Hb Hc] Hs. unfold reg_step in Hs.
  destruct (aget c (r_calls s)) eqn:Hcall; [discriminate|].
  destruct (aget c (clean f lim d (r_pending s))) as [e|]; injection Hs as <-; split; cbn; auto;
    intros c' p; rewrite aget_aset; destruct (N.eqb c' c); try discriminate; auto.
Qed.
Lemma OwnInv_recv f lim d s c s' : OwnInv s -> recv_step f lim d s c = Some s' -> OwnInv s'.
Proof.
  intros [Hb Hc] Hs. unfold recv_step in Hs.
  destruct (aget c (r_calls s)) as [[g|r]|] eqn:Hcall; try discriminate.
  destruct f; [|injection Hs as <-; split; auto].
  destruct (aget c (clean true lim d (r_pending s))) as [e|]; injection Hs as <-; split; cbn; auto;
    intros c' p; rewrite aget_aset; destruct (N.eqb c' c); try discriminate; auto.
Qed.

Lemma OwnInv_step f lim d s l s' : OwnInv s -> rstep f lim d s l = Some s' -> OwnInv s'.
Proof.
  intros Hinv Hs. destruct l as [c|c|c|i p|c|c]; cbn [rstep] in Hs.
  - destruct (reg_step f lim d s c) as [s1|] eqn:H1; [|discriminate].
    eapply OwnInv_recv; [eapply OwnInv_reg; eauto|eauto].
  - eapply OwnInv_reg; eauto.
  - eapply OwnInv_recv; eauto.
  - destruct Hinv as [Hb Hc]. cbn in Hs. destruct (aget i (clean f lim d (r_pending s))) as [e|];
      (destruct (buf_get i _ (r_bufs s)); [discriminate|]); injection Hs as <-; split; cbn.
    + intros i' g p' [[= <- <- <-]|Hin]; [now left|right; eauto].
    + intros c p' H. right. auto.
    + intros i' g p' [[= <- <- <-]|Hin]; [now left|right; eauto].
    + intros c p' H. right. auto.
  - destruct Hinv as [Hb Hc]. cbn in Hs. destruct (aget c (r_calls s)) as [[g|r]|] eqn:Hcall; try discriminate.
    destruct (buf_get c g (r_bufs s)) as [p|] eqn:Hg; [|discriminate]. injection Hs as <-. split; cbn.
    + intros i g' p' Hin. apply buf_del_sub in Hin. eauto.
    + intros c' p'. rewrite aget_aset. destruct (N.eqb_spec c' c) as [->|]; auto.
      intros [= <-]. apply buf_get_in in Hg. eauto.
  - destruct Hinv as [Hb Hc]. cbn in Hs. destruct (aget c (r_calls s)) as [[g|r]|] eqn:Hcall; try discriminate. injection Hs as <-. split; cbn; auto.
    intros c' p'. rewrite aget_aset. destruct (N.eqb c' c); [discriminate|auto].
Qed.

Lemma OwnInv_run f lim d t : forall s, OwnInv s -> OwnInv (rrun f lim d s t).
Proof.
  induction t as [|l r IH]; intros s H; cbn; auto.
  destruct (rstep f lim d s l) eqn:Hs; [apply IH; eapply OwnInv_step; eauto|auto].
Qed.

(* for every trace (any numbers of callers, any delivery order, replies before waits, nested
   calls, cancellations, either discard rule): a call that returns a payload returns one that
   Serve routed for that call's own id — never another call's reply *)
Theorem own_reply f lim d t c p :
  aget c (r_calls (rrun f lim d rst0 t)) = Some (PDone (CPayload p)) ->
  In (c, p) (r_delivered (rrun f lim d rst0 t)).
Proof.
  apply (OwnInv_run f lim d t rst0). split; cbn; [tauto|discriminate].
Qed.

(* Serve blocks only on a channel that already holds an unconsumed reply for the same id *)
Theorem serve_blocks_only_on_duplicate f lim d s i p :
  rstep f lim d s (LDeliver i p) = None -> exists g q, buf_get i g (r_bufs s) = Some q.
Proof.
  cbn. destruct (aget i (clean f lim d (r_pending s))) as [e|];
    (destruct (buf_get i _ (r_bufs s)) eqn:Hb; [eauto|discriminate]).
Qed.

(* a waiting call can always be cancelled, and then returns the context's error *)
Theorem cancel_enabled f lim d s c g :
  aget c (r_calls s) = Some (PWaiting g) ->
  exists s', rstep f lim d s (LCancel c) = Some s' /\ aget c (r_calls s') = Some (PDone CCtxErr).
Proof. intros H. cbn. rewrite H. eexists. split; [reflexivity|]. cbn. apply aget_aset_same. Qed.

(* ------------------------------------------------------------------ progress (repaired rule) *)
Definition WaitInv (s : rst) : Prop :=
  NoDup (akeys (r_pending s)) /\
  forall c g, aget c (r_calls s) = Some (PWaiting g) ->
    exists a, aget c (r_pending s) = Some {| pe_gen := g; pe_waiting := true; pe_age := a |}.

Lemma nodup_aget_in_pending (m : amap pentry) k v : NoDup (akeys m) -> In (k, v) m -> aget k m = Some v.
Proof.
  induction m as [|[k' v'] m IH]; cbn; [tauto|]. intros H Hin.
  inversion H as [|? ? Hn Hd]; subst. destruct Hin as [[= -> ->]|Hin].
  - now rewrite N.eqb_refl.
  - destruct (N.eqb_spec k k') as [->|]; auto. exfalso. apply Hn.
    change k' with (fst (k', v)). now apply in_map.
Qed.

Lemma oldest_spec m : forall best k a,
  oldest true m best = Some (k, a) ->
  best = Some (k, a) \/ exists e, In (k, e) m /\ pe_waiting e = false.
Proof.
  induction m as [|[k' e] m IH]; intros best k a; cbn [oldest]; [auto|].
  destruct (pe_waiting e) eqn:Hw; cbn [andb].
  - intros H. destruct (IH _ _ _ H) as [?|[e' [Hin He]]]; [auto|right; exists e'; split; [now right|auto]].
  - destruct best as [[kb ab]|].
    + destruct (pe_age e <? ab)%nat; intros H; destruct (IH _ _ _ H) as [Hb|[e' [Hin He]]];
        try (right; exists e'; split; [now right|auto]; fail); auto.
      injection Hb as <- <-. right. exists e. split; [now left|auto].
    + intros H. destruct (IH _ _ _ H) as [Hb|[e' [Hin He]]];
        try (right; exists e'; split; [now right|auto]; fail).
      injection Hb as <- <-. right. exists e. split; [now left|auto].
Qed.

Lemma discard_keeps_waiting n : forall m c e,
  NoDup (akeys m) -> aget c m = Some e -> pe_waiting e = true ->
  NoDup (akeys (discard_n true n m)) /\ aget c (discard_n true n m) = Some e.
Proof.
  induction n as [|n IH]; intros m c e Hnd Hg Hw; cbn; auto.
  destruct (oldest true m None) as [[k a]|] eqn:Ho; auto.
  destruct (oldest_spec _ _ _ _ Ho) as [?|[e' [Hin He']]]; [discriminate|].
  assert (Hne : k <> c).
  { intros ->. rewrite (nodup_aget_in_pending m c e' Hnd Hin) in Hg. injection Hg as <-. congruence. }
  apply IH; auto.
  - now apply akeys_adel_nodup.
  - rewrite aget_adel_other; auto.
Qed.

Lemma clean_keeps_waiting lim d m c e :
  NoDup (akeys m) -> aget c m = Some e -> pe_waiting e = true ->
  NoDup (akeys (clean true lim d m)) /\ aget c (clean true lim d m) = Some e.
Proof.
  intros Hnd Hg Hw. unfold clean.
  destruct ((0 <? lim)%nat && (lim <=? length m)%nat && (0 <? d)%nat); auto.
  now apply discard_keeps_waiting.
Qed.

Lemma discard_nodup f n : forall m, NoDup (akeys m) -> NoDup (akeys (discard_n f n m)).
Proof.
  induction n as [|n IH]; intros m H; cbn; auto.
  destruct (oldest f m None) as [[k a]|]; auto. apply IH. now apply akeys_adel_nodup.
Qed.
Lemma clean_nodup f lim d m : NoDup (akeys m) -> NoDup (akeys (clean f lim d m)).
Proof. intros H. unfold clean. destruct (_ && _ && _); auto. now apply discard_nodup. Qed.

Lemma WaitInv_keep lim d s : WaitInv s -> forall c g, aget c (r_calls s) = Some (PWaiting g) ->
  exists a, aget c (clean true lim d (r_pending s)) = Some {| pe_gen := g; pe_waiting := true; pe_age := a |}.
Proof.
  intros [Hnd Hw] c g Hc. destruct (Hw c g Hc) as [a Ha]. exists a.
  now apply (clean_keeps_waiting lim d (r_pending s) c _ Hnd Ha).
Qed.

(* setting the entry of [c] to a waiting one with generation [g] over the cleaned table *)
Lemma WaitInv_set lim d s c ent bufs gen age dl :
  WaitInv s -> pe_waiting ent = true ->
  WaitInv {| r_pending := aset c ent (clean true lim d (r_pending s)); r_bufs := bufs; r_gen := gen; r_age := age;
             r_calls := aset c (PWaiting (pe_gen ent)) (r_calls s); r_delivered := dl |}.
Proof.
  intros Hinv Hent. pose proof (WaitInv_keep lim d s Hinv) as Hkeep. destruct Hinv as [Hnd Hw].
  split; cbn.
  - apply akeys_aset_nodup, clean_nodup; assumption.
  - intros c' g. rewrite !aget_aset. destruct (N.eqb_spec c' c) as [->|Hne].
    + intros [= <-]. exists (pe_age ent). destruct ent; cbn in *; subst; reflexivity.
    + intros Hc'. exact (Hkeep c' g Hc').
Qed.

Lemma WaitInv_reg lim d s c s' : WaitInv s -> reg_step true lim d s c = Some s' -> WaitInv s'.
Proof.
  intros Hinv Hs. unfold reg_step in Hs.
  destruct (aget c (r_calls s)) eqn:Hcall; [discriminate|].
  destruct (aget c (clean true lim d (r_pending s))) as [e|] eqn:He; injection Hs as <-.
  - apply (WaitInv_set lim d s c {| pe_gen := pe_gen e; pe_waiting := true; pe_age := pe_age e |}); auto.
  - apply (WaitInv_set lim d s c {| pe_gen := r_gen s; pe_waiting := true; pe_age := r_age s |}); auto.
Qed.
Lemma WaitInv_recv lim d s c s' : WaitInv s -> recv_step true lim d s c = Some s' -> WaitInv s'.
Proof.
  intros Hinv Hs. unfold recv_step in Hs.
  destruct (aget c (r_calls s)) as [[g|r]|] eqn:Hcall; try discriminate.
  destruct (aget c (clean true lim d (r_pending s))) as [e|] eqn:He; injection Hs as <-.
  - apply (WaitInv_set lim d s c {| pe_gen := pe_gen e; pe_waiting := true; pe_age := pe_age e |}); auto.
  - apply (WaitInv_set lim d s c {| pe_gen := r_gen s; pe_waiting := true; pe_age := r_age s |}); auto.
Qed.

(* under the invariant, receive() finds the very channel the call registered: the reply that
   arrived between the registration and receive() is the one the call takes *)
Lemma recv_same_channel lim d s c g s' :
  WaitInv s -> aget c (r_calls s) = Some (PWaiting g) -> recv_step true lim d s c = Some s' ->
  aget c (r_calls s') = Some (PWaiting g) /\ r_bufs s' = r_bufs s.
Proof.
  intros Hinv Hc Hs. unfold recv_step in Hs. rewrite Hc in Hs.
  destruct (WaitInv_keep lim d s Hinv c g Hc) as [a Ha]. rewrite Ha in Hs. injection Hs as <-. cbn.
  split; [apply aget_aset_same|reflexivity].
Qed.

Lemma WaitInv_step lim d s l s' : WaitInv s -> rstep true lim d s l = Some s' -> WaitInv s'.
Proof.
  intros Hinv Hs. pose proof (WaitInv_keep lim d s Hinv) as Hkeep.
  destruct l as [c|c|c|i p|c|c]; cbn [rstep] in Hs.
  - destruct (reg_step true lim d s c) as [s1|] eqn:H1; [|discriminate].
    eapply WaitInv_recv; [eapply WaitInv_reg; eauto|eauto].
  - eapply WaitInv_reg; eauto.
  - eapply WaitInv_recv; eauto.
  - destruct Hinv as [Hnd Hw]. cbn in Hs. destruct (aget i (clean true lim d (r_pending s))) as [e|] eqn:He;
      (destruct (buf_get i _ (r_bufs s)); [discriminate|]); injection Hs as <-; split; cbn.
    + now apply clean_nodup.
    + apply Hkeep.
    + apply akeys_aset_nodup. now apply clean_nodup.
    + intros c g Hc. destruct (Hkeep c g Hc) as [a Ha]. exists a. rewrite aget_aset.
      destruct (N.eqb_spec c i) as [->|]; [congruence|exact Ha].
  - destruct Hinv as [Hnd Hw]. cbn in Hs. destruct (aget c (r_calls s)) as [[g|r]|] eqn:Hcall; try discriminate.
    destruct (buf_get c g (r_bufs s)) as [p|]; [|discriminate]. injection Hs as <-. split; cbn.
    + now apply akeys_adel_nodup.
    + intros c' g'. rewrite aget_aset. destruct (N.eqb_spec c' c) as [->|Hne]; [discriminate|].
      intros Hc. rewrite aget_adel_other by congruence. now apply Hw.
  - destruct Hinv as [Hnd Hw]. cbn in Hs. destruct (aget c (r_calls s)) as [[g|r]|] eqn:Hcall; try discriminate. injection Hs as <-. split; cbn.
    + now apply akeys_adel_nodup.
    + intros c' g'. rewrite aget_aset. destruct (N.eqb_spec c' c) as [->|Hne]; [discriminate|].
      intros Hc. rewrite aget_adel_other by congruence. now apply Hw.
Qed.

Lemma WaitInv_run lim d t : forall s, WaitInv s -> WaitInv (rrun true lim d s t).
Proof.
  induction t as [|l r IH]; intros s H; cbn; auto.
  destruct (rstep true lim d s l) eqn:Hs; [apply IH; eapply WaitInv_step; eauto|auto].
Qed.

Lemma WaitInv_0 : WaitInv rst0.
Proof. split; cbn; [constructor|discriminate]. Qed.

(* with the repaired discard rule, in every reachable state — whatever the pending limit — a
   reply for a waiting call reaches that call's own channel and the call can take it: no reply is
   lost, no caller is left hanging *)
Theorem reply_reaches_waiter lim d t c g p :
  let s := rrun true lim d rst0 t in
  aget c (r_calls s) = Some (PWaiting g) ->
  buf_get c g (r_bufs s) = None ->
  exists s1 s2, rstep true lim d s (LDeliver c p) = Some s1 /\
                rstep true lim d s1 (LWake c) = Some s2 /\
                aget c (r_calls s2) = Some (PDone (CPayload p)).
Proof.
  intros s Hc Hb. destruct (WaitInv_run lim d t rst0 WaitInv_0) as [Hnd Hw]. fold s in Hnd, Hw.
  destruct (Hw c g Hc) as [a Ha].
  destruct (clean_keeps_waiting lim d (r_pending s) c _ Hnd Ha eq_refl) as [_ Hk].
  cbn [rstep]. rewrite Hk. cbn [pe_gen]. rewrite Hb.
  eexists. eexists. split; [reflexivity|]. cbn [rstep r_calls r_bufs]. rewrite Hc. cbn [buf_get].
  rewrite N.eqb_refl, Nat.eqb_refl. cbn [andb]. split; [reflexivity|]. cbn. apply aget_aset_same.
Qed.

(* ------------------------------------------------------------------ a buffered reply stays *)
Lemma buf_get_del_other c g c' g' b : c <> c' -> buf_get c g (buf_del c' g' b) = buf_get c g b.
Proof.
  intros Hne. induction b as [|[[i j] q] r IH]; cbn; auto.
  destruct (N.eqb_spec c' i) as [->|Hci]; destruct (Nat.eqb_spec g' j) as [->|Hgj]; cbn.
  - destruct (N.eqb_spec c i); [congruence|]. reflexivity.
  - rewrite IH. reflexivity.
  - rewrite IH. reflexivity.
  - rewrite IH. reflexivity.
Qed.

Lemma reg_other lim d s c' s' c ph : aget c (r_calls s) = Some ph -> reg_step true lim d s c' = Some s' ->
  aget c (r_calls s') = Some ph /\ r_bufs s' = r_bufs s.
Proof.
  intros Hc Hs. unfold reg_step in Hs. destruct (aget c' (r_calls s)) eqn:Hc'; [discriminate|].
  assert (c <> c') by congruence.
  destruct (aget c' (clean true lim d (r_pending s))); injection Hs as <-; cbn;
    (split; [rewrite aget_aset_other by congruence; exact Hc|reflexivity]).
Qed.
Lemma recv_keeps lim d s c' s' c g : WaitInv s -> aget c (r_calls s) = Some (PWaiting g) ->
  recv_step true lim d s c' = Some s' -> aget c (r_calls s') = Some (PWaiting g) /\ r_bufs s' = r_bufs s.
Proof.
  intros Hinv Hc Hs. destruct (N.eq_dec c' c) as [->|Hne]; [eapply recv_same_channel; eauto|].
  unfold recv_step in Hs. destruct (aget c' (r_calls s)) as [[g'|r]|]; try discriminate.
  destruct (aget c' (clean true lim d (r_pending s))); injection Hs as <-; cbn;
    (split; [rewrite aget_aset_other by congruence; exact Hc|reflexivity]).
Qed.

(* once the reply of a registered call sits in its channel, nothing but the call itself (taking
   it, or being cancelled) changes that: not other calls registering or receiving, not replies
   and orphans for other ids, not the discard rule at any pending limit *)
Lemma buffered_stable lim d s l s' c g p :
  WaitInv s -> aget c (r_calls s) = Some (PWaiting g) -> buf_get c g (r_bufs s) = Some p ->
  rstep true lim d s l = Some s' -> l <> LWake c -> l <> LCancel c ->
  aget c (r_calls s') = Some (PWaiting g) /\ buf_get c g (r_bufs s') = Some p.
Proof.
  intros Hinv Hc Hb Hs Hnw Hnc. destruct l as [c'|c'|c'|i q|c'|c']; cbn [rstep] in Hs.
  - destruct (reg_step true lim d s c') as [s1|] eqn:H1; [|discriminate].
    destruct (reg_other lim d s c' s1 c _ Hc H1) as [Hc1 Hb1].
    destruct (recv_keeps lim d s1 c' s' c g (WaitInv_reg _ _ _ _ _ Hinv H1) Hc1 Hs) as [Hc2 Hb2].
    split; [exact Hc2|]. now rewrite Hb2, Hb1.
  - destruct (reg_other lim d s c' s' c _ Hc Hs) as [Hc1 Hb1]. split; [exact Hc1|now rewrite Hb1].
  - destruct (recv_keeps lim d s c' s' c g Hinv Hc Hs) as [Hc1 Hb1]. split; [exact Hc1|now rewrite Hb1].
  - destruct (WaitInv_keep lim d s Hinv c g Hc) as [a Ha]. cbn in Hs.
    destruct (N.eq_dec i c) as [->|Hne].
    + rewrite Ha in Hs. cbn [pe_gen] in Hs. rewrite Hb in Hs. discriminate.
    + destruct (aget i (clean true lim d (r_pending s))) as [e|];
        (destruct (buf_get i _ (r_bufs s)); [discriminate|]); injection Hs as <-; cbn;
        (split; [exact Hc|]); destruct (N.eqb_spec c i); try congruence; cbn; exact Hb.
  - assert (c' <> c) by congruence. cbn in Hs.
    destruct (aget c' (r_calls s)) as [[g'|r]|]; try discriminate.
    destruct (buf_get c' g' (r_bufs s)); [|discriminate]. injection Hs as <-. cbn. split.
    + rewrite aget_aset_other by congruence. exact Hc.
    + rewrite buf_get_del_other by congruence. exact Hb.
  - assert (c' <> c) by congruence. cbn in Hs.
    destruct (aget c' (r_calls s)) as [[g'|r]|]; try discriminate. injection Hs as <-. cbn. split.
    + rewrite aget_aset_other by congruence. exact Hc.
    + exact Hb.
Qed.

Definition not_own (c : N) (l : lab) : Prop := l <> LWake c /\ l <> LCancel c.

Lemma buffered_run lim d c g p t : forall s,
  WaitInv s -> aget c (r_calls s) = Some (PWaiting g) -> buf_get c g (r_bufs s) = Some p ->
  Forall (not_own c) t ->
  let s' := rrun true lim d s t in
  WaitInv s' /\ aget c (r_calls s') = Some (PWaiting g) /\ buf_get c g (r_bufs s') = Some p.
Proof.
  induction t as [|l r IH]; intros s Hinv Hc Hb Hall; cbn; auto.
  inversion Hall as [|? ? [Hnw Hnc] Hrest]; subst.
  destruct (rstep true lim d s l) as [s1|] eqn:Hs; [|apply IH; auto].
  destruct (buffered_stable lim d s l s1 c g p Hinv Hc Hb Hs Hnw Hnc) as [Hc1 Hb1].
  apply IH; auto. eapply WaitInv_step; eauto.
Qed.

(* a reply that overtakes its caller is not lost: the call has registered (LRegister) but not yet
   reached receive(); its reply is routed; then anything else happens — other callers register
   and receive (more in flight than the pending limit), late replies of cancelled calls and
   orphans arrive and run the discard rule, the call's own LReceive — and the call still takes
   exactly that reply *)
Theorem early_reply_delivered lim d t c g p t2 :
  let s := rrun true lim d rst0 t in
  aget c (r_calls s) = Some (PWaiting g) -> buf_get c g (r_bufs s) = None ->
  Forall (not_own c) t2 ->
  exists s1 s3, rstep true lim d s (LDeliver c p) = Some s1 /\
    rstep true lim d (rrun true lim d s1 t2) (LWake c) = Some s3 /\
    aget c (r_calls s3) = Some (PDone (CPayload p)).
Proof.
  intros s Hc Hb Hall. pose proof (WaitInv_run lim d t rst0 WaitInv_0) as Hinv. fold s in Hinv.
  destruct (WaitInv_keep lim d s Hinv c g Hc) as [a Ha].
  assert (Hd : rstep true lim d s (LDeliver c p) = Some
          {| r_pending := clean true lim d (r_pending s); r_bufs := (c, g, p) :: r_bufs s; r_gen := r_gen s;
             r_age := r_age s; r_calls := r_calls s; r_delivered := (c, p) :: r_delivered s |}).
  { cbn [rstep]. rewrite Ha. cbn [pe_gen]. rewrite Hb. reflexivity. }
  set (s1 := {| r_pending := clean true lim d (r_pending s); r_bufs := (c, g, p) :: r_bufs s; r_gen := r_gen s;
             r_age := r_age s; r_calls := r_calls s; r_delivered := (c, p) :: r_delivered s |}) in *.
  assert (Hinv1 : WaitInv s1) by (eapply WaitInv_step; eauto).
  assert (Hb1 : buf_get c g (r_bufs s1) = Some p) by (cbn; now rewrite N.eqb_refl, Nat.eqb_refl).
  destruct (buffered_run lim d c g p t2 s1 Hinv1 Hc Hb1 Hall) as [_ [Hc2 Hb2]].
  exists s1. eexists. split; [exact Hd|]. cbn [rstep]. rewrite Hc2, Hb2. split; [reflexivity|]. cbn. apply aget_aset_same.
Qed.

(* the pinned rule discards the channel of a waiting call: its reply goes to a fresh channel that
   nobody reads (limit 2, discard 1, three concurrent calls) *)
Definition discard_trace : list lab := [LStartWait 1; LStartWait 2; LStartWait 3; LDeliver 1 77]%N.
Theorem discard_refuted :
  rstep false 2 1 (rrun false 2 1 rst0 discard_trace) (LWake 1) = None /\
  aget 1%N (r_calls (rrun false 2 1 rst0 discard_trace)) = Some (PWaiting 0) /\
  exists s', rstep true 2 1 (rrun true 2 1 rst0 discard_trace) (LWake 1) = Some s' /\
             aget 1%N (r_calls s') = Some (PDone (CPayload 77%N)).
Proof. vm_compute. repeat split. eexists. split; reflexivity. Qed.

(* a late reply to a cancelled call is buffered under its own id and, by [own_reply], can only
   ever be returned to a call with that id — which has already returned *)
Theorem late_reply_harmless lim d t c p :
  let s := rrun true lim d rst0 t in
  aget c (r_calls s) = Some (PDone CCtxErr) ->
  forall s', rstep true lim d s (LDeliver c p) = Some s' ->
  r_calls s' = r_calls s /\ forall c', rstep true lim d s' (LWake c') = None \/ c' <> c.
Proof.
  intros s Hc s' Hs. cbn in Hs.
  destruct (aget c (clean true lim d (r_pending s))) as [e|];
    (destruct (buf_get c _ (r_bufs s)); [discriminate|]); injection Hs as <-; cbn; split; auto;
    intros c'; destruct (N.eqb_spec c' c) as [->|]; auto; left; cbn; now rewrite Hc.
Qed.

(* non-vacuity: limit 2, discard 1; call 1 registers, its reply overtakes it, two more calls
   register and two orphans arrive (the table is over the limit, the discard rule runs), then
   call 1 reaches receive() and takes reply 77 *)
Example early_reply_example :
  let t := [LRegister 1; LDeliver 1 77; LRegister 2; LRegister 3; LDeliver 8 5; LDeliver 9 6; LReceive 1; LWake 1]%N in
  aget 1%N (r_calls (rrun true 2 1 rst0 t)) = Some (PDone (CPayload 77%N)) /\
  Forall (not_own 1%N) [LRegister 2; LRegister 3; LDeliver 8 5; LDeliver 9 6; LReceive 1]%N.
Proof. split; [vm_compute; reflexivity|]. repeat constructor; discriminate. Qed.
