(* ReqHosts.v — the host registry (pool/service.go:58-80, 311-333) and requestHosts
   (pool/service.go:370-475) as executable models.  The store's choice among active hosts
   (Go map order / shuffle) and the hosts' answers are inputs.  No proofs in this file. *)
From VP Require Import Base Nonce Store.

(* ---------- registry: host id -> connection ---------- *)
Definition registry := amap N.

Inductive rev := RRegister (h c : N) | RClose (c : N).

Definition reg_step (r : registry) (e : rev) : registry :=
  match e with
  | RRegister h c => aset h c r
  | RClose c => filter (fun kv => negb (N.eqb (snd kv) c)) r     (* every host registered on c *)
  end.
Definition reg_run (evs : list rev) : registry := fold_left reg_step evs [].

(* specification state: each host's most recent registration, and the closed connections *)
Record rspec := { sp_latest : amap N; sp_closed : list N }.
Definition spec_step (s : rspec) (e : rev) : rspec :=
  match e with
  | RRegister h c => {| sp_latest := aset h c (sp_latest s); sp_closed := sp_closed s |}
  | RClose c => {| sp_latest := sp_latest s; sp_closed := c :: sp_closed s |}
  end.
Definition spec_run (evs : list rev) : rspec := fold_left spec_step evs {| sp_latest := []; sp_closed := [] |}.

(* a host can be instructed iff the connection it most recently registered on is still open *)
Definition instructable (s : rspec) (h : N) : option N :=
  match aget h (sp_latest s) with
  | Some c => if memb c (sp_closed s) then None else Some c
  | None => None
  end.

(* a connection that has been closed carries no further registrations *)
Fixpoint wf_from (s : rspec) (evs : list rev) : Prop :=
  match evs with
  | [] => True
  | e :: rest =>
      match e with RRegister _ c => memb c (sp_closed s) = false | RClose _ => True end /\
      wf_from (spec_step s e) rest
  end.

(* the variant of the pinned tree: one reverse entry per connection, closing removes whatever
   the host has registered now (kept to show the model can express the failure) *)
Record registry2 := { r2_hosts : amap N; r2_lookup : amap N }.
Definition reg2_step (r : registry2) (e : rev) : registry2 :=
  match e with
  | RRegister h c => {| r2_hosts := aset h c (r2_hosts r); r2_lookup := aset c h (r2_lookup r) |}
  | RClose c => match aget c (r2_lookup r) with
                | None => r
                | Some h => {| r2_hosts := adel h (r2_hosts r); r2_lookup := adel c (r2_lookup r) |}
                end
  end.

(* ---------- requestHosts ---------- *)
Inductive outcome := Ack | Failed | TimedOut.
Inductive rh_err := RhNone | RhUnregistered | RhNoHosts (tried : nat) | RhHostErrors.

Record rh_out := {
  rh_calls : list N;      (* hosts sent a whitelist instruction for the requester *)
  rh_reply : list N;      (* hosts returned *)
  rh_err_of : rh_err
}.

Definition effective_num (maxh num : Z) : Z := if (0 <? maxh) && (maxh <? num) then maxh else num.

Definition outcome_of (outs : amap outcome) (h : N) : outcome :=
  match aget h outs with Some o => o | None => Ack end.
Definition is_ack (o : outcome) : bool := match o with Ack => true | _ => false end.

(* [chosen] is what the store's ActiveHosts(kind, num + |skip|) answered *)
Definition request_hosts (st : sstate) (reg : registry) (maxh : Z) (self : N) (num : Z)
           (chosen : list N) (outs : amap outcome) : rh_out :=
  let n := effective_num maxh num in
  if n <=? 0 then {| rh_calls := []; rh_reply := []; rh_err_of := RhNone |}
  else if negb (registered st self) then {| rh_calls := []; rh_reply := []; rh_err_of := RhUnregistered |}
  else
    let skip := self :: akeys (peers_of st self) in
    let remotes := firstn (Z.to_nat n)
                          (filter (fun h => negb (memb h skip) && amem h reg) chosen) in
    let accepted := filter (fun h => is_ack (outcome_of outs h)) remotes in
    {| rh_calls := remotes; rh_reply := accepted;
       rh_err_of := match accepted with
                    | _ :: _ => RhNone
                    | [] => if forallb (fun h => is_ack (outcome_of outs h)) remotes
                            then RhNoHosts (length chosen) else RhHostErrors
                    end |}.

(* what the store may answer: a duplicate-free subset of the eligible hosts of exactly
   min(limit, supply) elements (limit > 0 here) *)
Definition store_answer_ok (X now : Z) (st : sstate) (kind : N) (limit : Z) (chosen : list N) : Prop :=
  let elig := map n_id (filter (eligible_host X now kind) (map snd (s_nodes st))) in
  NoDup chosen /\ (forall h, In h chosen -> In h elig) /\
  length chosen = Nat.min (Z.to_nat limit) (length elig).

(* legacy vipnode_client: the documented default when no count is named *)
Definition client_num (default requested : Z) : Z := if 0 <? requested then requested else default.
