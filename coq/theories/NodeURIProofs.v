(* NodeURIProofs.v — theorems for C19. *)
From VP Require Import Base NodeURI.

Lemma has_false_app c a b : has c (a ++ b) = has c a || has c b.
Proof. unfold has. apply existsb_app. Qed.

Lemma last_index_no c s : has c s = false -> last_index_of c s = None.
Proof.
  induction s as [|x r IH]; cbn; auto. rewrite (N.eqb_sym c x). intros H.
  apply orb_false_iff in H as [Hx Hr]. rewrite (IH Hr), Hx. reflexivity.
Qed.

Lemma last_index_app c a p : has c p = false -> last_index_of c (a ++ c :: p) = Some (length a).
Proof.
  intros Hp. induction a as [|x a IH]; cbn.
  - rewrite (last_index_no c p Hp), N.eqb_refl. reflexivity.
  - now rewrite IH.
Qed.

Lemma index_of_app c a r : has c a = false -> index_of c (a ++ c :: r) = Some (length a).
Proof.
  induction a as [|x a IH]; cbn; [now rewrite N.eqb_refl|]. rewrite (N.eqb_sym c x). intros H.
  apply orb_false_iff in H as [Hx Ha]. rewrite Hx, (IH Ha). reflexivity.
Qed.

Lemma firstn_app_exact {A} (a b : list A) : firstn (length a) (a ++ b) = a.
Proof. induction a; cbn; auto. now f_equal. Qed.
Lemma skipn_app_exact {A} (a b : list A) : skipn (length a) (a ++ b) = b.
Proof. induction a; cbn; auto. Qed.

Definition valid_host (h : str) : Prop := has lbr h = false /\ has rbr h = false.
Definition valid_port (p : str) : Prop := has colon p = false /\ has lbr p = false /\ has rbr p = false.

(* the advertised host:port parses back to exactly the host and port that went in —
   IPv4, IPv6 (with or without zone) and DNS names alike *)
Lemma split_bracketed h p :
  has rbr h = false -> has lbr h = false -> has colon p = false -> has lbr p = false -> has rbr p = false ->
  split_host_port (lbr :: h ++ rbr :: colon :: p) = Some (h, p).
Proof.
  intros Hr Hl Hpc Hpl Hpr. unfold split_host_port.
  assert (E1 : lbr :: h ++ rbr :: colon :: p = (lbr :: h ++ [rbr]) ++ colon :: p)
    by (cbn; rewrite <- app_assoc; reflexivity).
  assert (Hlast : last_index_of colon (lbr :: h ++ rbr :: colon :: p) = Some (S (S (length h)))).
  { rewrite E1, last_index_app by assumption. cbn [length]. rewrite app_length. cbn [length]. f_equal. lia. }
  rewrite Hlast. rewrite N.eqb_refl.
  assert (Hidx : index_of rbr (lbr :: h ++ rbr :: colon :: p) = Some (S (length h))).
  { cbn [index_of]. replace (N.eqb lbr rbr) with false by reflexivity.
    rewrite index_of_app by assumption. reflexivity. }
  rewrite Hidx. rewrite Nat.eqb_refl.
  set (X := h ++ rbr :: colon :: p).
  replace (skipn 1 (lbr :: X)) with X by reflexivity.
  replace (skipn (S (S (length h))) (lbr :: X)) with (skipn (S (length h)) X) by reflexivity.
  replace (skipn (S (S (S (length h)))) (lbr :: X)) with (skipn (S (S (length h))) X) by reflexivity.
  replace (S (length h) - 1)%nat with (length h) by lia.
  assert (H0 : firstn (length h) X = h) by apply firstn_app_exact.
  assert (H1 : has lbr X = false).
  { unfold X. rewrite has_false_app, Hl. cbn [has existsb]. fold (has lbr p). rewrite Hpl. reflexivity. }
  assert (H2 : skipn (S (length h)) X = colon :: p).
  { unfold X. replace (h ++ rbr :: colon :: p) with ((h ++ [rbr]) ++ colon :: p) by (rewrite <- app_assoc; reflexivity).
    replace (S (length h)) with (length (h ++ [rbr])) by (rewrite app_length; cbn; lia).
    apply skipn_app_exact. }
  assert (H4 : skipn (S (S (length h))) X = p).
  { unfold X. replace (h ++ rbr :: colon :: p) with ((h ++ [rbr; colon]) ++ p) by (rewrite <- app_assoc; reflexivity).
    replace (S (S (length h))) with (length (h ++ [rbr; colon])) by (rewrite app_length; cbn; lia).
    apply skipn_app_exact. }
  rewrite H0, H1, H2, H4. cbn [has existsb orb]. fold (has rbr p). rewrite Hpr. reflexivity.
Qed.

Lemma split_plain h p :
  has colon h = false -> has lbr h = false -> has rbr h = false ->
  has colon p = false -> has lbr p = false -> has rbr p = false ->
  split_host_port (h ++ colon :: p) = Some (h, p).
Proof.
  intros Hc Hl Hr Hpc Hpl Hpr. unfold split_host_port.
  rewrite last_index_app by assumption.
  assert (Hf : firstn (length h) (h ++ colon :: p) = h) by apply firstn_app_exact.
  assert (Hs : skipn (S (length h)) (h ++ colon :: p) = p).
  { replace (h ++ colon :: p) with ((h ++ [colon]) ++ p) by (rewrite <- app_assoc; reflexivity).
    replace (S (length h)) with (length (h ++ [colon])) by (rewrite app_length; cbn; lia).
    apply skipn_app_exact. }
  assert (Hhl : has lbr (h ++ colon :: p) = false).
  { rewrite has_false_app, Hl. cbn [has existsb]. fold (has lbr p). now rewrite Hpl. }
  assert (Hhr : has rbr (h ++ colon :: p) = false).
  { rewrite has_false_app, Hr. cbn [has existsb]. fold (has rbr p). now rewrite Hpr. }
  destruct (h ++ colon :: p) as [|c0 rest] eqn:E.
  - destruct h; discriminate.
  - assert (Hc0 : N.eqb c0 lbr = false).
    { unfold has in Hhl. cbn [existsb] in Hhl. apply orb_false_iff in Hhl as [H _].
      rewrite N.eqb_sym. exact H. }
    rewrite Hc0, Hf, Hc, Hhl, Hhr, Hs. reflexivity.
Qed.

Theorem split_join_roundtrip h p :
  valid_host h -> valid_port p -> split_host_port (join_host_port h p) = Some (h, p).
Proof.
  intros [Hl Hr] (Hpc & Hpl & Hpr). unfold join_host_port.
  destruct (has colon h || has pct h) eqn:Hb.
  - now apply split_bracketed.
  - apply orb_false_iff in Hb as [Hc _]. now apply split_plain.
Qed.

(* the stored URI always carries the authenticated node id; an override naming another id is refused *)
Theorem identity_bound ov node_id dh id h p : normalize ov node_id dh = NOk id h p -> id = node_id.
Proof.
  unfold normalize. destruct ov as [| |user oh op].
  - destruct dh; [discriminate|]. now intros [= <- _ _].
  - discriminate.
  - destruct (foreign_user user node_id); [discriminate|].
    destruct (pick_host oh dh); [discriminate|]. now intros [= <- _ _].
Qed.

Lemma str_eqb_eq a b : str_eqb a b = true <-> a = b.
Proof.
  revert b. induction a as [|x a IH]; destruct b as [|y b]; cbn; split; try discriminate; auto.
  - intros H. apply andb_true_iff in H as [Hx Hab]. apply N.eqb_eq in Hx. apply IH in Hab. congruence.
  - intros [= -> ->]. rewrite N.eqb_refl. now apply IH.
Qed.

Theorem foreign_id_refused user oh op node_id dh :
  user <> [] -> user <> node_id -> normalize (Parsed user oh op) node_id dh = NErr.
Proof.
  intros Hne Hdiff. unfold normalize, foreign_user. destruct user as [|u us]; [congruence|].
  replace (str_eqb (u :: us) node_id) with false; [reflexivity|].
  symmetry. destruct (str_eqb (u :: us) node_id) eqn:H; auto. apply str_eqb_eq in H. congruence.
Qed.

(* the address: the override's host if given and not unspecified, else the connection's source
   host; the override's port if given, else 30303 *)
Theorem address_rule user oh op node_id dh id h p :
  normalize (Parsed user oh op) node_id dh = NOk id h p ->
  h = (match oh with [] => dh | _ => if unspecified oh then dh else oh end) /\
  p = (match op with [] => default_port | _ => op end).
Proof.
  unfold normalize. destruct (foreign_user user node_id); [discriminate|].
  destruct (pick_host oh dh) eqn:Hh; [discriminate|]. intros [= _ <- <-]. auto.
Qed.
Theorem address_default node_id dh id h p :
  normalize NoOverride node_id dh = NOk id h p -> h = dh /\ p = default_port.
Proof. unfold normalize. destruct dh; [discriminate|]. intros [= _ <- <-]. auto. Qed.

(* registrations whose address cannot be determined are refused: a stored host is never empty *)
Theorem stored_host_nonempty ov node_id dh id h p : normalize ov node_id dh = NOk id h p -> h <> [].
Proof.
  unfold normalize. destruct ov as [| |user oh op]; try discriminate.
  - destruct dh; [discriminate|]. intros [= _ <- _]. discriminate.
  - destruct (foreign_user user node_id); [discriminate|].
    destruct (pick_host oh dh) eqn:Hh; [discriminate|]. intros [= _ <- _]. discriminate.
Qed.
Theorem no_address_refused user op node_id :
  normalize NoOverride node_id [] = NErr /\ normalize (Parsed user [] op) node_id [] = NErr /\
  normalize (Parsed user [58; 58]%N op) node_id [] = NErr.
Proof.
  repeat split; unfold normalize; cbn; destruct (foreign_user user node_id); reflexivity.
Qed.

(* joining with a bare ":" — what the pinned tree did — does not round-trip for IPv6 hosts *)
Definition naive_join (h p : str) : str := h ++ colon :: p.
Theorem naive_join_refuted :
  split_host_port (naive_join [58; 58; 49]%N default_port) = None /\
  split_host_port (join_host_port [58; 58; 49]%N default_port) = Some ([58; 58; 49]%N, default_port).
Proof. vm_compute. auto. Qed.
