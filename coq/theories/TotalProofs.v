(* TotalProofs.v — theorems for C15. *)
From VP Require Import Base Dispatch Total.

(* no message, whatever its shape, makes the reading side panic *)
Theorem serve_total m be : serve_step m be <> Panic /\ http_step m be <> Panic.
Proof.
  unfold serve_step, http_step. split; [|discriminate].
  destruct (request_part m); [discriminate|]. destruct (m_has_id m); discriminate.
Qed.

(* every request receives exactly one reply carrying its own id, and either a result or an error *)
Theorem reply_shape m be :
  request_part m = true ->
  exists code, serve_step m be = Reply (m_has_id m) (m_id m) code /\
  (code = COk <-> (m_has_method m && m_method_known m = true /\ parse_ok (m_args m) (m_params m) = true /\ be = false)).
Proof.
  intros Hr. unfold serve_step, handle_code. rewrite Hr. cbn [negb].
  eexists. split; [reflexivity|].
  destruct (m_has_method m && m_method_known m); cbn [negb].
  - destruct (parse_ok (m_args m) (m_params m)); cbn [negb]; [destruct be|]; split; try discriminate; try tauto.
    + intros (_ & _ & H); discriminate.
    + intros (_ & H & _); discriminate.
  - split; [discriminate|intros (H & _); discriminate].
Qed.

(* a message with neither request nor response part: routed by id or dropped, never a crash *)
Theorem stray_message m be :
  request_part m = false -> serve_step m be = if m_has_id m then Routed (m_id m) else Dropped.
Proof. intros H. unfold serve_step. now rewrite H. Qed.

(* whatever reply is routed to a waiting caller — neither result nor error, null result, error,
   result of the wrong type — the caller returns a value or an error *)
Theorem reply_consume_total m : call_consume true m <> CallPanic.
Proof.
  unfold call_consume. destruct (response_part m); cbn [negb]; [|discriminate].
  destruct (m_has_error m); [discriminate|].
  destruct (negb (m_has_result m) || m_result_null m); [discriminate|].
  destruct (m_result_fits m); discriminate.
Qed.

(* the pinned code dereferenced the response part unconditionally *)
Definition bare_reply : msg :=
  {| m_has_method := false; m_method_known := false; m_params := PAbsent; m_has_params := false; m_args := [];
     m_has_id := true; m_id := 1; m_has_result := false; m_result_null := false; m_result_fits := false;
     m_has_error := false |}.
Theorem unguarded_consume_refuted :
  call_consume false bare_reply = CallPanic /\ call_consume true bare_reply = CallError /\
  serve_step bare_reply false = Routed 1.
Proof. vm_compute. auto. Qed.

